"""Broker-family checks: histories driven through the real broker (harness/driver), every recorded
step judged by TLC against spec/TraceBroker.tla with the rules of the property under check."""
import json, os, random, sys, time, shutil, subprocess
from concurrent.futures import ThreadPoolExecutor
from vlib import Inconclusive, VERIF
from families import gen


def drive(ctx, hists, name):
    """run histories on the real broker; returns the list of traces (each a list of event dicts)"""
    vd = getattr(ctx, "_vdrive", None) or ctx.go_build("vdrive")
    ctx._vdrive = vd
    hp = ctx.path("gen", name + "_hist.json")
    tp = ctx.path("traces", name + ".ndjson")
    json.dump(hists, open(hp, "w"))
    r = ctx.run([vd, "run", hp, tp, "12"], timeout=3000)
    info = json.loads(r.stdout.strip().splitlines()[-1])
    if info.get("stuck"):
        ctx.notes.append("%d stuck steps in %s (treated as inconclusive steps, never as violations)" % (info["stuck"], name))
    traces, cur = [], None
    for line in open(tp):
        if '"ev":"Config"' in line[:40]:
            cur = []
            traces.append(cur)
        cur.append(line)
    return traces


def _slim(line):
    """drop fields TLC does not need (raw hex) to keep the trace small"""
    e = json.loads(line)
    if not _slim.keep_sent:
        for k, ps in e.get("out", {}).items():
            for p in ps:
                p.pop("hex", None)
    if not _slim.keep_sent:
        e["sent"] = {}
    return json.dumps(e, separators=(",", ":"))


_slim.keep_sent = False


def validate(ctx, traces, enforce, name, chunk_lines=1500, keep_sent=False):
    """TLC validates the traces (chunked, in parallel); returns (complaint list, lines, states)"""
    _slim.keep_sent = keep_sent
    chunks, cur, n = [], [], 0
    for t in traces:
        if n + len(t) > chunk_lines and cur:
            chunks.append(cur)
            cur, n = [], 0
        cur.append(t)
        n += len(t)
    if cur:
        chunks.append(cur)
    params = ctx.path("gen", name + "_params.json")
    json.dump({"enforce": sorted(enforce)}, open(params, "w"))

    def one(ix):
        tp = ctx.path("traces", "%s_chunk%d.ndjson" % (name, ix))
        with open(tp, "w") as f:
            for t in chunks[ix]:
                for line in t:
                    f.write(_slim(line) + "\n")
        out = ctx.path("gen", "%s_verdict%d.json" % (name, ix))
        env = dict(os.environ, VERIF_TRACE=tp, VERIF_OUT=out, VERIF_PARAMS=params)
        d = ctx.path("tlc", "%s_%d" % (name, ix), "x")[:-2]
        shutil.rmtree(d, ignore_errors=True)
        os.makedirs(d)
        for fn in ("TraceBroker.tla", "BrokerOps.tla", "MqttTopics.tla", "TraceBroker.cfg"):
            shutil.copy(os.path.join(VERIF, "spec", fn), d)
        os.makedirs(os.path.join(d, "_jtmp"), exist_ok=True)
        args = ["java", "-XX:+UseParallelGC", "-Xss64m", "-Xmx6g", "-Djava.io.tmpdir=" + os.path.join(d, "_jtmp"), "-cp",
                "/opt/veriftools/tla/tla2tools.jar:/opt/veriftools/tla/CommunityModules-deps.jar", "tlc2.TLC",
                "-metadir", os.path.join(d, "_meta"), "-config", "TraceBroker.cfg", "-workers", "1", "-noGenerateSpecTE", "TraceBroker.tla"]
        try:
            r = subprocess.run(args, cwd=d, env=env, capture_output=True, text=True, timeout=1500)
        except subprocess.TimeoutExpired:
            raise Inconclusive("TLC timeout validating chunk %d of %s" % (ix, name))
        if not os.path.exists(out):
            sys.stderr.write((r.stdout + r.stderr)[-3000:])
            raise Inconclusive("TLC produced no verdict for chunk %d of %s" % (ix, name))
        v = json.load(open(out))
        lines = [l for t in chunks[ix] for l in t]
        st = 0
        import re
        m = re.search(r"(\d+) states generated, (\d+) distinct", r.stdout)
        if m:
            st = int(m.group(2))
        res = []
        for b in v["bad"]:
            # locate the history of the bad line
            ln = b["line"]
            start = ln - 1
            while start > 0 and '"ev":"Config"' not in lines[start][:40]:
                start -= 1
            hist = [json.loads(x) for x in lines[start:ln]]
            for c in b["complaints"]:
                res.append(dict(rule=c["rule"], c=c["c"], m=c["m"], x=c["x"], ev=b["ev"], step=ln - start, history=hist))
        shutil.rmtree(d, ignore_errors=True)
        return res, v["lines"], st, v.get("nbad", 0)

    t0 = time.time()
    with ThreadPoolExecutor(max_workers=8) as ex:
        results = list(ex.map(one, range(len(chunks))))
    comp = [c for r in results for c in r[0]]
    lines = sum(r[1] for r in results)
    states = sum(r[2] for r in results)
    ctx.log("TLC validated %d lines in %d chunks (%.1fs): %d complaints" % (lines, len(chunks), time.time() - t0, len(comp)))
    return comp, lines, states


def ops_of(history):
    """the op list of a recorded history (for replay files)"""
    return dict(cfg=history[0].get("cfg"), ops=[e["a"] for e in history[1:]])


def report(ctx, complaints, prefix):
    """known findings vs violations. A finding matches on rule and on every key of its 'match' dict."""
    import collections
    hist = collections.Counter((c["rule"], c["x"]) if c["rule"].endswith("failure") else ((c["rule"], c["x"]) if c["rule"].startswith("C38") else (c["rule"],)) for c in complaints)
    if hist:
        ctx.log("complaints by rule: " + ", ".join("%s=%d" % ("/".join(map(str, k)), v) for k, v in sorted(hist.items())))
    for c in complaints:
        if not c["rule"].startswith(prefix):
            continue
        if os.environ.get("VERIF_FOCUS") and os.environ["VERIF_FOCUS"] != c["rule"]:
            continue
        hit = None
        for f in ctx.findings():
            if f.get("status") != "known" or f.get("rule") != c["rule"]:
                continue
            mt = f.get("match", {})
            if all(str(c.get(k)) == str(v) for k, v in mt.items()):
                hit = f
                break
        if hit:
            ctx.known_hit[hit["name"]] = hit["what"]
            continue
        if len(ctx.violations) < 8:
            ctx.violation("%s (client/conn=%s, msg=%s, x=%s) at step %d (%s)" % (c["rule"], c["c"], c["m"], c["x"], c["step"], c["ev"]),
                          dict(rule=c["rule"], c=c["c"], m=c["m"], x=c["x"], step=c["step"], replay=ops_of(c["history"]),
                               last_event=c["history"][-1]))


def nontrivial(traces, pred):
    n = set()
    for t in traces:
        for line in t[1:]:
            e = json.loads(line)
            k = pred(e)
            if k:
                n.add(k)
    return n


def sample_ops(traces, n=2):
    out = []
    for t in traces[:n]:
        out.append([{k: v for k, v in json.loads(l)["a"].items() if v not in (0, "", False, None, [], -1)} for l in t[1:8]])
    return out


# --------------------------------------------------------------------------------------------
# (A) the design model checked by TLC, (B) behaviours of the model replayed on the real broker
MODEL = {"C08": ("MC_Qos", "Gen_Qos"), "C09": ("MC_Qos", "Gen_Qos"), "C10": ("MC_Qos", "Gen_Qos"), "C11": ("MC_Qos", "Gen_Qos"),
         "C12": ("MC_Qos", "Gen_Qos"), "C03": ("MC_Route", "Gen_Route"), "C06": ("MC_Route", "Gen_Route"),
         "C14": ("MC_Session", "Gen_Session"), "C15": ("MC_Session", "Gen_Session"), "C16": ("MC_Session", "Gen_Session")}
MODEL_PROPS = {"MC_Qos": "PidUnique QuotaBound InboundBound NoGhosts OneOwner NoOvertaking Qos2Once ExactDelivery InflightMonotone DirectionsIndependent",
               "MC_Route": "PidUnique QuotaBound NoGhosts OneOwner ExactDelivery", "MC_Session": "PidUnique QuotaBound NoGhosts OneOwner ConnectedHasSession WillOnce ExactDelivery InflightMonotone"}


# history-length bound of the exhaustive design check per configuration: (quick, thorough).  Fitted to measured
# state counts (16 workers): MC_Route 5 -> 220 k distinct / 10.5 M generated, 92 s; 6 -> 2.0 M / 103 M, 19 min.
# MC_Session 5 -> 452 k / 7.7 M, 47 s; 7 -> 6.6 M / 88 M, 9 min (8 workers).  MC_Qos 6 -> 111 k / 1.8 M, 30 s.
DESIGN_DEPTH = {"MC_Route": (5, 6), "MC_Session": (5, 7), "MC_Qos": (6, 8)}


def design_check(ctx, mc, maxhist):
    """(A) TLC checks the design model exhaustively for the bounded configuration; returns (distinct, generated).

    The result depends only on the specification files, not on the repository under test, so it is cached under
    .work/_design (key: hash of the spec files + configuration + bound); a fresh restore recomputes it once and the
    checks that share a configuration (C03/C06, C08..C12, C14..C16) reuse it.  A concurrent run of the same key waits."""
    import re, hashlib, fcntl
    cfg = open(os.path.join(VERIF, "spec", mc + ".cfg")).read()
    cfg = re.sub(r"MaxHist = \d+", "MaxHist = %d" % maxhist, cfg)
    files = ("MqttBroker.tla", "MC_Broker.tla", "BrokerOps.tla", "MqttTopics.tla")
    hh = hashlib.sha1(cfg.encode())
    for fn in files:
        hh.update(open(os.path.join(VERIF, "spec", fn), "rb").read())
    key = "%s_%d_%s" % (mc, maxhist, hh.hexdigest()[:12])
    cdir = os.path.join(VERIF, ".work", "_design")
    os.makedirs(cdir, exist_ok=True)
    cfile = os.path.join(cdir, key + ".json")
    lock = open(os.path.join(cdir, key + ".lock"), "w")
    fcntl.flock(lock, fcntl.LOCK_EX)
    try:
        if os.path.exists(cfile) and not os.environ.get("VERIF_NO_DESIGN_CACHE"):
            c = json.load(open(cfile))
            ctx.log("design model %s (MaxHist=%d): %s distinct / %s generated states, properties %s hold (TLC result of %.0fs reused: same specification files)" %
                    (mc, maxhist, c["distinct"], c["generated"], MODEL_PROPS.get(mc, ""), c["wall"]))
            return c["distinct"], c["generated"]
        d = os.path.join(cdir, key + ".run")
        shutil.rmtree(d, ignore_errors=True)
        os.makedirs(os.path.join(d, "_jtmp"))
        for fn in files:
            shutil.copy(os.path.join(VERIF, "spec", fn), d)
        open(os.path.join(d, "mc.cfg"), "w").write(cfg)
        args = ["java", "-XX:+UseParallelGC", "-Xss64m", "-Xmx12g", "-Djava.io.tmpdir=" + os.path.join(d, "_jtmp"),
                "-cp", "/opt/veriftools/tla/tla2tools.jar:/opt/veriftools/tla/CommunityModules-deps.jar",
                "tlc2.TLC", "-metadir", os.path.join(d, "_meta"), "-config", "mc.cfg", "-workers", str(min(16, os.cpu_count() or 8)), "-noGenerateSpecTE", "MC_Broker.tla"]
        t0 = time.time()
        try:
            r = subprocess.run(args, cwd=d, capture_output=True, text=True, timeout=1800 if ctx.quick else 7200)
        except subprocess.TimeoutExpired:
            shutil.rmtree(d, ignore_errors=True)
            raise Inconclusive("TLC timeout on design model %s" % mc)
        out = r.stdout + r.stderr
        shutil.rmtree(d, ignore_errors=True)
        m = re.search(r"(\d+) states generated, (\d+) distinct states found", out)
        if "No error has been found" not in out or not m:
            sys.stderr.write(out[-3000:])
            raise Inconclusive("design model %s: TLC did not complete cleanly (a property of the SPECIFICATION failed or TLC crashed)" % mc)
        json.dump({"distinct": int(m.group(2)), "generated": int(m.group(1)), "wall": time.time() - t0}, open(cfile, "w"))
        ctx.log("design model %s (MaxHist=%d): %s distinct / %s generated states, properties %s hold (%.1fs)" %
                (mc, maxhist, m.group(2), m.group(1), MODEL_PROPS.get(mc, ""), time.time() - t0))
        return int(m.group(2)), int(m.group(1))
    finally:
        fcntl.flock(lock, fcntl.LOCK_UN)
        lock.close()


def model_to_ops(hist, observer=False):
    ops, nm, open2 = [], 0, {}
    npid = [0]

    def pid():
        npid[0] += 1
        return 200 + npid[0]
    conn_client = {}
    if observer:
        ops.append(gen.op("connect", k="kobs", id="obs", v=5, clean=True, sei=0))
        ops.append(gen.op("subscribe", k="kobs", pid=pid(), filters=[dict(f=["#"], qos=0, nl=False, rap=False, rh=2)]))
    for h in hist:
        o = h["op"]
        if o == "connect":
            conn_client[h["k"]] = h["id"]
            d = gen.op("connect", k=h["k"], id=h["id"], v=5, clean=h["clean"], rm=h["rm"], sei=10 * h["sei"])
            if h.get("will"):
                d["will"] = dict(t=["w", h["id"]], m="w" + h["k"], qos=0, retain=False, delay=10 * h["delay"])
            ops.append(d)
        elif o == "subscribe":
            ops.append(gen.op("subscribe", k=h["k"], pid=pid(), filters=[dict(f=list(h["f"]), qos=h["qos"], nl=h["nl"], rap=False, rh=0)]))
        elif o == "unsubscribe":
            ops.append(gen.op("unsubscribe", k=h["k"], pid=pid(), filters=[dict(f=list(h["f"]), qos=0, nl=False, rap=False, rh=0)]))
        elif o == "publish":
            c = conn_client.get(h["k"], "")
            key = (c, h["pid"])
            if h["dup"] and key in open2:
                m = open2[key]
            else:
                nm += 1
                m = "m%d" % nm
            d = gen.op("publish", k=h["k"], t=list(h["t"]), m=m, qos=h["qos"], retain=h["retain"], dup=bool(h["dup"]))
            if h["qos"] > 0:
                d["pid"] = 100 + h["pid"]
            if h["qos"] == 2:
                open2[key] = m
            ops.append(d)
        elif o == "pubrel":
            open2.pop((conn_client.get(h["k"], ""), h["pid"]), None)
            ops.append(gen.op("pubrel", k=h["k"], pid=100 + h["pid"]))
        elif o in ("puback", "pubrec", "pubcomp"):
            ops.append(gen.op(o, k=h["k"], nth=h["nth"]))
        elif o in ("disconnect", "netdrop"):
            ops.append(gen.op(o, k=h["k"], rc=0))
        elif o == "tick":
            ops.append(gen.op("tick", kind="wills", dt=10 * h["dt"] + 5))
            ops.append(gen.op("tick", kind="clients", dt=10 * h["dt"] + 5))
    return ops


def model_histories(ctx, gencfg, n, observer=False):
    """(B) random walks of the design model (tlc -simulate), each emitted as an operation list"""
    import re
    d = ctx.path("tlc", "gen_" + gencfg, "x")[:-2]
    shutil.rmtree(d, ignore_errors=True)
    os.makedirs(d)
    for fn in ("MqttBroker.tla", "MC_Broker.tla", "BrokerOps.tla", "MqttTopics.tla", gencfg + ".cfg"):
        shutil.copy(os.path.join(VERIF, "spec", fn), d)
    depth = int(re.search(r"MaxHist = (\d+)", open(os.path.join(d, gencfg + ".cfg")).read()).group(1))
    os.makedirs(os.path.join(d, "_jtmp"), exist_ok=True)
    args = ["java", "-XX:+UseParallelGC", "-Xss64m", "-Xmx4g", "-Djava.io.tmpdir=" + os.path.join(d, "_jtmp"), "-cp", "/opt/veriftools/tla/tla2tools.jar:/opt/veriftools/tla/CommunityModules-deps.jar",
            "tlc2.TLC", "-metadir", os.path.join(d, "_meta"), "-config", gencfg + ".cfg", "-workers", "1", "-noGenerateSpecTE",
            "-simulate", "num=%d" % n, "-depth", str(depth), "-seed", str(ctx.seed), "MC_Broker.tla"]
    try:
        r = subprocess.run(args, cwd=d, capture_output=True, text=True, timeout=900)
    except subprocess.TimeoutExpired:
        raise Inconclusive("TLC timeout generating behaviours from %s" % gencfg)
    if "Error:" in r.stdout and "violated" in r.stdout:
        sys.stderr.write(r.stdout[-3000:])
        raise Inconclusive("design model %s violates one of its invariants during simulation" % gencfg)
    hs = []
    for line in r.stdout.splitlines():
        if line.startswith('<<"HIST"'):
            js = line[line.index(",") + 1:].strip()
            js = js[:-2].strip()            # drop the closing >>
            js = json.loads(js)             # TLC prints the JSON text as a TLA+ string literal
            hist = json.loads(js) if isinstance(js, str) else js
            hs.append(model_to_ops(hist, observer))
    shutil.rmtree(d, ignore_errors=True)
    if not hs:
        sys.stderr.write(r.stdout[-2000:])
        raise Inconclusive("no behaviours generated from %s" % gencfg)
    ctx.log("TLC generated %d behaviours of the design model (%s, depth %d)" % (len(hs), gencfg, depth))
    return hs


def with_model(ctx, pid, hs, cfgmaker):
    """prepend design check + model-generated histories for properties the design model covers"""
    states = trans = 0
    if pid in MODEL:
        mc, gencfg = MODEL[pid]
        if os.environ.get("VERIF_DEBUG_SKIP_DESIGN"):     # development aid only (seed sweeps of parts B/C); never set by a registered command
            ctx.notes.append("design check skipped (VERIF_DEBUG_SKIP_DESIGN)")
        else:
            states, trans = design_check(ctx, mc, DESIGN_DEPTH[mc][0 if ctx.quick else 1])
        mh = model_histories(ctx, gencfg, 60 if ctx.quick else 1500, observer=(mc == "MC_Session"))
        for i, ops in enumerate(mh):
            hs.append(dict(name="%s-model-%d" % (pid, i), cfg=cfgmaker(), ops=ops))
    return states, trans


PROFILES = {
    "C03": dict(versions=[5, 5, 4], rpi=[-1, -1, 0, 1], shared=0.15, nolocal=0.3, props=0.6, subid=0.3, qos=[0, 1, 2], retain=0.0,
                weights=dict(subscribe=6, unsubscribe=1, publish=9, disconnect=1, connect=2), acl=2),
    "C04": dict(versions=[5, 5, 4], shared=0.1, rap=0.4, subid=0.6, qos=[0, 1, 2], retain=0.4, rh=[0, 0, 1, 2], sei=[300],
                weights=dict(subscribe=7, unsubscribe=1, publish=9, disconnect=0, connect=1, resub_resume=2, overlap_subid=1.5), maxqos=[0, 1, 2, 2]),
    "C05": dict(versions=[5, 5, 4], shared=0.15, qos=[0, 1], retain=0.7, empty_payload=0.25, rh=[0, 1, 2], topics=gen.TOPICS[:5],
                weights=dict(subscribe=8, unsubscribe=1, publish=8, disconnect=1, connect=1, resub_clean=2), retain_avail=[1, 1, 1, 0]),
    "C06": dict(versions=[5, 5, 4], shared=0.6, qos=[0, 1, 2], clients=["c1", "c2", "c3", "c4", "c5"], p_clean=0.8,
                weights=dict(subscribe=8, unsubscribe=1, publish=10, disconnect=1, connect=2, foreign_unsub=2)),
    "C07": dict(versions=[5, 4, 3], shared=0.1, qos=[0, 1, 2], sys_topics=0.15, bad_filters=0.15, acl=3, p_single_filter=0.5, p_rel=0.6,
                weights=dict(subscribe=5, unsubscribe=3, publish=9, disconnect=1, connect=1, dup_publish=3)),
    "C17": dict(versions=[5, 5, 4], shared=0.1, qos=[0, 1, 2], retain=0.4, sys_topics=0.1, acl=6, wills=0.7, will_delay=[0, 20, 20], sei=[0, 30, 300],
                obscure=[False, False, True], ticks=["wills", "wills", "clients"], dts=[40, 40, 400],
                weights=dict(subscribe=6, unsubscribe=1, publish=8, disconnect=4, connect=4, tick=4)),
}


def histories_for(ctx, pid, n):
    rng = random.Random(ctx.seed * 7919 + hash(pid) % 1000)
    rng = random.Random("%s-%d" % (pid, ctx.seed))
    prof = PROFILES[pid]
    hs = []
    for i in range(n):
        c = gen.cfg()
        if prof.get("acl"):
            dr, dw = gen.random_acl(rng, ["c1", "c2", "c3", "c4"], gen.TOPICS, gen.FILTERS, rng.randint(0, prof["acl"]))
            c.update(auth="acl", deny_read=dr, deny_write=dw)
        if prof.get("maxqos"):
            c["max_qos"] = rng.choice(prof["maxqos"])
        if prof.get("retain_avail"):
            c["retain_avail"] = rng.choice(prof["retain_avail"])
        if prof.get("obscure"):
            c["obscure"] = rng.choice(prof["obscure"])
        hs.append(dict(name="%s-%d-%d" % (pid, ctx.seed, i), cfg=c, ops=gen.routing_history(rng, prof)))
    return hs


QOS_PROFILES = {
    "C08": dict(weights=dict(publish=10, ack=6, reconnect=1, drop=0, ping=1, dup2=8, rel=4, takeover=0), qos=[0, 1, 2, 2, 2], p_rel_now=0.25,
                publishers=["c1", "c4"], sub_qos=[0, 1, 2], pubs_subscribe=True, p_low_pid=0.3),
    "C09": dict(weights=dict(publish=10, ack=8, reconnect=4, drop=1, ping=1, rel=3, takeover=2, pubrec_drop=1.5), rm=[1, 2, 0, 0], qos=[1, 1, 2, 2, 0], sei=[300], p_ackdrop=0.25),
    "C10": dict(weights=dict(publish=10, ack=6, reconnect=1, drop=0, ping=1, rel=3, collide=6, takeover=0), qos=[1, 2], sei=[300],
                max_packet_id=[0, 0, 4, 6]),
    "C11": dict(weights=dict(publish=12, ack=10, reconnect=3, drop=0, ping=2, rel=4, takeover=1), rm=[1, 1, 2, 3], rm_reconnect=[1, 1, 2], qos=[0, 1, 1, 2, 2], sei=[300],
                recv_max=[1, 2, 3, 4], subs_publish=True, drain=True, p_rel_now=0.4),
    "C12": dict(weights=dict(publish=14, ack=8, reconnect=3, drop=1, ping=1, rel=2, takeover=1, stall_burst=2), rm=[1, 2, 0], qos=[1, 2], topics=[["a"], ["b"]], sei=[300],
                filters=[["#"], ["a"], ["+"]], publishers=["c1"], subscribers=["c2"], drain=True, p_rel_now=1.0, write_buf=[2048, 2048, 64]),
}

ENFORCE = {"C03": ["C03"], "C04": ["C04"], "C05": ["C05"], "C06": ["C06"], "C07": ["C07"], "C17": ["C17"]}
NT = {
    "C03": lambda e: (e["ev"] == "publish" and len(e["out"]) > 1) and "%d-%d" % (len(e["out"]), e["a"]["qos"]),
    "C04": lambda e: (e["ev"] == "publish" and len(e["out"]) > 1) and "%s" % sorted((p["qos"], tuple(p["sid"]), p["ret"]) for ps in e["out"].values() for p in ps if p["t"] == 3),
    "C05": lambda e: (e["ev"] == "subscribe" and any(p["t"] == 3 for ps in e["out"].values() for p in ps)) and "replay-%d" % sum(p["t"] == 3 for ps in e["out"].values() for p in ps) or (e["ev"] == "publish" and e["a"]["retain"] and "retain-%s" % (e["a"]["m"] == "")),
    "C06": lambda e: (e["ev"] == "publish" and len(e["out"]) > 1) and "%d" % len(e["out"]),
    "C07": lambda e: e["ev"] in ("publish", "subscribe", "unsubscribe", "pubrel", "ping") and "%s-%s-%s" % (e["ev"], e["v"], sorted((p["t"], p["rc"], tuple(p["codes"])) for p in e["out"].get(e["k"], []))),
    "C17": lambda e: e["ev"] in ("publish", "subscribe") and "%s-%s" % (e["ev"], sorted((p["t"], tuple(p["codes"])) for p in e["out"].get(e["k"], []))),
}


def qos_histories(ctx, pid, n):
    rng = random.Random("%s-%d" % (pid, ctx.seed))
    prof = QOS_PROFILES[pid]
    hs = []
    for i in range(n):
        c = gen.cfg()
        if prof.get("recv_max"):
            c["recv_max"] = rng.choice(prof["recv_max"])
        if prof.get("max_packet_id"):
            c["max_packet_id"] = rng.choice(prof["max_packet_id"])
        if prof.get("write_buf"):
            c["write_buf"] = rng.choice(prof["write_buf"])
        hs.append(dict(name="%s-%d-%d" % (pid, ctx.seed, i), cfg=c, ops=gen.qos_history(rng, prof)))
    return hs


def qos_check(ctx):
    pid = ctx.pid
    n = 120 if ctx.quick else 1500
    hs = qos_histories(ctx, pid, n)
    dstates, dtrans = with_model(ctx, pid, hs, lambda: gen.cfg(recv_max=2, max_packet_id=4 if pid == "C10" else 0))
    traces = drive(ctx, hs, pid.lower())
    comp, lines, states = validate(ctx, traces, [pid], pid.lower())
    states, lines_ = (dstates or states), lines
    report(ctx, comp, pid)
    nt = nontrivial(traces, lambda e: e["ev"] in ("publish", "puback", "pubrec", "pubrel", "pubcomp", "connect") and "%s-%s" % (e["ev"], sorted((k == e["k"], p["t"], p["qos"], p["dup"], p["rc"]) for k, ps in e["out"].items() for p in ps)))
    ctx.cov.update(_level="model_checking", states=max(states, 1), transitions=max(lines, 1),
                   traces_validated_against_impl=len(traces), evaluations=lines, distinct_nontrivial=len(nt),
                   design_model="MC_Qos", design_transitions=dtrans,
                   rule="(A) TLC checks the design model MqttBroker.tla/MC_Qos.cfg exhaustively (states = its distinct states); (B) random walks of that model (tlc -simulate) and seeded random QoS histories (profile %s: selective acks, reconnects, takeovers, flow control) are executed on the real broker; (C) every step judged by TLC with Enforce={%s}; distinct_nontrivial = distinct (op kind x set of packets written) classes" % (pid, pid),
                   samples=sample_ops(traces), complaints=len(comp))


SESSION_PROFILES = {
    "C13": dict(weights=dict(connect=6, subscribe=2, publish=4, disconnect=2, netdrop=2, takeover=2, bad_connect=10, ackall=1), wills=0.2,
                auth=["allow", "allow", "none", "acl"], maxqos=[2, 2, 1], retain_avail=[1, 1, 0], minproto=[3, 3, 4]),
    "C14": dict(weights=dict(connect=8, subscribe=6, publish=8, disconnect=2, netdrop=3, takeover=6, ackall=1, tick_clients=1, clean_v3_takeover=1.5), sei=[-1, 0, 30, 300], wills=0.0),
    "C15": dict(weights=dict(connect=8, subscribe=6, publish=6, disconnect=4, netdrop=4, takeover=1, tick_clients=8, expiry_round=2, disc_sei=3, ackall=1), sei=[-1, 0, 30, 100, 300],
                max_sess_expiry=[-1, -1, 50, 200]),
    "C16": dict(weights=dict(connect=8, subscribe=2, publish=2, disconnect=4, netdrop=5, disc04=3, proto_err=2, takeover=4, tick_wills=8, tick_clients=2, expiry_round=3, ackall=1),
                wills=0.9, will_delay=[0, 0, 20, 20, 200], sei=[-1, 0, 30, 300], p_clean=0.5),
}


def session_check(ctx):
    pid = ctx.pid
    n = 120 if ctx.quick else 1500
    rng = random.Random("%s-%d" % (pid, ctx.seed))
    prof = SESSION_PROFILES[pid]
    hs = []
    for i in range(n):
        c = gen.cfg(deny_conn=["denied"], auth="acl")
        if prof.get("auth"):
            c["auth"] = rng.choice(prof["auth"])
        for key, field in (("maxqos", "max_qos"), ("retain_avail", "retain_avail"), ("minproto", "min_proto"), ("max_sess_expiry", "max_sess_expiry")):
            if prof.get(key):
                c[field] = rng.choice(prof[key])
        hs.append(dict(name="%s-%d-%d" % (pid, ctx.seed, i), cfg=c, ops=gen.session_history(rng, prof)))
    dstates, dtrans = with_model(ctx, pid, hs, lambda: gen.cfg())
    traces = drive(ctx, hs, pid.lower())
    comp, lines, states = validate(ctx, traces, [pid], pid.lower())
    states = dstates or states
    report(ctx, comp, pid)
    nt = nontrivial(traces, lambda e: e["ev"] in ("connect", "disconnect", "netdrop", "tick", "raw") and "%s-%s-%s" % (e["ev"], e["a"].get("kind", ""), sorted((k == e["k"], p["t"], p["rc"], p["sp"]) for k, ps in e["out"].items() for p in ps)))
    ctx.cov.update(_level="model_checking", states=max(states, 1), transitions=max(lines, 1),
                   traces_validated_against_impl=len(traces), evaluations=lines, distinct_nontrivial=len(nt),
                   rule="seeded random session histories (profile %s: connects incl. invalid/unauthorised ones, takeovers, disconnect kinds, wills with delays, housekeeping at virtual times) executed on the real broker; every step judged by TLC with Enforce={%s}" % (pid, pid),
                   samples=sample_ops(traces), complaints=len(comp))
    # schedules of the connection life cycle (spec/Attach.tla): interleavings of one connection's attach/teardown with
    # another connection of the same id, publishers and the housekeeping tick, forced at the verifAt schedule points
    from families import attach
    a = attach.attach_part(ctx, pid)
    ctx.cov["traces_validated_against_impl"] += a["schedules"]
    ctx.cov["evaluations"] += a["steps"]
    ctx.cov["distinct_nontrivial"] += a["windows"]
    ctx.cov["rule"] += ("; PLUS connection life-cycle schedules: Attach.tla (reference version model-checked, %d distinct states; deviations of the code "
                        "refuted: %s); %d schedules (witnesses + tlc -simulate behaviours of the model of the code) forced on the real broker at the "
                        "verifAt schedule points, %d steps, each followed by the model (projection compared) and judged by the %s rules of TraceAttach.tla"
                        % (a["design_states"], a["refuted"], a["schedules"], a["steps"], pid))
    ctx.cov["attach_rules_raised"] = a["rules"]


MIXED = {
    # property: (generator, profile, config knobs)
    "C23": ("routing", dict(versions=[5, 4, 3], shared=0.1, nolocal=0.1, props=0.3, subid=0.3, qos=[0, 1, 2], retain=0.3, sys_topics=0.1, bad_filters=0.15,
                            acl=3, wills=0.4, mps=[0, 40, 60], rpi=[-1, 0, 1], pad=0.3, p_clean=0.4, ack=True, p_ack=0.6, sei=[300, 300, 0],
                            weights=dict(subscribe=5, unsubscribe=2, publish=9, disconnect=2, connect=4, tick=1, size_sweep=0.4, version_switch=1)), dict(obscure=[False, True])),
    "C24": ("routing", dict(versions=[5, 5, 4], tam=[0, 1, 2, 2], rm=[0, 0, 1], mps=[0, 0, 0, 50], pad=0.2, pads=[60], qos=[0, 1, 1], in_alias=0.5, alias_max=2,
                            filters=[["a"], ["b"], ["a", "b"], ["#"], ["+"]], topics=[["a"], ["b"], ["a", "b"]], p_clean=0.3, sei=[300],
                            weights=dict(subscribe=5, unsubscribe=1, publish=12, disconnect=1, connect=3, alias_rebind=1.5, alias_resume=1)), dict(topic_alias_max=[2, 2, 0], max_pending=[8192, 8192, 1])),
    "C25": ("routing", dict(versions=[5, 5, 4], qos=[0, 1, 1], retain=0.5, mei=[0, 0, 20, 50, 200], rm=[0, 0, 1], sei=[300], p_clean=0.2, ack=False,
                            ticks=["retained", "inflight", "retained", "inflight", "clients"], dts=[0, 30, 70, 150, 400],
                            filters=[["a"], ["b"], ["#"], ["a", "#"]], topics=[["a"], ["b"], ["a", "b"]],
                            weights=dict(subscribe=6, unsubscribe=1, publish=9, disconnect=2, connect=3, tick=7)), dict(max_msg_expiry=[86400, 100, 0, 40])),
    "C34": ("routing", dict(versions=[5, 5, 4], qos=[0, 1, 1, 2], retain=0.5, topics=gen.TOPICS[:6], mps=[0, 0, 40, 60], pad=0.4, pads=[30, 80, 300], rm=[0, 0, 2], sei=[300], p_clean=0.5,
                            weights=dict(subscribe=5, unsubscribe=1, publish=14, disconnect=1, connect=2, stall_burst=2)),
            dict(write_buf=[16, 32, 64, 2048], max_pending=[1, 2, 3, 8192], max_inflight=[8192, 8192, 2])),
    "C38": ("routing", dict(versions=[5, 5, 4], shared=0.15, qos=[0, 1, 2], retain=0.4, empty_payload=0.3, rm=[0, 0, 1, 2], sei=[-1, 0, 30, 300], p_clean=0.4, ack=False,
                            ticks=["clients", "retained", "inflight"], dts=[0, 50, 400],
                            weights=dict(subscribe=6, unsubscribe=3, publish=9, disconnect=3, connect=5, tick=3)), dict(max_inflight=[8192, 8192, 2], max_msg_expiry=[86400, 100])),
    "C40": ("routing", dict(versions=[5, 5, 4], shared=0.1, qos=[0, 1, 2], retain=0.4, empty_payload=0.2,
                            filters=[["a"], ["a", "#"], ["a", "+"], ["#"], ["b"], ["+", "#"]], topics=[["a"], ["a", "b"], ["b"], ["$a", "b"]],
                            weights=dict(subscribe=6, unsubscribe=5, publish=6, disconnect=2, connect=2, inline_publish=9, inline_subscribe=6, inline_unsubscribe=3), len=(20, 50)), dict(inline=[True])),
    "C30": ("routing", dict(versions=[5, 5, 4, 3], bad_filters=0.5, qos=[0, 1], sys_topics=0.3, in_alias=0.4, alias_max=2, retain=0.3, filters=[["#"], ["$SYS", "#"], ["a"], ["+"]],
                            weights=dict(subscribe=10, unsubscribe=1, publish=8, disconnect=1, connect=1)), dict()),
}
MIXED_ENFORCE = {"C40": ["C40", "C03", "C04"]}


def mixed_histories(ctx, pid, n):
    rng = random.Random("%s-%d" % (pid, ctx.seed))
    genname, prof, knobs = MIXED[pid]
    hs = []
    for i in range(n):
        c = gen.cfg()
        if prof.get("acl"):
            dr, dw = gen.random_acl(rng, ["c1", "c2", "c3", "c4"], gen.TOPICS, gen.FILTERS, rng.randint(0, prof["acl"]))
            c.update(auth="acl", deny_read=dr, deny_write=dw)
        for k, vals in knobs.items():
            c[k] = rng.choice(vals)
        if pid == "C23" and i % 3 == 2:     # error paths of CONNECT and session ends as well
            c.update(deny_conn=["denied"], auth=rng.choice(["acl", "acl", "none"]), min_proto=rng.choice([3, 3, 4]))
            hs.append(dict(name="%s-%d-%d" % (pid, ctx.seed, i), cfg=c, ops=gen.session_history(rng, dict(SESSION_PROFILES["C13"], versions=[5, 4, 3]))))
            continue
        hs.append(dict(name="%s-%d-%d" % (pid, ctx.seed, i), cfg=c, ops=gen.routing_history(rng, prof)))
    return hs


def mixed_check(ctx):
    pid = ctx.pid
    n = 120 if ctx.quick else 1500
    hs = mixed_histories(ctx, pid, n)
    traces = drive(ctx, hs, pid.lower())
    comp, lines, states = validate(ctx, traces, MIXED_ENFORCE.get(pid, [pid]), pid.lower(), keep_sent=(pid == "C34"))
    for p in MIXED_ENFORCE.get(pid, [pid]):
        report(ctx, comp, p) if p == pid else None
    if pid == "C40":      # C40 also relies on the routing/attribute rules for inline publishes: report those under C40 as well
        report(ctx, [dict(c, rule="C40/" + c["rule"]) for c in comp if not c["rule"].startswith("C40") and c["ev"].startswith("inline")], "C40")
    nt = nontrivial(traces, lambda e: e["ev"] not in ("Config",) and "%s-%s" % (e["ev"], sorted((k == e["k"], p["t"], p["qos"], p["rc"], p["wf"], p["alias"] > 0, p["ts"] == "") for k, ps in e["out"].items() for p in ps)))
    ctx.cov.update(_level="model_checking", states=max(states, 1), transitions=max(lines, 1),
                   traces_validated_against_impl=len(traces), evaluations=lines, distinct_nontrivial=len(nt),
                   rule="seeded random histories (profile %s) executed on the real broker; every step judged by TLC with Enforce=%s; distinct_nontrivial = distinct (op kind x packets written) classes" % (pid, MIXED_ENFORCE.get(pid, [pid])),
                   samples=sample_ops(traces), complaints=len(comp))

    if pid == "C38":
        # the connected-clients counter along schedules of the connection life cycle (spec/Attach.tla), including connections
        # that end before their CONNACK could be written
        from families import attach
        a = attach.attach_part(ctx, pid)
        ctx.cov["traces_validated_against_impl"] += a["schedules"]
        ctx.cov["evaluations"] += a["steps"]
        ctx.cov["distinct_nontrivial"] += a["windows"]
        ctx.cov["rule"] += ("; PLUS %d connection life-cycle schedules (Attach.tla) forced on the real broker, %d steps: whenever every handler is at rest, "
                            "Info.ClientsConnected equals the number of handlers in their read loop" % (a["schedules"], a["steps"]))

def c19_check(ctx):
    pid = "C19"
    rng = random.Random("%s-%d" % (pid, ctx.seed))
    behaviours = ["pass", "pass", "topic:a/b", "payload:zz", "reject", "ignore", "code", "error"]
    hs = []
    # exhaustive over stacks of 1-2 hooks x behaviours (quick) / 1-3 hooks (thorough), random histories on top
    import itertools
    stacks = []
    for n in ((1, 2) if ctx.quick else (1, 2, 3)):
        for combo in itertools.product(sorted(set(behaviours)), repeat=n):
            stacks.append(combo)
    rng.shuffle(stacks)
    stacks = stacks[: (80 if ctx.quick else 600)]
    for i, combo in enumerate(stacks):
        scripted = [dict(name="h%d" % j, on_publish=b, on_read="", on_sub="", auth="", acl="") for j, b in enumerate(combo)]
        if rng.random() < 0.15:
            scripted[rng.randrange(len(scripted))]["on_read"] = "reject"
        auth = "allow"
        if rng.random() < 0.3:       # authentication: any-of over the scripted hooks only
            auth = "acl_only"
            for h in scripted:
                h["auth"] = rng.choice(["", "allow", "deny"])
        c = gen.cfg(scripted=scripted, auth=auth)
        prof = dict(versions=[5, 4], qos=[0, 1, 2], retain=0.4, topics=[["a"], ["a", "b"], ["b"]], filters=[["#"], ["a", "#"], ["b"]], p_clean=1.0,
                    weights=dict(subscribe=3, publish=10, connect=1, disconnect=0, unsubscribe=0), len=(8, 16))
        ops = gen.routing_history(rng, prof)
        if auth == "allow" and not any(h["on_read"] for h in scripted) and rng.random() < 0.4 and ops and ops[0]["op"] == "connect":
            # the last hook of the stack is attached to the running broker, while a packet of the first connection is handled
            c["late"] = 1
            ops.insert(1, gen.op("late_hook", k=ops[0]["k"]))
        hs.append(dict(name="C19-%d-%d" % (ctx.seed, i), cfg=c, ops=ops))
    traces = drive(ctx, hs, "c19")
    comp, lines, states = validate(ctx, traces, ["C19"], "c19")
    report(ctx, comp, "C19")
    nt = set(tuple(h["on_publish"] for h in x["cfg"]["scripted"]) for x in hs)
    ctx.cov.update(_level="model_checking", states=max(states, 1), transitions=max(lines, 1), traces_validated_against_impl=len(traces),
                   evaluations=lines, distinct_nontrivial=len(nt),
                   rule="stacks of scripted test hooks (OnPublish behaviour in {pass, modify topic, modify payload, ErrRejectPacket, CodeSuccessIgnore, packets.Code error, plain error}; OnPacketRead reject; any-of authentication) x protocol version x QoS x retain; TLC folds the chain (ChainPub in TraceBroker.tla) and judges order/short-circuit, no forward, no retain. distinct_nontrivial = distinct hook stacks",
                   samples=[x["cfg"]["scripted"] for x in hs[:2]], complaints=len(comp))


def routing_check(ctx):
    pid = ctx.pid
    n = 120 if ctx.quick else 1500
    hs = histories_for(ctx, pid, n)
    dstates, dtrans = with_model(ctx, pid, hs, lambda: gen.cfg(max_qos=1) if pid in ("C03", "C06") else gen.cfg())
    traces = drive(ctx, hs, pid.lower())
    comp, lines, states = validate(ctx, traces, ENFORCE[pid], pid.lower())
    report(ctx, comp, pid)
    nt = nontrivial(traces, NT[pid])
    ctx.cov.update(_level="model_checking", states=max(dstates or states, 1), transitions=max(dtrans or lines, 1), design_model=MODEL.get(pid, ["-"])[0],
                   traces_validated_against_impl=len(traces), evaluations=lines, distinct_nontrivial=len(nt),
                   rule="seeded random histories (profile %s) executed on the real broker; every step judged by TLC with Enforce=%s; distinct_nontrivial = distinct step outcome classes (op kind x observed outputs)" % (pid, ENFORCE[pid]),
                   samples=sample_ops(traces), complaints=len(comp))


def replay_one(ctx):
    """--replay PATH: run only the history stored in a violation file on the real broker and judge it with the
    property's rules (no design check, no generation)"""
    pid = ctx.pid
    v = json.load(open(ctx.replay))
    r = v["replay"]["replay"] if "replay" in v.get("replay", {}) else v["replay"]
    hs = [dict(name="replay", cfg=r["cfg"], ops=r["ops"])]
    traces = drive(ctx, hs, pid.lower() + "_replay")
    enforce = MIXED_ENFORCE.get(pid, ENFORCE.get(pid, [pid]))
    comp, lines, states = validate(ctx, traces, enforce, pid.lower() + "_replay", keep_sent=(pid == "C34"))
    report(ctx, comp, pid)
    if pid == "C40":
        report(ctx, [dict(c, rule="C40/" + c["rule"]) for c in comp if not c["rule"].startswith("C40") and c["ev"].startswith("inline")], "C40")
    ctx.cov.update(_level="model_checking", states=max(states, 1), transitions=max(lines, 1), traces_validated_against_impl=len(traces),
                   evaluations=lines, distinct_nontrivial=1, rule="replay of %s on the real broker, judged by TLC with Enforce=%s" % (ctx.replay, enforce),
                   samples=sample_ops(traces), complaints=len(comp))


def _with_replay(fn):
    def run(ctx):
        if ctx.replay:
            v = json.load(open(ctx.replay))
            if isinstance(v.get("replay"), dict) and v["replay"].get("kind") == "attach":
                from families import attach
                return attach.replay_attach(ctx)
            if isinstance(v.get("replay"), dict) and v["replay"].get("kind") == "outpath":
                from families import outpath
                return outpath.replay_outpath(ctx)
            return replay_one(ctx)
        r = fn(ctx)
        if ctx.pid == "C05":
            # the retained-message housekeeping against a concurrent retained publish (spec/RetainExpiry.tla)
            from families import retain
            retain.add_to(ctx)
        if ctx.pid in ("C34", "C12", "C23", "C07"):
            # schedules of the write path (spec/OutPath.tla): write loop and reader of one connection at the schedule points
            # of WriteLoop / WritePacket and inside the connection's Write
            from families import outpath
            outpath.add_to(ctx, ctx.pid)
        return r
    return run


FAMILY = {p: routing_check for p in ENFORCE}
FAMILY.update({p: qos_check for p in QOS_PROFILES})
FAMILY.update({p: session_check for p in SESSION_PROFILES})
FAMILY.update({p: mixed_check for p in MIXED if p != "C30"})
BROKER_PART_C30 = mixed_check
FAMILY["C19"] = c19_check
FAMILY = {p: _with_replay(f) for p, f in FAMILY.items()}
