"""The write path of one client connection (spec/OutPath.tla): WriteLoop / WritePacket / flushOutbuf with two writers
(write loop, reader) at the granularity of the schedule points loop.dequeued, write.afterClosedCheck, write.encoded,
conn.write (the harness' connection), write.unlocked, read.handled.

(A) TLC: the reference (= the code as it stands) satisfies OneWriter LockHeld Flushed SentOnWire NoDup Accounted NoGhost Ordered;
    four deviations (two are seeded changes, two are the code before b105eb9 / 4cc03c2) are refuted.     cached by specification hash
(B) tlc -simulate behaviours of the reference as schedules.
(C) harness/cmd/vout forces every schedule on a real client (one goroutine at a time, Write calls of the connection included);
    TraceOutPath follows the model along the record (conformance) and evaluates the property rules on the observations.

outpath_part(ctx, pid) is appended to the checks of C34 (flush / reported drops), C39 (one writer at a time on the connection)
and C12 (order on the connection)."""
import fcntl, glob, hashlib, json, os, re, shutil, subprocess, sys, time
from concurrent.futures import ThreadPoolExecutor

from vlib import VERIF, Inconclusive

SPEC = os.path.join(VERIF, "spec")
TLA_CP = "/opt/veriftools/tla/tla2tools.jar:/opt/veriftools/tla/CommunityModules-deps.jar"
DEV_CFGS = {"NoFlushOnRefuse": "Flushed", "EarlyQueueRead": "Flushed", "UnlockBeforeWrite": "LockHeld", "NoDropReport": "Accounted",
            "WritesAfterDisconnect": "LastIsDisconnect"}
REF_CFGS = ["MC_OutPath_ref", "MC_OutPath_disc"]
# which rules a property's check reports (the others are logged)
RULES_OF = {"C34": ("C34.",), "C39": ("C39.",), "C12": ("C12.", "C03."), "C23": ("C23.",), "C07": ("C07.",)}
RULE_FINDING = {}

# directed schedules (reference behaviours) around the places where the deviations differ from the code
W = lambda w, g, og="": dict(w=w, g=g, og=og)
WITNESSES = [
    # the reader is inside the connection write (peer slow) when the write loop wants the lock: it must wait
    dict(name="witness/lock-held-during-write", cap=2, steps=[
        W("env", "ping", "write.afterClosedCheck"), W("rd", "write.encoded"), W("rd", "conn.write"),
        W("env", "pub:small", "loop.dequeued"), W("loop", "write.afterClosedCheck"), W("loop", "write.encoded"), W("loop", "blocked"),
        W("rd", "write.unlocked", "conn.write"), W("loop", "write.unlocked"), W("rd", "read.handled"), W("loop", "idle"), W("rd", "idle")]),
    # the reader passes write.encoded while a packet is queued; the write loop then takes and writes that packet; the
    # reader's packet must still go out (queue empty when it gets the lock)
    dict(name="witness/queue-read-under-lock", cap=2, steps=[
        W("env", "pub:small", "loop.dequeued"), W("env", "pub:small", "queued"), W("env", "ping", "write.afterClosedCheck"),
        W("rd", "write.encoded"), W("loop", "write.afterClosedCheck"), W("loop", "write.encoded"), W("loop", "write.unlocked"),
        W("loop", "loop.dequeued"), W("loop", "write.afterClosedCheck"), W("loop", "write.encoded"), W("loop", "conn.write"),
        W("loop", "write.unlocked"), W("loop", "idle"), W("rd", "conn.write"), W("rd", "write.unlocked"), W("rd", "read.handled"), W("rd", "idle")]),
    # a buffered packet followed by a refused (oversize) one: the refusal must flush and be reported
    dict(name="witness/refusal-flushes", cap=2, steps=[
        W("env", "pub:small", "loop.dequeued"), W("loop", "write.afterClosedCheck"), W("loop", "write.encoded"), W("env", "pub:over", "queued"),
        W("loop", "write.unlocked"), W("loop", "loop.dequeued"), W("loop", "write.afterClosedCheck"), W("loop", "conn.write"), W("loop", "idle")]),
    # (aged: messages of an MQTT 5 publisher with an expiry of 1 s) a PINGRESP is buffered behind two queued messages, then time
    # passes beyond their expiry while the write loop has not got to them: they are still written and carry the PINGRESP out
    dict(name="witness/expired-while-queued", cap=2, aged=True, steps=[
        W("env", "pub:small", "loop.dequeued"), W("env", "pub:small", "queued"), W("env", "ping", "write.afterClosedCheck"),
        W("rd", "write.encoded"), W("rd", "write.unlocked"), W("rd", "read.handled"), W("rd", "idle"), W("env", "age"),
        W("loop", "write.afterClosedCheck"), W("loop", "write.encoded"), W("loop", "write.unlocked"), W("loop", "loop.dequeued"),
        W("loop", "write.afterClosedCheck"), W("loop", "write.encoded"), W("loop", "conn.write"), W("loop", "write.unlocked"), W("loop", "idle")]),
    # the reader has written DISCONNECT (protocol error of the client) and has not yet stopped the client when the write
    # loop gets to a queued PUBLISH: it must not follow the DISCONNECT
    dict(name="witness/nothing-after-disconnect", cap=2, steps=[
        W("env", "pub:small", "loop.dequeued"), W("env", "bad", "write.afterClosedCheck"), W("rd", "write.encoded"), W("rd", "conn.write"),
        W("rd", "write.unlocked"), W("rd", "disconnect.written"), W("loop", "write.afterClosedCheck"), W("loop", "write.encoded"),
        W("loop", "write.unlocked"), W("loop", "idle"), W("rd", "read.handled")]),
]


def _tlc(cfg, workers, timeout, d, module="MC_OutPath.tla", extra=None):
    os.makedirs(os.path.join(d, "_jtmp"), exist_ok=True)
    args = ["java", "-XX:+UseParallelGC", "-Xss64m", "-Xmx6g", "-Djava.io.tmpdir=" + os.path.join(d, "_jtmp"), "-cp", TLA_CP, "tlc2.TLC",
            "-metadir", os.path.join(d, "_meta_" + cfg), "-config", cfg + ".cfg", "-workers", str(workers), "-noGenerateSpecTE"] + (extra or []) + [module]
    try:
        r = subprocess.run(args, cwd=d, capture_output=True, text=True, timeout=timeout)
    except subprocess.TimeoutExpired:
        raise Inconclusive("TLC timeout on OutPath configuration %s" % cfg)
    return r.stdout + r.stderr


def design(ctx):
    hh = hashlib.sha1()
    files = ["OutPath.tla", "MC_OutPath.tla"] + [c + ".cfg" for c in REF_CFGS] + ["MC_OutPath_dev_%s.cfg" % d for d in DEV_CFGS]
    for fn in files:
        hh.update(open(os.path.join(SPEC, fn), "rb").read())
    cdir = os.path.join(VERIF, ".work", "_design")
    os.makedirs(cdir, exist_ok=True)
    key = "outpath_" + hh.hexdigest()[:12]
    cfile = os.path.join(cdir, key + ".json")
    lock = open(os.path.join(cdir, key + ".lock"), "w")
    fcntl.flock(lock, fcntl.LOCK_EX)
    try:
        if os.path.exists(cfile) and not os.environ.get("VERIF_NO_DESIGN_CACHE"):
            c = json.load(open(cfile))
            ctx.log("OutPath.tla: reference holds (%d distinct states), %d deviations refuted (TLC result of %.0fs reused: same specification files)" %
                    (c["distinct"], len(c["refuted"]), c["wall"]))
            return c
        d = os.path.join(cdir, key + ".run")
        shutil.rmtree(d, ignore_errors=True)
        os.makedirs(d)
        for fn in files:
            shutil.copy(os.path.join(SPEC, fn), d)
        t0 = time.time()
        jobs = REF_CFGS + ["MC_OutPath_dev_" + dv for dv in DEV_CFGS]
        with ThreadPoolExecutor(max_workers=7) as ex:
            outs = list(ex.map(lambda j: _tlc(j, 4 if j in REF_CFGS else 2, 1800, d), jobs))
        refuted, distinct, generated = {}, 0, 0
        for cfg, out in zip(jobs, outs):
            m = re.search(r"(\d+) states generated, (\d+) distinct states found", out)
            if cfg in REF_CFGS:
                if "No error has been found" not in out or not m:
                    sys.stderr.write(out[-3000:])
                    raise Inconclusive("OutPath.tla reference %s: TLC did not complete cleanly" % cfg)
                generated, distinct = generated + int(m.group(1)), distinct + int(m.group(2))
            else:
                dv = cfg[len("MC_OutPath_dev_"):]
                mm = re.search(r"Invariant (\w+) is violated", out)
                if not mm:
                    sys.stderr.write(out[-3000:])
                    raise Inconclusive("OutPath.tla with deviation %s: no counterexample (vacuous property?)" % dv)
                refuted[dv] = mm.group(1)
        shutil.rmtree(d, ignore_errors=True)
        c = dict(distinct=distinct, generated=generated, refuted=refuted, wall=time.time() - t0)
        json.dump(c, open(cfile, "w"))
        ctx.log("OutPath.tla: reference holds (%d distinct / %d generated states); refuted deviations: %s (%.0fs)" % (distinct, generated, refuted, c["wall"]))
        return c
    finally:
        fcntl.flock(lock, fcntl.LOCK_UN)


def generate(ctx, num):
    scs = []
    for cfg in ("Gen_OutPath", "Gen_OutPath_cap1", "Gen_OutPath_disc", "Gen_OutPath_aged"):
        out = ctx.path("gen", "outpath_" + cfg, "x")[:-2]
        r = ctx.tlc("GenOutPath", cfg + ".cfg", name="gen_" + cfg, workers=1, heap="4g", timeout=1500,
                    simulate="num=%d" % (num if cfg == "Gen_OutPath" else max(num // 3, 10) if cfg.endswith("cap1") else max(num // 30, 4) if cfg.endswith("aged") else max(num // 2, 10)), depth=70, extra=["-seed", str(ctx.seed * 104729 + len(cfg))],
                    env={"VERIF_OUT": out, "VERIF_MINLEN": "8"})
        if r.rc != 0:
            sys.stderr.write(r.tail(30))
            raise Inconclusive("GenOutPath %s failed" % cfg)
        for f in sorted(glob.glob(os.path.join(out, "b_*.json"))):
            b = json.load(open(f))
            scs.append(dict(name="%s/%s" % (cfg[4:], os.path.basename(f)[:-5]), cap=b["cap"], aged=cfg.endswith("aged"),
                            steps=[dict(w=h[0], g=h[1], og=h[2]) for h in b["hist"]]))
    return scs


def _run_and_judge(ctx, scs, tag):
    """force the schedules on the real client, let TLC judge the record; returns (lines, bad, trace states)"""
    vo = ctx.go_build("vout")
    lines, bad, tstates = [], [], 0
    for cap, cfgname in ((1, "TraceOutPath_cap1.cfg"), (2, "TraceOutPath_cap2.cfg"), ("aged", "TraceOutPath_aged.cfg")):
        part = [s for s in scs if (s.get("aged") and cap == "aged") or (not s.get("aged") and s["cap"] == cap)]
        if not part:
            continue
        sfile, tfile, vfile = (ctx.path("gen", "out_scen_%s%s.json" % (tag, cap)), ctx.path("traces", "outpath_%s%s.ndjson" % (tag, cap)),
                               ctx.path("gen", "out_verdict_%s%s.json" % (tag, cap)))
        json.dump(part, open(sfile, "w"))
        if os.path.exists(vfile):
            os.remove(vfile)
        ctx.run([vo, "run", sfile, tfile], timeout=3000)
        r = ctx.tlc("TraceOutPath", cfgname, name="trace_outpath_%s%s" % (tag, cap), workers=1, heap="6g", timeout=3000,
                    env={"VERIF_TRACE": tfile, "VERIF_OUT": vfile})
        if not os.path.exists(vfile):
            sys.stderr.write(r.tail(40))
            raise Inconclusive("TraceOutPath produced no verdict")
        tstates += r.distinct
        ls = [json.loads(x) for x in open(tfile)]
        v = json.load(open(vfile))
        for b in v["bad"]:
            b["_lines"] = ls
        bad += v["bad"]
        lines += ls
    return lines, bad, tstates


def _unsettled(bad):
    """names of schedules whose record the model could not follow or whose run troubled the runner"""
    return {b["scen"] for b in bad if any(c.startswith("conf.") or c.startswith("harness.") for c in b["complaints"])}


def outpath_part(ctx, pid, extra_scenarios=None, only_extra=False):
    if only_extra:
        des, scs = dict(distinct=0, generated=0, refuted={}, wall=0), list(extra_scenarios)
    else:
        des = design(ctx) if not os.environ.get("VERIF_DEBUG_SKIP_DESIGN") else dict(distinct=0, generated=0, refuted={}, wall=0)
        scs = [dict(w) for w in WITNESSES] + generate(ctx, 150 if ctx.quick else 3000)
    lines, bad, tstates = _run_and_judge(ctx, scs, "")
    # The only timing-based observation of the runner is "no schedule point reached within 25 ms"; on a loaded machine a goroutine
    # can be later than that, and the record then does not follow the model. Such schedules are run once more, alone; the second
    # record replaces the first (rules raised by either run are kept: they are observations of the real client).
    again = _unsettled(bad)
    if again and len(again) <= max(10, len(scs) // 10):
        ctx.log("write path: %d schedules not followed by the model or troubled, run once more: %s" % (len(again), sorted(again)[:5]))
        l2, b2, t2 = _run_and_judge(ctx, [s for s in scs if s["name"] in again], "again_")
        keep = [b for b in bad if b["scen"] not in again]
        for b in bad:
            if b["scen"] in again:
                rules = [c for c in b["complaints"] if not (c.startswith("conf.") or c.startswith("harness."))]
                if rules:
                    keep.append(dict(b, complaints=rules))
        bad, tstates = keep + b2, tstates + t2
        lines += l2
    by_name = {s["name"]: s for s in scs}
    steps = sum(1 for e in lines if e["ev"] == "step")
    diverged = {e["name"] for e in lines if e["ev"] == "step" and (e["got"] != e["g"] and e["w"] != "env" or e["goto"] != e["og"])}
    conf, rules_seen, trouble = [], {}, []
    for b in bad:
        for c in b["complaints"]:
            if c.startswith("conf."):
                conf.append((b["scen"], b["line"], c))
                continue
            if c.startswith("harness."):
                trouble.append((b["scen"], b["_lines"][b["line"] - 1].get("note")))
                continue
            rules_seen[c] = rules_seen.get(c, 0) + 1
            if not c.startswith(RULES_OF[pid]):
                continue
            fname = RULE_FINDING.get(c)
            if fname and ctx.known(fname):
                continue
            if len(ctx.violations) < 10:
                ctx.violation("%s in write-path schedule %s at line %s (%s %s)" % (c, b["scen"], b["line"] - b["start"], b["w"], b["g"]),
                              dict(kind="outpath", rule=c, scenario=by_name.get(b["scen"], {}), recorded=b["_lines"][b["start"] - 1:b["line"]][-8:]))
    ctx.log("write path: %d schedules (%d directed), %d steps forced on a real client, %d not followed by the model; rules raised: %s; %d schedules left by the code" %
            (len(scs), len(WITNESSES), steps, len(conf), rules_seen, len(diverged)))
    if not ctx.violations:
        if trouble:
            raise Inconclusive("write-path runner trouble in %d schedules (twice), e.g. %s" % (len(trouble), trouble[:2]))
        if conf:
            raise Inconclusive("the model of the code (OutPath.tla) does not describe %d recorded steps (in two runs), e.g. %s" % (len(conf), conf[:3]))
    windows = set()
    for e in lines:
        if e["ev"] == "cfg":
            seq = []
        elif e["ev"] == "step":
            seq.append("%s:%s:%s" % (e["w"], e["g"], e["og"]))
            windows.add(tuple(seq[-3:]))
    return dict(design_states=des["distinct"], design_transitions=des["generated"], refuted=des["refuted"], schedules=len(scs), steps=steps,
                trace_states=tstates, rules=rules_seen, diverged=len(diverged), windows=len(windows),
                sample=[dict(name=s["name"], steps=["%s:%s" % (x["w"], x["g"]) for x in s["steps"]][:30]) for s in scs[3:5] or scs[:1]])


def describe(a, pid):
    return ("; PLUS write-path schedules: OutPath.tla (write loop and reader of one connection at the schedule points of WriteLoop/WritePacket and "
            "inside the connection's Write; reference model-checked, %d distinct states, invariants OneWriter LockHeld Flushed SentOnWire NoDup Accounted "
            "NoGhost Ordered; refuted deviations %s); %d schedules (directed + tlc -simulate) forced on a real client, %d steps, every one followed "
            "by the model (queue, write buffer, lock, wire, reported sent/dropped) and judged by the %s rules of TraceOutPath" %
            (a["design_states"], a["refuted"], a["schedules"], a["steps"], "/".join(RULES_OF[pid])))


def add_to(ctx, pid):
    """append the write-path part to a check's coverage"""
    a = outpath_part(ctx, pid)
    ctx.cov["traces_validated_against_impl"] = ctx.cov.get("traces_validated_against_impl", 0) + a["schedules"]
    ctx.cov["evaluations"] = ctx.cov.get("evaluations", 0) + a["steps"]
    ctx.cov["distinct_nontrivial"] = ctx.cov.get("distinct_nontrivial", 0) + a["windows"]
    ctx.cov["rule"] = ctx.cov.get("rule", "") + describe(a, pid)
    ctx.cov["outpath_rules_raised"] = a["rules"]
    ctx.cov["outpath_schedules_left_by_code"] = a["diverged"]
    ctx.assumptions += ["write-path schedules: one goroutine runs at a time; two writers (write loop, reader); connection writes never fail"]
    return a


def replay_outpath(ctx):
    rp = json.load(open(ctx.replay))["replay"]
    sc = dict(rp["scenario"], name="replay/" + rp["scenario"].get("name", "x"))
    a = outpath_part(ctx, ctx.pid, [sc], only_extra=True)
    ctx.cov.update(_level="model_checking", states=max(a["trace_states"], 1), transitions=max(a["steps"], 1), traces_validated_against_impl=1,
                   evaluations=a["steps"], distinct_nontrivial=max(a["windows"], 2), rule="replay of one recorded write-path schedule", samples=a["sample"])
