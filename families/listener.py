"""The TCP accept loop against Server.Close (spec/Listener.tla), part of C36.

(A) TLC: the reference satisfies NoneLeftOpen / StopsAccepting (3 clients, exhaustive); the deviation DropsAcceptedAfterClose (the code
    before its repair) is refuted.                                                       cached by specification hash
(B) tlc -simulate behaviours of the reference as schedules + two directed ones.
(C) harness/cmd/vlisten runs every schedule on a real server with a real TCP listener on 127.0.0.1 (accept loop parked at
    tcp.accepted, handler goroutines at attach.added); TraceListener follows the model and evaluates the C36 rules."""
import fcntl, glob, hashlib, json, os, re, shutil, subprocess, sys, time
from concurrent.futures import ThreadPoolExecutor

from vlib import VERIF, Inconclusive

SPEC = os.path.join(VERIF, "spec")
TLA_CP = "/opt/veriftools/tla/tla2tools.jar:/opt/veriftools/tla/CommunityModules-deps.jar"
DEV_CFGS = {"DropsAcceptedAfterClose": "NoneLeftOpen"}
S = lambda who, what, res: dict(who=who, what=what, res=res)
WITNESSES = [
    # a connection is returned by Accept, the server is closed, then the loop tests the end flag: the connection must be closed
    dict(name="witness/accepted-while-closing", steps=[S("c1", "dial", "tcp.accepted"), S("closer", "close", "returned"), S("loop", "closed", "done")]),
    # ... and with a served client, a waiting connection and a handler that has not run yet
    dict(name="witness/close-with-backlog", steps=[S("c1", "dial", "tcp.accepted"), S("c2", "dial", "connected"), S("loop", "spawned", "tcp.accepted"),
                                                   S("c1", "start", "connack"), S("loop", "spawned", "accept"), S("closer", "close", "waiting"),
                                                   S("c2", "start", "closed"), S("c3", "dial", "refused")]),
]


def _tlc(cfg, d, timeout=600, extra=None, env=None):
    os.makedirs(os.path.join(d, "_jtmp"), exist_ok=True)
    args = ["java", "-XX:+UseParallelGC", "-Xss64m", "-Xmx4g", "-Djava.io.tmpdir=" + os.path.join(d, "_jtmp"), "-cp", TLA_CP, "tlc2.TLC",
            "-metadir", os.path.join(d, "_meta_" + cfg), "-config", cfg + ".cfg", "-workers", "2", "-noGenerateSpecTE"] + (extra or []) + ["MC_Listener.tla"]
    e = dict(os.environ)
    e.update(env or {"VERIF_OUT": d})
    try:
        r = subprocess.run(args, cwd=d, capture_output=True, text=True, timeout=timeout, env=e)
    except subprocess.TimeoutExpired:
        raise Inconclusive("TLC timeout on Listener configuration %s" % cfg)
    return r.stdout + r.stderr


def design(ctx):
    hh = hashlib.sha1()
    files = ["Listener.tla", "MC_Listener.tla", "MC_Listener_ref.cfg"] + ["MC_Listener_dev_%s.cfg" % d for d in DEV_CFGS]
    for fn in files:
        hh.update(open(os.path.join(SPEC, fn), "rb").read())
    cdir = os.path.join(VERIF, ".work", "_design")
    os.makedirs(cdir, exist_ok=True)
    key = "listener_" + hh.hexdigest()[:12]
    cfile = os.path.join(cdir, key + ".json")
    lock = open(os.path.join(cdir, key + ".lock"), "w")
    fcntl.flock(lock, fcntl.LOCK_EX)
    try:
        if os.path.exists(cfile) and not os.environ.get("VERIF_NO_DESIGN_CACHE"):
            c = json.load(open(cfile))
            ctx.log("Listener.tla: reference holds (%d distinct states), %d deviation refuted (TLC result reused: same specification files)" % (c["distinct"], len(c["refuted"])))
            return c
        d = os.path.join(cdir, key + ".run")
        shutil.rmtree(d, ignore_errors=True)
        os.makedirs(d)
        for fn in files:
            shutil.copy(os.path.join(SPEC, fn), d)
        t0 = time.time()
        out = _tlc("MC_Listener_ref", d)
        m = re.search(r"(\d+) states generated, (\d+) distinct states found", out)
        if "No error has been found" not in out or not m:
            sys.stderr.write(out[-3000:])
            raise Inconclusive("Listener.tla reference: TLC did not complete cleanly")
        refuted = {}
        for dv, inv in DEV_CFGS.items():
            o = _tlc("MC_Listener_dev_" + dv, d)
            mm = re.search(r"Invariant (\w+) is violated", o)
            if not mm:
                sys.stderr.write(o[-3000:])
                raise Inconclusive("Listener.tla with deviation %s: no counterexample" % dv)
            refuted[dv] = mm.group(1)
        shutil.rmtree(d, ignore_errors=True)
        c = dict(distinct=int(m.group(2)), generated=int(m.group(1)), refuted=refuted, wall=time.time() - t0)
        json.dump(c, open(cfile, "w"))
        ctx.log("Listener.tla: reference holds (%d distinct states); refuted deviations: %s (%.0fs)" % (c["distinct"], refuted, c["wall"]))
        return c
    finally:
        fcntl.flock(lock, fcntl.LOCK_UN)


def generate(ctx, num):
    out = ctx.path("gen", "listener", "x")[:-2]
    r = ctx.tlc("MC_Listener", "Gen_Listener.cfg", name="gen_listener", workers=1, heap="2g", timeout=900,
                simulate="num=%d" % num, depth=30, extra=["-seed", str(ctx.seed * 15485863 + 7)], env={"VERIF_OUT": out})
    if r.rc != 0:
        sys.stderr.write(r.tail(30))
        raise Inconclusive("Gen_Listener failed")
    seen, scs = set(), []
    for f in sorted(glob.glob(os.path.join(out, "b_*.json"))):
        h = json.load(open(f))["hist"]
        k = json.dumps(h)
        if k in seen:
            continue
        seen.add(k)
        scs.append(dict(name="sim/" + os.path.basename(f)[:-5], steps=[dict(who=x[0], what=x[1], res=x[2]) for x in h]))
    return scs


def listener_part(ctx, extra_scenarios=None, only_extra=False):
    if only_extra:
        des, scs = dict(distinct=0, generated=0, refuted={}), list(extra_scenarios)
    else:
        des = design(ctx)
        scs = [dict(w) for w in WITNESSES] + generate(ctx, 120 if ctx.quick else 2000)
    def run_and_judge(part, tag):
        vl = ctx.go_build("vlisten")
        sfile, tfile, vfile = ctx.path("gen", "listener_scen%s.json" % tag), ctx.path("traces", "listener%s.ndjson" % tag), ctx.path("gen", "listener_verdict%s.json" % tag)
        json.dump(part, open(sfile, "w"))
        if os.path.exists(vfile):
            os.remove(vfile)
        ctx.run([vl, "run", sfile, tfile], timeout=3000)
        r = ctx.tlc("TraceListener", "TraceListener.cfg", name="trace_listener" + tag, workers=1, heap="4g", timeout=1800, env={"VERIF_TRACE": tfile, "VERIF_OUT": vfile})
        if not os.path.exists(vfile):
            sys.stderr.write(r.tail(40))
            raise Inconclusive("TraceListener produced no verdict")
        ls = [json.loads(x) for x in open(tfile)]
        bad = json.load(open(vfile))["bad"]
        for b in bad:
            b["_lines"] = ls
        return ls, bad, r

    lines, bad, r = run_and_judge(scs, "")
    # "connection still open" / "no arrival" are observations with a 40 ms window: schedules whose record the model could not
    # follow are run once more (rules raised by either run are kept)
    again = {b["scen"] for b in bad if any(c.startswith("conf.") or c.startswith("harness.") for c in b["complaints"])}
    if again and len(again) <= max(5, len(scs) // 10):
        ctx.log("listener: %d schedules not followed by the model, run once more: %s" % (len(again), sorted(again)[:5]))
        l2, b2, _ = run_and_judge([x for x in scs if x["name"] in again], "_again")
        keep = [b for b in bad if b["scen"] not in again]
        for b in bad:
            if b["scen"] in again:
                rules = [c for c in b["complaints"] if not (c.startswith("conf.") or c.startswith("harness."))]
                if rules:
                    keep.append(dict(b, complaints=rules))
        bad = keep + b2
        lines += l2
    v = dict(bad=bad)
    by_name = {s["name"]: s for s in scs}
    steps = sum(1 for e in lines if e["ev"] == "step")
    conf, trouble, rules_seen = [], [], {}
    for b in v["bad"]:
        for c in b["complaints"]:
            if c.startswith("conf."):
                conf.append((b["scen"], b["line"], c))
            elif c.startswith("harness."):
                trouble.append((b["scen"], b["_lines"][b["line"] - 1].get("note")))
            else:
                rules_seen[c] = rules_seen.get(c, 0) + 1
                if len(ctx.violations) < 10:
                    ctx.violation("%s in listener schedule %s at line %s (%s %s)" % (c, b["scen"], b["line"] - b["start"], b["who"], b["what"]),
                                  dict(kind="listener", rule=c, scenario=by_name.get(b["scen"], {}), recorded=b["_lines"][b["start"] - 1:b["line"]][-8:]))
    ctx.log("listener: %d schedules (%d directed), %d steps on a real TCP listener, %d not followed by the model; rules raised: %s" %
            (len(scs), len(WITNESSES), steps, len(conf), rules_seen))
    if not ctx.violations:
        if trouble:
            raise Inconclusive("listener runner trouble in %d schedules, e.g. %s" % (len(trouble), trouble[:2]))
        if conf:
            raise Inconclusive("the model (Listener.tla) does not describe %d recorded steps, e.g. %s" % (len(conf), conf[:3]))
    return dict(design_states=des["distinct"], refuted=des["refuted"], schedules=len(scs), steps=steps, trace_states=r.distinct, rules=rules_seen,
                sample=[dict(name=s["name"], steps=["%s:%s:%s" % (x["who"], x["what"], x["res"]) for x in s["steps"]]) for s in scs[:3]])


def add_to(ctx):
    a = listener_part(ctx)
    ctx.cov["traces_validated_against_impl"] = ctx.cov.get("traces_validated_against_impl", 0) + a["schedules"]
    ctx.cov["evaluations"] = ctx.cov.get("evaluations", 0) + a["steps"]
    ctx.cov["distinct_nontrivial"] = ctx.cov.get("distinct_nontrivial", 0) + a["schedules"]
    ctx.cov["rule"] = ctx.cov.get("rule", "") + (
        "; PLUS Listener.tla (TCP accept loop, closer, dialling clients, handler goroutines; %d distinct states, NoneLeftOpen / StopsAccepting, deviation "
        "refuted: %s): %d distinct schedules run on a real server with a real TCP listener on 127.0.0.1 (accept loop parked at tcp.accepted, handlers at "
        "attach.added), %d steps followed by the model (TraceListener: results of dial / dispatch / start / close, which connections are closed, whether "
        "Close has returned) and judged by the rules C36.connection-open-after-close, C36.connection-dispatched-after-close, C36.close-did-not-return" %
        (a["design_states"], a["refuted"], a["schedules"], a["steps"]))
    ctx.cov["listener_rules_raised"] = a["rules"]
    ctx.assumptions += ["listener schedules: Listener.Close is one step (it runs under the listener's lock without a schedule point); loopback TCP; "
                        "'connection open' = no EOF / reset seen by the client within 40 ms after the step, 150 ms at the end"]
    return a


def replay_listener(ctx):
    rp = json.load(open(ctx.replay))["replay"]
    sc = dict(rp["scenario"], name="replay/" + rp["scenario"].get("name", "x"))
    a = listener_part(ctx, [sc], only_extra=True)
    ctx.cov.update(_level="model_checking", states=max(a["trace_states"], 1), transitions=max(a["steps"], 1), traces_validated_against_impl=1,
                   evaluations=a["steps"], distinct_nontrivial=2, rule="replay of one recorded listener schedule", samples=a["sample"])
