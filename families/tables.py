"""Pure decision functions judged by TLC-emitted case tables (+ TLC-validated random traces).
C01 subscription matching, C02 retained matching, C30 filter/topic validation."""
import json, os
from vlib import Inconclusive


def gen_table(ctx, table, depth, name):
    out = ctx.path("gen", name + ".json")
    r = ctx.tlc("GenTopics", "GenTopics.cfg", name="gen_" + name, workers=1, timeout=1500, heap="12g",
                extra=[], files={}, )
    return r, out


def _tlc_table(ctx, table, depth, name):
    out = ctx.path("gen", name + ".json")
    os.environ["VERIF_TABLE"], os.environ["VERIF_DEPTH"], os.environ["VERIF_OUT"] = table, str(depth), out
    r = ctx.tlc("GenTopics", "GenTopics.cfg", name="gen_" + name, workers=1, timeout=1500, heap="12g")
    r.require_ok("table " + name)
    rows = [l for l in r.out.splitlines() if l.startswith('<<"ROWS"')]
    n = int(rows[0].split(",")[1].strip(" >")) if rows else 0
    ctx.log("TLC emitted %d %s rows (depth %d) in %.1fs" % (n, table, depth, r.wall))
    return out, n, r


def _validate_trace(ctx, trace, checkret=False, name="trace"):
    out = ctx.path("gen", name + "_verdict.json")
    os.environ["VERIF_TRACE"], os.environ["VERIF_OUT"] = trace, out
    os.environ["VERIF_CHECKRET"] = "1" if checkret else "0"
    r = ctx.tlc("TraceTopics", "TraceTopics.cfg", name=name, workers=1, timeout=1500, heap="8g")
    if not os.path.exists(out):
        import sys
        sys.stderr.write(r.tail(40))
        raise Inconclusive("trace validation produced no verdict (%s)" % name)
    v = json.load(open(out))
    return v, r


def _report(ctx, res, classify=None):
    for m in (res["mismatches"] or []):
        name = classify(m) if classify else None
        if name and ctx.known(name):
            continue
        ctx.violation("implementation disagrees with TLC table: %s" % json.dumps(m)[:500], m)
        if len(ctx.violations) >= 10:
            break


def c01(ctx):
    depth = 3 if ctx.quick else 4
    table, n, r = _tlc_table(ctx, "match", depth, "match%d" % depth)
    vt = ctx.go_build("vtables")
    out = ctx.path("gen", "c01.json")
    ctx.run([vt, "c01-table", table, out, "300" if ctx.quick else "6000"], timeout=3000)
    res = json.load(open(out))
    _report(ctx, res)
    # random deeper histories, judged line by line by TLC (TraceTopics)
    tr = ctx.path("traces", "c01.ndjson")
    ntr = 150 if ctx.quick else 2500
    ctx.run([vt, "c01-trace", tr, str(ntr), "6"])
    v, tr_res = _validate_trace(ctx, tr, name="c01trace")
    lines = [json.loads(x) for x in open(tr)]
    for b in v["bad"]:
        ctx.violation("TraceTopics rejects line %d: %s ; complaints %s" % (b["line"], json.dumps(lines[b["line"] - 1]), json.dumps(b["complaints"])),
                      {"trace_excerpt": _excerpt(lines, b["line"]), "complaints": b["complaints"]})
    ctx.cov.update(
        _level="model_checking", exhaustive=True,
        states=max(tr_res.distinct, 1), transitions=max(tr_res.generated, 1),
        traces_validated_against_impl=ntr,
        evaluations=res["evaluations"] + v["lines"], distinct_nontrivial=res["distinct_nontrivial"],
        rule="TLC enumerates every (filter, topic) pair over filter levels {'',a,b,$a,+} with optional trailing # and topic levels {'',a,b,$a} up to depth %d (%d rows) with Matches(f,t); each row is driven as client, $share/g/ and inline subscription on a fresh TopicsIndex, then %s random multi-subscription scenarios (subscribe/unsubscribe churn, 3 kinds) are judged by table lookup; %d random histories at depth<=6 are validated line by line by TLC (TraceTopics). distinct_nontrivial = rows whose expected answer is 'matches'." % (depth, n, res["extra"]["scenarios"], ntr),
        samples=res["samples"], table_rows=n, trace_lines=v["lines"])
    ctx.assumptions += ["filters are well-formed MQTT filters", "every subscription carries a unique identifier, used to attribute gathered subscriptions"]


def _excerpt(lines, i):
    j = i - 1
    while j > 0 and lines[j].get("op") != "reset":
        j -= 1
    return lines[j:i]


def c02(ctx):
    depth = 3 if ctx.quick else 4
    table, n, r = _tlc_table(ctx, "match", depth, "match%d" % depth)
    vt = ctx.go_build("vtables")
    out = ctx.path("gen", "c02.json")
    ctx.run([vt, "c02-table", table, out, "300" if ctx.quick else "6000"], timeout=3000)
    res = json.load(open(out))
    _report(ctx, res)
    tr = ctx.path("traces", "c02.ndjson")
    ntr = 150 if ctx.quick else 2500
    ctx.run([vt, "c02-trace", tr, str(ntr), "5"])
    v, tr_res = _validate_trace(ctx, tr, name="c02trace")
    lines = [json.loads(x) for x in open(tr)]
    for b in v["bad"]:
        ctx.violation("TraceTopics rejects line %d: %s ; complaints %s" % (b["line"], json.dumps(lines[b["line"] - 1]), json.dumps(b["complaints"])),
                      {"trace_excerpt": _excerpt(lines, b["line"]), "complaints": b["complaints"]})
    ctx.cov.update(
        _level="model_checking", exhaustive=True,
        states=max(tr_res.distinct, 1), transitions=max(tr_res.generated, 1),
        traces_validated_against_impl=ntr,
        evaluations=res["evaluations"] + v["lines"], distinct_nontrivial=res["distinct_nontrivial"],
        rule="TLC match table to depth %d (%d rows): each row = one retained topic x one filter on a fresh index (Messages(filter) must return it exactly once iff Matches); %s random retain/clear/subscribe-churn histories with all queries judged by table lookup (multisets, each message once, nothing extra); %d random deeper histories validated by TLC (TraceTopics)." % (depth, n, res["extra"]["scenarios"], ntr),
        samples=res["samples"], table_rows=n, trace_lines=v["lines"])
    ctx.assumptions += ["end-to-end replay after SUBACK is covered by the broker-family checks (C05)"]


def c30(ctx):
    depth = 6 if ctx.quick else 7
    table, n, r = _tlc_table(ctx, "valid", depth, "valid%d" % depth)
    vt = ctx.go_build("vtables")
    out = ctx.path("gen", "c30.json")
    ctx.run([vt, "c30-table", table, out], timeout=3000)
    res = json.load(open(out))
    _report(ctx, res)
    ctx.cov.update(
        _level="model_checking", exhaustive=True,
        evaluations=res["evaluations"], distinct_nontrivial=res["distinct_nontrivial"],
        rule="TLC enumerates every string of <= %d tokens over {/,+,#,$,a,share,SYS} (%d strings) with ValidFilterChars and ValidPublishTopicChars from MqttTopics.tla; the real IsValidFilter(s,false) and IsValidFilter(s,true) must agree on every row. distinct = number of distinct strings." % (depth, n),
        samples=res["samples"], table_rows=n)
    # broker level: SUBACK code for invalid filters + nothing created; $SYS / wildcard publish topics never accepted (also with aliases)
    table_cov = dict(ctx.cov)
    from families import broker
    broker.BROKER_PART_C30(ctx)
    hist_cov = dict(ctx.cov)
    ctx.cov.update(table_cov)
    ctx.cov.update(states=hist_cov.get("states", 1), transitions=hist_cov.get("transitions", 1),
                   traces_validated_against_impl=hist_cov.get("traces_validated_against_impl", 0),
                   evaluations=table_cov["evaluations"] + hist_cov.get("evaluations", 0),
                   distinct_nontrivial=table_cov["distinct_nontrivial"] + hist_cov.get("distinct_nontrivial", 0),
                   rule=table_cov["rule"] + " PLUS " + hist_cov.get("rule", "") + " (SUBSCRIBE with invalid filters: code 0x8F / 0x80 and nothing created; "
                        "PUBLISH to $SYS... with and without topic alias: never routed, never retained)",
                   samples=table_cov["samples"][:3] + hist_cov.get("samples", [])[:2])


FAMILY = {"C01": c01, "C02": c02, "C30": c30}


# ------------------------------------------------------------------------------------------ C18
def _tlc_ledger(ctx, job, stride, offset):
    out = ctx.path("gen", "led_%s_%d.json" % (job, offset))
    r = ctx.tlc("GenLedger", "GenLedger.cfg", name="gen_led_%s_%d" % (job, offset), workers=1, timeout=1500, heap="6g",
                env={"VERIF_JOB": job, "VERIF_OUT": out, "VERIF_STRIDE": str(stride), "VERIF_OFFSET": str(offset)})
    r.require_ok("ledger table " + job)
    rows = [l for l in r.out.splitlines() if l.startswith('<<"ROWS"')]
    n = int(rows[0].split(",")[1].strip(" >")) if rows else 0
    return out, n, r


def c18(ctx):
    """Auth ledger: (B) TLC tables (MatchTopic relation; small ledgers x query battery with the permitted
    verdicts), (C) seeded random ledgers whose repeated evaluations are recorded and judged by TraceLedger."""
    from concurrent.futures import ThreadPoolExecutor
    depth = 3 if ctx.quick else 4
    table, n_match, r0 = _tlc_table(ctx, "ledger", depth, "ledger%d" % depth)
    vt = ctx.go_build("vtables")
    out = ctx.path("gen", "c18_match.json")
    ctx.run([vt, "c18-table", table, out], timeout=3000)
    res = json.load(open(out))
    _report(ctx, res)
    evaluations, distinct, samples = res["evaluations"], res["distinct_nontrivial"], list(res["samples"])
    # ledger tables: quick = one quarter of every family (which quarter depends on the seed), thorough = all
    stride = 4 if ctx.quick else 1
    jobs = [(j, stride, (ctx.seed + k) % stride) for k, j in enumerate(("user", "global", "auth"))]
    if not ctx.quick:
        jobs = [(j, 4, o) for j in ("user", "global", "auth") for o in range(4)]   # four shards each, in parallel
    with ThreadPoolExecutor(max_workers=6) as ex:
        tabs = list(ex.map(lambda a: _tlc_ledger(ctx, *a), jobs))
    vl = ctx.go_build("vledger")
    repeat = 25
    nled = 0
    for (job, _, off), (tab, n, _) in zip(jobs, tabs):
        o = ctx.path("gen", "c18_%s_%d.out.json" % (job, off))
        ctx.run([vl, "table", tab, o, str(repeat)], timeout=3000)
        rj = json.load(open(o))
        _report(ctx, rj)
        nled += n
        evaluations += rj["evaluations"]
        distinct += rj["distinct_nontrivial"]
        samples += rj["samples"][:1]
    ctx.log("TLC emitted %d match rows and %d small ledgers (families user/global/auth); %d evaluations of the real ledger" % (n_match, nled, evaluations))
    # random larger ledgers, judged by TLC
    tr = ctx.path("traces", "c18.ndjson")
    nrand = 40 if ctx.quick else 400
    ctx.run([vl, "random", tr, str(nrand), str(repeat)], timeout=3000)
    verdict = ctx.path("gen", "c18_verdict.json")
    r = ctx.tlc("TraceLedger", "TraceLedger.cfg", name="c18trace", workers=1, timeout=3000, heap="8g",
                env={"VERIF_TRACE": tr, "VERIF_OUT": verdict})
    if not os.path.exists(verdict):
        import sys
        sys.stderr.write(r.tail(40))
        raise Inconclusive("TraceLedger produced no verdict")
    v = json.load(open(verdict))
    lines = open(tr).readlines()
    for b in v["bad"]:
        e = json.loads(lines[b["line"] - 1])
        ctx.violation("TraceLedger rejects the recorded evaluations of line %d (%s): %s; permitted %s, observed %s" %
                      (b["line"], e["kind"], b["complaints"], b["permitted"], sorted(set(e["outs"]))), {"line": e, "complaints": b["complaints"]})
        if len(ctx.violations) >= 10:
            break
    ctx.cov.update(
        _level="model_checking", exhaustive=not ctx.quick,
        states=max(r.distinct, 1), transitions=max(r.generated, 1),
        traces_validated_against_impl=v["lines"], evaluations=evaluations + v["lines"] * repeat, distinct_nontrivial=distinct,
        rule="Ledger.tla defines AuthDecision / AclPermitted (user rules first, global rules in list order, first deciding rule wins, "
             "MqttTopics!LedgerMatchLevels for filters). (B) TLC emits the complete MatchTopic table to depth %d (%d rows) and %d small ledgers "
             "(family user: one user with every map of <= 2 of six filters x 4 access levels and 3 global tails; family global: every sequence of "
             "<= 2 of 58 global rules with client/username/remote patterns; family auth: 5 user tables x every sequence of <= 2 of 26 auth rules; %s) "
             "each with a battery of queries and the set of permitted verdicts; every query is evaluated %d times on the real Ledger (alternating "
             "a shared and a freshly built ledger, i.e. fresh map iteration orders): all verdicts must be equal and permitted. (C) %d random "
             "ledgers (<= 3 users with <= 3 overlapping filters, <= 4 auth and <= 4 ACL rules with prefix patterns) x 4 clients x 12 topics x "
             "read/write + 3 passwords, %d evaluations each, recorded and judged line by line by TLC (TraceLedger: unstable / not-permitted). "
             "distinct_nontrivial = matching table rows + (ledger, verdict set) pairs decided by a rule." %
             (depth, n_match, nled, "one quarter of each family chosen by the seed" if ctx.quick else "all of them", repeat, nrand, repeat),
        samples=samples, table_rows=n_match, ledgers=nled, random_lines=v["lines"])
    ctx.assumptions += ["rule patterns with '*' are only exercised on values longer than the prefix (the property does not say whether 'ab*' matches 'ab')",
                        "filters with '#' only in last position"]


FAMILY["C18"] = c18
