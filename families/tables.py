"""Pure decision functions judged by TLC-emitted case tables (+ TLC-validated random traces).
C01 subscription matching, C02 retained matching, C30 filter/topic validation."""
import json, os
from vlib import Inconclusive


def gen_table(ctx, table, depth, name):
    out = ctx.path("gen", name + ".json")
    r = ctx.tlc("GenTopics", "GenTopics.cfg", name="gen_" + name, workers=1, timeout=1500, heap="12g",
                extra=[], files={}, )
    return r, out


def _tlc_table(ctx, table, depth, name):
    out = ctx.path("gen", name + ".json")
    os.environ["VERIF_TABLE"], os.environ["VERIF_DEPTH"], os.environ["VERIF_OUT"] = table, str(depth), out
    r = ctx.tlc("GenTopics", "GenTopics.cfg", name="gen_" + name, workers=1, timeout=1500, heap="12g")
    r.require_ok("table " + name)
    rows = [l for l in r.out.splitlines() if l.startswith('<<"ROWS"')]
    n = int(rows[0].split(",")[1].strip(" >")) if rows else 0
    ctx.log("TLC emitted %d %s rows (depth %d) in %.1fs" % (n, table, depth, r.wall))
    return out, n, r


def _validate_trace(ctx, trace, checkret=False, name="trace"):
    out = ctx.path("gen", name + "_verdict.json")
    os.environ["VERIF_TRACE"], os.environ["VERIF_OUT"] = trace, out
    os.environ["VERIF_CHECKRET"] = "1" if checkret else "0"
    r = ctx.tlc("TraceTopics", "TraceTopics.cfg", name=name, workers=1, timeout=1500, heap="8g")
    if not os.path.exists(out):
        import sys
        sys.stderr.write(r.tail(40))
        raise Inconclusive("trace validation produced no verdict (%s)" % name)
    v = json.load(open(out))
    return v, r


def _report(ctx, res, classify=None):
    for m in (res["mismatches"] or []):
        name = classify(m) if classify else None
        if name and ctx.known(name):
            continue
        ctx.violation("implementation disagrees with TLC table: %s" % json.dumps(m)[:500], m)
        if len(ctx.violations) >= 10:
            break


def c01(ctx):
    depth = 3 if ctx.quick else 4
    table, n, r = _tlc_table(ctx, "match", depth, "match%d" % depth)
    vt = ctx.go_build("vtables")
    out = ctx.path("gen", "c01.json")
    ctx.run([vt, "c01-table", table, out, "300" if ctx.quick else "6000"], timeout=3000)
    res = json.load(open(out))
    _report(ctx, res)
    # random deeper histories, judged line by line by TLC (TraceTopics)
    tr = ctx.path("traces", "c01.ndjson")
    ntr = 150 if ctx.quick else 2500
    ctx.run([vt, "c01-trace", tr, str(ntr), "6"])
    v, tr_res = _validate_trace(ctx, tr, name="c01trace")
    lines = [json.loads(x) for x in open(tr)]
    for b in v["bad"]:
        ctx.violation("TraceTopics rejects line %d: %s ; complaints %s" % (b["line"], json.dumps(lines[b["line"] - 1]), json.dumps(b["complaints"])),
                      {"trace_excerpt": _excerpt(lines, b["line"]), "complaints": b["complaints"]})
    ctx.cov.update(
        _level="model_checking", exhaustive=True,
        states=max(tr_res.distinct, 1), transitions=max(tr_res.generated, 1),
        traces_validated_against_impl=ntr,
        evaluations=res["evaluations"] + v["lines"], distinct_nontrivial=res["distinct_nontrivial"],
        rule="TLC enumerates every (filter, topic) pair over filter levels {'',a,b,$a,+} with optional trailing # and topic levels {'',a,b,$a} up to depth %d (%d rows) with Matches(f,t); each row is driven as client, $share/g/ and inline subscription on a fresh TopicsIndex, then %s random multi-subscription scenarios (subscribe/unsubscribe churn, 3 kinds) are judged by table lookup; %d random histories at depth<=6 are validated line by line by TLC (TraceTopics). distinct_nontrivial = rows whose expected answer is 'matches'." % (depth, n, res["extra"]["scenarios"], ntr),
        samples=res["samples"], table_rows=n, trace_lines=v["lines"])
    ctx.assumptions += ["filters are well-formed MQTT filters", "every subscription carries a unique identifier, used to attribute gathered subscriptions"]


def _excerpt(lines, i):
    j = i - 1
    while j > 0 and lines[j].get("op") != "reset":
        j -= 1
    return lines[j:i]


def c02(ctx):
    depth = 3 if ctx.quick else 4
    table, n, r = _tlc_table(ctx, "match", depth, "match%d" % depth)
    vt = ctx.go_build("vtables")
    out = ctx.path("gen", "c02.json")
    ctx.run([vt, "c02-table", table, out, "300" if ctx.quick else "6000"], timeout=3000)
    res = json.load(open(out))
    _report(ctx, res)
    tr = ctx.path("traces", "c02.ndjson")
    ntr = 150 if ctx.quick else 2500
    ctx.run([vt, "c02-trace", tr, str(ntr), "5"])
    v, tr_res = _validate_trace(ctx, tr, name="c02trace")
    lines = [json.loads(x) for x in open(tr)]
    for b in v["bad"]:
        ctx.violation("TraceTopics rejects line %d: %s ; complaints %s" % (b["line"], json.dumps(lines[b["line"] - 1]), json.dumps(b["complaints"])),
                      {"trace_excerpt": _excerpt(lines, b["line"]), "complaints": b["complaints"]})
    ctx.cov.update(
        _level="model_checking", exhaustive=True,
        states=max(tr_res.distinct, 1), transitions=max(tr_res.generated, 1),
        traces_validated_against_impl=ntr,
        evaluations=res["evaluations"] + v["lines"], distinct_nontrivial=res["distinct_nontrivial"],
        rule="TLC match table to depth %d (%d rows): each row = one retained topic x one filter on a fresh index (Messages(filter) must return it exactly once iff Matches); %s random retain/clear/subscribe-churn histories with all queries judged by table lookup (multisets, each message once, nothing extra); %d random deeper histories validated by TLC (TraceTopics)." % (depth, n, res["extra"]["scenarios"], ntr),
        samples=res["samples"], table_rows=n, trace_lines=v["lines"])
    ctx.assumptions += ["end-to-end replay after SUBACK is covered by the broker-family checks (C05)"]


def c30(ctx):
    depth = 6 if ctx.quick else 7
    table, n, r = _tlc_table(ctx, "valid", depth, "valid%d" % depth)
    vt = ctx.go_build("vtables")
    out = ctx.path("gen", "c30.json")
    ctx.run([vt, "c30-table", table, out], timeout=3000)
    res = json.load(open(out))
    _report(ctx, res)
    ctx.cov.update(
        _level="model_checking", exhaustive=True,
        evaluations=res["evaluations"], distinct_nontrivial=res["distinct_nontrivial"],
        rule="TLC enumerates every string of <= %d tokens over {/,+,#,$,a,share,SYS} (%d strings) with ValidFilterChars and ValidPublishTopicChars from MqttTopics.tla; the real IsValidFilter(s,false) and IsValidFilter(s,true) must agree on every row. distinct = number of distinct strings." % (depth, n),
        samples=res["samples"], table_rows=n)
    ctx.assumptions += ["the SUBACK reason code and 'creates nothing' part is decided by the broker-family run appended below when available"]


FAMILY = {"C01": c01, "C02": c02, "C30": c30}
