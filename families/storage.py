"""Storage family: the four bundled persistence hooks (badger, pebble, bolt, redis/miniredis) and the
restore path of the broker.

C22  all backends behave identically   - direct hook calls, read-backs judged by spec/TraceStorage22.tla
C20  faithful restore after restart    - broker histories with restarts, judged by spec/TraceStorage20.tla
C21  crash consistency                 - broker histories x every crash point, judged by spec/TraceStorage21.tla
The protocol-level reference (persist-before-acknowledge) is model-checked with spec/Storage.tla (Storage*.cfg).
Every verdict is TLC's; the Go side (harness/cmd/vstore, harness/driver/storage.go) only drives and records."""
import collections, hashlib, json, os, random, sys, time
from concurrent.futures import ThreadPoolExecutor
from vlib import Inconclusive, VERIF

BACKENDS = ["badger", "pebble", "bolt", "redis"]


# ------------------------------------------------------------------------------------------------ helpers
def _vstore(ctx):
    b = getattr(ctx, "_vstore", None)
    if not b:
        b = ctx.go_build("vstore")
        ctx._vstore = b
    return b


def _last_json(r):
    for line in reversed(r.stdout.strip().splitlines()):
        if line.startswith("{"):
            return json.loads(line)
    raise Inconclusive("vstore printed no summary")


def _split(path, is_start, max_lines):
    """split an ndjson trace into chunks that start at unit boundaries; returns list of line lists"""
    chunks, cur, unit = [], [], []
    for line in open(path):
        if is_start(line) and unit:
            if cur and len(cur) + len(unit) > max_lines:
                chunks.append(cur)
                cur = []
            cur += unit
            unit = []
        unit.append(line)
    cur += unit
    if cur:
        chunks.append(cur)
    return chunks


def _judge(ctx, module, chunks, name, env=None, heap="4g", par=8, timeout=1500):
    """TLC validates every chunk with spec/<module>.tla; returns (verdicts, states, transitions, first result)"""
    def one(ix):
        tp = ctx.path("traces", "%s_%d.ndjson" % (name, ix))
        with open(tp, "w") as f:
            f.writelines(chunks[ix])
        out = ctx.path("gen", "%s_verdict_%d.json" % (name, ix))
        e = dict(VERIF_TRACE=tp, VERIF_OUT=out, JAVA_TOOL_OPTIONS="-Dfile.encoding=UTF-8")
        e.update(env or {})
        r = ctx.tlc(module, module + ".cfg", name="%s_%d" % (name, ix), workers=1, heap=heap, env=e, timeout=timeout,
                    coverage=(ix == 0 and os.environ.get("VERIF_COVERAGE") == "1"))
        if not os.path.exists(out):
            sys.stderr.write(r.tail(40) + "\n")
            raise Inconclusive("TLC produced no verdict for %s chunk %d" % (name, ix))
        v = json.load(open(out))
        v["_chunk"] = ix
        return v, r
    t0 = time.time()
    with ThreadPoolExecutor(max_workers=par) as ex:
        res = list(ex.map(one, range(len(chunks))))
    ctx.log("TLC (%s) judged %d chunk(s), %d lines in %.1fs" % (module, len(chunks), sum(len(c) for c in chunks), time.time() - t0))
    return [r[0] for r in res], sum(r[1].distinct for r in res), sum(r[1].generated for r in res), res[0][1]


def _match(f, c):
    for m in f.get("match_any", []):
        if all(str(c.get(k)) == str(v) for k, v in m.items()):
            return True
    return False


def _report(ctx, complaints, replay_of):
    """complaints: dicts with at least 'rule'. Known findings are matched on rule + the listed fields."""
    hist = collections.Counter()
    for c in complaints:
        hist[(c["rule"], c.get("backend", ""), c.get("kind", ""), c.get("dev", ""), c.get("why", ""))] += 1
    if hist:
        ctx.log("complaints: " + ", ".join("%s=%d" % ("/".join(x for x in k if x), v) for k, v in sorted(hist.items())))
    known = [f for f in ctx.findings() if f.get("status") == "known"]
    nviol = 0
    for c in complaints:
        hit = next((f for f in known if _match(f, c)), None)
        if hit:
            ctx.known_hit[hit["name"]] = hit["what"]
            continue
        nviol += 1
        if len(ctx.violations) < 8:
            ctx.violation("%s %s" % (c["rule"], json.dumps({k: v for k, v in c.items() if k not in ("rule",)}, ensure_ascii=False)[:500]),
                          replay_of(c))
    return nviol


def _model_check(ctx, cfg, name, expect_ok=True, defines=None, timeout=1200):
    r = ctx.tlc("Storage", cfg, name=name, workers=8, heap="6g", defines=defines, timeout=timeout)
    return r


# ------------------------------------------------------------------------------------------------ C22
def c22(ctx):
    vs = _vstore(ctx)
    nrand = 50 if ctx.quick else 1000
    tables, nrows = [], 0
    plan = [("session", 2)] if ctx.quick else [("session", 3), ("message", 3), ("misc", 3)]
    for alpha, depth in plan:   # use (B): TLC enumerates all sequences over a six-event alphabet
        out = ctx.path("gen", "c22_%s.json" % alpha)
        r = ctx.tlc("GenStorage", "GenStorage.cfg", name="gen_" + alpha, workers=1, heap="4g", timeout=900,
                    env=dict(VERIF_ALPHA=alpha, VERIF_DEPTH=str(depth), VERIF_OUT=out))
        r.require_ok("GenStorage " + alpha)
        n = len(json.load(open(out)))
        nrows += n
        tables.append((alpha, out, n))
        ctx.log("TLC enumerated %d event sequences (alphabet %s, length <= %d)" % (n, alpha, depth))
    traces = []
    tot = dict(sequences=0, events=0)
    t0 = time.time()
    jobs = [("rnd", str(nrand), None)] + [(a, "0", p) for a, p, _ in tables]
    for tag, n, table in jobs:
        tp = ctx.path("traces", "c22_%s.ndjson" % tag)
        args = [vs, "c22", tp, n, ctx.path("store", tag, "x")[:-2]] + ([table] if table else [])
        info = _last_json(ctx.run(args, timeout=2400))
        tot["sequences"] += info["sequences"]
        tot["events"] += info["events"]
        traces.append(tp)
    ctx.log("drove %d sequences (%d hook events) through 4 backends in %.1fs" % (tot["sequences"], tot["events"], time.time() - t0))
    chunks = []
    for tp in traces:
        chunks += _split(tp, lambda l: l.startswith('{"ev":"begin"'), 2500)
    verdicts, states, trans, _ = _judge(ctx, "TraceStorage22", chunks, "c22")
    complaints, ops, distinct = [], collections.Counter(), set()
    for v in verdicts:
        lines = chunks[v["_chunk"]]
        for b in v["bad"]:
            for c in b["complaints"]:
                c = dict(c, line=b["line"], chunk=v["_chunk"], seq=b["seq"])
                complaints.append(c)
    # a read-back that differs from the reference model in the same way on all four backends is not a difference BETWEEN
    # backends (the property): it is C20's business (or the model's). It is logged, not reported.
    differing = {(c["chunk"], c["seq"], c["kind"]) for c in complaints if c["rule"] in ("C22.pairwise", "C22.dev", "C22.error")}
    common = [c for c in complaints if c["rule"] == "C22.mismatch" and (c["chunk"], c["seq"], c["kind"]) not in differing]
    if common:
        ctx.log("%d read-backs differ from the reference model identically on all four backends (not judged here, see C20), e.g. %s" %
                (len(common), json.dumps(common[0], ensure_ascii=False)[:400]))
        ctx.notes.append("%d read-backs differ from the reference model identically on all four backends (C20 judges them)" % len(common))
        complaints = [c for c in complaints if c not in common]
    for ch in chunks:
        for l in ch:
            if l.startswith('{"ev":"event"'):
                ops[json.loads(l)["op"]] += 1
            elif l.startswith('{"ev":"readback","backend":"badger"'):
                distinct.add(hashlib.sha1(l.encode()).hexdigest())

    def replay_of(c):
        lines = chunks[c["chunk"]]
        i = c["line"] - 1
        s = i
        while s > 0 and not lines[s].startswith('{"ev":"begin"'):
            s -= 1
        evs = [json.loads(x) for x in lines[s:i + 1] if '"ev":"readback"' not in x[:20]]
        return dict(complaint=c, sequence=evs, readback=json.loads(lines[i]))
    _report(ctx, complaints, replay_of)
    nread = sum(1 for ch in chunks for l in ch if l.startswith('{"ev":"readback"'))
    if len(ops) < 12:
        raise Inconclusive("event generator did not exercise every hook event: %s" % dict(ops))
    samples = []
    for c in complaints[:3]:
        samples.append({k: c[k] for k in ("rule", "backend", "kind", "dev")})
    samples.append(dict(ops_histogram=dict(ops)))
    ctx.cov.update(
        _level="model_checking", states=max(states, 1), transitions=max(trans, 1),
        traces_validated_against_impl=nread, evaluations=tot["events"] * 4 + nread,
        distinct_nontrivial=len(distinct), exhaustive=not ctx.quick,
        rule="The same event sequence is applied to a fresh badger, pebble, bolt and redis(miniredis) store by direct hook calls "
             "(%d random sequences of 20-200 events over ids/filters/topics {a, a:b, b:c, a/b, e-acute_1, c}; %d sequences enumerated by TLC: "
             "every sequence of length <= %d over six-event alphabets %s). Each backend's Stored* read-back is one trace line; TLC "
             "(TraceStorage22 over Storage!ApplyEvent/ReadBack with the code's key function) judges every kind of every read-back against the model "
             "and the four read-backs pairwise. distinct_nontrivial = number of distinct badger read-backs." %
             (nrand, nrows, plan[0][1], [a for a, _ in plan]),
        samples=samples, sequences=tot["sequences"], hook_events=tot["events"], complaints=len(complaints))
    ctx.assumptions += ["redis is miniredis (in-process); the go-redis client and the hook code are the real ones",
                        "every hook call is given a self-contained client/packet value; the broker is not involved (C20/C21 cover the broker path)",
                        "defects common to all four backends (unpersisted flags, refused filters stored, key collisions) are modelled as the code behaves and judged by C20"]


# ------------------------------------------------------------------------------------------------ histories
DEF_CFG = dict(max_qos=2, retain_avail=1, recv_max=1024, max_inflight=8192, max_pending=8192,
               max_msg_expiry=86400, max_sess_expiry=-1, topic_alias_max=65535, max_clients=0,
               max_packet_size=0, min_proto=3, obscure=False, write_buf=2048, inline=False,
               max_packet_id=0, auth="acl", deny_read=[], deny_write=[], deny_conn=[], scripted=[])

# client ids / topics with the separator characters of the key format, '/', '_' and a unicode letter.
# ("a:b","c") and ("a","b:c") have the same concatenated key "a:b:c".
IDS = ["a", "a:b", "b:c", "é_1", "a/b"]
TOPICS = [["c"], ["b:c"], ["a", "b"], ["é_1"], ["x_y"]]
DENY_READ = [["a", "x_y"], ["é_1", "c"]]        # ACL: these (client, filter) pairs are refused at SUBSCRIBE


def _op(name, **kw):
    o = dict(op=name, sei=-1, rpi=-1, rri=-1)
    o.update(kw)
    return o


class SGen:
    """Generation bookkeeping only (which connections exist); nothing here judges the broker."""

    def __init__(self, rng, crash=False):
        self.r, self.crash = rng, crash
        self.ops, self.nk, self.nm, self.npid = [], 0, 0, 0
        self.conn, self.ver, self.used = {}, {}, {}

    def pid(self):
        self.npid += 1
        return self.npid

    def msg(self):
        self.nm += 1
        return "m%d" % self.nm

    def connect(self, c, v=None, clean=None, sei=None, k=None, kind=""):
        r = self.r
        self.nk += 1
        k = k or "k%d" % self.nk
        v = v or self.used.get(c, {}).get("v") or r.choice([4, 5, 5])
        if clean is None:
            clean = r.random() < 0.3
        o = _op("connect", k=k, id=c, v=v, clean=clean)
        if kind:
            o["kind"] = kind
        if v == 5:
            o["sei"] = sei if sei is not None else r.choice([-1, 0, 30, 30, 300, 300])
            if not self.crash:
                o["rpi"] = r.choice([-1, -1, 0])
        if not self.crash and r.random() < 0.2:
            o["will"] = dict(t=r.choice(TOPICS), m=self.msg(), qos=r.choice([0, 1]), retain=r.random() < 0.5, delay=0)
        self.ops.append(o)
        self.conn[c] = k
        self.ver[k] = v
        self.used[c] = dict(v=v)
        return k

    def live(self):
        return [c for c in IDS if c in self.conn]

    def subscribe(self, c, f=None, qos=None):
        k = self.conn[c]
        r = self.r
        f = f or r.choice(TOPICS)
        so = dict(f=f, qos=r.choice([0, 1, 1, 2]) if qos is None else qos, nl=False, rap=False, rh=0)
        o = _op("subscribe", k=k, pid=self.pid(), filters=[so])
        if self.ver[k] == 5 and not self.crash:
            so["rap"] = r.random() < 0.3
            so["rh"] = r.choice([0, 0, 1, 2])
            if r.random() < 0.3:
                o["subid"] = r.randint(1, 9)
        self.ops.append(o)

    def unsubscribe(self, c):
        k = self.conn[c]
        self.ops.append(_op("unsubscribe", k=k, pid=self.pid(), filters=[dict(f=self.r.choice(TOPICS), qos=0, nl=False, rap=False, rh=0)]))

    def publish(self, c, retain, t=None, qos=None, clear=False):
        k = self.conn[c]
        r = self.r
        qos = r.choice([1, 1, 2] if not retain else [0, 1, 1]) if qos is None else qos
        o = _op("publish", k=k, t=t or r.choice(TOPICS), m="" if clear else self.msg(), qos=qos, retain=retain, pid=self.pid() if qos else 0)
        if self.ver[k] == 5 and not self.crash and r.random() < 0.5:
            o["mei"] = r.choice([0, 20, 600])
            o["ct"] = r.choice(["", "text/x"])
            o["rt"] = r.choice(["", "r/t"])
            o["cd"] = r.choice(["", "cd1"])
            if r.random() < 0.5:
                o["up"] = [["k", "v"], ["k:2", "v_2"]]
        self.ops.append(o)

    def ack(self, c):
        k = self.conn[c]
        self.ops.append(_op(self.r.choice(["puback", "puback", "pubrec", "pubcomp"]), k=k, nth=1))

    def drop(self, c):
        k = self.conn.pop(c)
        self.ops.append(_op(self.r.choice(["disconnect", "netdrop"]), k=k))


def gen_c20(seed, n):
    r = random.Random(seed)
    g = SGen(r)
    if r.random() < 0.25:     # a session that expires while offline, before a restart
        c = r.choice(IDS)
        g.connect(c, v=5, clean=False, sei=30)
        g.subscribe(c, f=r.choice(TOPICS), qos=1)
        g.drop(c)
        g.ops.append(_op("tick", kind="clients", dt=40))
    else:
        g.connect(r.choice(IDS[:3]), clean=False)
    restarts = 0
    while len(g.ops) < n:
        x = r.random()
        live = g.live()
        if x < 0.16 or not live:
            free = [c for c in IDS if c not in g.conn]
            if free:
                g.connect(r.choice(free))
        elif x < 0.23:
            c = r.choice(live)                                       # takeover
            old = g.conn[c]
            if r.random() < 0.6:    # schedule: the superseded connection's teardown runs AFTER the new connection is established
                g.ops.append(_op("arm", k=old, point="teardown.cleanup"))
                g.connect(c, kind="free")      # "free": the driver does not serialise the two handlers itself
                g.ops.append(_op("release", k=old))
            else:
                g.connect(c)
        elif x < 0.42:
            c = r.choice(live)
            if r.random() < 0.25:                                    # the colliding pair / an ACL-refused filter
                c, f = r.choice([("a:b", ["c"]), ("a", ["b:c"]), ("a", ["x_y"]), ("é_1", ["c"])])
                if c not in g.conn:
                    g.connect(c, clean=False)
                g.subscribe(c, f=f, qos=r.choice([1, 2]))
            else:
                g.subscribe(c)
        elif x < 0.46:
            g.unsubscribe(r.choice(live))
        elif x < 0.60:
            g.publish(r.choice(live), True, clear=r.random() < 0.12)
        elif x < 0.76:
            g.publish(r.choice(live), False)
        elif x < 0.83:
            g.ack(r.choice(live))
        elif x < 0.92:
            g.drop(r.choice(live))
        elif x < 0.95:
            g.ops.append(_op("tick", kind=r.choice(["clients", "retained"]), dt=r.choice([25, 40])))
        elif restarts < 2 and len(g.ops) > 8:
            g.ops.append(_op("restart"))
            g.conn = {}
            restarts += 1
    g.ops.append(_op("restart"))
    probe = [_op("mark", kind="probe")]
    if r.random() < 0.5:
        probe.append(_op("tick", kind="clients", dt=40))
    if r.random() < 0.5:
        probe.append(_op("tick", kind="retained", dt=30))
    i = 0
    for c in IDS:
        if c in g.used:
            i += 1
            o = _op("connect", k="p%d" % i, id=c, v=g.used[c]["v"], clean=r.random() < 0.25)
            if o["v"] == 5:
                o["sei"] = 300
            probe.append(o)
    probe.append(_op("connect", k="pz", id="zz", v=5, clean=True, sei=0))
    for j, t in enumerate(TOPICS):
        probe.append(_op("subscribe", k="pz", pid=100 + j, filters=[dict(f=t, qos=1, nl=False, rap=False, rh=0)]))
    for j, t in enumerate(TOPICS):
        probe.append(_op("publish", k="pz", t=t, m="P%d" % j, qos=0, retain=False, pid=0))
    return g.ops, probe


def gen_c21(seed, n, pre=None):
    """short histories (the number of storage writes W is capped by construction); persistent sessions mostly"""
    r = random.Random(seed)
    g = SGen(r, crash=True)
    ids = IDS[:4]
    topics = TOPICS[:3]

    def conn(c, **kw):
        v = g.used.get(c, {}).get("v") or r.choice([4, 5])
        persistent = r.random() < 0.8
        if v == 4:
            return g.connect(c, v=4, clean=kw.pop("clean", not persistent), **kw)
        return g.connect(c, v=5, clean=kw.pop("clean", r.random() < 0.2), sei=300 if persistent else r.choice([0, -1]), **kw)

    pre = r.random() if pre is None else pre
    if pre < 0.25:        # an unacknowledged delivery to a persistent session, then a resuming takeover
        c = r.choice(["a", "b:c"])
        g.connect(c, v=r.choice([4, 5]), clean=False, sei=300)
        g.subscribe(c, f=["c"], qos=r.choice([1, 2]))
        g.connect("é_1", v=4, clean=True)
        g.publish("é_1", False, t=["c"], qos=1)
        old = g.conn[c]
        if r.random() < 0.5:
            g.ops.append(_op("arm", k=old, point="teardown.cleanup"))
            g.connect(c, clean=False, sei=300, kind="free")
            g.ops.append(_op("release", k=old))
        else:
            g.connect(c, clean=False, sei=300)
    elif pre < 0.4:       # a session that ends with its connection
        g.connect("a:b", v=4, clean=True)
        g.subscribe("a:b", f=["c"], qos=1)
        g.drop("a:b")
    elif pre < 0.55:      # the colliding pair
        g.connect("a:b", v=4, clean=False)
        g.subscribe("a:b", f=["c"], qos=1)
        g.connect("a", v=4, clean=False)
        g.subscribe("a", f=["b:c"], qos=1)
    else:
        conn(r.choice(["a", "a:b"]))
    while len(g.ops) < n:
        x = r.random()
        live = [c for c in ids if c in g.conn]
        if x < 0.15 or not live:
            free = [c for c in ids if c not in g.conn]
            if free:
                conn(r.choice(free))
        elif x < 0.27:
            c = r.choice(live)
            old = g.conn[c]
            if r.random() < 0.5:
                g.ops.append(_op("arm", k=old, point="teardown.cleanup"))
                conn(c, kind="free")
                g.ops.append(_op("release", k=old))
            else:
                conn(c)
        elif x < 0.50:
            if r.random() < 0.3:
                c, f = r.choice([("a:b", ["c"]), ("a", ["b:c"])])
                if c not in g.conn:
                    conn(c)
                g.subscribe(c, f=f, qos=r.choice([1, 2]))
            else:
                g.subscribe(r.choice(live), f=r.choice(topics), qos=r.choice([1, 1, 2]))
        elif x < 0.55:
            g.unsubscribe(r.choice(live))
        elif x < 0.68:
            g.publish(r.choice(live), True, t=r.choice(topics), qos=1, clear=r.random() < 0.15)
        elif x < 0.86:
            g.publish(r.choice(live), False, t=r.choice(topics), qos=r.choice([1, 1, 2]))
        elif x < 0.92:
            g.ack(r.choice(live))
        else:
            g.drop(r.choice(live))
    probe = [_op("mark", kind="probe"), _op("connect", k="pz", id="zz", v=5, clean=True, sei=0)]
    used = [c for c in IDS if c in g.used]
    for i, c in enumerate(used):
        o = _op("connect", k="pa%d" % i, id=c, v=g.used[c]["v"], clean=False)
        if o["v"] == 5:
            o["sei"] = 300
        probe.append(o)
    for j, t in enumerate(TOPICS):
        probe.append(_op("publish", k="pz", t=t, m="PA%d" % j, qos=0, retain=False, pid=0))
    for i, c in enumerate(used):
        probe.append(_op("netdrop", k="pa%d" % i))
    for i, c in enumerate(used):
        o = _op("connect", k="pb%d" % i, id=c, v=g.used[c]["v"], clean=True)
        if o["v"] == 5:
            o["sei"] = 300
        probe.append(o)
    for j, t in enumerate(TOPICS):
        probe.append(_op("publish", k="pz", t=t, m="PB%d" % j, qos=0, retain=False, pid=0))
    return g.ops, probe


def _protocol_mc(ctx, devs):
    """model-check the reference protocol (must satisfy RestoreFaithful, CrashConsistent) and, for non-vacuity, the
    listed deviations (each must be refuted by TLC)."""
    ref_cfg = "Storage_quick.cfg" if ctx.quick else "Storage.cfg"

    def run(dev):
        if dev is None:
            return dev, ctx.tlc("Storage", ref_cfg, name="mc_ref", workers=6, heap="6g", timeout=1500)
        return dev, ctx.tlc("Storage", "Storage_dev.cfg", name="mc_" + dev, workers=2, heap="3g", timeout=900, defines=dict(DEV='"%s"' % dev))
    with ThreadPoolExecutor(max_workers=6) as ex:
        res = dict(ex.map(run, [None] + list(devs)))
    ref = res[None]
    ref.require_ok("%s (reference persistence protocol: RestoreFaithful, CrashConsistent)" % ref_cfg)
    refuted = {}
    for d in devs:
        m = None
        for line in res[d].out.splitlines():
            if "Invariant" in line and "is violated" in line:
                m = line.split("Invariant")[1].split()[0]
        if not m:
            sys.stderr.write(res[d].tail(30) + "\n")
            raise Inconclusive("Storage.tla does not refute deviation %s (vacuous model)" % d)
        refuted[d] = m
    ctx.log("TLC: reference protocol holds (%d distinct states, depth %d); refuted deviations: %s" % (ref.distinct, ref.depth, refuted))
    return ref, refuted


def _drive(ctx, what, hists, name, timeout=3000):
    vs = _vstore(ctx)
    hp = ctx.path("gen", name + "_hist.json")
    tp = ctx.path("traces", name + ".ndjson")
    json.dump(hists, open(hp, "w"))
    t0 = time.time()
    info = _last_json(ctx.run([vs, what, hp, tp, ctx.path("store", name, "x")[:-2], "12"], timeout=timeout))
    ctx.log("vstore %s: %s in %.1fs" % (what, info, time.time() - t0))
    if info.get("stuck"):
        ctx.notes.append("%d stuck steps in %s (harness trouble, never counted as violations)" % (info["stuck"], name))
    return tp, info


def _collect(verdicts, chunks):
    out = []
    for v in verdicts:
        for b in v["bad"]:
            for c in b["complaints"]:
                out.append(dict(c, line=b["line"], chunk=v["_chunk"], name=b.get("name", ""), ev=b.get("ev", "")))
    return out


def _history_of(chunks, c):
    """the recorded run (Config line .. complaint line) of a complaint, without the bulky state"""
    lines = chunks[c["chunk"]]
    i = c["line"] - 1
    s = i
    while s > 0 and not lines[s].startswith('{"i":1,"ev":"Config"'):
        s -= 1
    evs = []
    for x in lines[s:i + 1]:
        e = json.loads(x)
        evs.append(dict(ev=e["ev"], a=e["a"], err=e["err"]))
    return dict(complaint=c, backend=json.loads(lines[s])["backend"], cfg=json.loads(lines[s]).get("cfg"), steps=evs,
                last_line=json.loads(lines[i]))


# ------------------------------------------------------------------------------------------------ C20
def c20(ctx):
    mc, refuted = _protocol_mc(ctx, ["FlagsNotPersisted", "NoMsgExpiry", "ConcatKeys", "StoreRefused", "NoPacketID"] +
                               ([] if ctx.quick else ["OrphanSubs", "ZombieRewrite"]))
    nh = 10 if ctx.quick else 150
    hists = []
    for i in range(nh):
        ops, probe = gen_c20(ctx.seed * 100003 + i, 22 + (i % 4) * 8)
        hists.append(dict(name="h%d" % i, backends=BACKENDS, cfg=dict(DEF_CFG, deny_read=DENY_READ), ops=ops, probe=probe))
    tp, info = _drive(ctx, "c20", hists, "c20")
    chunks = _split(tp, lambda l: l.startswith('{"i":1,"ev":"Config"'), 600)
    verdicts, states, trans, _ = _judge(ctx, "TraceStorage20", chunks, "c20", heap="6g")
    complaints = _collect(verdicts, chunks)
    _report(ctx, complaints, lambda c: _history_of(chunks, c))
    restarts = sum(v["restarts"] for v in verdicts)
    probes = sum(v["probes"] for v in verdicts)
    pres = set()
    for ch in chunks:
        for l in ch:
            if '"ev":"shutdown"' in l[:40]:
                e = json.loads(l)
                pres.add(hashlib.sha1(json.dumps([e["sv"]["clients"], e["sv"]["trie"], e["sv"]["retained"]], sort_keys=True).encode()).hexdigest())
    if restarts < nh * len(BACKENDS) or probes == 0:
        raise Inconclusive("histories did not reach their restarts (%d restarts, %d probe steps)" % (restarts, probes))
    ctx.cov.update(
        _level="model_checking", states=max(states + mc.distinct, 1), transitions=max(trans + mc.generated, 1),
        traces_validated_against_impl=info["runs"], evaluations=restarts + probes, distinct_nontrivial=len(pres),
        rule="%d random histories (connect/takeover/subscribe incl. colliding keys and ACL-refused filters/retained publish with properties/"
             "QoS1-2 deliveries left unacknowledged/disconnect/expiry ticks/restart) x 4 backends on the real broker; at each of the %d restarts TLC "
             "(TraceStorage20) compares the projection after VerifReadStore with the projection before shutdown restricted to non-expired sessions "
             "(session settings, subscriptions with options, retained messages with properties and expiry, in-flight messages with packet ids), then judges "
             "%d probe steps of the continued history (session present, redelivery, expiry ticks, retained replay, deliveries). The reference protocol of "
             "Storage.tla is model-checked (%d states). distinct_nontrivial = distinct pre-shutdown projections." % (nh, restarts, probes, mc.distinct),
        samples=[{k: c[k] for k in ("rule", "backend", "c", "x", "name")} for c in complaints[:5]] or
                [dict(history=h["name"], ops=[{k: v for k, v in o.items() if v not in (0, "", False, None, [], -1)} for o in h["ops"][:8]]) for h in hists[:2]],
        restarts=restarts, probe_steps=probes, complaints=len(complaints), model_states=mc.distinct, deviations_refuted=refuted)
    ctx.assumptions += ["redis is miniredis (in-process)", "filters are exact topic names (wildcard matching is C01's subject)",
                        "a restart is: every connection dropped, Server.Close (stops the hook), new Server + fresh hook instance on the same store, readStore"]


# ------------------------------------------------------------------------------------------------ C21
def c21(ctx):
    mc, refuted = _protocol_mc(ctx, ["OrphanSubs", "TakeoverDeletesLive", "ZombieRewrite", "AckBeforePersist"] + ([] if ctx.quick else ["ConcatKeys", "NoPacketID"]))
    nh = 3 if ctx.quick else 30
    backends = ["bolt", "badger"] if ctx.quick else BACKENDS
    hists = []
    for i in range(nh):
        # the first three histories start with the three scenarios that matter most (resuming takeover with an
        # unacknowledged delivery, session that ends with its connection, colliding storage keys); the rest is random
        ops, probe = gen_c21(ctx.seed * 7919 + i, 9 + (i % 3) * 2, pre=[0.1, 0.3, 0.5][i] if i < 3 else None)
        hists.append(dict(name="h%d" % i, backends=backends, cfg=dict(DEF_CFG), ops=ops, probe=probe, max_w=60))
    tp, info = _drive(ctx, "c21", hists, "c21")
    chunks = _split(tp, lambda l: l.startswith('{"i":1,"ev":"Config"'), 900)
    verdicts, states, trans, _ = _judge(ctx, "TraceStorage21", chunks, "c21", heap="6g", par=10)
    complaints = _collect(verdicts, chunks)
    _report(ctx, complaints, lambda c: _history_of(chunks, c))
    runs = sum(v["runs"] for v in verdicts)
    obl = sum(v["obligations"] for v in verdicts)
    if runs < info["runs"] or obl == 0:
        raise Inconclusive("crash runs incomplete (%d of %d restarts, %d obligations)" % (runs, info["runs"], obl))
    cuts = set()
    for ch in chunks:
        for l in ch:
            if l.startswith('{"i":1,"ev":"Config"'):
                e = json.loads(l)
                cuts.add((e["name"], e["backend"], e["cut"]))
    ctx.cov.update(
        _level="model_checking", states=max(states + mc.distinct, 1), transitions=max(trans + mc.generated, 1),
        traces_validated_against_impl=info["runs"], evaluations=obl + runs, distinct_nontrivial=len(cuts), exhaustive=True,
        rule="%d histories x %s: each history with W storage writes is run W+1 times with the crash hook dropping every write after the n-th "
             "(n = 0..W, %d crash points in total, exhaustive per history), then a fresh broker loads the surviving store and is probed (Clean Start 0 "
             "reconnects + publishes, then Clean Start 1 connections + publishes). TLC (TraceStorage21) folds writes and acknowledgements of the common sequence "
             "into obligations and judges the restored projection and the probe (%d obligations checked). The reference protocol of Storage.tla is "
             "model-checked with every crash point (%d states); deviations refuted: %s. distinct_nontrivial = (history, backend, crash point) triples." %
             (nh, backends, info["runs"], obl, mc.distinct, sorted(refuted)),
        samples=[{k: c[k] for k in ("rule", "backend", "c", "x", "why", "name")} for c in complaints[:5]] or
                [dict(history=h["name"], ops=[{k: v for k, v in o.items() if v not in (0, "", False, None, [], -1)} for o in h["ops"][:8]]) for h in hists[:2]],
        crash_runs=info["runs"], obligations=obl, complaints=len(complaints), model_states=mc.distinct, deviations_refuted=refuted)
    ctx.assumptions += ["each storage-hook call is one atomic write (true for the four backends except badger/pebble OnDisconnect = set + delete, "
                        "whose intermediate state equals 'call dropped' for the restored projection)",
                        "a crash is simulated by dropping writes; the in-memory state of the dead process is discarded (fresh Server)",
                        "acknowledgements are positioned by OnPacketSent, i.e. not earlier than the packet was written to the connection"]


FAMILY = {"C20": c20, "C21": c21, "C22": c22}
