"""Seeded random history generators for the broker-family checks (op lists for harness/driver)."""
import random

DEF_CFG = dict(max_qos=2, retain_avail=1, recv_max=1024, max_inflight=8192, max_pending=8192,
               max_msg_expiry=86400, max_sess_expiry=-1, topic_alias_max=65535, max_clients=0,
               max_packet_size=0, min_proto=3, obscure=False, write_buf=2048, inline=False,
               max_packet_id=0, auth="allow", deny_read=[], deny_write=[], deny_conn=[], scripted=[])


def cfg(**kw):
    c = dict(DEF_CFG)
    c.update(kw)
    return c


def op(name, **kw):
    o = dict(op=name, sei=-1, rpi=-1, rri=-1)
    o.update(kw)
    return o


TOPICS = [["a"], ["b"], ["a", "b"], ["a", "a"], ["b", "a"], ["a", "b", "c"], ["a", ""], ["$a", "b"]]
FILTERS = [["a"], ["b"], ["a", "b"], ["a", "+"], ["+", "b"], ["#"], ["a", "#"], ["+", "#"], ["+"], ["a", "b", "#"],
           ["+", "+"], ["$a", "#"], ["a", "b", "c"], ["b", "#"]]
SHARED = [["$share", "g", "a", "+"], ["$share", "g", "#"], ["$share", "h", "a", "b"], ["$share", "g", "a", "#"],
          ["$share", "h", "+", "b"], ["$share", "h", "a", "+"], ["$share", "h", "#"]]


def _matches(f, t):
    """generation aid only (choice of a topic a filter matches); nothing is judged with it"""
    if t and t[0].startswith("$") and f and f[0] in ("#", "+"):
        return False
    for i, lv in enumerate(f):
        if lv == "#":
            return True
        if i >= len(t):
            return False
        if lv != "+" and lv != t[i]:
            return False
    return len(f) == len(t)


class Gen:
    """Keeps a light model of which connections exist so that generated ops are mostly meaningful.
    It is bookkeeping for generation only; nothing here is used to judge the broker."""

    def __init__(self, rng, prof):
        self.r, self.p = rng, prof
        self.ops = []
        self.nk = 0
        self.conn = {}      # client id -> connection name (live)
        self.ver = {}       # connection -> version
        self.nm = 0
        self.npid = {}      # connection -> next packet id
        self.subs = {}      # client -> list of filters

    def k(self, c):
        return self.conn.get(c)

    def pid(self, k):
        self.npidg = getattr(self, "npidg", 0) + 1   # never reuse a packet id inside one history
        return self.npidg

    def msg(self):
        self.nm += 1
        return "m%d" % self.nm

    def connect(self, c, **kw):
        self.nk += 1
        k = "k%d" % self.nk
        p = self.p
        v = kw.pop("v", None) or self.r.choice(p.get("versions", [5, 5, 4]))
        clean = kw.pop("clean", None)
        if clean is None:
            clean = self.r.random() < p.get("p_clean", 0.5)
        o = op("connect", k=k, id=c, v=v, clean=clean)
        if v == 5:
            o["sei"] = self.r.choice(p.get("sei", [-1, 0, 30, 300]))
            if p.get("rm"):
                o["rm"] = self.r.choice(p["rm"])
            if p.get("tam"):
                o["tam"] = self.r.choice(p["tam"])
            if p.get("mps"):
                o["mps"] = self.r.choice(p["mps"])
            if p.get("rpi"):
                o["rpi"] = self.r.choice(p["rpi"])
        if p.get("wills") and self.r.random() < p["wills"]:
            o["will"] = dict(t=self.r.choice(p.get("will_topics", TOPICS[:4])), m=self.msg(), qos=self.r.choice(p.get("qos", [0, 1, 2])),
                             retain=self.r.random() < 0.3, delay=self.r.choice(p.get("will_delay", [0])) if v == 5 else 0)
        o.update(kw)
        self.ops.append(o)
        self.conn[c] = k
        self.ver[k] = v
        if clean:
            self.subs[c] = []
        return k

    def subscribe(self, c):
        k = self.k(c)
        if not k:
            return
        p = self.p
        v5 = self.ver[k] == 5
        nf = 1 if self.r.random() < p.get("p_single_filter", 0.85) else 2
        fs = []
        for _ in range(nf):
            pool = p.get("filters", FILTERS)
            f = self.r.choice(pool)
            if p.get("shared") and self.r.random() < p["shared"]:
                f = self.r.choice(p.get("shared_filters", SHARED))
            if p.get("bad_filters") and self.r.random() < p["bad_filters"]:
                f = self.r.choice([["a", "#", "b"], ["$share", "g"], ["$share", "", "a"], ["$share", "g", ""], [""]])
            so = dict(f=f, qos=self.r.choice(p.get("sub_qos", [0, 1, 2])), nl=False, rap=False, rh=0)
            if v5:
                if p.get("nolocal") and f[0] != "$share" and self.r.random() < p["nolocal"]:
                    so["nl"] = True
                if p.get("rap") and self.r.random() < p["rap"]:
                    so["rap"] = True
                if p.get("rh"):
                    so["rh"] = self.r.choice(p["rh"])
            fs.append(so)
            self.subs.setdefault(c, []).append(f)
        o = op("subscribe", k=k, pid=self.pid(k), filters=fs)
        if v5 and p.get("subid") and self.r.random() < p["subid"]:
            o["subid"] = self.r.randint(1, 9)
        self.ops.append(o)

    def unsubscribe(self, c):
        k = self.k(c)
        if not k:
            return
        have = self.subs.get(c) or []
        f = self.r.choice(have) if have and self.r.random() < 0.8 else self.r.choice(self.p.get("filters", FILTERS))
        if not (have and f in have) and self.p.get("shared") and self.r.random() < max(self.p["shared"], 0.3):
            f = self.r.choice(self.p.get("shared_filters", SHARED))     # a share filter the client does not hold (perhaps another group's)
        self.ops.append(op("unsubscribe", k=k, pid=self.pid(k), filters=[dict(f=f, qos=0, nl=False, rap=False, rh=0)]))

    def publish(self, c, **kw):
        k = self.k(c)
        if not k:
            return
        p = self.p
        t = self.r.choice(p.get("topics", TOPICS))
        if p.get("sys_topics") and self.r.random() < p["sys_topics"]:
            t = ["$SYS", "x"]
        q = self.r.choice(p.get("qos", [0, 1, 2]))
        o = op("publish", k=k, t=t, m=self.msg(), qos=q, retain=self.r.random() < p.get("retain", 0.0))
        if q > 0:
            o["pid"] = self.pid(k) + 100
        if p.get("empty_payload") and o["retain"] and self.r.random() < p["empty_payload"]:
            o["m"] = ""
        if self.ver[k] == 5 and p.get("props") and self.r.random() < p["props"]:
            o.update(ct="text/x", rt="reply/" + c, cd="cd" + o["m"], up=[["k1", "v1"], ["k1", "v2"]][: self.r.randint(1, 2)])
        if self.ver[k] == 5 and p.get("mei"):
            o["mei"] = self.r.choice(p["mei"])
        if p.get("pad") and self.r.random() < p["pad"]:
            o["pad"] = self.r.choice(p.get("pads", [40, 200]))
        if self.ver[k] == 5 and p.get("in_alias") and self.r.random() < p["in_alias"]:
            # inbound aliases: bind, reuse (empty topic), rebind, and the two invalid uses
            kind = self.r.choice(["bind", "bind", "rebind", "use", "use", "unbound", "toobig"])
            bound = self.__dict__.setdefault("bound", {}).setdefault(k, {})
            if kind == "bind":
                a = self.r.randint(1, p.get("alias_max", 2))
                o["alias"] = a
                bound[a] = t
            elif kind == "rebind" and bound:
                a = self.r.choice(sorted(bound))        # an alias that is bound already gets another topic
                if bound[a] != t:
                    o["alias"] = a
                    bound[a] = t
            elif kind == "use" and bound:
                a = self.r.choice(sorted(bound))
                o.update(alias=a, notopic=True, t=bound[a])
            elif kind == "unbound":
                o.update(alias=p.get("alias_max", 2), notopic=True) if p.get("alias_max", 2) not in bound else None
            elif kind == "toobig":
                o["alias"] = p.get("alias_max", 2) + 1
        ack_off = kw.pop("ack_off", False)
        o.update(kw)
        if o.get("qos", 0) == 0:
            o.pop("pid", None)
            q = 0
        self.ops.append(o)
        if ack_off:
            return o
        if q == 2 and self.r.random() < p.get("p_rel", 1.0):
            self.ops.append(op("pubrel", k=k, pid=o["pid"]))
        if p.get("ack", True) and self.r.random() < p.get("p_ack", 1.0):
            for d, kk in list(self.conn.items()):
                self.ops.append(op("ackall", k=kk))
        return o

    def disconnect(self, c):
        k = self.k(c)
        if not k:
            return
        if self.r.random() < 0.5:
            self.ops.append(op("disconnect", k=k, rc=0))
        else:
            self.ops.append(op("netdrop", k=k))
        del self.conn[c]


def routing_history(rng, prof):
    g = Gen(rng, prof)
    clients = prof.get("clients", ["c1", "c2", "c3", "c4"])
    for c in clients[: rng.randint(2, len(clients))]:
        g.connect(c)
    n = rng.randint(*prof.get("len", (12, 40)))
    w = prof.get("weights", dict(subscribe=5, unsubscribe=1, publish=8, disconnect=1, connect=2))
    names = list(w)
    for _ in range(n):
        a = rng.choices(names, [w[x] for x in names])[0]
        c = rng.choice(clients)
        if a == "connect":
            g.connect(c)
        elif a == "subscribe":
            g.subscribe(c)
        elif a == "unsubscribe":
            g.unsubscribe(c)
        elif a == "publish":
            g.publish(c)
        elif a == "disconnect":
            g.disconnect(c)
        elif a == "tick":
            g.ops.append(op("tick", kind=rng.choice(prof.get("ticks", ["clients"])), dt=rng.choice(prof.get("dts", [0, 100]))))
        elif a == "stall_burst":
            # a subscriber stops reading while messages for it keep coming, then reads again
            live = [x for x in clients if g.k(x)]
            if len(live) >= 2:
                c = rng.choice(live)
                pubr = rng.choice([x for x in live if x != c])
                g.ops.append(op("stall", k=g.k(c), kind="on"))
                for _ in range(rng.randint(2, 6)):
                    g.publish(pubr, qos=0, ack_off=True)
                g.ops.append(op("stall", k=g.k(c), kind="off"))
                g.ops.append(op("ping", k=g.k(c)))
        elif a == "overlap_subid":
            # two overlapping subscriptions of one client with different identifiers; messages that match both, one, both
            live = [x for x in clients if g.k(x) and g.ver[g.k(x)] == 5]
            pubs = [x for x in clients if g.k(x)]
            if live and len(pubs) >= 2:
                c = rng.choice(live)
                pubr = rng.choice([x for x in pubs if x != c])
                f1, f2, both, one = rng.choice([(["a", "#"], ["a", "+"], ["a", "b"], ["a", "b", "c"]), (["#"], ["a"], ["a"], ["b"]),
                                                (["+", "b"], ["a", "b"], ["a", "b"], ["b", "b"]), (["a", "#"], ["a"], ["a"], ["a", "a"])])
                i1, i2 = rng.sample(range(1, 9), 2)
                for f, i in ((f1, i1), (f2, i2)):
                    g.ops.append(op("subscribe", k=g.k(c), pid=g.pid(g.k(c)), subid=i, filters=[dict(f=f, qos=rng.choice([0, 1]), nl=False, rap=False, rh=2)]))
                    g.subs.setdefault(c, []).append(f)
                for t in (both, one, both, one):
                    g.ops.append(op("publish", k=g.k(pubr), t=t, m=g.msg(), qos=0))
        elif a == "alias_rebind":
            # an inbound alias bound to one topic, bound again to another, then used with an empty topic
            live = [x for x in clients if g.k(x) and g.ver[g.k(x)] == 5]
            if live:
                c = rng.choice(live)
                ta, tb = rng.sample(prof.get("topics", TOPICS[:4]), 2)
                al = rng.randint(1, prof.get("alias_max", 2))
                g.ops.append(op("publish", k=g.k(c), t=ta, m=g.msg(), qos=0, alias=al))
                g.ops.append(op("publish", k=g.k(c), t=tb, m=g.msg(), qos=0, alias=al))
                g.ops.append(op("publish", k=g.k(c), t=tb, m=g.msg(), qos=0, alias=al, notopic=True))
                g.__dict__.setdefault("bound", {}).setdefault(g.k(c), {})[al] = tb
        elif a == "alias_resume":
            # an unacknowledged QoS 1 delivery that BOUND an outbound alias is resumed by a connection with a smaller Topic Alias Maximum
            pubs = [x for x in clients if g.k(x)]
            if len(pubs) >= 2:
                c = rng.choice(pubs)
                pubr = rng.choice([x for x in pubs if x != c])
                f = rng.choice([["a"], ["a", "b"]])
                g.connect(c, v=5, clean=True, sei=300, tam=2)
                g.ops.append(op("subscribe", k=g.k(c), pid=g.pid(g.k(c)), filters=[dict(f=f, qos=1, nl=False, rap=False, rh=0)]))
                g.subs.setdefault(c, []).append(f)
                g.ops.append(op("publish", k=g.k(pubr), t=f, m=g.msg(), qos=1, pid=g.pid(g.k(pubr)) + 100))
                g.ops.append(op("netdrop", k=g.k(c)))
                del g.conn[c]
                g.connect(c, v=5, clean=False, sei=300, tam=rng.choice([0, 0, 1]))
                g.ops.append(op("ackall", k=g.k(c)))
        elif a == "version_switch":
            # a persistent session with an unacknowledged QoS 1 delivery is resumed by a connection of the other protocol version
            pubs = [x for x in clients if g.k(x)]
            if len(pubs) >= 2:
                c = rng.choice(pubs)
                pubr = rng.choice([x for x in pubs if x != c])
                v1 = rng.choice([5, 4])
                f = rng.choice([["a"], ["a", "b"]])
                g.connect(c, v=v1, clean=True, sei=300)
                g.ops.append(op("subscribe", k=g.k(c), pid=g.pid(g.k(c)), filters=[dict(f=f, qos=1, nl=False, rap=False, rh=0)]))
                g.subs.setdefault(c, []).append(f)
                g.ops.append(op("publish", k=g.k(pubr), t=f, m=g.msg(), qos=1, pid=g.pid(g.k(pubr)) + 100))
                g.ops.append(op("netdrop", k=g.k(c)))
                del g.conn[c]
                g.connect(c, v=9 - v1, clean=False, sei=300)
                g.ops.append(op("ackall", k=g.k(c)))
        elif a == "size_sweep":
            # a subscriber with a Maximum Packet Size takes a run of messages whose sizes step through the limit byte by byte
            live = [x for x in clients if g.k(x)]
            if len(live) >= 2:
                c = rng.choice(live)
                pubr = rng.choice([x for x in live if x != c])
                mps = rng.choice([40, 60])
                f = rng.choice([["a"], ["a", "b"], ["a", "b", "c"]])
                g.connect(c, v=5, mps=mps, clean=True)
                g.ops.append(op("subscribe", k=g.k(c), pid=g.pid(g.k(c)), filters=[dict(f=f, qos=0, nl=False, rap=False, rh=0)]))
                g.subs.setdefault(c, []).append(f)
                for pad in range(mps - 30, mps - 7):
                    g.ops.append(op("publish", k=g.k(pubr), t=f, m=g.msg(), qos=0, pad=pad))
        elif a == "foreign_unsub":
            # a client unsubscribes from a share filter it does not hold: same filter path as somebody's shared
            # subscription, another group (or its own id in that group) - nobody else's subscription may be affected
            held = [(cc, f) for cc in clients for f in g.subs.get(cc, []) if f and f[0] == "$share"]
            live = [cc for cc in clients if g.k(cc)]
            if held and live:
                cc, f = rng.choice(held)
                other = rng.choice(live)
                grp = rng.choice(["g", "h", "zz"])
                ff = ["$share", grp] + list(f[2:])
                if not (other == cc and ff == f) and ff not in g.subs.get(other, []):
                    k = g.k(other)
                    g.ops.append(op("unsubscribe", k=k, pid=g.pid(k), filters=[dict(f=ff, qos=0, nl=False, rap=False, rh=0)]))
                    g.publish(rng.choice(live))
        elif a == "dup_publish":
            # retransmission (DUP) of a QoS 2 PUBLISH whose PUBREL has not been sent yet
            cands = [o for o in g.ops if o["op"] == "publish" and o.get("qos") == 2 and g.conn.get(next((cc for cc, kk in g.conn.items() if kk == o["k"]), None)) == o["k"]
                     and not any(r["op"] == "pubrel" and r["k"] == o["k"] and r["pid"] == o["pid"] for r in g.ops)]
            if cands:
                o = dict(rng.choice(cands), dup=True)
                g.ops.append(o)
                if rng.random() < 0.5:
                    g.ops.append(op("pubrel", k=o["k"], pid=o["pid"]))
        elif a == "resub_resume":
            # a client changes the options of a subscription it holds, then resumes its session on a new connection
            have = [x for x in clients if g.subs.get(x) and g.k(x)]
            if have:
                c = rng.choice(have)
                k = g.k(c)
                f = rng.choice(g.subs[c])
                so = dict(f=f, qos=rng.choice(prof.get("sub_qos", [0, 1, 2])), nl=False, rap=False, rh=0)
                if g.ver[k] == 5:
                    so["rap"] = rng.random() < 0.5
                o = op("subscribe", k=k, pid=g.pid(k), filters=[so])
                if g.ver[k] == 5 and rng.random() < 0.7:
                    o["subid"] = rng.randint(1, 9)
                g.ops.append(o)
                if rng.random() < 0.5:
                    g.ops.append(op("netdrop", k=k))
                    del g.conn[c]
                g.connect(c, clean=False, v=g.ver[k], sei=300)
                g.publish(rng.choice(clients))
        elif a == "resub_clean":
            # a client that holds subscriptions comes back with Clean Start 1 (live takeover or after a drop) and
            # subscribes to one of its old filters again
            have = [x for x in clients if g.subs.get(x)]
            if have:
                c = rng.choice(have)
                f = rng.choice(g.subs[c])
                if g.k(c) and rng.random() < 0.5:
                    g.ops.append(op("netdrop", k=g.k(c)))
                    del g.conn[c]
                k = g.connect(c, clean=True)
                so = dict(f=f, qos=rng.choice(prof.get("sub_qos", [0, 1, 2])), nl=False, rap=False, rh=0)
                if g.ver[k] == 5 and prof.get("rh"):
                    so["rh"] = rng.choice(prof["rh"])
                g.subs.setdefault(c, []).append(f)
                g.ops.append(op("subscribe", k=k, pid=g.pid(k), filters=[so]))
        elif a == "inline_publish":
            g.ops.append(op("inline_publish", t=rng.choice(prof.get("topics", TOPICS)), m=g.msg(), qos=rng.choice([0, 1, 2]),
                            retain=rng.random() < prof.get("retain", 0.0)))
            for d, kk in list(g.conn.items()):
                g.ops.append(op("ackall", k=kk))
        elif a == "inline_subscribe":
            f = rng.choice(prof.get("filters", FILTERS))
            o = op("inline_subscribe", t=f, inline_id=rng.randint(1, 3))
            cand = [t for t in prof.get("topics", TOPICS) if _matches(f, t)]
            if cand and rng.random() < 0.6:     # a publication while the new subscription receives its retained messages
                o.update(dur_m=g.msg(), dur_t=rng.choice(cand))
            g.ops.append(o)
        elif a == "inline_unsubscribe":
            g.ops.append(op("inline_unsubscribe", t=rng.choice(prof.get("filters", FILTERS)), inline_id=rng.randint(1, 3)))
    return g.ops


def random_acl(rng, clients, topics, filters, n):
    dr, dw = [], []
    for _ in range(n):
        c = rng.choice(clients)
        if rng.random() < 0.5:
            x = rng.choice(topics + filters)
            dr.append([c, "/".join(x)])
        else:
            dw.append([c, "/".join(rng.choice(topics))])
    return dr, dw


def qos_history(rng, prof):
    """QoS 1/2 flows in both directions: selective acknowledgements, reconnects, takeovers, flow control."""
    g = Gen(rng, dict(prof, ack=False))
    subs = prof.get("subscribers", ["c2", "c3"])
    pubs = prof.get("publishers", ["c1"])
    topics = prof.get("topics", [["a"], ["b"], ["a", "b"]])
    for c in pubs:
        g.connect(c, v=rng.choice(prof.get("pub_versions", [5, 4])), clean=True)
    for c in subs:
        g.connect(c, v=rng.choice(prof.get("sub_versions", [5, 5, 4])), clean=rng.random() < 0.3)
        k = g.k(c)
        fs = [dict(f=rng.choice(prof.get("filters", [["a"], ["#"], ["a", "#"], ["+"], ["b"]])), qos=rng.choice(prof.get("sub_qos", [1, 2])), nl=False, rap=False, rh=0)]
        g.ops.append(op("subscribe", k=k, pid=g.pid(k), filters=fs))
    n = rng.randint(*prof.get("len", (15, 45)))
    w = prof.get("weights", dict(publish=10, ack=10, reconnect=2, drop=1, ping=1, collide=0, dup2=0, rel=3, takeover=1, tick=0))
    names = list(w)
    open2 = {}   # publisher -> list of (pid, topic, m) of own QoS 2 publishes not yet released

    def rmkw():     # a reconnecting client may announce another Receive Maximum than before
        return dict(rm=rng.choice(prof["rm_reconnect"])) if prof.get("rm_reconnect") else {}

    def client_pid(k):  # the client's own packet identifiers: normally far from the broker's, sometimes the same small numbers
        if rng.random() < prof.get("p_low_pid", 0.0):
            busy = {p for lst in open2.values() for p, _, _ in lst}
            free = [x for x in range(1, 5) if x not in busy]
            if free:
                return rng.choice(free)
        return g.pid(k) + 100
    if prof.get("pubs_subscribe"):
        for c in pubs:
            k = g.k(c)
            g.ops.append(op("subscribe", k=k, pid=g.pid(k), filters=[dict(f=rng.choice([["a"], ["#"], ["b"]]), qos=rng.choice([1, 2]), nl=False, rap=False, rh=0)]))
    for _ in range(n):
        a = rng.choices(names, [w[x] for x in names])[0]
        if a == "publish":
            c = rng.choice(pubs + (subs if prof.get("subs_publish") else []))
            k = g.k(c)
            if not k:
                g.connect(c, clean=False)
                continue
            q = rng.choice(prof.get("qos", [0, 1, 1, 2, 2]))
            o = op("publish", k=k, t=rng.choice(topics), m=g.msg(), qos=q)
            if q > 0:
                o["pid"] = client_pid(k)
            if g.ver[k] == 5 and prof.get("mei"):
                o["mei"] = rng.choice(prof["mei"])
            g.ops.append(o)
            if q == 2:
                if rng.random() < prof.get("p_rel_now", 0.6):
                    g.ops.append(op("pubrel", k=k, pid=o["pid"]))
                else:
                    open2.setdefault(c, []).append((o["pid"], o["t"], o["m"]))
        elif a == "pubrec_drop":
            # a QoS 2 delivery; the subscriber's PUBREC is the last thing its connection sends (the broker cannot write the
            # PUBREL); the session is resumed: the exchange goes on from where the broker's record stands
            c, pc = rng.choice(subs), rng.choice(pubs)
            if not g.k(c) or not g.k(pc):
                continue
            o = op("publish", k=g.k(pc), t=rng.choice(topics), m=g.msg(), qos=2)
            o["pid"] = client_pid(g.k(pc))
            g.ops.append(o)
            g.ops.append(op("pubrel", k=g.k(pc), pid=o["pid"]))
            g.ops.append(op("pubrec", k=g.k(c), nth=1, rc=0, drop=True))
            del g.conn[c]
            g.connect(c, clean=False, sei=300, **rmkw())
        elif a == "dup2":       # retransmit an open QoS 2 publish (DUP), possibly after a reconnect
            cands = [c for c in open2 if open2[c]]
            if not cands:
                continue
            c = rng.choice(cands)
            if rng.random() < 0.4 or not g.k(c):
                if g.k(c):
                    g.ops.append(op("netdrop", k=g.k(c)))
                    del g.conn[c]
                g.connect(c, clean=False, sei=300)
            pid, t, m = rng.choice(open2[c])
            g.ops.append(op("publish", k=g.k(c), t=t, m=m, qos=2, pid=pid, dup=True))
        elif a == "rel":
            cands = [c for c in open2 if open2[c] and g.k(c)]
            if not cands:
                continue
            c = rng.choice(cands)
            pid, t, m = open2[c].pop(rng.randrange(len(open2[c])))
            g.ops.append(op("pubrel", k=g.k(c), pid=pid))
        elif a == "ack":
            c = rng.choice(subs)
            k = g.k(c)
            if not k:
                continue
            kind = rng.choice(["puback", "puback", "pubrec", "pubcomp", "pubcomp", "ackall"])
            if kind == "ackall":
                g.ops.append(op("ackall", k=k))
            else:
                o = op(kind, k=k, nth=rng.randint(1, 2), rc=(0 if rng.random() < 0.93 else 0x80) if kind == "pubrec" else 0)
                if rng.random() < prof.get("p_ackdrop", 0.0):
                    # the connection ends right after the acknowledgement was written (the broker cannot answer it)
                    o["drop"] = True
                    del g.conn[c]
                g.ops.append(o)
        elif a == "reconnect":
            c = rng.choice(subs)
            if g.k(c):
                g.ops.append(op("netdrop", k=g.k(c)))
                del g.conn[c]
            g.connect(c, clean=rng.random() < prof.get("p_clean_reconnect", 0.15), sei=300, **rmkw())
        elif a == "takeover":
            c = rng.choice(subs)
            g.connect(c, clean=rng.random() < prof.get("p_clean_reconnect", 0.15), sei=300, **rmkw())
        elif a == "drop":
            c = rng.choice(subs)
            if g.k(c):
                g.ops.append(op("netdrop", k=g.k(c)))
                del g.conn[c]
        elif a == "ping":
            c = rng.choice(subs + pubs)
            if g.k(c):
                g.ops.append(op("ping", k=g.k(c)))
        elif a == "collide":    # the client publishes with an identifier the broker is using towards it
            c = rng.choice(subs)
            k = g.k(c)
            if not k:
                continue
            g.ops.append(op("publish", k=k, t=["z"], m=g.msg(), qos=rng.choice([1, 2]), pid=rng.randint(1, prof.get("collide_max", 3))))
        elif a == "tick":
            g.ops.append(op("tick", kind=rng.choice(prof.get("ticks", ["inflight"])), dt=rng.choice(prof.get("dts", [0, 50]))))
        elif a == "stall_burst":
            # a subscriber stops reading for a while: messages of different sizes pile up in the broker's queue for it
            c = rng.choice(subs)
            k, pk = g.k(c), g.k(pubs[0])
            if k and pk:
                g.ops.append(op("stall", k=k, kind="on"))
                for _ in range(rng.randint(3, 5)):
                    o = op("publish", k=pk, t=topics[0], m=g.msg(), qos=rng.choice(prof.get("burst_qos", [0])), pad=rng.choice(prof.get("burst_pads", [0, 0, 30, 3000])))
                    if o["qos"] > 0:
                        o["pid"] = client_pid(pk)
                    g.ops.append(o)
                g.ops.append(op("stall", k=k, kind="off"))
                g.ops.append(op("ping", k=k))
    if prof.get("drain"):
        for c in subs + pubs:
            if not g.k(c):
                g.connect(c, clean=False, sei=300)
        for c, plist in open2.items():
            for pid, t, m in plist:
                if g.k(c):
                    g.ops.append(op("pubrel", k=g.k(c), pid=pid))
        for _ in range(prof.get("drain_rounds", 6)):
            for c in subs + pubs:
                g.ops.append(op("ackall", k=g.k(c)))
        g.ops.append(op("mark", kind="drained"))
    return g.ops


def session_history(rng, prof):
    """connect / reconnect / takeover / expiry / will histories (C13-C16)."""
    g = Gen(rng, dict(prof, ack=False))
    clients = prof.get("clients", ["c1", "c2", "c3"])
    topics = prof.get("topics", [["a"], ["b"], ["w", "c1"], ["w", "c2"]])
    # an observer that sees wills and stale deliveries
    g.connect("obs", v=5, clean=True, sei=0)
    g.ops.append(op("subscribe", k=g.k("obs"), pid=g.pid("x"), filters=[dict(f=["#"], qos=rng.choice([0, 1]), nl=False, rap=False, rh=2)]))
    n = rng.randint(*prof.get("len", (14, 40)))
    w = prof.get("weights", dict(connect=8, subscribe=4, publish=5, disconnect=3, netdrop=3, disc04=1, proto_err=1, tick_clients=3,
                                 tick_wills=2, takeover=2, bad_connect=0, ackall=1, disc_sei=1))
    names = list(w)
    for _ in range(n):
        a = rng.choices(names, [w[x] for x in names])[0]
        c = rng.choice(clients)
        k = g.k(c)
        if a == "connect" or (a == "takeover" and not k):
            if k:
                continue
            kw = {}
            if prof.get("wills") and rng.random() < prof["wills"]:
                kw["will"] = dict(t=["w", c], m=g.msg(), qos=rng.choice([0, 1]), retain=rng.random() < 0.2, delay=rng.choice(prof.get("will_delay", [0, 0, 20])))
            g.connect(c, **kw)
        elif a == "takeover":
            kw = {}
            if prof.get("wills") and rng.random() < prof["wills"]:
                kw["will"] = dict(t=["w", c], m=g.msg(), qos=rng.choice([0, 1]), retain=False, delay=rng.choice(prof.get("will_delay", [0, 0, 20])))
            g.connect(c, **kw)
        elif a == "clean_v3_takeover":
            # a LIVE MQTT 3 clean session (subscription + unacknowledged delivery) is taken over by a connection of either
            # version with Clean Start 0: nothing of it may be inherited (directed: random takeovers rarely line this up)
            if k:
                g.ops.append(op("netdrop", k=k))
                del g.conn[c]
            k1 = g.connect(c, v=rng.choice([4, 4, 3]), clean=True)
            f = rng.choice([["a"], ["b"]])
            g.ops.append(op("subscribe", k=k1, pid=g.pid(k1), filters=[dict(f=f, qos=1, nl=False, rap=False, rh=0)]))
            g.ops.append(op("publish", k=g.k("obs"), t=f, m=g.msg(), qos=1, pid=g.pid(g.k("obs")) + 100))
            g.connect(c, v=rng.choice([5, 5, 4]), clean=False, sei=300)
            g.ops.append(op("publish", k=g.k("obs"), t=f, m=g.msg(), qos=1, pid=g.pid(g.k("obs")) + 100))
        elif a == "subscribe" and k:
            g.ops.append(op("subscribe", k=k, pid=g.pid(k), filters=[dict(f=rng.choice([["a"], ["b"], ["a", "#"], ["+"]]), qos=rng.choice([0, 1, 2]), nl=False, rap=False, rh=0)]))
        elif a == "publish":
            p = rng.choice(clients + ["obs"])
            if g.k(p):
                q = rng.choice([0, 1])
                o = op("publish", k=g.k(p), t=rng.choice(topics[:2]), m=g.msg(), qos=q)
                if q:
                    o["pid"] = g.pid(k) + 100
                g.ops.append(o)
        elif a == "disconnect" and k:
            g.ops.append(op("disconnect", k=k, rc=0))
            del g.conn[c]
        elif a == "disc_sei" and k and g.ver[k] == 5:
            g.ops.append(op("disconnect", k=k, rc=0, sei=rng.choice([0, 30, 100])))
            del g.conn[c]
        elif a == "disc04" and k and g.ver[k] == 5:
            g.ops.append(op("disconnect", k=k, rc=4, short=rng.random() < 0.5))
            del g.conn[c]
        elif a == "netdrop" and k:
            g.ops.append(op("netdrop", k=k))
            del g.conn[c]
        elif a == "proto_err" and k:
            g.ops.append(op("raw", k=k, hex="f000"))     # reserved packet type 15 for v3/4, bad AUTH for v5: protocol error
            del g.conn[c]
        elif a == "tick_clients":
            g.ops.append(op("tick", kind="clients", dt=rng.choice(prof.get("dts", [0, 10, 40, 70, 120, 250, 400]))))
        elif a == "tick_wills":
            g.ops.append(op("tick", kind="wills", dt=rng.choice(prof.get("wdts", [0, 10, 30, 60]))))
        elif a == "expiry_round":
            # housekeeping as the event loop runs it: sessions, then wills, and the wills again one tick later
            dt = rng.choice([40, 70, 120, 250, 400])
            g.ops.append(op("tick", kind="clients", dt=dt))
            g.ops.append(op("tick", kind="wills", dt=dt))
            g.ops.append(op("tick", kind="wills", dt=dt + 1))
        elif a == "ackall":
            for d, kk in list(g.conn.items()):
                g.ops.append(op("ackall", k=kk))
        elif a == "bad_connect":
            g.nk += 1
            kk = "k%d" % g.nk
            kind = rng.choice(["proto", "flags", "emptyid", "willqos", "version", "denied", "first_not_connect", "willflags", "pw_no_user", "ok_userpass"])
            o = op("connect", k=kk, id=c + "x", v=rng.choice([4, 5]), clean=True)
            if kind == "proto":
                o["proto"] = rng.choice(["MQTX", "MQIsdp" if o["v"] != 3 else "MQTT"])
            elif kind == "flags":
                o["rawflags"] = rng.choice([3, 1, 0x0A, 0x22, 0x12])     # reserved bit; will qos / will retain without will flag
            elif kind == "emptyid":
                o.update(id="", v=4, clean=False)
            elif kind == "willqos":
                o["will"] = dict(t=["w", "x"], m=g.msg(), qos=2, retain=True, delay=0)
            elif kind == "version":
                o["v"] = 3
            elif kind == "denied":
                o["id"] = "denied"
            elif kind == "first_not_connect":
                o["hex"] = rng.choice(["c000", "30020000", "e000"])
            elif kind == "pw_no_user":
                o["pass"] = "pw"
            elif kind == "ok_userpass":
                o.update(user="u", **{"pass": "pw"})
            elif kind == "willflags":
                o["rawflags"] = 0x1A      # will qos 3 without will flag, clean
            g.ops.append(o)
    return g.ops
