"""The retained-message housekeeping against a concurrent retained publish (spec/RetainExpiry.tla), part of C05.

(A) TLC: the reference satisfies FreshKept; the deviation DeleteByTopic (the code before its repair) is refuted.   cached
(B) tlc -simulate behaviours + one directed schedule.
(C) harness/cmd/vretain runs them on a real server (housekeeping parked at retained.expiring; the stored message is aged through a
    probe accessor); TraceRetainExpiry follows the model and evaluates the C05 rules."""
import fcntl, glob, hashlib, json, os, re, shutil, subprocess, sys, time

from vlib import VERIF, Inconclusive

SPEC = os.path.join(VERIF, "spec")
TLA_CP = "/opt/veriftools/tla/tla2tools.jar:/opt/veriftools/tla/CommunityModules-deps.jar"
WITNESSES = [dict(name="witness/publish-during-expiry", steps=[["env", "pub", 1], ["env", "age", 1], ["hk", "tick", "retained.expiring"], ["env", "pub", 2],
                                                               ["hk", "finish", "returned"], ["env", "sub", 2]])]


def _tlc(cfg, d):
    os.makedirs(os.path.join(d, "_jtmp"), exist_ok=True)
    args = ["java", "-Xss64m", "-Xmx2g", "-Djava.io.tmpdir=" + os.path.join(d, "_jtmp"), "-cp", TLA_CP, "tlc2.TLC", "-metadir", os.path.join(d, "_meta_" + cfg),
            "-config", cfg + ".cfg", "-workers", "2", "-noGenerateSpecTE", "MC_RetainExpiry.tla"]
    try:
        r = subprocess.run(args, cwd=d, capture_output=True, text=True, timeout=600, env=dict(os.environ, VERIF_OUT=d))
    except subprocess.TimeoutExpired:
        raise Inconclusive("TLC timeout on RetainExpiry configuration %s" % cfg)
    return r.stdout + r.stderr


def design(ctx):
    hh = hashlib.sha1()
    files = ["RetainExpiry.tla", "MC_RetainExpiry.tla", "MC_RetainExpiry_ref.cfg", "MC_RetainExpiry_dev_DeleteByTopic.cfg"]
    for fn in files:
        hh.update(open(os.path.join(SPEC, fn), "rb").read())
    cdir = os.path.join(VERIF, ".work", "_design")
    os.makedirs(cdir, exist_ok=True)
    key = "retain_" + hh.hexdigest()[:12]
    cfile = os.path.join(cdir, key + ".json")
    lock = open(os.path.join(cdir, key + ".lock"), "w")
    fcntl.flock(lock, fcntl.LOCK_EX)
    try:
        if os.path.exists(cfile) and not os.environ.get("VERIF_NO_DESIGN_CACHE"):
            return json.load(open(cfile))
        d = os.path.join(cdir, key + ".run")
        shutil.rmtree(d, ignore_errors=True)
        os.makedirs(d)
        for fn in files:
            shutil.copy(os.path.join(SPEC, fn), d)
        out = _tlc("MC_RetainExpiry_ref", d)
        m = re.search(r"(\d+) states generated, (\d+) distinct states found", out)
        if "No error has been found" not in out or not m:
            sys.stderr.write(out[-2000:])
            raise Inconclusive("RetainExpiry.tla reference: TLC did not complete cleanly")
        o = _tlc("MC_RetainExpiry_dev_DeleteByTopic", d)
        mm = re.search(r"Invariant (\w+) is violated", o)
        if not mm:
            sys.stderr.write(o[-2000:])
            raise Inconclusive("RetainExpiry.tla with deviation DeleteByTopic: no counterexample")
        shutil.rmtree(d, ignore_errors=True)
        c = dict(distinct=int(m.group(2)), refuted={"DeleteByTopic": mm.group(1)})
        json.dump(c, open(cfile, "w"))
        return c
    finally:
        fcntl.flock(lock, fcntl.LOCK_UN)


def add_to(ctx):
    des = design(ctx)
    out = ctx.path("gen", "retain", "x")[:-2]
    r = ctx.tlc("MC_RetainExpiry", "Gen_RetainExpiry.cfg", name="gen_retain", workers=1, heap="2g", timeout=600,
                simulate="num=%d" % (150 if ctx.quick else 3000), depth=14, extra=["-seed", str(ctx.seed * 32452843 + 3)], env={"VERIF_OUT": out})
    if r.rc != 0:
        sys.stderr.write(r.tail(30))
        raise Inconclusive("Gen_RetainExpiry failed")
    seen, scs = set(), [dict(w) for w in WITNESSES]
    for f in sorted(glob.glob(os.path.join(out, "b_*.json"))):
        h = json.load(open(f))["hist"]
        k = json.dumps(h)
        if k not in seen:
            seen.add(k)
            scs.append(dict(name="sim/" + os.path.basename(f)[:-5], steps=h))
    vr = ctx.go_build("vretain")
    sfile, tfile, vfile = ctx.path("gen", "retain_scen.json"), ctx.path("traces", "retain.ndjson"), ctx.path("gen", "retain_verdict.json")
    json.dump(scs, open(sfile, "w"))
    ctx.run([vr, "run", sfile, tfile], timeout=1800)
    t = ctx.tlc("TraceRetainExpiry", "TraceRetainExpiry.cfg", name="trace_retain", workers=1, heap="2g", timeout=900, env={"VERIF_TRACE": tfile, "VERIF_OUT": vfile})
    if not os.path.exists(vfile):
        sys.stderr.write(t.tail(40))
        raise Inconclusive("TraceRetainExpiry produced no verdict")
    lines = [json.loads(x) for x in open(tfile)]
    by_name = {s["name"]: s for s in scs}
    steps = sum(1 for e in lines if e["ev"] == "step")
    conf, rules = [], {}
    for b in json.load(open(vfile))["bad"]:
        for c in b["complaints"]:
            if c.startswith("conf."):
                conf.append((b["scen"], b["line"], c))
            else:
                rules[c] = rules.get(c, 0) + 1
                if len(ctx.violations) < 10:
                    ctx.violation("%s in housekeeping schedule %s at line %s (%s %s)" % (c, b["scen"], b["line"] - b["start"], b["who"], b["what"]),
                                  dict(kind="retain", rule=c, scenario=by_name.get(b["scen"], {}), recorded=lines[b["start"] - 1:b["line"]][-8:]))
    ctx.log("retained housekeeping: %d schedules, %d steps on a real server, %d not followed by the model; rules raised: %s" % (len(scs), steps, len(conf), rules))
    if conf and not ctx.violations:
        raise Inconclusive("the model (RetainExpiry.tla) does not describe %d recorded steps, e.g. %s" % (len(conf), conf[:3]))
    ctx.cov["traces_validated_against_impl"] = ctx.cov.get("traces_validated_against_impl", 0) + len(scs)
    ctx.cov["evaluations"] = ctx.cov.get("evaluations", 0) + steps
    ctx.cov["distinct_nontrivial"] = ctx.cov.get("distinct_nontrivial", 0) + len(scs)
    ctx.cov["rule"] = ctx.cov.get("rule", "") + (
        "; PLUS RetainExpiry.tla (retained-message housekeeping on a snapshot against a concurrent retained publish; %d states, FreshKept; deviation refuted: %s): "
        "%d distinct schedules run on a real server with the housekeeping parked at retained.expiring, %d steps followed by the model (TraceRetainExpiry) and judged by "
        "C05.fresh-retained-message-lost / -not-replayed" % (des["distinct"], des["refuted"], len(scs), steps))
    ctx.assumptions += ["housekeeping schedules: one topic; the stored message is aged through the probe accessor VerifAgeRetained instead of waiting"]
