"""Component family: four self-contained components, each with its own small TLA+ model that TLC
(a) model-checks exhaustively with small constants and (b) uses to judge what the real code did.

C41 buffer pool (BufPool.tla / TraceBufPool.tla)         C31 topic index under concurrency (TopicIndexConc.tla)
C37 keepalive  (Keepalive.tla / GenKeepalive / Trace..)  C39 WebSocket transparency (WsStream.tla / Gen.. / Trace..)

The Go side (harness/cmd/vcomp) only drives the real code and records; every verdict is TLC's."""
import json, os, sys, time, glob
from concurrent.futures import ThreadPoolExecutor
from vlib import Inconclusive


# ------------------------------------------------------------------------------------------ helpers
def _vcomp(ctx):
    b = getattr(ctx, "_vcomp", None)
    if not b:
        b = ctx._vcomp = ctx.go_build("vcomp")
    return b


def _design(ctx, module, cfg, expect_violation=None, workers="auto", timeout=900, coverage=False, deque=False):
    """model-check a design config; with expect_violation=<invariant> TLC must REFUTE that invariant
    (faulty variant of the model: shows the invariant is not vacuous)"""
    r = ctx.tlc(module, cfg, name="mc_" + os.path.splitext(cfg)[0], workers=workers, timeout=timeout,
                coverage=coverage, deque=deque)
    if expect_violation is None:
        r.require_ok("design config %s" % cfg)
        ctx.log("TLC %s/%s: %d states, %d distinct, no error (%.1fs)" % (module, cfg, r.generated, r.distinct, r.wall))
    else:
        names = [expect_violation] if isinstance(expect_violation, str) else list(expect_violation)
        if not any(("Invariant %s is violated" % n) in r.out for n in names):
            sys.stderr.write(r.tail(30) + "\n")
            raise Inconclusive("faulty variant %s was expected to violate %s and did not" % (cfg, expect_violation))
        ctx.log("TLC %s/%s: faulty variant refuted (%s violated) as expected" % (module, cfg, expect_violation))
    return r


def _judge(ctx, module, cfg, name, env, timeout=900, heap="4g", deque=False):
    """run a trace spec (one TLC process, 1 worker); returns (verdict json, TlcResult)"""
    out = ctx.path("gen", name + "_verdict.json")
    if os.path.exists(out):
        os.remove(out)
    e = dict(env)
    e["VERIF_OUT"] = out
    r = ctx.tlc(module, cfg, name=name, workers=1, timeout=timeout, heap=heap, env=e, deque=deque)
    if not os.path.exists(out):
        sys.stderr.write(r.tail(40) + "\n")
        raise Inconclusive("TLC produced no verdict for %s (%s)" % (name, module))
    return json.load(open(out)), r


def _parallel(fn, items, n=8):
    with ThreadPoolExecutor(max_workers=n) as ex:
        return list(ex.map(fn, items))


# ------------------------------------------------------------------------------------------ C41
def c41(ctx):
    # (a) the model itself: exhaustive for small constants; the three faulty variants must be refuted
    mc = _design(ctx, "BufPool", "BufPool.cfg")
    states, trans = mc.distinct, mc.generated
    for cfg in ["BufPool_uncapped.cfg"] + ([] if ctx.quick else ["BufPool_big.cfg"]):
        r = _design(ctx, "BufPool", cfg)
        states, trans = states + r.distinct, trans + r.generated
    for cfg, inv in (("BufPool_badget.cfg", "NoSharing"), ("BufPool_badreset.cfg", "HandedOutEmpty"),
                     ("BufPool_badcap.cfg", "CapRespected")):
        _design(ctx, "BufPool", cfg, expect_violation=inv, workers=2)

    # (b) the real pools under concurrent load; TLC judges the complete merged log, cut into
    #     per-buffer-identity projections (the model's state is per buffer, so nothing is lost)
    vc = _vcomp(ctx)
    ops = 10000 if ctx.quick else 1000000
    outdir = ctx.path("traces", "bufpool", "x")[:-2]
    ctx.run([vc, "bufpool", outdir, str(ops), "60000"], timeout=900)
    index = json.load(open(os.path.join(outdir, "index.json")))
    # (c) the broker itself as a user of the default pool (hook mempool.VerifPool): same log format, same judge
    rounds = 12 if ctx.quick else 120
    ctx.run([vc, "brokerpool", outdir, str(rounds)], timeout=900)
    bseg = json.load(open(os.path.join(outdir, "broker_index.json")))
    if bseg["failed_flush_rounds"] < rounds // 2:
        raise Inconclusive("broker pool scenario: the write loop was blocked in only %d of %d rounds" % (bseg["failed_flush_rounds"], rounds))
    if bseg["garbled_rounds"]:
        ctx.violation("broker as pool user: the healthy subscriber received bytes that differ from the encoded packets in %d of %d rounds "
                      "(another client's output buffer shares a pooled buffer)" % (bseg["garbled_rounds"], rounds),
                      {"scenario": "brokerpool", "rounds": rounds, "garbled_rounds": bseg["garbled_rounds"], "seed": ctx.seed})
    jobs = [(seg, f) for seg in index + [bseg] for f in seg["files"]]

    def one(job):
        seg, f = job
        name = "bp_" + os.path.basename(f)[:-7]
        v, r = _judge(ctx, "TraceBufPool", "TraceBufPool.cfg", name, {"VERIF_TRACE": f, "VERIF_CAP": str(seg["cap"])})
        return seg, f, v, r

    res = _parallel(one, jobs, n=8)
    tot = dict(pooled=0, fresh=0, kept=0, discarded=0, dropped=0)
    lines, samples, garbled = 0, [], []
    for seg, f, v, r in res:
        lines += v["lines"]
        states, trans = states + r.distinct, trans + r.generated
        for k in tot:
            tot[k] += v["stats"][k]
        for b in v["bad"]:
            tags = sorted(c["tag"] for c in b["complaints"])
            if tags == ["harness-write"] and not seg.get("broker"):      # only ever follows a real complaint about the same buffer
                garbled.append((b["line"], f))
                continue
            if seg.get("broker"):          # a Put by somebody who does not hold the buffer: returned twice / never taken
                tags = ["put-by-non-holder" if t == "harness-write" else t for t in tags]
            hist = [json.loads(x) for x in open(f)][: b["line"]]
            hist = [e for e in hist if e["b"] == b["ev"]["b"]][-6:]
            ctx.violation("pool cap=%d, %d goroutines: BufPool refuses %s: %s (history of that buffer: %s)" %
                          (seg["cap"], seg["goroutines"], json.dumps(b["ev"]), ",".join(tags), json.dumps(hist)),
                          {"pool_cap": seg["cap"], "goroutines": seg["goroutines"], "event": b["ev"],
                           "complaints": b["complaints"], "buffer_history": hist, "seed": ctx.seed})
            if len(ctx.violations) >= 10:
                break
    if garbled and not ctx.violations:
        raise Inconclusive("log is not a run of the harness protocol (line %d of %s)" % garbled[0])
    for seg in index[::2][:3]:
        d = {k: seg[k] for k in ("cap", "goroutines", "ops", "events", "buffers")}
        d["log_excerpt"] = [json.loads(x) for x in open(seg["files"][0]).readlines()[40:46]]
        samples.append(d)
    samples.append({"hand_outs": tot})
    if not ctx.violations and (tot["pooled"] < 100 or tot["discarded"] < 10 or tot["kept"] < 100):
        raise Inconclusive("run was vacuous: too few re-used / discarded buffers %s" % tot)
    ctx.log("TLC judged %d log lines in %d runs: %s" % (lines, len(jobs), tot))
    ctx.cov.update(
        _level="model_checking", states=states, transitions=trans,
        traces_validated_against_impl=len(jobs), evaluations=lines,
        distinct_nontrivial=tot["pooled"],
        rule="BufPool.tla model-checked exhaustively (3 buffers, 2 holders, sizes 0..2, cap 1 and uncapped%s; 3 faulty variants refuted). "
             "Real pools NewBuffer(0), NewBuffer(64), NewBuffer(1024) each run by %s goroutines holding up to 3 buffers, %d get/write/read-back/put "
             "cycles in total; 'acq' logged after Get, 'rel' before Put with a global atomic sequence number; TLC (TraceBufPool) "
             "validated EVERY line of the merged logs (cut into per-buffer-identity projections, %d TLC runs): each acq must be "
             "GetPooled/GetFresh (not held, Len 0, Cap <= cap), each rel a Write+Put by the holder with its bytes intact. "
             "distinct_nontrivial = hand-outs of a previously pooled buffer (the ones that can be shared / dirty / over cap)."
             % ("" if ctx.quick else ", sizes 0..3 cap 2", "8/16" if ctx.quick else "8/12/16", ops, len(jobs)),
        samples=samples, exhaustive=False, hand_outs=tot, broker_pool_events=bseg["events"], broker_pool_rounds=rounds)
    ctx.cov["rule"] += (" Broker as pool user: %d rounds of a real broker with a subscriber whose connection blocks and then fails every write "
                        "(coalesced output buffer, failed flush, second flush attempt) plus a healthy subscriber compared byte for byte and 64 "
                        "hand-outs to the harness; every GetBuffer/PutBuffer of the default pool logged by hook mempool.VerifPool (%d events), judged "
                        "by the same trace specification (a Put by a non-holder is a complaint)." % (rounds, bseg["events"]))
    ctx.assumptions += ["pointer identity of *bytes.Buffer identifies a buffer object (a collected object's address may come back as a new, empty object: accepted as GetFresh)",
                        "the harness never touches a buffer after Put"]


# ------------------------------------------------------------------------------------------ C31
C31_DEVS = ["UnsubscribeReturnsTrueForNonSubscriber", "InlineUnsubscribeReturnsTrueForNonSubscriber"]


def c31(ctx):
    # (a) design model: the judge's constraints accept every history of the atomic abstract index
    #     (exhaustive, 2 processes x 2 calls); a faulty object must be refuted
    mc = _design(ctx, "TopicIndexConc", "TopicIndexConc_tiny.cfg" if ctx.quick else "TopicIndexConc.cfg", timeout=1500)
    states, trans = mc.distinct, mc.generated
    _design(ctx, "TopicIndexConc", "TopicIndexConc_bug.cfg", expect_violation="WitnessAccepted", workers=2)
    if not ctx.quick:
        r = _design(ctx, "TopicIndexConc", "TopicIndexConc_bugallowed.cfg", timeout=1500)
        states, trans = states + r.distinct, trans + r.generated
    vc = _vcomp(ctx)

    # (b) every sequential history of <= 4 calls, expected returns and final answers from TLC
    table = ctx.path("gen", "seqhist.json")
    alpha = "small" if ctx.quick else "big"
    g = ctx.tlc("GenTopicIndex", "GenTopicIndex.cfg", name="gen_seq", workers=1, heap="12g", timeout=1500,
                env={"VERIF_ALPHA": alpha, "VERIF_DEPTH": "4", "VERIF_OUT": table})
    g.require_ok("sequential history table")
    out = ctx.path("gen", "seqres.json")
    ctx.run([vc, "topics-seq", table, out], timeout=1500)
    res = json.load(open(out))
    rows = res["extra"]["rows"]
    ctx.log("TLC emitted %d sequential histories (alphabet %s); %d calls/queries replayed, %d differ" %
            (rows, alpha, res["evaluations"], res["n_mismatch"]))
    for cname, c in sorted(res["extra"]["classes"].items()):
        dev = c["first"].get("deviation") or ""
        if c["first"]["case"] == "return" and dev in C31_DEVS and c["first"]["expected"] == 0 and c["first"]["got"] == 1 \
                and ctx.known(dev):
            ctx.notes.append("%s reproduced by %d calls of the TLC table, e.g. %s" % (dev, c["n"], c["first"]["history"]))
            continue
        ctx.violation("sequential history: real index differs from TLC (%s, %d cases), first: %s" %
                      (cname, c["n"], json.dumps(c["first"])), c["first"])

    # (c) concurrent batches, one linearization per batch searched by TLC (depth-first queue)
    if ctx.quick:
        nb, gor, per, chunk = 200, 3, 4, 50
    else:
        nb, gor, per, chunk = 5000, 5, 6, 250
    tr = ctx.path("traces", "conc.ndjson")
    r = ctx.run([vc, "topics-conc", tr, str(nb), str(gor), str(per)], timeout=1500)
    info = json.loads(r.stdout.strip().splitlines()[-1])
    allowed = ctx.path("gen", "allowed.json")
    json.dump([d for d in C31_DEVS if d in ctx.allowed()], open(allowed, "w"))
    lines = open(tr).read().splitlines()
    chunks = [lines[i:i + chunk] for i in range(0, len(lines), chunk)]

    def one(ix):
        rest, base, bad, st, tr_, withdev = chunks[ix], 0, [], 0, 0, 0
        rnd = 0
        while rest:
            fn = ctx.path("traces", "conc_%d_%d.ndjson" % (ix, rnd))
            open(fn, "w").write("\n".join(rest) + "\n")
            v, t = _judge(ctx, "TraceTopicIndexConc", "TraceTopicIndexConc.cfg", "lin_%d_%d" % (ix, rnd),
                          {"VERIF_TRACE": fn, "VERIF_ALLOWED": allowed}, deque=True, timeout=1500)
            st, tr_, withdev = st + t.distinct, tr_ + t.generated, withdev + v["withdev"]
            if v["reached"] > len(rest):
                break
            bad.append((json.loads(rest[v["reached"] - 1]), v["deepest"]))       # not linearizable
            rest = rest[v["reached"]:]
            rnd += 1
            if len(bad) >= 5:
                break
        return bad, st, tr_, withdev

    withdev = 0
    for bad, st, tr_, wd in _parallel(one, range(len(chunks)), n=8):
        states, trans, withdev = states + st, trans + tr_, withdev + wd
        for b, deepest in bad:
            if len(ctx.violations) < 10:
                ctx.violation("batch %d (%d goroutines x %d calls): TLC found NO serial order explaining the returned values and the "
                              "final answers (at most %d of %d calls could be linearized; deviations allowed: %s)" %
                              (b["batch"], gor, per, deepest, len(b["ops"]), json.load(open(allowed))), b)
    ctx.log("TLC linearized %d concurrent batches (%d x %d calls, %d%% of call pairs overlapping); %d used an allowed deviation" %
            (nb, gor, per, 100 * info["overlapping_pairs"] // max(1, info["pairs"]), withdev))
    if info["batches_with_overlap"] < nb // 4:
        raise Inconclusive("the goroutines hardly overlapped (%d of %d batches): concurrency was not exercised" % (info["batches_with_overlap"], nb))
    first = json.loads(lines[0])
    ctx.cov.update(
        _level="model_checking", states=states, transitions=trans, exhaustive=False,
        traces_validated_against_impl=nb, evaluations=res["evaluations"] + nb * gor * per,
        distinct_nontrivial=res["distinct_nontrivial"] + info["batches_with_overlap"],
        rule="(a) TopicIndexConc.tla: every history of 2 processes x 2 calls on the atomic abstract index is accepted by the judge's "
             "constraints (exhaustive), the faulty object is refuted. (b) TLC enumerated all %d sequential histories of <= 4 calls over "
             "%s (GenTopicIndex) with the value each call must return and the answers of Subscribers x 4 topics / Messages x 8 filters; "
             "each replayed on a fresh real TopicsIndex. (c) %d random batches of %d goroutines x %d calls (Subscribe, Unsubscribe, "
             "InlineSubscribe, InlineUnsubscribe, RetainMessage with payload / empty) on filters a, a/b, a/b/c, a/+ and topics a, a/b, a/b/c, "
             "started together behind a spin barrier, each call stamped before and after; for every batch TLC (TraceTopicIndexConc, depth-first "
             "queue) searched a serial order consistent with per-goroutine order and real-time precedence that explains all returned values "
             "and all final answers. distinct_nontrivial = sequential histories of >= 2 calls + batches with at least one overlapping call pair."
             % (rows, "14 operations" if ctx.quick else "20 operations", nb, gor, per),
        samples=res["samples"][:3] + [{"batch": first["batch"], "calls": ["g%d %s(%s,%s)=%d [%d,%d]" % (o["g"], o["op"], o["who"] or o["p"], "/".join(o["x"]), o["r"], o["inv"], o["ret"]) for o in first["ops"]]}],
        sequential_rows=rows, concurrent_batches=nb, overlapping_pairs=info["overlapping_pairs"], call_pairs=info["pairs"],
        batches_linearized_with_allowed_deviation=withdev)
    ctx.assumptions += ["queries are made after the batch (the property speaks of answers after the operations); concurrent readers are not judged",
                        "client subscriptions carry an identifier so that the merged answer of Subscribers names the (client, filter) pairs"]


# ------------------------------------------------------------------------------------------ C37
def c37(ctx):
    # (a) the model: all schedules, exact and slack server, K = 0; two faulty servers refuted
    def mc(job):
        cfg, inv = job
        return _design(ctx, "Keepalive", cfg, expect_violation=inv, workers=2)
    rs = _parallel(mc, [("Keepalive.cfg", None), ("Keepalive_zero.cfg", None), ("Keepalive_slack.cfg", None),
                        ("Keepalive_bad.cfg", "ClosedOnlyWhenIdle"), ("Keepalive_badlate.cfg", "OpenOnlyWhileFresh")], n=5)
    states = sum(r.distinct for r in rs[:3])
    trans = sum(r.generated for r in rs[:3])
    # (b) the schedules and their nominal outcome, written by TLC from the same state machine
    tabs = {}
    for cfg in ("GenKeepalive.cfg", "GenKeepalive_zero.cfg"):
        out = ctx.path("gen", cfg[:-4] + ".json")
        g = ctx.tlc("GenKeepalive", cfg, name="gen_" + cfg[:-4], workers=1, timeout=600, env={"VERIF_OUT": out})
        g.require_ok("schedule table " + cfg)
        tabs[cfg] = out
        states, trans = states + g.distinct, trans + g.generated
    nsched = len(json.load(open(tabs["GenKeepalive.cfg"])))
    vc = _vcomp(ctx)
    variants = ["v4ping", "v4sub", "v4long0"] if ctx.quick else ["v4ping", "v5ping", "v4pub", "v4sub", "v4long0"]

    def play(variant, ids, tag):
        tr = ctx.path("traces", "ka_%s_%s.ndjson" % (variant, tag))
        ctx.run([vc, "keepalive", tabs["GenKeepalive.cfg"], tabs["GenKeepalive_zero.cfg"], tr, variant] + ids, timeout=300)
        v, r = _judge(ctx, "TraceKeepalive", "TraceKeepalive.cfg", "ka_%s_%s" % (variant, tag), {"VERIF_TRACE": tr})
        recs = {json.loads(x)["id"]: json.loads(x) for x in open(tr)}
        return v["verdicts"], recs, r

    exercised, runs, packets, samples, unexercised = set(), 0, 0, [], []
    # the long keepalive-0 runs (tens of seconds of real time each, all in parallel) are started first and joined last
    pool = ThreadPoolExecutor(max_workers=1)
    long0 = pool.submit(play, "v4long0", [], "1")
    for variant in variants:
        verdicts, recs, r = long0.result() if variant == "v4long0" else play(variant, [], "1")
        states, trans = states + r.distinct, trans + r.generated
        runs += len(verdicts)
        again = []
        for v in verdicts:
            packets += len(recs[v["id"]]["sends"])
            if _c37_final(ctx, v, recs):
                continue
            if v["verdict"] == "late" or not v["asplanned"]:
                again.append(v["id"])       # load can fake "late" / spoil a schedule: run it once more
            else:
                exercised.add((variant, v["k"], tuple(recs[v["id"]]["plan"])))
                if len(samples) < 4 and len(recs[v["id"]]["plan"]) in (1, 2) and v["k"] > 0:
                    samples.append({"run": recs[v["id"]], "tlc": v})
        if again:
            ctx.log("%s: %d of %d runs late or off schedule, running them again" % (variant, len(again), len(verdicts)))
            verdicts2, recs2, r = play(variant, again, "2")
            states, trans = states + r.distinct, trans + r.generated
            for v in verdicts2:
                if _c37_final(ctx, v, recs2):
                    continue
                if v["verdict"] == "late":
                    ctx.violation("keepalive %d s, schedule %s (quarters): connection still open %d ms after the last packet "
                                  "(limit 1.5 x K = %d ms, tolerance 200 ms), in two runs" %
                                  (v["k"], recs2[v["id"]]["plan"], v["idle_min"], 1500 * v["k"]), {"run": recs2[v["id"]], "tlc": v})
                elif not v["asplanned"]:
                    unexercised.append(v["id"])
                else:
                    exercised.add((variant, v["k"], tuple(recs2[v["id"]]["plan"])))
    ctx.log("%d runs judged by TLC; %d (keepalive, schedule) pairs exercised as planned; %d could not be kept on schedule" %
            (runs, len(exercised), len(unexercised)))
    if len(unexercised) > runs // 10:
        raise Inconclusive("machine too loaded: %d schedules could not be replayed on time twice" % len(unexercised))
    if unexercised:
        ctx.notes.append("not replayed on schedule (twice): %s" % unexercised)
    ctx.cov.update(
        _level="model_checking", states=states, transitions=trans, exhaustive=True,
        traces_validated_against_impl=runs, evaluations=packets + runs, distinct_nontrivial=len(exercised),
        rule="Keepalive.tla model-checked for all %d schedules of <= 4 gaps in {5,7} quarters of K (exact server, slack server, K = 0; two faulty "
             "servers refuted); TLC wrote the schedules with their outcome (GenKeepalive); each schedule replayed in REAL TIME against the real "
             "broker (mqtt.New + EstablishConnection over net.Pipe, CONNECT keepalive K in {0,1,2,3} s, then %s at the scheduled moments), "
             "write times and observed close time recorded in ms; TLC (TraceKeepalive) judges each run with the property's predicates: closed "
             "with idle < 1.5K - 0.2 s (idle measured from before the last successful write) = early = violation outright; open with idle "
             ">= 1.5K + 0.2 s = late, re-run once and counted only if it repeats; runs whose gaps left the planned side of 1.5K are re-run. "
             "distinct_nontrivial = (packet kind, K, schedule) triples exercised as planned and judged ok (runs attributed to a known finding are not counted)." % (nsched, "/".join(variants)),
        samples=samples, schedules=nsched, keepalives=[0, 1, 2, 3], variants=variants)
    ctx.assumptions += ["wall-clock measurement with 200 ms tolerance; load can delay an observed close but never advance it",
                        "a completed write on net.Pipe means the broker has read the packet"]


def _c37_final(ctx, v, recs):
    """verdicts that are final whatever the load: early close (violation or named finding), close with K = 0"""
    rec = recs[v["id"]]
    if v["verdict"] == "early":
        if v["deviation"] and ctx.known(v["deviation"]):
            return True
        ctx.violation("keepalive %d s, schedule %s (quarters): closed only %d ms after the last packet had been written "
                      "(1.5 x K = %d ms, tolerance 200 ms)" % (v["k"], rec["plan"], v["idle_max"], 1500 * v["k"]), {"run": rec, "tlc": v})
        return True
    if v["verdict"] == "closed-k0":
        ctx.violation("keepalive 0, schedule %s: the broker closed the connection after %d ms of silence" % (rec["plan"], v["idle_min"]),
                      {"run": rec, "tlc": v})
        return True
    return False


# ------------------------------------------------------------------------------------------ C39
def _c39_judge(ctx, trace, name, per=3000):
    """TLC (TraceWsStream) over an ndjson file, cut into chunks judged in parallel"""
    lines = open(trace).read().splitlines()
    chunks = [lines[i:i + per] for i in range(0, len(lines), per)]

    def one(ix):
        fn = ctx.path("traces", "%s_%d.ndjson" % (name, ix))
        open(fn, "w").write("\n".join(chunks[ix]) + "\n")
        return _judge(ctx, "TraceWsStream", "TraceWsStream.cfg", "%s_%d" % (name, ix), {"VERIF_TRACE": fn}, timeout=1500)

    res = _parallel(one, range(len(chunks)), n=8)
    recs = {}
    bad, stats, st, tr = [], {}, 0, 0
    for v, r in res:
        bad += v["bad"]
        st, tr = st + r.distinct, tr + r.generated
        for k, x in v["stats"].items():
            stats[k] = stats.get(k, 0) + x
    if bad:
        want = {b["id"] for b in bad}
        for x in lines:
            if any(('"id":"%s"' % w) in x for w in want):
                e = json.loads(x)
                recs[e["id"]] = e
    return bad, recs, stats, st, tr, len(lines)


def c39(ctx):
    # (a) the model: all short message sequences x read sizes; two faulty connections refuted
    def mc(job):
        return _design(ctx, "WsStream", job[0], expect_violation=job[1], workers=2)
    rs = _parallel(mc, [("WsStream.cfg", None), ("WsStream_baddrop.cfg", ("CompleteAtEnd", "PrefixOfStream")),
                        ("WsStream_badtext.cfg", ("PrefixOfStream", "CompleteAtEnd"))], n=3)
    states, trans = rs[0].distinct, rs[0].generated
    # (b) the segmentation table
    table = ctx.path("gen", "segs.json")
    maxcuts = 4 if ctx.quick else 15
    g = ctx.tlc("GenWsStream", "GenWsStream.cfg", name="gen_segs", workers=1, heap="8g", timeout=900,
                env={"VERIF_MAXCUTS": str(maxcuts), "VERIF_OUT": table})
    g.require_ok("segmentation table")
    nseg = len(json.load(open(table)))
    ctx.log("TLC emitted %d segmentations of the 16-byte CONNECT+PINGREQ stream (at most %d cuts)" % (nseg, maxcuts))
    vc = _vcomp(ctx)
    nrand, nsess = (60, 50) if ctx.quick else (600, 2050)
    # reader level: the harness is the reader behind the real listener (buffers 1, 2, 4096)
    t1 = ctx.path("traces", "ws_reader.ndjson")
    ctx.run([vc, "ws-reader", table, t1, str(nrand)], timeout=1500)
    bad1, recs1, stats1, st, tr, n1 = _c39_judge(ctx, t1, "wsr")
    states, trans = states + st, trans + tr
    # broker level: real mqtt.Server, WebSocket and TCP listener, read-buffer sizes 1, 2, 4096
    t2 = ctx.path("traces", "ws_broker.ndjson")
    ctx.run([vc, "ws-broker", table, t2, str(nsess), "3000"], timeout=2400)
    bad2, recs2, stats2, st, tr, n2 = _c39_judge(ctx, t2, "wsb")
    states, trans = states + st, trans + tr
    harness_trouble = []
    for b, recs in [(x, recs1) for x in bad1] + [(x, recs2) for x in bad2]:
        real = [c for c in b["complaints"] if not c.startswith("harness:") and c != "incomplete"]
        # a run that did not get through its script (harness: ... / incomplete) proves nothing about the
        # listener: the derived differences (packets-differ, reply-differs) are not judged on it
        if not real or any(c.startswith("harness:") or c == "incomplete" for c in b["complaints"]):
            harness_trouble.append((b["id"], b["complaints"]))
            continue
        if len(ctx.violations) < 10:
            rec = recs.get(b["id"], {})
            slim = dict(rec)
            for k in ("frames", "reads", "echo"):
                if k in slim and len(json.dumps(slim[k])) > 3000:
                    slim[k] = slim[k][:12] + ["... %d entries" % len(rec[k])]
            ctx.violation("%s case %s: WsStream refuses what the real listener did: %s" % (b["kind"], b["id"], ", ".join(b["complaints"])),
                          {"complaints": b["complaints"], "record": slim, "seed": ctx.seed})
    ctx.log("TLC judged %d reader records (%d reads) and %d broker records; %d complaints" %
            (n1, stats1.get("reads", 0), n2, len(bad1) + len(bad2)))
    if harness_trouble and not ctx.violations:
        raise Inconclusive("%d cases did not run to completion, e.g. %s" % (len(harness_trouble), harness_trouble[0]))
    sample_lines = [json.loads(x) for x in open(t1).readlines()[5:7]] + [json.loads(open(t2).readlines()[nseg * 3 + 1])]
    for smp in sample_lines:
        for k in ("frames", "reads", "echo", "ws_packets", "tcp_packets", "ws_reply", "tcp_reply"):
            if k in smp and len(smp[k]) > 6:
                smp[k] = smp[k][:6] + ["... %d in all" % len(smp[k])]
    ctx.cov.update(
        _level="model_checking", states=states, transitions=trans, exhaustive=True,
        traces_validated_against_impl=n1 + n2, evaluations=stats1.get("reads", 0) + n2,
        distinct_nontrivial=stats1.get("nontrivial", 0) + stats2.get("nontrivial", 0),
        rule="WsStream.tla model-checked (all sequences of <= 3 binary/text messages of <= 2 bytes, read sizes 1/2/4; the dropping and the "
             "text-accepting connection refuted). TLC enumerated %s segmentations of the 16-byte stream CONNECT(14)+PINGREQ(2) (%s) with the stream "
             "the reader must see. Reader level: a real listeners.Websocket on loopback whose connections are read by the harness with buffers "
             "of 1, 2 and 4096 bytes, every Read result and every echoed message recorded: %d cases (table x 3 sizes + %d random sequences with "
             "empty, large and text frames); TLC (TraceWsStream) replays every Read as WsStream!Read(n). Broker level: real mqtt.Server "
             "(ClientNetReadBufferSize 1, 2, 4096) with WebSocket and TCP listener, gorilla client: table x 3 sizes, %d random sessions "
             "(CONNECT, SUBSCRIBE, QoS 1/2 publishes + PUBREL, QoS 0 publishes delivered back, payloads 0..5000 bytes, cut into frames of "
             "1..N<=3000 bytes) and 9 text-frame cases; packets read by the broker (OnPacketRead) and the reply stream must equal the TCP run; "
             "text frame => connection closed and nothing after it processed. distinct_nontrivial = cases with more than one frame or a frame "
             "larger than the read buffer." % (nseg, "at most 4 cuts" if ctx.quick else "ALL 2^15", n1, nrand, nsess),
        samples=sample_lines, segmentations=nseg, reader_cases=n1, broker_cases=n2, text_cases=stats1.get("text", 0) + stats2.get("text", 0))
    ctx.assumptions += ["the TCP listener is the reference for 'the same packets as over TCP'",
                        "session replies are made deterministic by phases closed with PINGREQ/PINGRESP sentinels and session-private topics"]


def c39_with_outpath(ctx):
    if ctx.replay:
        v = json.load(open(ctx.replay))
        if isinstance(v.get("replay"), dict) and v["replay"].get("kind") == "outpath":
            from families import outpath
            return outpath.replay_outpath(ctx)
    r = c39(ctx)
    # a WebSocket connection takes one writer at a time: the schedules of the write path (spec/OutPath.tla) show that
    # the broker never has two Write calls in progress on one connection (rule C39.overlapping-connection-writes)
    from families import outpath
    outpath.add_to(ctx, "C39")
    return r


FAMILY = {"C41": c41, "C31": c31, "C37": c37, "C39": c39_with_outpath}
