"""Component family: four self-contained components, each with its own small TLA+ model that TLC
(a) model-checks exhaustively with small constants and (b) uses to judge what the real code did.

C41 buffer pool (BufPool.tla / TraceBufPool.tla)         C31 topic index under concurrency (TopicIndexConc.tla)
C37 keepalive  (Keepalive.tla / GenKeepalive / Trace..)  C39 WebSocket transparency (WsStream.tla / Gen.. / Trace..)

The Go side (harness/cmd/vcomp) only drives the real code and records; every verdict is TLC's."""
import json, os, sys, time, glob
from concurrent.futures import ThreadPoolExecutor
from vlib import Inconclusive


# ------------------------------------------------------------------------------------------ helpers
def _vcomp(ctx):
    b = getattr(ctx, "_vcomp", None)
    if not b:
        b = ctx._vcomp = ctx.go_build("vcomp")
    return b


def _design(ctx, module, cfg, expect_violation=None, workers="auto", timeout=900, coverage=False, deque=False):
    """model-check a design config; with expect_violation=<invariant> TLC must REFUTE that invariant
    (faulty variant of the model: shows the invariant is not vacuous)"""
    r = ctx.tlc(module, cfg, name="mc_" + os.path.splitext(cfg)[0], workers=workers, timeout=timeout,
                coverage=coverage, deque=deque)
    if expect_violation is None:
        r.require_ok("design config %s" % cfg)
        ctx.log("TLC %s/%s: %d states, %d distinct, no error (%.1fs)" % (module, cfg, r.generated, r.distinct, r.wall))
    else:
        if ("Invariant %s is violated" % expect_violation) not in r.out:
            sys.stderr.write(r.tail(30) + "\n")
            raise Inconclusive("faulty variant %s was expected to violate %s and did not" % (cfg, expect_violation))
        ctx.log("TLC %s/%s: faulty variant refuted (%s violated) as expected" % (module, cfg, expect_violation))
    return r


def _judge(ctx, module, cfg, name, env, timeout=900, heap="4g", deque=False):
    """run a trace spec (one TLC process, 1 worker); returns (verdict json, TlcResult)"""
    out = ctx.path("gen", name + "_verdict.json")
    if os.path.exists(out):
        os.remove(out)
    e = dict(env)
    e["VERIF_OUT"] = out
    r = ctx.tlc(module, cfg, name=name, workers=1, timeout=timeout, heap=heap, env=e, deque=deque)
    if not os.path.exists(out):
        sys.stderr.write(r.tail(40) + "\n")
        raise Inconclusive("TLC produced no verdict for %s (%s)" % (name, module))
    return json.load(open(out)), r


def _parallel(fn, items, n=8):
    with ThreadPoolExecutor(max_workers=n) as ex:
        return list(ex.map(fn, items))


# ------------------------------------------------------------------------------------------ C41
def c41(ctx):
    # (a) the model itself: exhaustive for small constants; the three faulty variants must be refuted
    mc = _design(ctx, "BufPool", "BufPool.cfg")
    states, trans = mc.distinct, mc.generated
    for cfg in ["BufPool_uncapped.cfg"] + ([] if ctx.quick else ["BufPool_big.cfg"]):
        r = _design(ctx, "BufPool", cfg)
        states, trans = states + r.distinct, trans + r.generated
    for cfg, inv in (("BufPool_badget.cfg", "NoSharing"), ("BufPool_badreset.cfg", "HandedOutEmpty"),
                     ("BufPool_badcap.cfg", "CapRespected")):
        _design(ctx, "BufPool", cfg, expect_violation=inv, workers=2)

    # (b) the real pools under concurrent load; TLC judges the complete merged log, cut into
    #     per-buffer-identity projections (the model's state is per buffer, so nothing is lost)
    vc = _vcomp(ctx)
    ops = 10000 if ctx.quick else 1000000
    outdir = ctx.path("traces", "bufpool", "x")[:-2]
    ctx.run([vc, "bufpool", outdir, str(ops), "60000"], timeout=900)
    index = json.load(open(os.path.join(outdir, "index.json")))
    jobs = [(seg, f) for seg in index for f in seg["files"]]

    def one(job):
        seg, f = job
        name = "bp_" + os.path.basename(f)[:-7]
        v, r = _judge(ctx, "TraceBufPool", "TraceBufPool.cfg", name, {"VERIF_TRACE": f, "VERIF_CAP": str(seg["cap"])})
        return seg, f, v, r

    res = _parallel(one, jobs, n=8)
    tot = dict(pooled=0, fresh=0, kept=0, discarded=0, dropped=0)
    lines, samples = 0, []
    for seg, f, v, r in res:
        lines += v["lines"]
        states, trans = states + r.distinct, trans + r.generated
        for k in tot:
            tot[k] += v["stats"][k]
        for b in v["bad"]:
            tags = sorted(c["tag"] for c in b["complaints"])
            if tags == ["harness-write"]:
                raise Inconclusive("log is not a run of the harness protocol (line %d of %s)" % (b["line"], f))
            hist = [json.loads(x) for x in open(f)][: b["line"]]
            hist = [e for e in hist if e["b"] == b["ev"]["b"]][-6:]
            ctx.violation("pool cap=%d, %d goroutines: BufPool refuses %s: %s (history of that buffer: %s)" %
                          (seg["cap"], seg["goroutines"], json.dumps(b["ev"]), ",".join(tags), json.dumps(hist)),
                          {"pool_cap": seg["cap"], "goroutines": seg["goroutines"], "event": b["ev"],
                           "complaints": b["complaints"], "buffer_history": hist, "seed": ctx.seed})
            if len(ctx.violations) >= 10:
                break
    for seg in index[:3]:
        samples.append({k: seg[k] for k in ("cap", "goroutines", "ops", "events", "buffers")})
    samples.append({"hand_outs": tot})
    if not ctx.violations and (tot["pooled"] < 100 or tot["discarded"] < 10 or tot["kept"] < 100):
        raise Inconclusive("run was vacuous: too few re-used / discarded buffers %s" % tot)
    ctx.log("TLC judged %d log lines in %d runs: %s" % (lines, len(jobs), tot))
    ctx.cov.update(
        _level="model_checking", states=states, transitions=trans,
        traces_validated_against_impl=len(jobs), evaluations=lines,
        distinct_nontrivial=tot["pooled"],
        rule="BufPool.tla model-checked exhaustively (3 buffers, 2 holders, sizes 0..2, cap 1 and uncapped%s; 3 faulty variants refuted). "
             "Real pools NewBuffer(0), NewBuffer(64), NewBuffer(1024) each run by %s goroutines holding up to 3 buffers, %d get/write/read-back/put "
             "cycles in total; 'acq' logged after Get, 'rel' before Put with a global atomic sequence number; TLC (TraceBufPool) "
             "validated EVERY line of the merged logs (cut into per-buffer-identity projections, %d TLC runs): each acq must be "
             "GetPooled/GetFresh (not held, Len 0, Cap <= cap), each rel a Write+Put by the holder with its bytes intact. "
             "distinct_nontrivial = hand-outs of a previously pooled buffer (the ones that can be shared / dirty / over cap)."
             % ("" if ctx.quick else ", sizes 0..3 cap 2", "8/16" if ctx.quick else "8/12/16", ops, len(jobs)),
        samples=samples, exhaustive=False, hand_outs=tot)
    ctx.assumptions += ["pointer identity of *bytes.Buffer identifies a buffer object (a collected object's address may come back as a new, empty object: accepted as GetFresh)",
                        "the harness never touches a buffer after Put"]


FAMILY = {"C41": c41}
