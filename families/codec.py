"""Codec family: C26 codec round trip, C27 decoder totality, C29 variable byte integers, C42 every valid
client encoding is decoded as meant.

Deciding spec: spec/Wire.tla (Vbi, VbiDecode, Encodings, Parse, Normalize/Equiv) evaluated by TLC through
spec/GenWire.tla:
  (A) the theorems of DESIGN 3.7 are asserted by TLC on every packet of the bounded domain while the tables
      are produced (Parse(e).pkt = p for every e in Encodings(p), strict prefixes fail, Vbi boundaries);
  (B) TLC writes case tables, harness/cmd/vwire replays them into the real packets package;
  (C) whatever the real code returned that is not literally the expected value goes back to TLC
      (job "judge"), which decides equivalence / parses the bytes the real encoder wrote.
The Go side holds no oracle; this module only routes files, classifies disagreements by the listed
findings (ctx.known) and writes the evidence.
"""
import json, os, glob, sys
from vlib import Inconclusive

SHARDS = 16


def _env(job, size, out, inp="none", stride=1, offset=0, shards=SHARDS):
    return {"VERIF_JOB": job, "VERIF_SIZE": str(size), "VERIF_OUT": out, "VERIF_IN": inp,
            "VERIF_SHARDS": str(shards), "VERIF_STRIDE": str(stride), "VERIF_OFFSET": str(offset)}


def _gen(ctx, job, size, shards=SHARDS, inp="none", stride=1, offset=0, name=None, timeout=1500, coverage=False):
    """Run one GenWire job; returns (file prefix, TlcResult, rows, units)."""
    name = name or job
    prefix = ctx.path("gen", name)
    r = ctx.tlc("GenWire", "GenWire.cfg", name="tlc_" + name, workers=min(4, max(1, shards)), heap="10g", timeout=timeout,
                env=_env(job, size, prefix, inp, stride, offset, shards), coverage=coverage)
    r.require_ok("GenWire job " + job)
    rows = units = 0
    seen = set()
    for line in r.out.splitlines():
        if line.startswith('<<"ROWS"'):
            f = [x.strip(" <>\"") for x in line.split(",")]
            seen.add(int(f[1]))
            rows += int(f[2])
            units += int(f[3])
    if job != "thm":
        missing = [k for k in range(1, shards + 1) if not os.path.exists("%s.%d.json" % (prefix, k))]
        if missing or len(seen) != shards:
            raise Inconclusive("GenWire job %s: shards %s produced no table" % (job, missing))
    elif len(seen) != shards:
        raise Inconclusive("GenWire job thm: %d of %d shards reported" % (len(seen), shards))
    ctx.log("TLC job %s size %s: %d rows from %d units, %d shards, %.1fs (states %d, transitions %d)" %
            (job, size, rows, units, shards, r.wall, r.distinct, r.generated))
    return prefix, r, rows, units


def _judge(ctx, rows, name="judge"):
    """rows: list of dicts with string id, op = equiv|parse.  Returns {id: verdict}."""
    if not rows:
        return {}, None
    inp = ctx.path("gen", name + "_in.ndjson")
    with open(inp, "w") as f:
        for r in rows:
            f.write(json.dumps(r) + "\n")
    shards = min(SHARDS, max(1, len(rows) // 8))
    prefix, r, n, _ = _gen(ctx, "judge", 1, shards=shards, inp=inp, name=name)
    out = {}
    for k in range(1, shards + 1):
        for v in json.load(open("%s.%d.json" % (prefix, k))):
            out[v["id"]] = v
    if len(out) != len(rows):
        raise Inconclusive("judge returned %d verdicts for %d rows" % (len(out), len(rows)))
    ctx.log("TLC judged %d recorded values in %.1fs" % (len(rows), r.wall))
    return out, r


def _vwire(ctx):
    return ctx.go_build("vwire")


def _load(path):
    return json.load(open(path))


def _short(d, drop=("bytes", "exp", "p", "out", "got", "base")):
    return {k: v for k, v in d.items() if k not in drop}


def _props(p):
    return [(x["id"], x["n"], bytes(b & 255 for b in x["s"] if b < 256).hex(), bytes(b & 255 for b in x["t"] if b < 256).hex()) for x in p["props"]]


def _cov(ctx, tlcs, **kw):
    states = sum(max(t.distinct, 1) for t in tlcs if t)
    trans = sum(max(t.generated, 1) for t in tlcs if t)
    ctx.cov.update(_level="model_checking", states=states, transitions=trans, **kw)


# ------------------------------------------------------------------------------------------------ C29
def c29(ctx):
    size = 1 if ctx.quick else 2
    prefix, r, rows, encs = _gen(ctx, "vbi", size, shards=1, timeout=1200)
    vw = _vwire(ctx)
    out = ctx.path("gen", "r_vbi.json")
    args = [vw, "vbi", prefix + ".1.json", out]
    if not ctx.quick:
        args.append("exhaustive")
    ctx.run(args, timeout=1500)
    res = _load(out)
    accepted = []
    for f in res["fail"]:
        if f["case"] == "decode" and f["expect"] == "reject" and f.get("why") == "vbi" and f.get("len", 0) >= 5 \
                and f.get("got_used", 0) >= 5 and ctx.known("VbiOverlongAccepted"):
            accepted.append(f["bytes"])
            continue
        ctx.violation("C29: real code disagrees with Wire.tla: %s" % json.dumps(f), f)
    if res["n_fail"] > len(res["fail"]):
        ctx.violation("C29: %d disagreements, only the first %d were recorded" % (res["n_fail"], len(res["fail"])), {})
    if accepted:
        ctx.notes.append("DecodeLength accepted %d encodings longer than four bytes, e.g. %s" % (len(accepted), ", ".join(accepted[:6])))
    ex = res["extra"]
    _cov(ctx, [r], traces_validated_against_impl=0, evaluations=res["evaluations"], distinct_nontrivial=res["distinct_nontrivial"],
         exhaustive=True,
         rule="TLC asserts VbiTheorems (VbiDecode(Vbi(v)) = v, minimal length, no prefix decodes, at all values within 2 of "
              "0/127/128/16383/16384/2097151/2097152/268435455) and emits (i) every continuation-bit pattern of 1..%s bytes with data bits "
              "from {0,1,0x7F}%s with VbiDecode's verdict (%d rows) -> packets.DecodeLength must return the value and the number of bytes "
              "used, or an error; (ii) Vbi(v) for the %d near-boundary values -> FixedHeader.Encode (remaining length) and "
              "Properties.Encode (Subscription Identifier) must write exactly these bytes and decode them back%s. "
              "distinct_nontrivial = distinct (verdict, reason, length) classes of the pattern rows." %
              ("4" if ctx.quick else "6", " (5 and 6 bytes: one data-bit value in all but the last position)" if ctx.quick else "",
               ex["pattern_rows"], ex["enc_rows"],
               "" if ctx.quick else "; (iii) all %d values 0..268435455 walked on 16 goroutines: len(encode(v)) = the threshold table "
               "emitted by TLC (VbiRange), decode(encode(v)) = v" % ex["exhaustive_values"]),
         samples=res["samples"], table_rows=ex["pattern_rows"] + ex["enc_rows"], exhaustive_values=ex["exhaustive_values"],
         classes=ex["classes"])
    ctx.assumptions += ["non-minimal encodings of at most four bytes (e.g. 80 00) are accepted by VbiDecode: the property only demands "
                        "rejection of more than four bytes and of values above the maximum"]


# ------------------------------------------------------------------------------------------------ C42
def _c42_finding(f):
    """name of the listed finding a disagreement belongs to (identified by the exact input shape)"""
    n = len(f["bytes"])
    if f["t"] == 15 and f["ver"] == 5 and f["kind"] == "rejected":
        if f["hex"] == "f000":
            return "AuthRemainingLength0Rejected"
        if n == 3 and f["hex"].startswith("f001"):
            return "AuthReasonOnlyRejected"
    if f["t"] == 14 and f["ver"] == 5 and n == 3 and f["kind"] == "differs" and f["got"]["reason"] == 0 != f["exp"]["reason"] \
            and f["got"]["props"] == []:
        return "DisconnectReasonOnlyIgnored"
    return None


def c42(ctx):
    size = 1 if ctx.quick else 2
    prefix, r, rows, pkts = _gen(ctx, "c42", size)
    vw = _vwire(ctx)
    out = ctx.path("gen", "r_c42.json")
    ctx.run([vw, "c42", prefix, str(SHARDS), out], timeout=1500)
    res = _load(out)
    if res["evaluations"] != rows:
        raise Inconclusive("vwire replayed %d of %d rows" % (res["evaluations"], rows))
    verdicts, jr = _judge(ctx, [{"id": str(a["id"]), "op": "equiv", "exp": a["exp"], "got": a["got"]} for a in res["appeal"]])
    bad = list(res["fail"])
    equiv_by_default = 0
    for a in res["appeal"]:
        if verdicts[str(a["id"])]["equiv"]:
            equiv_by_default += 1
        else:
            bad.append(a)
    hits = {}
    for f in bad:
        name = _c42_finding(f)
        if name and ctx.known(name):
            hits.setdefault(name, []).append(f["hex"])
            continue
        what = "C42: %s v%d encoding %s (a form the standard permits) " % (f["t"], f["ver"], f["hex"])
        if f["kind"] == "rejected":
            what += "is rejected by the real decoder: %s" % f["err"]
        elif f["kind"] == "panic":
            what += "panics the real decoder at %s: %s" % (f.get("site"), f["err"])
        else:
            what += "decodes to a packet that is not equivalent to the sender's: reason %s props %s, meant reason %s props %s" % (
                f["got"]["reason"], _props(f["got"]), f["exp"]["reason"], _props(f["exp"]))
        ctx.violation(what, _short(f, drop=()))
    if res["n_fail"] > len(res["fail"]) or res["n_appeal"] > len(res["appeal"]):
        ctx.violation("C42: more disagreements than recorded (%d + %d)" % (res["n_fail"], res["n_appeal"]), {})
    for k, v in hits.items():
        ctx.notes.append("%s: %d encodings, e.g. %s" % (k, len(v), ", ".join(sorted(set(v))[:5])))
    _cov(ctx, [r, jr], traces_validated_against_impl=len(res["appeal"]), evaluations=res["evaluations"] + len(res["appeal"]),
         distinct_nontrivial=res["distinct_nontrivial"], exhaustive=True,
         rule="TLC enumerates the domain of packets a client may send (11 types x MQTT 3.1.1/5, GenWire!Dom size %d: %d packets) and, after "
              "asserting Parse(e).pkt = p for every e in Encodings(p), emits EVERY element of Encodings(p) (every permitted omission of "
              "reason code / property length, every order of up to 3 properties): %d byte strings.  Each is fed to the real code as "
              "Client.ReadFixedHeader + ReadPacket do; the decoded packet must be the sender's p (reason code, packet id, flags, topic, "
              "payload, filters+options+subscription identifier, every property, CONNECT fields).  %d decoded values differed literally "
              "and were judged by TLC with Wire!Equiv (%d equivalent: omitted default).  distinct_nontrivial = distinct "
              "(type, version, header+variable-header length, number of properties) shapes." %
              (size, pkts, rows, len(res["appeal"]), equiv_by_default),
         samples=res["samples"], table_rows=rows, packets=pkts, per_type=res["extra"]["per_type"])
    ctx.assumptions += ["the standard's text permits remaining length 0 for AUTH explicitly; remaining length 1 (reason code only) is "
                        "taken as permitted for AUTH as it is for DISCONNECT, following the property statement",
                        "behavioural consequences (will publication on DISCONNECT 0x04) are decided by the broker-family checks"]


# ------------------------------------------------------------------------------------------------ C26
def _c26_finding(f, parsed):
    p = f["p"]
    if f["t"] in (4, 5, 6, 7) and f["ver"] == 5 and 0 < p["reason"] < 0x80 and len(f.get("out") or []) == 4:
        if parsed is None or (parsed["res"]["ok"] and parsed["res"]["pkt"]["reason"] == 0 and parsed["res"]["pkt"]["pid"] == p["pid"]):
            return "AckReasonBelow0x80Dropped"
    return None


def c26(ctx):
    size = 1 if ctx.quick else 2
    prefix, r, rows, _ = _gen(ctx, "c26", size)
    vw = _vwire(ctx)
    out = ctx.path("gen", "r_c26.json")
    ctx.run([vw, "c26", prefix, str(SHARDS), out], timeout=1500)
    res = _load(out)
    if res["evaluations"] != rows:
        raise Inconclusive("vwire replayed %d of %d rows" % (res["evaluations"], rows))
    cat = ctx.path("gen", "r_cat.json")
    ctx.run([vw, "catalogue", cat], timeout=600)
    cres = _load(cat)
    # ---- what goes to the judge
    jrows = []
    for a in res["appeal"]:
        i = str(a["id"])
        if a["kind"] in ("big", "not-member"):
            jrows.append({"id": i + "/out", "op": "parse", "bytes": a["out"], "ver": a["ver"], "exp": a["exp"]})
        if a["roundtrip"] == "differs":
            jrows.append({"id": i + "/rt", "op": "equiv", "exp": a["exp"], "got": a["got"]})
    for c in cres["appeal"]:
        i = "cat%d.%d" % (c["t"], c["case"])
        if c["dec"] == "ok":
            jrows.append({"id": i + "/raw", "op": "parse", "bytes": c["bytes"], "ver": c["ver"], "exp": c["got"]})
            if c.get("dec2") == "ok" and not c.get("same"):
                jrows.append({"id": i + "/re", "op": "equiv", "exp": c["got"], "got": c["got2"]})
    verdicts, jr = _judge(ctx, jrows)
    # ---- generated packets
    bad = [dict(f, why="encoder/decoder failure: %s %s" % (f["kind"], f.get("err"))) for f in res["fail"]]
    n_big = n_equiv = 0
    for a in res["appeal"]:
        i = str(a["id"])
        po = verdicts.get(i + "/out")
        rt = verdicts.get(i + "/rt")
        why = []
        if a["kind"] == "big":
            n_big += 1
        if po is not None and not po["equiv"]:
            why.append("the encoder output %s is not an encoding of the packet: it %s" % (
                a["hex"], ("denotes reason %s pid %s props %s" % (po["res"]["pkt"]["reason"], po["res"]["pkt"]["pid"], _props(po["res"]["pkt"])))
                if po["res"]["ok"] else "does not parse (%s)" % po["res"]["why"]))
        if a["roundtrip"] in ("decode-error", "decode-panic"):
            why.append("the real decoder fails on the encoder output: %s" % a["err"])
        elif rt is not None and not rt["equiv"]:
            why.append("decode(encode(p)) is not equivalent to p: reason %s props %s" % (a["got"]["reason"], _props(a["got"])))
        elif rt is not None:
            n_equiv += 1
        if why:
            bad.append(dict(a, why="; ".join(why), parsed=po))
    hits = {}
    for f in bad:
        name = _c26_finding(f, f.get("parsed"))
        if name and ctx.known(name):
            hits.setdefault(name, []).append("%s(reason 0x%02x, %s)" % (f["hex"], f["p"]["reason"], f["mode"]))
            continue
        ctx.violation("C26: %s v%d mode %s, reason %s props %s: %s" % (f["t"], f["ver"], f["mode"], f["p"]["reason"], _props(f["p"]), f["why"]),
                      _short(f, drop=("parsed",)))
    if res["n_fail"] > len(res["fail"]) or res["n_appeal"] > len(res["appeal"]):
        ctx.violation("C26: more disagreements than recorded (%d + %d)" % (res["n_fail"], res["n_appeal"]), {})
    # ---- catalogue of the package
    cat_acc = cat_parse_ok = refused = 0
    for c in cres["appeal"]:
        i = "cat%d.%d" % (c["t"], c["case"])
        tag = "C26 catalogue case %d/%d '%s' (%s, v%d): " % (c["t"], c["case"], c["desc"], c["hex"], c["ver"])
        if c["dec"] == "panic":
            ctx.violation(tag + "decoder panics: %s" % c["err"], _short(c))
            continue
        if c["dec"] != "ok":
            continue
        cat_acc += 1
        raw = verdicts[i + "/raw"]
        if raw["res"]["ok"]:
            cat_parse_ok += 1
            if not raw["equiv"]:
                ctx.violation(tag + "Wire!Parse reads reason %s props %s, the real decoder reason %s props %s" % (
                    raw["res"]["pkt"]["reason"], _props(raw["res"]["pkt"]), c["got"]["reason"], _props(c["got"])), _short(c))
                continue
        if c.get("reenc_err") not in ("<nil>", None):
            refused += 1      # the encoder refuses the packet (e.g. packet id 0 with QoS > 0): no re-encoding to judge
            continue
        if c.get("dec2") != "ok":
            ctx.violation(tag + "accepted, but its re-encoding %s is rejected: %s" % (c.get("reenc_hex"), c.get("err2")), _short(c))
        elif not c.get("same") and not verdicts[i + "/re"]["equiv"]:
            ctx.violation(tag + "accepted, but its re-encoding %s decodes to a packet that is not equivalent" % c.get("reenc_hex"), _short(c))
    for k, v in hits.items():
        ctx.notes.append("%s: %d cases, e.g. %s" % (k, len(v), ", ".join(sorted(set(v))[:5])))
    ctx.notes.append("maxsize mode: %d encoder outputs were longer than Mods.MaxSize (not judged by C26)" % res["extra"]["maxsize_outputs_longer_than_limit"])
    ctx.notes.append("catalogue: %d RawBytes cases, %d accepted by the real decoder, %d of those well-formed for Wire!Parse, %d refused by the encoder on re-encoding" %
                     (cres["evaluations"], cat_acc, cat_parse_ok, refused))
    _cov(ctx, [r, jr], traces_validated_against_impl=len(jrows), evaluations=res["evaluations"] * 2 + cres["evaluations"] + len(jrows),
         distinct_nontrivial=res["distinct_nontrivial"], exhaustive=True,
         rule="TLC enumerates abstract packets of all 15 types x MQTT 3.1/3.1.1/5 (GenWire!Dom size %d plus the maximum-length class "
              "(65535-byte strings / binary, 70000-byte payload as runs) and 'every permitted property at once'): %d cases incl. the "
              "encoder's suppression modes (response information not allowed, problem information not wanted, packet size limit).  For "
              "each, after asserting the round-trip theorem, TLC emits the complete set Encodings of every packet the output may denote.  "
              "The real XxxEncode output must be a member, its remaining length must equal the bytes that follow, and the real decoder "
              "(driven as ReadPacket) applied to it must give the packet back; literal differences (%d) and outputs with too many property "
              "orders to enumerate (%d) are judged by TLC (Wire!Parse / Wire!Equiv).  Then all %d RawBytes cases of packets.TPacketData: "
              "TLC parses the bytes, the real decoder's value must be equivalent, and accepted cases must re-encode to bytes that decode to "
              "an equivalent packet.  distinct_nontrivial = distinct (type, version, mode, #properties, #filters, #permitted encodings) shapes." %
              (size, rows, n_equiv, n_big, cres["evaluations"]),
         samples=res["samples"], table_rows=rows, per_type=res["extra"]["per_type"], catalogue_cases=cres["evaluations"])
    ctx.assumptions += ["present-but-empty string/binary properties and a present Message Expiry Interval of 0 are outside the domain: "
                        "packets.Properties cannot represent them (no presence flag)",
                        "observance of the Maximum Packet Size itself is not part of C26 (only that dropping Reason String / User "
                        "Properties is a permitted suppression)",
                        "a catalogue packet the real encoder refuses to encode (packet id 0 with QoS > 0) is counted, not judged"]


# ------------------------------------------------------------------------------------------------ C27
def c27(ctx):
    size = 1 if ctx.quick else 2
    stride = 3 if ctx.quick else 8
    # (A) the Parse theorems on the whole domain (round trip, every strict prefix fails for its length)
    _, thm, npk, _ = _gen(ctx, "thm", 1 if ctx.quick else 2, timeout=1500)
    prefix, r, rows, bases = _gen(ctx, "c27", size, stride=stride, offset=ctx.seed % stride, timeout=2400)
    vw = _vwire(ctx)
    out = ctx.path("gen", "r_c27.json")
    nrandom = 20000 if ctx.quick else 2000000
    ctx.run([vw, "c27", prefix, str(SHARDS), out, str(nrandom)], timeout=3000)
    res = _load(out)
    ex = res["extra"]
    if res["evaluations"] < rows * 3:
        raise Inconclusive("vwire replayed fewer rows than the table holds")
    hits = {}
    for p in ex["panics"]:
        if p["site"] == "(*Packet).SubscribeDecode" and p["ver"] == 5 and p["decoder"] == 8 and p["index_equals_length"] \
                and ctx.known("SubscribeOptionsByteOverread"):
            hits.setdefault("SubscribeOptionsByteOverread", []).append("%d panics, e.g. body %s" % (p["count"], p["inputs"][0]))
            continue
        ctx.violation("C27: panic in %s (decoder %d, MQTT %d, via %s): %s; inputs %s" % (p["site"], p["decoder"], p["ver"], p["via"], p["msg"], p["inputs"][:3]), p)
    for f in res["fail"]:
        name = None
        t = int(f["hex"][0], 16)
        if f["case"] == "overlong-length-accepted":
            if f["where"] == "block" and (f["ver"] == 5 or t == 1):
                name = "PropertyValueOverrunsBlock"
            elif t == 14 and f["ver"] == 5 and len(f["bytes"]) == 4 and f["hex"].startswith("e002") and f["hex"][6:8] != "00":
                name = "DisconnectPropertyLengthUnchecked"
        if name and ctx.known(name):
            hits.setdefault(name, []).append(f["hex"])
            continue
        ctx.violation("C27: %s (MQTT %d, corruption '%s' at %d of %s): Wire!Parse rejects it for a length (%s) that exceeds the bytes available "
                      "in the %s, the real decoder returns a packet" % (f["hex"], f["ver"], f["kind"], f["at"], f["base"], f["why"], f["where"]), _short(f, drop=("bytes",)))
    if res["n_fail"] > len(res["fail"]):
        ctx.violation("C27: %d length failures accepted, only %d recorded" % (res["n_fail"], len(res["fail"])), {})
    for k, v in hits.items():
        ctx.notes.append("%s: %d cases, e.g. %s" % (k, len(v), "; ".join(v[:4])))
    ctx.notes.append("rows that Parse accepts as another valid packet: real decoder agreed on %d, differed on %d (value agreement is "
                     "decided by C42/C26, e.g. the AUTH short forms): %s" % (ex["ok_rows_agree"], ex["ok_rows_disagree"],
                     sorted(set(d["hex"] for d in (ex["ok_rows_disagree_samples"] or [])))[:8]))
    _cov(ctx, [thm, r], traces_validated_against_impl=0, evaluations=res["evaluations"], distinct_nontrivial=res["distinct_nontrivial"],
         rule="(A) TLC asserts on %d domain packets that every encoding parses back and every strict prefix fails with class 'length'.  "
              "(B) For %d valid encodings (every %s of GenWire's domain, all 15 types, MQTT 3.1.1 and 5) TLC emits every cut of the packet, "
              "every body prefix re-framed with a matching remaining length, and +1 on every length field (string/binary length, property "
              "length, remaining length, continuation bit of a variable byte integer): %d rows, each with Wire!Parse's verdict under MQTT "
              "3.1.1 and 5.  The real code (driven as ReadFixedHeader + ReadPacket, body in a slice whose capacity equals its length so that "
              "any access outside the supplied bytes faults) is run on each row under versions 3, 4, 5: a panic is a violation; a row "
              "whose verdict is a LENGTH failure must be refused.  Every row body is also fed to all 15 XxxDecode x versions 3/4/5 "
              "(%d calls).  (observation) %d seeded random mutations per packet type (bit flips, byte sets, insertions, deletions, splices, "
              "truncations of the table's encodings and of packets.TPacketData; %d decoder calls): outcome must be packet or error.  "
              "distinct_nontrivial = distinct (corruption kind, Parse verdict, reason, real outcome) classes." %
              (npk, bases, "encoding" if stride == 1 else "%d-th encoding (offset by seed)" % stride, rows, ex["body_feeds"], nrandom, ex["random_decodes"]),
         samples=res["samples"], table_rows=rows, random_inputs=ex["random_inputs"], random_outcomes=ex["random_outcomes"],
         classes=ex["classes"], kinds=ex["kinds"])
    ctx.assumptions += ["the no-panic verdict on random mutations is an observation by the harness (recover()), not something TLC computes; "
                        "there is no coverage-guided engine in the sandbox",
                        "a read outside the supplied bytes is detected as a Go bounds fault (slice capacity = length); unsafe pointer "
                        "arithmetic does not occur in the package",
                        "rows that fail for a reason other than a length (unknown property, reserved flags, surplus bytes, UTF-8) carry no "
                        "expectation beyond 'packet or error'"]


FAMILY = {"C26": c26, "C27": c27, "C29": c29, "C42": c42}


def c28(ctx):
    """No client byte stream crashes the broker or disturbs other clients.  The structured malformed inputs and their
    classification come from TLC (Wire.tla through GenWire job c27: cuts, re-framings, +1 on every length field); whether the
    live broker survives them, closes or serves the connection, ends the handler and keeps serving the reference clients is
    an OBSERVATION of the running code (a child process, because a panic in a connection goroutine kills the process)."""
    size = 1
    stride = 24 if ctx.quick else 3
    prefix, r, rows, bases = _gen(ctx, "c27", size, stride=stride, offset=ctx.seed % stride, timeout=2400)
    vw = _vwire(ctx)
    out = ctx.path("gen", "r_c28.json")
    prog = ctx.path("gen", "c28_progress.txt")
    nrandom = 800 if ctx.quick else 30000
    import subprocess
    from vlib import goenv
    env = goenv()
    env["VERIF_SEED"] = str(ctx.seed)
    try:
        p = subprocess.run([vw, "c28", prefix, str(SHARDS), out, str(nrandom), prog], capture_output=True, text=True, timeout=3000, env=env, cwd=ctx.work)
    except subprocess.TimeoutExpired:
        last = open(prog).read().strip() if os.path.exists(prog) else "?"
        raise Inconclusive("live byte-stream run timed out; last input: %s" % last[:300])
    last = open(prog).read().strip() if os.path.exists(prog) else ""
    if p.returncode != 0:
        err = p.stderr[-3000:]
        if "panic:" in err or "fatal error:" in err:
            what = [l for l in err.splitlines() if l.startswith("panic:") or l.startswith("fatal error:")][:1]
            site = [l.strip() for l in err.splitlines() if "mochi-mqtt/server/v2" in l and "(" in l][:3]
            ctx.violation("the broker process died: %s at %s while serving %s" % (what, site, last[:400]), dict(kind="c28", input=last, stderr=err[-1500:]))
            ctx.cov.update(_level="exploration", states=max(r.distinct, 1), transitions=max(r.generated, 1), traces_validated_against_impl=0,
                           evaluations=rows, distinct_nontrivial=2, rule="run aborted by a broker panic (see violation)", samples=[last[:300]])
            return
        sys.stderr.write(err)
        raise Inconclusive("vwire c28 exited %d" % p.returncode)
    res = json.load(open(out))
    for x in res["handler_leak"][:5]:
        ctx.violation("connection handler did not end after its connection was closed: %s" % x[:300], dict(kind="c28", input=x))
    for x in res["ref_failures"][:5]:
        ctx.violation("well-behaved clients were disturbed (QoS 1 exchange between the reference clients failed) %s" % x[:300], dict(kind="c28", input=x))
    for ver, o in res["oversize"].items():
        if o["connected"] and not o["closed_before_body"]:
            ctx.violation("a packet announcing more than the configured maximum packet size was not refused before its body arrived (MQTT %s)" % ver, dict(kind="c28", oversize=o))
    ctx.log("live run: %d inputs (%d table rows x 2 versions + %d mutations + oversize), outcomes %s, %d reference rounds" %
            (res["inputs"], rows, nrandom, res["outcomes"], res["ref_rounds"]))
    _cov(ctx, [r], traces_validated_against_impl=res["inputs"], evaluations=res["inputs"], distinct_nontrivial=res["classes"],
         rule="TLC (GenWire job c27 over Wire.tla) emitted %d structured malformed inputs (every cut, every re-framed body prefix and +1 on every length "
              "field of %d valid encodings, all packet types). Each was sent to a LIVE broker (maximum packet size 2048) on a fresh connection under MQTT "
              "3.1.1 and 5 - after a valid CONNECT, or as the first packet for CONNECT-shaped inputs - followed by a PINGREQ, plus %d seeded mutations of "
              "the table (1 in 5 as first packet). Observed per input: connection served / closed / waiting for more bytes; the handler ends when the "
              "client closes; every 25 inputs two reference clients complete a QoS 1 publish/deliver/acknowledge round; a header announcing more than "
              "the maximum size with 20 body bytes must be refused without waiting for the body. The harness runs as a child process: a panic in a "
              "connection goroutine is reported with the input being served. distinct_nontrivial = distinct (corruption kind, version, first-packet, "
              "outcome) classes." % (rows, bases, nrandom),
         samples=[dict(outcomes=res["outcomes"], oversize=res["oversize"], last=last[:100])])
    ctx.cov["_level"] = "exploration"
    ctx.assumptions += ["the no-crash / no-disturbance verdict is an observation of the running broker on inputs chosen by the specification, not a TLC result",
                        "in-process connections (net.Pipe), one malformed connection at a time"]


FAMILY["C28"] = c28
