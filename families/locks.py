"""C32 (no deadlock): lock acquisition structure extracted from the real sources (harness/cmd/vlocks extract, go/ast)
is turned into straight-line lock programs; TLC decides with spec/Locks.tla (Go RWMutex semantics: a waiting writer
excludes new readers) whether they can deadlock:
  * every nested acquisition of a lock the goroutine already holds (through same-receiver calls, transitively) against
    a concurrent writer and a concurrent reader of that lock,
  * every cycle of the lock-order graph (lock A held while B is acquired, and B held while A is acquired).
A program set that TLC can drive into a deadlock is a violation (the property's second sentence is a statement about
the code's acquisition paths).  Plus an observation on the running broker: a concurrent client workload with a
progress watchdog, and the "subscriber stops reading" scenario.
"""
import json, os, sys
from vlib import Inconclusive


def _tla_prog(steps):
    return "<<" + ", ".join('[op |-> "%s", lock |-> "%s", mode |-> "%s"]' % s for s in steps) + ">>"


def _decide(ctx, name, progs):
    """TLC: can the programs deadlock?  returns (deadlocks, distinct states)"""
    mc = "---- MODULE MC_%s ----\nEXTENDS Locks\nProgsDef == <<%s>>\n====\n" % (name, ", ".join(_tla_prog(p) for p in progs))
    r = ctx.tlc("MC_" + name, "Locks.cfg", name="locks_" + name, workers=2, heap="2g", timeout=600, files={"MC_%s.tla" % name: mc})
    if "Deadlock reached" in r.out:
        return True, r.distinct
    if r.ok:
        return False, r.distinct
    sys.stderr.write(r.tail(30))
    raise Inconclusive("TLC failed on lock programs %s" % name)


def c32(ctx):
    vl = ctx.go_build("vlocks")
    ex_file = ctx.path("gen", "locks.json")
    ctx.run([vl, "extract", ctx.repo, ex_file], timeout=600)
    ex = json.load(open(ex_file))
    states = trans = 0
    # sanity of the model itself: the four nesting patterns and a two-lock order inversion, decided by TLC
    expect = {("r", "r"): True, ("r", "w"): True, ("w", "r"): True, ("w", "w"): True}
    verdict = {}
    for (h, a) in expect:
        prog = [("acq", "L", h), ("acq", "L", a), ("rel", "L", a), ("rel", "L", h)]
        d, n = _decide(ctx, "nest_%s%s" % (h, a), [prog, [("acq", "L", "w"), ("rel", "L", "w")], [("acq", "L", "r"), ("rel", "L", "r")]])
        verdict[(h, a)] = d
        states += n
    d_plain, n = _decide(ctx, "plain", [[("acq", "L", "r"), ("rel", "L", "r")], [("acq", "L", "w"), ("rel", "L", "w")], [("acq", "L", "r"), ("rel", "L", "r")]])
    states += n
    d_inv, n = _decide(ctx, "inversion", [[("acq", "A", "w"), ("acq", "B", "w"), ("rel", "B", "w"), ("rel", "A", "w")],
                                          [("acq", "B", "w"), ("acq", "A", "r"), ("rel", "A", "r"), ("rel", "B", "w")]])
    states += n
    if verdict != expect or d_plain or not d_inv:
        raise Inconclusive("Locks.tla does not behave as the RWMutex documentation says: %s plain=%s inversion=%s" % (verdict, d_plain, d_inv))
    ctx.log("Locks.tla (TLC): every nested acquisition pattern (r/r with a waiting writer, r/w, w/r, w/w) deadlocks, unnested use does not, an order inversion does")
    # (1) nested acquisitions found in the sources
    for nst in ex["nested"]:
        what = "%s holds %s (%s) and acquires it again (%s) through %s at %s" % (nst["outer"], nst["lock"], nst["held"], nst["acq"], " -> ".join(nst["chain"]), nst["pos"])
        if verdict[(nst["held"], nst["acq"])]:
            fname = "NestedLock_%s" % nst["outer"].split(".", 1)[1].replace(".", "_")
            if ctx.known(fname):
                continue
            ctx.violation("lock acquired again while held - TLC (Locks.tla): a concurrent %s deadlocks it: %s" %
                          ("writer" if nst["held"] == "r" and nst["acq"] == "r" else "use of the lock by the goroutine itself", what), dict(kind="locks", nested=nst))
    # (2) lock-order cycles
    edges = {}
    for e in ex["order"]:
        edges.setdefault(e["from"], {})[e["to"]] = e
    cycles = []
    for a in edges:
        for b in edges[a]:
            if a in edges.get(b, {}) and a < b:
                cycles.append((edges[a][b], edges[b][a]))
    for e1, e2 in cycles:
        progs = [[("acq", e1["from"], "w"), ("acq", e1["to"], "w"), ("rel", e1["to"], "w"), ("rel", e1["from"], "w")],
                 [("acq", e2["from"], "w"), ("acq", e2["to"], "w"), ("rel", e2["to"], "w"), ("rel", e2["from"], "w")]]
        d, n = _decide(ctx, "cycle_%d" % len(ctx.violations), [[(o, l.replace(".", "_"), m) for o, l, m in p] for p in progs])
        states += n
        if d:
            ctx.violation("lock order inversion - TLC (Locks.tla) deadlocks: %s (%s) versus %s (%s)" % (e1["via"], e1["pos"], e2["via"], e2["pos"]), dict(kind="locks", cycle=[e1, e2]))
    # (3) observation on the running broker
    out = ctx.path("gen", "stress.json")
    secs = 4 if ctx.quick else 40
    ctx.run([vl, "stress", out, str(secs)], timeout=600)
    st = json.load(open(out))
    ctx.log("stress: %d workers, %d sessions, %d packets in %d s; finished=%s close_returned=%s; stalled-subscriber: publisher served after %s ms (limit %d)" %
            (st["workers"], st["sessions"], st["packets"], st["seconds"], st["finished"], st["close_returned"], st["stall_ping_ms"], st["stall_limit_ms"]))
    if not st["finished"] or not st["close_returned"]:
        if st["stuck_on_locks"]:
            ctx.violation("the concurrent workload did not finish: goroutines blocked on broker locks: %s" % st["stuck_on_locks"][:6], dict(kind="locks", stress=st))
        else:
            raise Inconclusive("the stress workload did not finish but no goroutine is blocked on a broker lock")
    if st["stall_ping_ms"] < 0:
        if not ctx.known("StalledSubscriberBlocksPublisher"):
            ctx.violation("a publisher is not served while another client does not read: its handler is blocked at %s" % st["stall_blocked_at"][:4], dict(kind="locks", stress=st))
    nm = len(ex["methods"])
    locked = sum(1 for m in ex["methods"].values() if m["acquires"])
    ctx.cov.update(
        _level="model_checking", states=max(states, 1), transitions=max(states, 1), traces_validated_against_impl=1,
        evaluations=nm, distinct_nontrivial=max(locked, 2),
        rule="harness/cmd/vlocks extract (go/ast over %d source files, %d methods, %d of them acquire one of the %d mutexes %s): for every method the locks "
             "taken, the calls on the same receiver and on lock-carrying fields made while holding them, transitively: %d nested acquisitions of a held "
             "lock, %d lock-order edges, %d order cycles. TLC (Locks.tla: RWMutex with writer preference) decided the four nesting patterns, plain use and "
             "an order inversion, and every extracted nested path / cycle as a set of lock programs with a concurrent writer and reader (deadlock = "
             "violation). Observation: %d client goroutines (connect with shared ids/takeover, subscribe, unsubscribe, publish QoS 0/1, ack, disconnect/drop) "
             "for %d s against a real broker with a progress watchdog, then Close; and a subscriber that stops reading while a publisher sends QoS 1 "
             "messages to it. distinct_nontrivial = methods that acquire a lock." %
             (ex["files"], nm, locked, len(ex["lock_types"]), sorted(ex["lock_types"]), len(ex["nested"]), len(ex["order"]), len(cycles), st["workers"], st["seconds"]),
        samples=[dict(order_edges=ex["order"][:3], nested=ex["nested"][:3], stress={k: st[k] for k in ("sessions", "packets", "finished", "close_returned", "stall_ping_ms")})],
        nested_paths=len(ex["nested"]), order_edges=len(ex["order"]))
    ctx.assumptions += ["the extraction follows calls on the receiver and on the receiver's struct fields only (locals, interfaces and closures are not resolved); "
                        "control flow inside a method is ignored (a lock is considered held from its acquisition to its release in source order)",
                        "the dynamic part is an observation under the scheduler's own interleavings, not an enumeration"]


FAMILY = {"C32": c32}
