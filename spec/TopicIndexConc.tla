---------------------------- MODULE TopicIndexConc ----------------------------
(* C31  The topic index (topics.go TopicsIndex) under concurrent mutators is LINEARIZABLE with  *)
(* respect to "a set of subscriptions and a map of retained messages", including the return    *)
(* values: Subscribe / InlineSubscribe report whether the subscription was new, Unsubscribe /  *)
(* InlineUnsubscribe whether it existed, RetainMessage 1 / -1 / 0.                             *)
(*                                                                                             *)
(* Part 1  ABSTRACT OBJECT: state S = [subs, ret]; operators Ret(o, S) (the value the call     *)
(*         must return), Eff(o, S) (the state afterwards), AnsSubs / AnsInline / AnsMsgs (what  *)
(*         Subscribers(topic) / Messages(filter) must answer; matching = MqttTopics!Matches).  *)
(* Part 2  JUDGE (module TraceTopicIndexConc, spec LSpec): a recorded batch is a sequence of calls, each with goroutine g, *)
(*         per-goroutine number k, global atomic stamps inv (taken before the call) and ret    *)
(*         (taken after it returned), the value r it returned - plus the answers of queries    *)
(*         made sequentially after the batch.  TLC searches (depth-first queue) for ONE serial *)
(*         order consistent with per-goroutine order and real-time precedence                  *)
(*         (ret[j] < inv[i] => j before i) in which every call returns what Ret says and after *)
(*         which the abstract state gives exactly the recorded final answers.  Batches are     *)
(*         processed one after the other; the search stops at the first batch it cannot        *)
(*         explain (the runner reports it and restarts after it).                              *)
(* Part 3  DESIGN MODEL (spec Spec): processes invoke / take effect atomically / return on the *)
(*         abstract object with a global clock, producing histories with stamps.  Invariant    *)
(*         WitnessAccepted: the judge's constraints accept every such history (its own         *)
(*         linearization order passes PreOf, RetOK and yields the final state) - the judge has *)
(*         no false alarms on an atomic object; with Bug = TRUE (the object returns TRUE from   *)
(*         unsubscribe whenever the trie NODE exists) the invariant must fail unless the named *)
(*         deviation is in Allowed.                                                            *)
(*                                                                                             *)
(* DEVIATIONS (defects of the implementation, accepted only when named in Allowed):            *)
(*   "UnsubscribeReturnsTrueForNonSubscriber"       Unsubscribe(f, c) returns TRUE although c   *)
(*        holds no subscription on f, when the trie node of f exists (something is subscribed  *)
(*        or retained at or beneath f).                                                        *)
(*   "InlineUnsubscribeReturnsTrueForNonSubscriber" the same for InlineUnsubscribe(id, f).      *)
EXTENDS MqttTopics, Integers, TLC, Json, IOUtils, SequencesExt, FiniteSetsExt

(* ------------------------------------------------------------------ Part 1: abstract object *)
(* an operation: [op, who, x, p]  op in sub unsub isub iunsub retain clear; who = client or    *)
(* inline id; x = filter (topic for retain / clear) as a sequence of levels; p = payload id    *)
S0 == [subs |-> {}, ret |-> <<>>]

KindOf(o) == IF o.op \in {"sub", "unsub"} THEN "client" ELSE "inline"
Key(o) == [kind |-> KindOf(o), who |-> o.who, f |-> o.x]

Ret(o, S) ==
    CASE o.op \in {"sub", "isub"}     -> IF Key(o) \in S.subs THEN 0 ELSE 1
      [] o.op \in {"unsub", "iunsub"} -> IF Key(o) \in S.subs THEN 1 ELSE 0
      [] o.op = "retain"              -> 1
      [] o.op = "clear"               -> IF o.x \in DOMAIN S.ret THEN -1 ELSE 0

Eff(o, S) ==
    CASE o.op \in {"sub", "isub"}     -> [S EXCEPT !.subs = @ \cup {Key(o)}]
      [] o.op \in {"unsub", "iunsub"} -> [S EXCEPT !.subs = @ \ {Key(o)}]
      [] o.op = "retain"              -> [S EXCEPT !.ret = [t \in DOMAIN @ \cup {o.x} |-> IF t = o.x THEN o.p ELSE @[t]]]
      [] o.op = "clear"               -> [S EXCEPT !.ret = [t \in DOMAIN @ \ {o.x} |-> @[t]]]

AnsSubs(S, t)   == {<<s.who, s.f>> : s \in {x \in S.subs : x.kind = "client" /\ Matches(x.f, t)}}
AnsInline(S, t) == {s.who : s \in {x \in S.subs : x.kind = "inline" /\ Matches(x.f, t)}}
AnsMsgs(S, f)   == {S.ret[t] : t \in {x \in DOMAIN S.ret : Matches(f, x)}}

(* the trie node of filter f exists iff something is subscribed or retained at or beneath it *)
IsPrefixL(a, b) == Len(a) <= Len(b) /\ \A i \in 1..Len(a) : a[i] = b[i]
NodeExists(S, f) == \/ \E s \in S.subs : IsPrefixL(f, s.f)
                    \/ \E t \in DOMAIN S.ret : IsPrefixL(f, t)

DevName(o) == IF o.op = "unsub" THEN "UnsubscribeReturnsTrueForNonSubscriber"
              ELSE "InlineUnsubscribeReturnsTrueForNonSubscriber"
(* is the recorded value r acceptable for o in state S, given the allowed deviations A *)
Deviates(o, r, S) == o.op \in {"unsub", "iunsub"} /\ r = 1 /\ Ret(o, S) = 0 /\ NodeExists(S, o.x)
RetOK(o, r, S, A) == r = Ret(o, S) \/ (Deviates(o, r, S) /\ DevName(o) \in A)

(* calls that must be linearized before call i of history O *)
PreOf(O, i) == {j \in 1..Len(O) : j # i /\ (O[j].ret < O[i].inv \/ (O[j].g = O[i].g /\ O[j].k < O[i].k))}

(* ------------------------------------------------------------------ Part 3: design model (Part 2, the judge, is TraceTopicIndexConc.tla) *)
CONSTANTS Procs, MaxOps, Alphabet, Bug, Allowed

VARIABLES pc, cur, obj, clock, hist, order
dvars == <<pc, cur, obj, clock, hist, order>>

Nil == [op |-> "nil"]

(* what the modelled implementation returns: the abstract value, or (Bug) TRUE from unsubscribe *)
(* whenever the node exists                                                                    *)
ImplRet(o, S) == IF Bug /\ o.op \in {"unsub", "iunsub"} /\ NodeExists(S, o.x) THEN 1 ELSE Ret(o, S)

Init ==
    /\ pc = [p \in Procs |-> "idle"] /\ cur = [p \in Procs |-> Nil]
    /\ obj = S0 /\ clock = 1 /\ hist = <<>> /\ order = <<>>

Count(p) == Cardinality({i \in 1..Len(hist) : hist[i].g = p})

Invoke(p, o) ==
    /\ pc[p] = "idle" /\ Count(p) < MaxOps
    /\ cur' = [cur EXCEPT ![p] = [op |-> o.op, who |-> o.who, x |-> o.x, p |-> o.p,
                                   g |-> p, k |-> Count(p) + 1, inv |-> clock, ret |-> 0, r |-> 0]]
    /\ pc' = [pc EXCEPT ![p] = "invoked"] /\ clock' = clock + 1
    /\ UNCHANGED <<obj, hist, order>>

TakeEffect(p) ==
    /\ pc[p] = "invoked"
    /\ cur' = [cur EXCEPT ![p].r = ImplRet(cur[p], obj)]
    /\ obj' = Eff(cur[p], obj)
    /\ order' = Append(order, <<p, cur[p].k>>)
    /\ pc' = [pc EXCEPT ![p] = "effected"]
    /\ UNCHANGED <<clock, hist>>

Return(p) ==
    /\ pc[p] = "effected"
    /\ hist' = Append(hist, [cur[p] EXCEPT !.ret = clock])
    /\ clock' = clock + 1
    /\ pc' = [pc EXCEPT ![p] = "idle"] /\ cur' = [cur EXCEPT ![p] = Nil]
    /\ UNCHANGED <<obj, order>>

Next == \E p \in Procs : TakeEffect(p) \/ Return(p) \/ \E o \in Alphabet : Invoke(p, o)

Spec == Init /\ [][Next]_dvars

(* position in hist of the call <<p, k>> *)
PosOf(pk) == CHOOSE i \in 1..Len(hist) : hist[i].g = pk[1] /\ hist[i].k = pk[2]

RECURSIVE ReplayOK(_, _, _)
(* calls ord[n..] replayed from S: each return value acceptable, final state = obj *)
ReplayOK(n, S, ord) ==
    IF n > Len(ord) THEN S = obj
    ELSE LET o == hist[ord[n]] IN
         /\ RetOK(o, o.r, S, Allowed)
         /\ PreOf(hist, ord[n]) \subseteq {ord[m] : m \in 1..(n - 1)}
         /\ ReplayOK(n + 1, Eff(o, S), ord)

Quiescent == \A p \in Procs : pc[p] = "idle"

WitnessAccepted ==
    Quiescent => ReplayOK(1, S0, [n \in 1..Len(order) |-> PosOf(order[n])])

TypeOK ==
    /\ \A s \in obj.subs : s.kind \in {"client", "inline"}
    /\ clock \in Nat /\ Len(hist) <= MaxOps * Cardinality(Procs)
    /\ Quiescent => Len(order) = Len(hist)


(* constants of the design configs *)
SmallAlphabet ==
       {[op |-> o, who |-> "c1", x |-> f, p |-> ""] : o \in {"sub", "unsub"}, f \in {<<"a">>, <<"a", "b">>}}
  \cup {[op |-> "unsub", who |-> "c2", x |-> <<"a">>, p |-> ""], [op |-> "sub", who |-> "c2", x |-> <<"a">>, p |-> ""]}
  \cup {[op |-> o, who |-> "i1", x |-> <<"a", "b">>, p |-> ""] : o \in {"isub", "iunsub"}}
  \cup {[op |-> "retain", who |-> "", x |-> <<"a", "b">>, p |-> "p1"], [op |-> "clear", who |-> "", x |-> <<"a", "b">>, p |-> ""]}
TinyAlphabet ==
       {[op |-> o, who |-> "c1", x |-> <<"a">>, p |-> ""] : o \in {"sub", "unsub"}}
  \cup {[op |-> "unsub", who |-> "c2", x |-> <<"a">>, p |-> ""], [op |-> "sub", who |-> "c1", x |-> <<"a", "b">>, p |-> ""]}
  \cup {[op |-> "retain", who |-> "", x |-> <<"a", "b">>, p |-> "p1"], [op |-> "clear", who |-> "", x |-> <<"a", "b">>, p |-> ""]}
NoDeviation == {}
BothDeviations == {"UnsubscribeReturnsTrueForNonSubscriber", "InlineUnsubscribeReturnsTrueForNonSubscriber"}
================================================================================
