SPECIFICATION TSpec
CONSTANTS
  C = {"c1", "c2", "c3"}
  Dev = {}
  MaxHist = 100000
POSTCONDITION Done
CHECK_DEADLOCK FALSE
