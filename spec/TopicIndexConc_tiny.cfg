\* design config (quick tier): 2 processes x 2 calls over 6 operations
SPECIFICATION Spec
CONSTANTS
  Procs = {1, 2}
  MaxOps = 2
  Alphabet <- TinyAlphabet
  Bug = FALSE
  Allowed <- NoDeviation
INVARIANTS TypeOK WitnessAccepted
CHECK_DEADLOCK FALSE
