SPECIFICATION Spec
CONSTANTS
  N = 3
  MaxChoices = {2, 3}
  IdSet = {"a", "b"}
  CfgChoices <- AnyChoices
  Dev <- CodeDevs
  EnvOn <- EnvAll
  MaxHist = 1000
INVARIANT DumpInv
CHECK_DEADLOCK FALSE
