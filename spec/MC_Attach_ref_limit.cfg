SPECIFICATION Spec
CONSTANTS
  N = 3
  MaxChoices = {1}
  IdSet = {"a", "b"}
  CfgChoices <- LimitChoices
  Dev <- NoDev
  EnvOn <- EnvLimit
  MaxHist = 60
VIEW view
INVARIANTS P35 P36 P36b P14 P14b P15 P15b P13 P16 P16c PCnt
PROPERTY WgContract
CHECK_DEADLOCK FALSE
