SPECIFICATION Spec
CONSTANTS
  N = 2
  MaxChoices = {2}
  IdSet = {"a", "b"}
  CfgChoices <- ExpireChoices
  Dev <- NoDev
  EnvOn <- EnvExpire
  MaxHist = 60
VIEW view
INVARIANTS P35 P36 P36b P14 P14b P15 P15b P13 P16 P16c PCnt
PROPERTY WgContract
CHECK_DEADLOCK FALSE
