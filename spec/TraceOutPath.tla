----------------------------- MODULE TraceOutPath -----------------------------
(* Trace specification for the write-path schedules (C34, C39, C12; C23/C03 as far as one         *)
(* connection's output stream goes).                                                              *)
(* Input: the ndjson record of harness/driver/outpath.go - per scenario one "cfg" line, one        *)
(* "step" line per schedule step (w, g / og = the schedule points the released goroutine / the     *)
(* other writer were expected to reach, got / goto = where they got to, obs = projection of the    *)
(* real client's output state) and one "end" line taken after the run was drained.                *)
(*                                                                                                *)
(* Two judgements per line, as in TraceAttach:                                                    *)
(*  (1) CONFORMANCE (tags "conf.*"): OutPath.tla with Dev = {} takes the action that logs the      *)
(*      recorded step; its state must project onto the observation (queue length, bytes in the     *)
(*      write buffer, whether the client lock is held, packets on the wire, reported sent /        *)
(*      dropped, overlapping connection writes). A mismatch is reported by the runner as           *)
(*      inconclusive, not as a violation.                                                          *)
(*  (2) PROPERTIES over the observations and the ids the environment handed in, independent of     *)
(*      the model state: tags "C34.*", "C39.*", "C12.*", "C23.*", "C03.*".                          *)
EXTENDS OutPath, Json, IOUtils, SequencesExt, FiniteSetsExt

Trace   == ndJsonDeserialize(IOEnv.VERIF_TRACE)
OutFile == IOEnv.VERIF_OUT

VARIABLES l, bad, scen, confOK, reported,
          given       \* ids the environment handed to the output path (publishes, pings) in this scenario
tvars == <<l, bad, scen, confOK, reported, given>>

ToSetS(s) == {s[i] : i \in 1..Len(s)}

Mismatch(o) ==       \* compares the PRIMED model state with the observation o
    (IF Len(q') # o.q THEN {"conf.queue"} ELSE {})
    \cup (IF (o.ob = -1) # (lock' # "none") THEN {"conf.lock"} ELSE {})
    \cup (IF o.ob >= 0 /\ Size(outbuf') # o.ob THEN {"conf.buffer"} ELSE {})
    \cup (IF wire' # o.wire THEN {"conf.wire"} ELSE {})
    \cup (IF sent' # ToSetS(o.sent) THEN {"conf.sent"} ELSE {})
    \cup (IF dropped' # ToSetS(o.dropped) THEN {"conf.dropped"} ELSE {})
    \cup (IF maxw' # o.maxw THEN {"conf.maxw"} ELSE {})
    \cup (IF closed' # o.closed THEN {"conf.closed"} ELSE {})

(* ---------------------------------------------------------------- property rules *)
StreamRules(o) ==
    (IF o.maxw > 1 THEN {"C39.overlapping-connection-writes"} ELSE {})
    \cup (IF \E i \in 1..Len(o.wire) : o.wire[i] < 0 THEN {"C23.malformed-output-stream"} ELSE {})
    \cup (IF \E i \in 1..Len(o.wire) : o.wire[i] = DiscId /\ i < Len(o.wire) THEN {"C23.packet-after-disconnect"} ELSE {})
    \cup (IF \E i, j \in 1..Len(o.wire) : i < j /\ o.wire[i] = o.wire[j] /\ o.wire[i] > 0 THEN {"C03.packet-written-twice"} ELSE {})
    \cup (IF \E i, j \in 1..Len(o.wire) : i < j /\ o.wire[i] > 0 /\ o.wire[j] > 0 /\ (o.wire[i] > 200) = (o.wire[j] > 200) /\ o.wire[i] > o.wire[j]
          THEN {"C12.out-of-order-on-connection"} ELSE {})
    \cup (IF ToSetS(o.wire) \cap ToSetS(o.dropped) # {} THEN {"C34.dropped-packet-written"} ELSE {})
    \cup (IF \E x \in ToSetS(o.wire) : x > 0 /\ x \notin given' THEN {"C03.unknown-packet-written"} ELSE {})

EndRules(o) ==
    IF o.closed THEN      \* the broker has ended the connection (DISCONNECT): what was queued behind it is not owed any more
        (IF DiscId \in ToSetS(o.sent) /\ DiscId \notin ToSetS(o.wire) THEN {"C23.disconnect-reported-but-not-written"} ELSE {})
    ELSE
    (IF o.ob > 0 THEN {"C34.bytes-stranded-in-buffer"} ELSE {})
    \cup (IF ~(ToSetS(o.sent) \subseteq ToSetS(o.wire)) THEN {"C34.reported-sent-not-on-wire"} ELSE {})
    \cup (IF \E x \in given : x \notin ToSetS(o.wire) /\ x \notin ToSetS(o.dropped) THEN {"C34.packet-neither-written-nor-reported-dropped"} ELSE {})
    \cup (IF o.q # 0 THEN {"C34.queue-not-drained"} ELSE {})
    \* C07: every PINGREQ got its PINGRESP
    \cup (IF \E x \in given : x > 200 /\ x < DiscId /\ x \notin ToSetS(o.wire) THEN {"C07.pingreq-unanswered"} ELSE {})

(* ---------------------------------------------------------------- steps *)
ModelVars == vars

Reset(e) ==
    /\ q' = <<>> /\ cur' = [w \in W |-> NoPk] /\ pc' = [w \in W |-> "idle"] /\ lock' = "none" /\ outbuf' = <<>>
    /\ pend' = [w \in W |-> <<>>] /\ fl' = [w \in W |-> FALSE] /\ qseen' = [w \in W |-> 0]
    /\ wire' = <<>> /\ sent' = {} /\ dropped' = {} /\ acc' = {} /\ npub' = 0 /\ ndir' = 0 /\ inwrite' = {} /\ maxw' = 0 /\ hist' = <<>>
    /\ closed' = FALSE /\ disc' = FALSE /\ refd' = [w \in W |-> FALSE]
    /\ scen' = [name |-> e.name, line |-> l, cap |-> e.cap]
    /\ confOK' = TRUE /\ reported' = {} /\ given' = {} /\ bad' = bad

Follow(e) == Next /\ hist' = Append(hist, <<e.w, e.g, e.og>>)

NPub == Cardinality({x \in given : x < 200})
NDir == Cardinality({x \in given : x > 200 /\ x < DiscId})
Ghost(e) ==
    given' = IF e.w = "env" /\ e.g # "age" THEN given \cup {IF e.g = "ping" THEN 200 + NDir + 1 ELSE IF e.g = "bad" THEN DiscId ELSE 100 + NPub + 1} ELSE given

Complain(c, e) ==
    /\ reported' = reported \cup c
    /\ bad' = IF c \ reported = {} \/ Len(bad) >= 2000 THEN bad
                ELSE Append(bad, [line |-> l, scen |-> scen.name, start |-> scen.line, w |-> e.w, g |-> e.g, got |-> e.got, complaints |-> SetToSeq(c \ reported)])

Conforms(e) == confOK /\ e.got = e.g /\ e.goto = e.og /\ scen.cap = Cap /\ ENABLED Follow(e)

StepFollow(e) ==
    /\ Conforms(e)
    /\ Follow(e)
    /\ Ghost(e)
    /\ LET m == Mismatch(e.obs) IN
         /\ confOK' = (m = {})
         /\ Complain(m \cup StreamRules(e.obs), e)
    /\ UNCHANGED scen

StepFree(e) ==
    /\ ~Conforms(e)
    /\ UNCHANGED ModelVars
    /\ Ghost(e)
    /\ confOK' = FALSE
    /\ Complain((IF confOK THEN (IF e.got # e.g \/ e.goto # e.og THEN {"conf.gate"} ELSE {"conf.not-enabled"}) ELSE {}) \cup StreamRules(e.obs), e)
    /\ UNCHANGED scen

EndLine(e) ==
    /\ UNCHANGED ModelVars
    /\ UNCHANGED <<scen, confOK, given>>
    \* (a run that did not come to rest within the runner's patience is not judged by the rules of the state at rest)
    /\ Complain(IF e.note # "" THEN {"harness.trouble"} \cup StreamRules(e.obs)
                ELSE StreamRules(e.obs) \cup EndRules(e.obs), [w |-> "-", g |-> "end", got |-> ""])

TInit ==
    /\ Init
    /\ l = 1 /\ bad = <<>> /\ scen = [name |-> "", line |-> 0, cap |-> 0] /\ confOK = TRUE /\ reported = {} /\ given = {}

TNext ==
    /\ l <= Len(Trace)
    /\ LET e == Trace[l] IN
         \/ e.ev = "cfg" /\ Reset(e)
         \/ e.ev = "step" /\ (StepFollow(e) \/ StepFree(e))
         \/ e.ev = "end" /\ EndLine(e)
    /\ l' = l + 1
    /\ TLCSet(1, l') /\ TLCSet(2, bad')

TSpec == TInit /\ [][TNext]_<<vars, tvars>>

Done == /\ TLCGet(1) = Len(Trace) + 1
        /\ JsonSerialize(OutFile, [lines |-> Len(Trace), bad |-> TLCGet(2)])
===============================================================================
