------------------------------- MODULE BufPool -------------------------------
(* C41  The packet buffer pool (mempool/bufpool.go): pooled buffers are never shared and never  *)
(* handed out dirty; a capped pool never hands out a buffer whose capacity exceeds its cap.    *)
(*                                                                                             *)
(* STATE.  `held` maps every LIVE buffer object (handed out or kept by the pool) to the set of *)
(* holders that obtained it from Get and have not yet given it to Put; the property demands    *)
(* that this set never has two members (the design names a single "holder or None": the set    *)
(* form is used so that "held by two holders" is a state the model can express and the         *)
(* invariant can refute).  `free` is the set of buffers the pool keeps.  `len`, `cap` are the  *)
(* current length / capacity of each live buffer object and `data` is the holder whose bytes   *)
(* the buffer contains (None = nothing written since it was created / reset).  A buffer that   *)
(* is neither held nor kept is garbage and leaves the domain (its identity - a pointer - may   *)
(* come back later as a brand-new object).  `last` is the most recent hand-out.                *)
(*                                                                                             *)
(* ACTIONS.  GetFresh / GetPooled (the two ways Get can answer: sync.Pool's New, or a kept     *)
(* buffer), Write (a holder appends to its buffer, which may grow), Put (Reset + keep unless   *)
(* over the cap), Drop (sync.Pool may forget kept buffers at any time).                        *)
(*                                                                                             *)
(* The three constants GetRemoves / PutResets / PutChecksCap are TRUE for the pool as          *)
(* documented.  Setting one to FALSE gives a faulty pool; TLC must then refute an invariant    *)
(* (BufPool_bad*.cfg) - this shows that the invariants are not vacuous.                        *)
(*                                                                                             *)
(* The same module judges logs recorded from the real pool: see TraceBufPool.tla.              *)
EXTENDS Naturals, FiniteSets, TLC

CONSTANTS Buffers,        \* buffer identities
          Holders,        \* users of the pool (goroutines)
          Cap,            \* 0: uncapped pool (NewBuffer(0)); > 0: NewBuffer(Cap)
          Sizes,          \* lengths / capacities a buffer can take
          GetRemoves, PutResets, PutChecksCap

None == "none"

VARIABLES free, held, len, cap, data, last
vars == <<free, held, len, cap, data, last>>

Live == DOMAIN held

(* ---- the guarantees of the property, for ONE hand-out (previous holders h, length l, capacity c) *)
NotShared(h) == h = {}
Empty(l)     == l = 0
WithinCap(c) == Cap = 0 \/ c <= Cap
Keeps(c)     == Cap = 0 \/ c <= Cap          \* what a capped Put may keep

NoHandout == [b |-> None]

Without(f, b) == [x \in (DOMAIN f) \ {b} |-> f[x]]
With(f, b, v) == [x \in (DOMAIN f) \cup {b} |-> IF x = b THEN v ELSE f[x]]

Init ==
    /\ free = {} /\ held = <<>> /\ len = <<>> /\ cap = <<>> /\ data = <<>>
    /\ last = NoHandout

(* Get answered by New: a brand-new empty object (Go: new(bytes.Buffer), capacity 0).           *)
GetFresh(g, b) ==
    /\ b \notin Live
    /\ held' = With(held, b, {g}) /\ len' = With(len, b, 0) /\ cap' = With(cap, b, 0)
    /\ data' = With(data, b, None)
    /\ last' = [b |-> b, g |-> g, prev |-> {}, len |-> 0, cap |-> 0, fresh |-> TRUE]
    /\ UNCHANGED free

(* Get answered with a kept buffer.                                                            *)
GetPooled(g, b) ==
    /\ b \in free
    /\ free' = IF GetRemoves THEN free \ {b} ELSE free
    /\ held' = [held EXCEPT ![b] = @ \cup {g}]
    /\ last' = [b |-> b, g |-> g, prev |-> held[b], len |-> len[b], cap |-> cap[b], fresh |-> FALSE]
    /\ UNCHANGED <<len, cap, data>>

(* A holder writes: the buffer then contains n bytes of g's data and has capacity c.           *)
CanWrite(g, b, n, c) ==
    /\ b \in Live /\ g \in held[b]
    /\ n \in Sizes /\ c \in Sizes /\ n <= c /\ cap[b] <= c          \* a buffer never shrinks
Write(g, b, n, c) ==
    /\ CanWrite(g, b, n, c)
    /\ len' = [len EXCEPT ![b] = n] /\ cap' = [cap EXCEPT ![b] = c]
    /\ data' = [data EXCEPT ![b] = g]
    /\ UNCHANGED <<free, held, last>>

(* Put: Reset, then keep the buffer unless the pool is capped and the buffer grew beyond it.   *)
Put(g, b) ==
    /\ b \in Live /\ g \in held[b]
    /\ LET keep == ~PutChecksCap \/ Keeps(cap[b])
           rest == held[b] \ {g}
       IN  IF keep \/ rest # {} \/ b \in free
           THEN /\ held' = [held EXCEPT ![b] = rest]
                /\ len'  = IF PutResets THEN [len EXCEPT ![b] = 0] ELSE len
                /\ data' = IF PutResets THEN [data EXCEPT ![b] = None] ELSE data
                /\ free' = IF keep THEN free \cup {b} ELSE free
                /\ UNCHANGED cap
           ELSE /\ held' = Without(held, b) /\ len' = Without(len, b)       \* garbage
                /\ cap' = Without(cap, b) /\ data' = Without(data, b)
                /\ UNCHANGED free
    /\ UNCHANGED last

(* sync.Pool may drop what it keeps (GC).                                                       *)
Drop(b) ==
    /\ b \in free /\ free' = free \ {b}
    /\ IF held[b] = {}
       THEN held' = Without(held, b) /\ len' = Without(len, b) /\ cap' = Without(cap, b) /\ data' = Without(data, b)
       ELSE UNCHANGED <<held, len, cap, data>>
    /\ UNCHANGED last

Next ==
    \/ \E g \in Holders, b \in Buffers : GetFresh(g, b) \/ GetPooled(g, b) \/ Put(g, b)
    \/ \E g \in Holders, b \in Buffers, n \in Sizes, c \in Sizes : Write(g, b, n, c)
    \/ \E b \in Buffers : Drop(b)

Spec == Init /\ [][Next]_vars

(* --------------------------------------------------------------------------- properties *)
TypeOK ==
    /\ free \subseteq Live /\ Live \subseteq Buffers
    /\ \A b \in Live : held[b] \subseteq Holders /\ len[b] \in Sizes /\ cap[b] \in Sizes /\ len[b] <= cap[b]
    /\ DOMAIN len = Live /\ DOMAIN cap = Live /\ DOMAIN data = Live

(* never handed to two users at the same time *)
NoSharing == /\ \A b \in Live : Cardinality(held[b]) <= 1
             /\ \A b \in free : held[b] = {}
             /\ last # NoHandout => NotShared(last.prev)
(* a buffer obtained from the pool is always empty *)
HandedOutEmpty == /\ last # NoHandout => Empty(last.len)
                  /\ \A b \in free : len[b] = 0 /\ data[b] = None
(* a capped pool never hands out (because it never keeps) a buffer above its cap *)
CapRespected == /\ last # NoHandout => WithinCap(last.cap)
                /\ \A b \in free : Keeps(cap[b])
(* consequence observed by the users: what a holder wrote is still there when it looks again *)
Intact == \A b \in Live : \A g \in held[b] : data[b] \in {None, g}

(* no garbage is tracked: every live buffer is held or kept *)
NoLeakInModel == \A b \in Live : held[b] # {} \/ b \in free
================================================================================
