--------------------------- MODULE TraceRetainExpiry ---------------------------
(* Trace specification for the schedules of RetainExpiry.tla run by harness/cmd/vretain on a real server (C05). *)
(* (1) CONFORMANCE ("conf.*"): the model takes the logged action; the step's result and the stored retained message  *)
(*     must agree with it.  (2) PROPERTY rules on the observations and the publish history alone ("C05.*").         *)
EXTENDS RetainExpiry, Json, IOUtils, SequencesExt, FiniteSetsExt

Trace   == ndJsonDeserialize(IOEnv.VERIF_TRACE)
OutFile == IOEnv.VERIF_OUT

VARIABLES l, bad, scen, confOK, reported,
          fresh      \* the latest published message while no time has passed since (0: none)
tvars == <<l, bad, scen, confOK, reported, fresh>>

Num(x) == IF x \in {"0", "1", "2", "3", "4", "5", "6", "7", "8", "9"} THEN CHOOSE n \in 0..9 : ToString(n) = x ELSE -1
XOf(e) == IF e.what \in {"pub", "age", "sub"} THEN Num(e.x) ELSE e.x

Reset(e) ==
    /\ store' = None /\ npub' = 0 /\ held' = None /\ lost' = FALSE /\ hist' = <<>>
    /\ scen' = [name |-> e.name, line |-> l] /\ confOK' = TRUE /\ reported' = {} /\ fresh' = 0 /\ bad' = bad

Follow(e) == Next /\ hist' = Append(hist, <<e.who, e.what, XOf(e)>>)
Complain(c, e) ==
    /\ reported' = reported \cup c
    /\ bad' = IF c \ reported = {} \/ Len(bad) >= 2000 THEN bad
                ELSE Append(bad, [line |-> l, scen |-> scen.name, start |-> scen.line, who |-> e.who, what |-> e.what, complaints |-> SetToSeq(c \ reported)])

FreshNext(e) == IF e.what = "pub" THEN Num(e.x) ELSE IF e.what = "age" THEN 0 ELSE fresh
Rules(e) ==
    \* a retained message published since time last passed is the stored one, and a new subscriber gets it
    (IF FreshNext(e) # 0 /\ e.stored # FreshNext(e) THEN {"C05.fresh-retained-message-lost"} ELSE {})
    \cup (IF e.what = "sub" /\ fresh # 0 /\ e.got # ToString(fresh) THEN {"C05.fresh-retained-message-not-replayed"} ELSE {})
Mismatch(e) ==
    (IF e.got # e.x THEN {"conf.result"} ELSE {})
    \cup (IF e.stored # store'.m THEN {"conf.store"} ELSE {})

Conforms(e) == confOK /\ ENABLED Follow(e)
StepFollow(e) ==
    /\ Conforms(e) /\ Follow(e)
    /\ LET m == Mismatch(e) IN confOK' = (m = {}) /\ Complain(m \cup Rules(e), e)
    /\ fresh' = FreshNext(e) /\ UNCHANGED scen
StepFree(e) ==
    /\ ~Conforms(e) /\ UNCHANGED vars /\ confOK' = FALSE
    /\ Complain((IF confOK THEN {"conf.not-enabled"} ELSE {}) \cup Rules(e), e)
    /\ fresh' = FreshNext(e) /\ UNCHANGED scen
EndLine(e) ==
    /\ UNCHANGED vars /\ UNCHANGED <<scen, confOK, fresh>>
    /\ Complain(IF fresh # 0 /\ e.stored # fresh THEN {"C05.fresh-retained-message-lost"} ELSE {}, [who |-> "-", what |-> "end"])

TInit == Init /\ l = 1 /\ bad = <<>> /\ scen = [name |-> "", line |-> 0] /\ confOK = TRUE /\ reported = {} /\ fresh = 0
TNext ==
    /\ l <= Len(Trace)
    /\ LET e == Trace[l] IN
         \/ e.ev = "cfg" /\ Reset(e)
         \/ e.ev = "step" /\ (StepFollow(e) \/ StepFree(e))
         \/ e.ev = "end" /\ EndLine(e)
    /\ l' = l + 1
    /\ TLCSet(1, l') /\ TLCSet(2, bad')
TSpec == TInit /\ [][TNext]_<<vars, tvars>>
Done == /\ TLCGet(1) = Len(Trace) + 1
        /\ JsonSerialize(OutFile, [lines |-> Len(Trace), bad |-> TLCGet(2)])
=================================================================================
