------------------------------ MODULE TraceAttach ------------------------------
(* Trace specification for the connection life-cycle family (C13 C14 C15 C16 C35 C36).          *)
(* Input: the ndjson record of harness/driver/attach.go - per scenario one "cfg" line, one       *)
(* "step" line per schedule step (h, g = the schedule point asked for, got = the point the real  *)
(* code reached, obs = projection of the real broker after the step) and one "end" line.         *)
(*                                                                                             *)
(* Two judgements per step:                                                                     *)
(*  (1) CONFORMANCE.  The model of the code (Attach.tla with Dev = the deviations the code has)   *)
(*      takes the action that logs the same event; the projection of the model state must equal   *)
(*      the recorded projection.  A mismatch means the model does not describe the code (tag      *)
(*      "conf.*"): the runner reports it as inconclusive, not as a property violation.            *)
(*  (2) PROPERTIES.  The listed properties as predicates over the recorded observations and a    *)
(*      little ghost state (who dropped, who subscribed, ...), independent of the model state:   *)
(*      tags "C35.*", "C36.*", "C13.*", "C14.*", "C15.*", "C16.*".                                *)
EXTENDS Attach, Json, IOUtils, SequencesExt, FiniteSetsExt

CodeDev == {"WgAddInHandler", "TeardownDeletes", "RegBeforeAck", "InheritRace", "LateWill", "TickWipes"}
EnvAllT == {"drop", "sub", "pub", "tick", "close", "expire"}

Trace   == ndJsonDeserialize(IOEnv.VERIF_TRACE)
OutFile == IOEnv.VERIF_OUT

VARIABLES l, bad, scen, confOK, reported,
          dropped,    \* handlers whose client closed the connection
          subbed,     \* handlers that subscribed (SUBACK seen)
          estab,      \* handlers that passed attach.established
          started,    \* handlers whose goroutine has run (attach.added asked)
          spawned,    \* handlers spawned (before Close took its snapshot)
          afterSnap,  \* Close has disconnected the clients it found
          cancelled,  \* handlers whose delayed will was cancelled by a resuming successor
          prevWills,  \* wills count observed at the previous step
          lastGate,   \* lastGate[h]: the schedule point handler h reached last
          victims,    \* handlers that registered while a predecessor of their id was between its isTakenOver test and Clients.Delete
          sawReg,     \* sawReg[h]: the registered handler of h's id observed when h had looked for an existing client
          prevReg,    \* the registry observed after the previous step
          raced,      \* handlers involved in two connections of one id that both looked before either registered
          lateStart,  \* handlers whose goroutine first ran after Close had disconnected the clients it found
          wipedObs,   \* live connections registered under an id when a tick published the delayed will of ANOTHER connection of that id
          noWillRead  \* handlers that went from attach.established straight to teardown.cleanup (Read returned nil)
tvars == <<l, bad, scen, confOK, reported, dropped, subbed, estab, started, spawned, afterSnap, cancelled, prevWills, lastGate, victims, sawReg, prevReg, raced, lateStart, wipedObs, noWillRead>>

Dummy == [id |-> "b", ver |-> 5, clean |-> TRUE, expire |-> TRUE, will |-> -1]
CfgOf(e) == [h \in H |-> IF h <= Len(e.hs) THEN e.hs[h] ELSE Dummy]
NH(e) == Len(e.hs)

K(h) == ToString(h)
Has(w, p) == \E k \in 1..Len(w) : w[k] = p
ObsAcked(o, h) == Has(o.wire[K(h)], "CONNACK0") \/ Has(o.wire[K(h)], "CONNACK1")
ObsClosed(o, h) == \E k \in 1..Len(o.closed) : o.closed[k] = h
ObsFin(o, h) == \E k \in 1..Len(o.fin) : o.fin[k] = h

(* ---------------------------------------------------------------- conformance             *)
NormW(w, ver) == [k \in 1..Len(w) |->
                    IF ver < 5 /\ w[k] \in {"DISC8E", "DISC8B", "DISC00"} THEN "DISC"
                    ELSE IF w[k] \in {"BUSY", "CONNACKFAIL89", "CONNACKFAIL03"} THEN "BUSY" ELSE w[k]]
NoSuback(w) == SelectSeq(w, LAMBDA x : x # "SUBACK")
WillCount(n) == (n \div 10) + (n % 10)

Mismatch(o, n) ==     \* compares the PRIMED model state with the observation o of a scenario with n handlers
    (IF cnt' # o.cnt THEN {"conf.cnt"} ELSE {})
    \cup (IF \E i \in DOMAIN o.reg : reg'[i] # o.reg[i] THEN {"conf.reg"} ELSE {})
    \cup (IF trie' # ToSet(o.trie) THEN {"conf.trie"} ELSE {})
    \cup (IF {i \in Ids : delayed'[i] # NoH} # ToSet(o.delayed) THEN {"conf.delayed"} ELSE {})
    \cup (IF \E h \in 1..n : NormW(wire'[h], cfg[h].ver) # NormW(NoSuback(o.wire[K(h)]), cfg[h].ver) THEN {"conf.wire"} ELSE {})
    \cup (IF \E h \in 1..n : h \notin dropped' /\ (stopped'[h] # ObsClosed(o, h)) THEN {"conf.closed"} ELSE {})
    \cup (IF \E h \in 1..n : (pc'[h] = "done") # ObsFin(o, h) THEN {"conf.fin"} ELSE {})
    \cup (IF \E h \in 1..n : WillCount(wills'[h]) # o.wills[K(h)] THEN {"conf.wills"} ELSE {})

(* ---------------------------------------------------------------- property rules           *)
Live(o, h) == ObsAcked(o, h) /\ ~ObsClosed(o, h) /\ h \notin dropped'

SameIdLive(o, h, n) == \E x \in 1..n : x # h /\ cfg[x].id = cfg[h].id /\ Live(o, x) /\ x \in estab'
InTrie(o, i) == \E k \in 1..Len(o.trie) : o.trie[k] = i
EffW(h) == IF cfg[h].will = 1 /\ cfg[h].expire THEN 0 ELSE cfg[h].will
FirstPkt(o, h) == o.wire[K(h)][1]

Rules(e, n) ==
    LET o == e.obs IN
    (IF Cardinality({h \in 1..n : Live(o, h)}) > MaxClients THEN {"C35.limit-exceeded"} ELSE {})
    \cup (IF e.got = "panic" THEN {IF e.h = 0 THEN "panic.close" ELSE "panic.handler"} ELSE {})
    \cup (IF \E h \in 1..n : \E k \in 1..Len(o.wire[K(h)]) :
               /\ o.wire[K(h)][k] \notin {"CONNACK0", "CONNACK1", "PUBLISH", "SUBACK", "DISC8E", "DISC8B", "DISC00"}
               /\ o.wire[K(h)][k] # (IF cfg[h].ver = 5 THEN "CONNACKFAIL89" ELSE "CONNACKFAIL03")
          THEN {"C35.refusal-code"} ELSE {})
    \cup (IF \E h \in 1..n : o.wire[K(h)] # <<>> /\ FirstPkt(o, h) = "PUBLISH" THEN {"C13.publish-before-connack"} ELSE {})
    \cup (IF \E h \in 1..n : o.wire[K(h)] # <<>> /\ FirstPkt(o, h) \in {"DISC8E", "DISC8B", "DISC00"} THEN {"C13.disconnect-before-connack"} ELSE {})
    \cup (IF \E h \in 1..n : o.wire[K(h)] # <<>> /\ FirstPkt(o, h) \notin {"PUBLISH", "DISC8E", "DISC8B", "DISC00", "CONNACK0", "CONNACK1", "CONNACKFAIL89", "CONNACKFAIL03"}
          THEN {"C13.first-packet-not-connack"} ELSE {})
    \cup (IF \E h \in 1..n : Cardinality({k \in 1..Len(o.wire[K(h)]) : o.wire[K(h)][k] \in {"CONNACK0", "CONNACK1", "CONNACKFAIL89", "CONNACKFAIL03"}}) > 1
          THEN {"C13.second-connack"} ELSE {})
    \* a handler whose goroutine ran only after Close had disconnected the clients it found (it was not yet counted in
    \* ClientsWg when Close began to wait) ...
    \cup (IF o.closer = "returned" /\ \E h \in spawned' : h \in started' /\ h \in lateStart' /\ ~ObsFin(o, h)
          THEN {"C36.handler-alive-after-close"} ELSE {})
    \* ... and a handler that was already running when Close began to wait: Close returns only after it has finished
    \cup (IF (o.closer = "returned" \/ o.passed) /\ \E h \in spawned' : h \in started' /\ h \notin lateStart' /\ ~ObsFin(o, h)
          THEN {"C36.close-returned-before-running-handler-finished"} ELSE {})
    \cup (IF o.closer = "returned" /\ \E h \in spawned' : h \in started' /\ ~ObsClosed(o, h) /\ h \notin dropped'
          THEN {"C36.connection-open-after-close"} ELSE {})
    \cup (IF afterSnap' /\ \E h \in 1..n : Live(o, h) /\ h \notin lateStart' THEN {"C36.live-connection-survives-close"} ELSE {})
    \cup (IF afterSnap' /\ \E h \in 1..n : Live(o, h) /\ h \in lateStart' THEN {"C36.connection-served-after-close"} ELSE {})
    \cup (IF e.g = "close.clients" /\ \E h \in 1..n : cfg[h].ver = 5 /\ ObsAcked(o, h) /\ h \notin dropped' /\ ObsClosed(o, h)
                                                    /\ h \in estab /\ ~Has(o.wire[K(h)], "DISC8E") /\ ~Has(o.wire[K(h)], "DISC8B")
          THEN {"C36.no-disconnect-packet"} ELSE {})
    \cup (IF \E h \in estab' : Live(o, h) /\ (o.reg[cfg[h].id] # h \/ SameIdLive(o, h, n)) /\ h \in raced' THEN {"C14.concurrent-connects-one-id"} ELSE {})
    \cup (IF \E h \in estab' : Live(o, h) /\ o.reg[cfg[h].id] # h /\ h \notin raced' /\ h \in victims'
          THEN {"C14.successor-deleted-by-predecessor-teardown"} ELSE {})
    \cup (IF \E h \in estab' : Live(o, h) /\ o.reg[cfg[h].id] # h /\ h \notin raced' /\ h \notin victims'
          THEN {"C14.live-connection-not-registered"} ELSE {})
    \cup (IF \E h \in estab' : Live(o, h) /\ SameIdLive(o, h, n) /\ h \notin raced' THEN {"C14.two-live-connections-one-id"} ELSE {})
    \cup (IF \E h \in subbed' : Live(o, h) /\ ~InTrie(o, cfg[h].id) /\ h \notin raced' /\ h \notin victims' THEN {"C15.live-subscription-lost"} ELSE {})
    \cup (IF e.g = "attach.willCancel" /\ e.got = e.g /\ Has(o.wire[K(e.h)], "CONNACK0") /\ InTrie(o, cfg[e.h].id) /\ e.h \notin raced'
          THEN {"C15.subscription-survives-discarded-session"} ELSE {})
    \cup (IF (\A h \in 1..n : lastGate'[h] \in {"idle", "spawn", "read", "finished"})
             /\ o.cnt # Cardinality({h \in 1..n : lastGate'[h] = "read"})
          THEN {"C38.connected-counter-differs-from-connections"} ELSE {})
    \cup (IF \E h \in 1..n : o.wills[K(h)] > 1 THEN {"C16.will-published-twice"} ELSE {})
    \cup (IF \E h \in cancelled : o.wills[K(h)] > prevWills[h] THEN {"C16.cancelled-will-published"} ELSE {})
    \cup (IF e.got = "finished" /\ e.h > 0 /\ EffW(e.h) = 0 /\ ObsAcked(o, e.h) /\ o.wills[K(e.h)] = 0 /\ e.h \in noWillRead'
          THEN {"C16.will-lost-closed-before-read"} ELSE {})
    \cup (IF e.got = "finished" /\ e.h > 0 /\ EffW(e.h) = 0 /\ ObsAcked(o, e.h) /\ o.wills[K(e.h)] = 0 /\ e.h \notin noWillRead' /\ e.h \in wipedObs'
          THEN {"C16.will-wiped-by-delayed-will-of-other-connection"} ELSE {})
    \cup (IF e.got = "finished" /\ e.h > 0 /\ EffW(e.h) = 0 /\ ObsAcked(o, e.h) /\ o.wills[K(e.h)] = 0 /\ e.h \notin noWillRead' /\ e.h \notin wipedObs'
          THEN {"C16.will-not-published"} ELSE {})

(* ---------------------------------------------------------------- steps                     *)
ModelVars == <<MaxClients, cfg, pc, wg, cnt, reg, trie, own, inh, stopped, tko, sp, wire, delayed, wills, resumedBy, wiped, cpc, closing, xp, hist>>

Reset(e) ==
    /\ MaxClients' = e.max /\ cfg' = CfgOf(e)
    /\ pc' = [h \in H |-> "idle"] /\ wg' = 0 /\ cnt' = 0
    /\ reg' = [i \in Ids |-> NoH] /\ trie' = {} /\ own' = [h \in H |-> FALSE] /\ inh' = [h \in H |-> NoH]
    /\ stopped' = [h \in H |-> FALSE] /\ tko' = [h \in H |-> FALSE] /\ sp' = [h \in H |-> FALSE]
    /\ wire' = [h \in H |-> <<>>]
    /\ delayed' = [i \in Ids |-> NoH] /\ wills' = [h \in H |-> 0] /\ resumedBy' = [h \in H |-> 0] /\ wiped' = {}
    /\ cpc' = "idle" /\ closing' = FALSE /\ xp' = {} /\ hist' = <<>>
    /\ scen' = [name |-> e.name, n |-> NH(e), line |-> l]
    /\ confOK' = TRUE /\ reported' = {} /\ dropped' = {} /\ subbed' = {} /\ estab' = {} /\ started' = {} /\ spawned' = {}
    /\ afterSnap' = FALSE /\ cancelled' = {} /\ prevWills' = [h \in H |-> 0]
    /\ lastGate' = [h \in H |-> "idle"] /\ victims' = {} /\ noWillRead' = {}
    /\ sawReg' = [h \in H |-> 0] /\ prevReg' = [i \in Ids |-> 0] /\ raced' = {} /\ lateStart' = {} /\ wipedObs' = {}
    /\ bad' = bad

Follow(e) == Next /\ hist' = Append(hist, Ev(e.h, e.g))

Ghost(e) ==
    /\ dropped' = IF e.g = "drop" THEN dropped \cup {e.h} ELSE dropped
    /\ subbed' = IF e.g = "sub" /\ e.got = "sub" THEN subbed \cup {e.h} ELSE subbed
    /\ estab' = IF e.g = "attach.established" /\ e.got = e.g THEN estab \cup {e.h} ELSE estab
    /\ started' = IF e.g = "attach.added" THEN started \cup {e.h} ELSE started
    /\ spawned' = IF e.g = "spawn" /\ ~afterSnap THEN spawned \cup {e.h} ELSE spawned
    /\ afterSnap' = (afterSnap \/ (e.g = "close.clients" /\ e.got = e.g))
    \* the delayed will of a predecessor is cancelled when a successor of the same id that got CONNACK with
    \* session present passes the point where the broker handles the pending delayed will of the id
    /\ cancelled' = IF e.g = "attach.established" /\ e.got = e.g /\ Has(e.obs.wire[K(e.h)], "CONNACK1")
                      THEN cancelled \cup {x \in 1..scen.n : x # e.h /\ cfg[x].id = cfg[e.h].id /\ cfg[x].will = 1 /\ x \in started}
                      ELSE cancelled
    /\ prevWills' = [h \in H |-> IF h <= scen.n THEN e.obs.wills[K(h)] ELSE 0]
    /\ lastGate' = IF e.h > 0 /\ e.g \notin {"drop", "sub"} THEN [lastGate EXCEPT ![e.h] = e.got] ELSE lastGate
    /\ victims' = IF e.h > 0 /\ e.g = "attach.registered" /\ e.got = e.g
                         /\ \E p \in 1..scen.n : p # e.h /\ cfg[p].id = cfg[e.h].id /\ lastGate[p] = "hook.unsubscribed"
                     THEN victims \cup {e.h} ELSE victims
    /\ wipedObs' = IF e.g = "tick"
                      THEN wipedObs \cup {h \in 1..scen.n : prevReg[cfg[h].id] = h /\ \E x \in 1..scen.n : x # h /\ cfg[x].id = cfg[h].id /\ e.obs.wills[K(x)] > prevWills[x]}
                      ELSE wipedObs
    /\ lateStart' = IF e.g = "attach.added" /\ afterSnap THEN lateStart \cup {e.h} ELSE lateStart
    /\ sawReg' = IF e.h > 0 /\ e.g = "attach.inherited" /\ e.got = e.g THEN [sawReg EXCEPT ![e.h] = e.obs.reg[cfg[e.h].id]] ELSE sawReg
    /\ prevReg' = [i \in Ids |-> IF i \in DOMAIN e.obs.reg THEN e.obs.reg[i] ELSE 0]
    /\ raced' = IF e.h > 0 /\ e.g = "attach.registered" /\ e.got = e.g /\ prevReg[cfg[e.h].id] # sawReg[e.h] /\ prevReg[cfg[e.h].id] > 0
                   THEN raced \cup {e.h, prevReg[cfg[e.h].id]} ELSE raced
    /\ noWillRead' = IF e.h > 0 /\ e.got = "teardown.cleanup" /\ lastGate[e.h] = "attach.established" THEN noWillRead \cup {e.h} ELSE noWillRead

(* every complaint is reported once per scenario (at the first step where it holds) *)
Complain(c, e) ==
    /\ reported' = reported \cup c
    /\ bad' = IF c \ reported = {} \/ Len(bad) >= 2000 THEN bad
                ELSE Append(bad, [line |-> l, scen |-> scen.name, start |-> scen.line, h |-> e.h, g |-> e.g, got |-> e.got, complaints |-> SetToSeq(c \ reported)])

StepFollow(e) ==
    /\ confOK /\ e.got = e.g /\ ENABLED Follow(e)
    /\ Follow(e)
    /\ Ghost(e)
    /\ LET m == Mismatch(e.obs, scen.n) IN
         /\ confOK' = (m = {})
         /\ Complain(m \cup Rules(e, scen.n), e)
    /\ UNCHANGED scen

StepFree(e) ==
    /\ ~(confOK /\ e.got = e.g /\ ENABLED Follow(e))
    /\ UNCHANGED ModelVars
    /\ Ghost(e)
    /\ confOK' = FALSE
    /\ Complain((IF confOK THEN (IF e.got # e.g THEN {"conf.gate"} ELSE {"conf.not-enabled"}) ELSE {}) \cup Rules(e, scen.n), e)
    /\ UNCHANGED scen

EndLine(e) ==
    /\ UNCHANGED ModelVars
    /\ UNCHANGED <<scen, confOK, dropped, subbed, estab, started, spawned, afterSnap, cancelled, prevWills, lastGate, victims, sawReg, prevReg, raced, lateStart, wipedObs, noWillRead>>
    /\ Complain((IF e.got # "" THEN {"harness.handler-stuck"} ELSE {})
                \cup (IF \E h \in 1..scen.n : e.obs.wills[K(h)] > 1 THEN {"C16.will-published-twice"} ELSE {}), e)

TInit ==
    /\ l = 1 /\ bad = <<>> /\ scen = [name |-> "", n |-> 0, line |-> 0] /\ confOK = TRUE /\ reported = {}
    /\ dropped = {} /\ subbed = {} /\ estab = {} /\ started = {} /\ spawned = {} /\ afterSnap = FALSE /\ cancelled = {}
    /\ prevWills = [h \in H |-> 0] /\ lastGate = [h \in H |-> "idle"] /\ victims = {} /\ noWillRead = {}
    /\ sawReg = [h \in H |-> 0] /\ prevReg = [i \in Ids |-> 0] /\ raced = {} /\ lateStart = {} /\ wipedObs = {}
    /\ MaxClients = 1 /\ cfg = [h \in H |-> Dummy]
    /\ pc = [h \in H |-> "idle"] /\ wg = 0 /\ cnt = 0
    /\ reg = [i \in Ids |-> NoH] /\ trie = {} /\ own = [h \in H |-> FALSE] /\ inh = [h \in H |-> NoH]
    /\ stopped = [h \in H |-> FALSE] /\ tko = [h \in H |-> FALSE] /\ sp = [h \in H |-> FALSE]
    /\ wire = [h \in H |-> <<>>]
    /\ delayed = [i \in Ids |-> NoH] /\ wills = [h \in H |-> 0] /\ resumedBy = [h \in H |-> 0] /\ wiped = {}
    /\ cpc = "idle" /\ closing = FALSE /\ xp = {} /\ hist = <<>>

TNext ==
    /\ l <= Len(Trace)
    /\ LET e == Trace[l] IN
         \/ e.ev = "cfg" /\ Reset(e)
         \/ e.ev = "step" /\ (StepFollow(e) \/ StepFree(e))
         \/ e.ev = "end" /\ EndLine(e)
    /\ l' = l + 1
    /\ TLCSet(1, l') /\ TLCSet(2, bad')

TSpec == TInit /\ [][TNext]_<<ModelVars, tvars>>

Done == /\ TLCGet(1) = Len(Trace) + 1
        /\ JsonSerialize(OutFile, [lines |-> Len(Trace), bad |-> TLCGet(2)])
=================================================================================
