--------------------------------- MODULE Wire ---------------------------------
(* The MQTT 3.1 / 3.1.1 / 5.0 wire format as a pure TLA+ definition, written from the OASIS texts.   *)
(* It decides C26 (codec round trip), C27 (decoder totality), C29 (variable byte integers) and C42   *)
(* (every valid client encoding is decoded as meant) for mochi-mqtt's `packets` package.             *)
(*                                                                                                   *)
(* There is no state: the module is a set of operators that TLC evaluates.                           *)
(*   Vbi(v), VbiDecode(bytes)      variable byte integers (1.5.5)                                    *)
(*   Str(s), Bin(b)                length-prefixed strings / binary data                             *)
(*   Encodings(p)                  the SET of all byte strings the standard permits for packet p     *)
(*   Parse(bytes, ver)             recursive-descent parser, every length checked                    *)
(*   Normalize(p), Equiv(p, q)     an omitted optional property equals its specified default         *)
(* GenWire.tla evaluates them into case tables (use B) and judges values recorded from the real code *)
(* (use C); it also holds the theorems TLC checks on the bounded packet domain.                      *)
(*                                                                                                   *)
(* BYTE STRINGS.  A byte string is a sequence of segments.  A segment x in 0..255 is that byte; a    *)
(* segment x > 255 is a RUN of (x \div 256) copies of the byte (x % 256) -- e.g. 65535*256+97 stands *)
(* for 65535 times 'a' -- so that maximum-length fields stay cheap.  (DESIGN 3.7 writes a run as a   *)
(* record [n |-> .., b |-> ..]; TLC cannot compare an integer with a record, which a set of such     *)
(* sequences would need, hence the integer coding.  The Go side expands / compresses runs.)          *)
(* Text strings are byte strings too (TLC strings are atomic): "a" = <<97>>, U+00E9 = <<195,169>>.   *)
(*                                                                                                   *)
(* ABSTRACT PACKET.  One record shape for all types (TLC wants uniform records):                     *)
(*   type 1..15, ver 3|4|5, dup/qos/retain (PUBLISH flags; other types have fixed flags), pid,       *)
(*   topic, payload, reason, sp (CONNACK session present), filters = seq of [f, o, sid] (o = options *)
(*   byte: v5 qos | nl<<2 | rap<<3 | rh<<4, v3/4 requested qos, UNSUBSCRIBE 0; sid = the packet's    *)
(*   subscription identifier or 0), codes (SUBACK/UNSUBACK), props = seq of [id, n, s, t] in         *)
(*   CANONICAL order (ascending id, occurrences of a repeatable property in wire order; n = numeric  *)
(*   value, s = string/binary/user key, t = user value; a four byte integer >= 2^31 is held as its   *)
(*   two's complement reading because TLC integers are 32 bit), cn = CONNECT fields.                 *)
EXTENDS Integers, Sequences, FiniteSets, TLC

-----------------------------------------------------------------------------
(* Byte strings *)
SegLen(x)  == IF x > 255 THEN x \div 256 ELSE 1
SegByte(x) == x % 256
Run(n, b)  == IF n = 0 THEN <<>> ELSE IF n = 1 THEN <<b>> ELSE <<n * 256 + b>>

RECURSIVE BLenFrom(_, _)
BLenFrom(s, i) == IF i > Len(s) THEN 0 ELSE SegLen(s[i]) + BLenFrom(s, i + 1)
BLen(s) == BLenFrom(s, 1)                       \* number of bytes of a byte string
Plain(s) == \A i \in 1..Len(s) : s[i] < 256      \* no run inside

RECURSIVE TakeSlow(_, _, _)
TakeSlow(s, n, acc) ==
  IF n = 0 THEN [ok |-> TRUE, h |-> acc, r |-> s]
  ELSE IF s = <<>> THEN [ok |-> FALSE, h |-> <<>>, r |-> <<>>]
  ELSE LET x == s[1]
           l == SegLen(x)
       IN IF l <= n THEN TakeSlow(Tail(s), n - l, Append(acc, x))
          ELSE [ok |-> TRUE, h |-> acc \o Run(n, SegByte(x)), r |-> Run(l - n, SegByte(x)) \o Tail(s)]

(* the first n bytes of s and the rest; ok = FALSE when s is shorter than n bytes *)
Take(s, n) ==
  IF n = 0 THEN [ok |-> TRUE, h |-> <<>>, r |-> s]
  ELSE IF Len(s) >= n /\ \A i \in 1..n : s[i] < 256
       THEN [ok |-> TRUE, h |-> SubSeq(s, 1, n), r |-> SubSeq(s, n + 1, Len(s))]
       ELSE TakeSlow(s, n, <<>>)

RECURSIVE Flat(_)
Flat(ss) == IF ss = <<>> THEN <<>> ELSE ss[1] \o Flat(Tail(ss))

-----------------------------------------------------------------------------
(* Integers *)
U16(v) == <<v \div 256, v % 256>>
U32(v) == U16((v \div 65536) % 65536) \o U16(v % 65536)        \* v < 0 is read as v + 2^32
U32Val(a, b, c, d) == (IF a >= 128 THEN a - 256 ELSE a) * 16777216 + b * 65536 + c * 256 + d

VbiMax == 268435455
(* minimal encoding, 1 to 4 bytes, of 0..VbiMax *)
Vbi(v) ==
  IF v < 128 THEN <<v>>
  ELSE IF v < 16384 THEN <<128 + (v % 128), v \div 128>>
  ELSE IF v < 2097152 THEN <<128 + (v % 128), 128 + ((v \div 128) % 128), v \div 16384>>
  ELSE <<128 + (v % 128), 128 + ((v \div 128) % 128), 128 + ((v \div 16384) % 128), v \div 2097152>>

(* Decodes a variable byte integer from the start of the PLAIN byte string b.                      *)
(* [ok |-> TRUE, v, n] or [ok |-> FALSE, why]: "length" = the input ends inside the integer,       *)
(* "vbi" = a fifth byte would be needed (more than four bytes are never permitted).                *)
VbiDecode(b) ==
  LET m == IF Len(b) < 4 THEN Len(b) ELSE 4
      stops == {i \in 1..m : b[i] < 128}
  IN IF stops = {}
       THEN [ok |-> FALSE, why |-> IF Len(b) < 4 THEN "length" ELSE "vbi", v |-> 0, n |-> 0]
       ELSE LET k == CHOOSE i \in stops : \A j \in stops : i <= j
                val == (b[1] % 128)
                       + (IF k >= 2 THEN (b[2] % 128) * 128 ELSE 0)
                       + (IF k >= 3 THEN (b[3] % 128) * 16384 ELSE 0)
                       + (IF k >= 4 THEN (b[4] % 128) * 2097152 ELSE 0)
            IN [ok |-> TRUE, why |-> "", v |-> val, n |-> k]

Str(s) == U16(BLen(s)) \o s
Bin(b) == U16(BLen(b)) \o b

-----------------------------------------------------------------------------
(* UTF-8 well-formedness (1.5.4: well-formed UTF-8, no surrogates, no U+0000) *)
Cont(x) == x >= 128 /\ x <= 191
RECURSIVE Utf8From(_, _)
Utf8From(s, i) ==
  IF i > Len(s) THEN TRUE
  ELSE LET a == s[i]
           n == Len(s) - i
           b == IF n >= 1 THEN s[i + 1] ELSE 0
           c == IF n >= 2 THEN s[i + 2] ELSE 0
           d == IF n >= 3 THEN s[i + 3] ELSE 0
       IN IF a > 255 THEN SegByte(a) >= 1 /\ SegByte(a) <= 127 /\ Utf8From(s, i + 1)
          ELSE IF a = 0 THEN FALSE
          ELSE IF a < 128 THEN Utf8From(s, i + 1)
          ELSE IF a >= 194 /\ a <= 223 THEN n >= 1 /\ Cont(b) /\ Utf8From(s, i + 2)
          ELSE IF a = 224 THEN n >= 2 /\ b >= 160 /\ b <= 191 /\ Cont(c) /\ Utf8From(s, i + 3)
          ELSE IF a = 237 THEN n >= 2 /\ b >= 128 /\ b <= 159 /\ Cont(c) /\ Utf8From(s, i + 3)
          ELSE IF a >= 225 /\ a <= 239 THEN n >= 2 /\ Cont(b) /\ Cont(c) /\ Utf8From(s, i + 3)
          ELSE IF a = 240 THEN n >= 3 /\ b >= 144 /\ b <= 191 /\ Cont(c) /\ Cont(d) /\ Utf8From(s, i + 4)
          ELSE IF a = 244 THEN n >= 3 /\ b >= 128 /\ b <= 143 /\ Cont(c) /\ Cont(d) /\ Utf8From(s, i + 4)
          ELSE IF a >= 241 /\ a <= 243 THEN n >= 3 /\ Cont(b) /\ Cont(c) /\ Cont(d) /\ Utf8From(s, i + 4)
          ELSE FALSE
Utf8Ok(s) == Utf8From(s, 1)

-----------------------------------------------------------------------------
(* Packet types, properties *)
CONNECT == 1  CONNACK == 2  PUBLISH == 3  PUBACK == 4  PUBREC == 5  PUBREL == 6  PUBCOMP == 7
SUBSCRIBE == 8  SUBACK == 9  UNSUBSCRIBE == 10  UNSUBACK == 11  PINGREQ == 12  PINGRESP == 13
DISCONNECT == 14  AUTH == 15
WILL == 16                       \* property context of the will properties inside CONNECT
AckTypes == {PUBACK, PUBREC, PUBREL, PUBCOMP}
ClientTypes == {CONNECT, PUBLISH, PUBACK, PUBREC, PUBREL, PUBCOMP, SUBSCRIBE, UNSUBSCRIBE, PINGREQ, DISCONNECT, AUTH}

(* MQTT 5 table 2-4 *)
Kind(id) ==
  CASE id \in {1, 23, 25, 36, 37, 40, 41, 42} -> "b"
    [] id \in {19, 33, 34, 35}                -> "u16"
    [] id \in {2, 17, 24, 39}                 -> "u32"
    [] id = 11                                -> "vbi"
    [] id \in {3, 8, 18, 21, 26, 28, 31}      -> "str"
    [] id \in {9, 22}                         -> "bin"
    [] id = 38                                -> "pair"
    [] OTHER                                  -> "none"

Allowed(ctx) ==
  CASE ctx = CONNECT     -> {17, 21, 22, 23, 25, 33, 34, 38, 39}
    [] ctx = WILL        -> {1, 2, 3, 8, 9, 24, 38}
    [] ctx = CONNACK     -> {17, 18, 19, 21, 22, 26, 28, 31, 33, 34, 36, 37, 38, 39, 40, 41, 42}
    [] ctx = PUBLISH     -> {1, 2, 3, 8, 9, 11, 35, 38}
    [] ctx \in AckTypes  -> {31, 38}
    [] ctx = SUBSCRIBE   -> {11, 38}
    [] ctx = SUBACK      -> {31, 38}
    [] ctx = UNSUBSCRIBE -> {38}
    [] ctx = UNSUBACK    -> {31, 38}
    [] ctx = DISCONNECT  -> {17, 28, 31, 38}
    [] ctx = AUTH        -> {21, 22, 31, 38}
    [] OTHER             -> {}

Repeatable(ctx, id) == id = 38 \/ (id = 11 /\ ctx = PUBLISH)

Prop(id, n, s, t) == [id |-> id, n |-> n, s |-> s, t |-> t]
PN(id, n) == Prop(id, n, <<>>, <<>>)             \* numeric property
PS(id, s) == Prop(id, 0, s, <<>>)                \* string / binary property
PU(k, v)  == Prop(38, 0, k, v)                   \* user property

EncProp(pr) ==
  <<pr.id>> \o
  (CASE Kind(pr.id) = "b"    -> <<pr.n>>
     [] Kind(pr.id) = "u16"  -> U16(pr.n)
     [] Kind(pr.id) = "u32"  -> U32(pr.n)
     [] Kind(pr.id) = "vbi"  -> Vbi(pr.n)
     [] Kind(pr.id) = "str"  -> Str(pr.s)
     [] Kind(pr.id) = "bin"  -> Bin(pr.s)
     [] Kind(pr.id) = "pair" -> Str(pr.s) \o Str(pr.t))

PropBody(ps)  == Flat([i \in 1..Len(ps) |-> EncProp(ps[i])])
PropBlock(ps) == LET b == PropBody(ps) IN Vbi(BLen(b)) \o b

DropAt(s, i) == SubSeq(s, 1, i - 1) \o SubSeq(s, i + 1, Len(s))

(* every order in which the properties may be written: any permutation that keeps the relative     *)
(* order of the occurrences of one (repeatable) property -- that order carries meaning             *)
RECURSIVE Orderings(_)
Orderings(ps) ==
  IF ps = <<>> THEN {<<>>}
  ELSE UNION { {<<ps[i]>> \o q : q \in Orderings(DropAt(ps, i))}
               : i \in {j \in 1..Len(ps) : \A k \in 1..(j - 1) : ps[k].id # ps[j].id} }

(* canonical order: stable sort by id *)
InsCanon(sorted, x) ==
  LET k == Cardinality({i \in 1..Len(sorted) : sorted[i].id <= x.id})
  IN SubSeq(sorted, 1, k) \o <<x>> \o SubSeq(sorted, k + 1, Len(sorted))
RECURSIVE CanonFrom(_, _, _)
CanonFrom(ps, i, acc) == IF i > Len(ps) THEN acc ELSE CanonFrom(ps, i + 1, InsCanon(acc, ps[i]))
Canon(ps) == CanonFrom(ps, 1, <<>>)
IsCanon(ps) == \A i \in 1..(Len(ps) - 1) : ps[i].id <= ps[i + 1].id

-----------------------------------------------------------------------------
(* Abstract packets *)
NoCn == [clean |-> FALSE, will |-> FALSE, wqos |-> 0, wret |-> FALSE, uf |-> FALSE, pf |-> FALSE,
         ka |-> 0, cid |-> <<>>, wprops |-> <<>>, wtopic |-> <<>>, wpay |-> <<>>,
         user |-> <<>>, pass |-> <<>>]

Pkt(t, v) == [type |-> t, ver |-> v, dup |-> FALSE, qos |-> 0, retain |-> FALSE, pid |-> 0,
              topic |-> <<>>, payload |-> <<>>, reason |-> 0, sp |-> FALSE, filters |-> <<>>,
              codes |-> <<>>, props |-> <<>>, cn |-> NoCn]

Filt(f, o, sid) == [f |-> f, o |-> o, sid |-> sid]

ProtoName(v) == IF v = 3 THEN <<77, 81, 73, 115, 100, 112>> ELSE <<77, 81, 84, 84>>   \* MQIsdp | MQTT

B2I(b) == IF b THEN 1 ELSE 0

FixedFlags(t) == IF t \in {PUBREL, SUBSCRIBE, UNSUBSCRIBE} THEN 2 ELSE 0
FirstByte(p) == p.type * 16 + (IF p.type = PUBLISH THEN B2I(p.dup) * 8 + p.qos * 2 + B2I(p.retain)
                                                     ELSE FixedFlags(p.type))
ConnectFlags(c) == B2I(c.clean) * 2 + B2I(c.will) * 4 + c.wqos * 8 + B2I(c.wret) * 32
                   + B2I(c.pf) * 64 + B2I(c.uf) * 128

Frame(b1, body) == <<b1>> \o Vbi(BLen(body)) \o body

PropsOf(ps) == IF ps = <<>> THEN 0 ELSE 1

(* the property block in every permitted order; nothing under MQTT 3 *)
Blocks(ver, ps) == IF ver = 5 THEN {PropBlock(o) : o \in Orderings(ps)} ELSE {<<>>}

(* reason code + properties at the end of PUBACK/PUBREC/PUBREL/PUBCOMP (after the packet id) and   *)
(* of DISCONNECT/AUTH: with no properties the property length may be omitted, and then a zero      *)
(* reason code may be omitted too (3.4.2.1, 3.14.2.1, 3.14.2.2.1, 3.15.2.1)                        *)
ShortTails(p) ==
  IF p.ver # 5 THEN {<<>>}
  ELSE IF p.props = <<>>
       THEN (IF p.reason = 0 THEN {<<>>} ELSE {}) \cup {<<p.reason>>, <<p.reason, 0>>}
       ELSE {<<p.reason>> \o pb : pb \in Blocks(5, p.props)}

RECURSIVE FiltersFrom(_, _, _)
FiltersFrom(fs, i, withOpt) ==
  IF i > Len(fs) THEN <<>>
  ELSE Str(fs[i].f) \o (IF withOpt THEN <<fs[i].o>> ELSE <<>>) \o FiltersFrom(fs, i + 1, withOpt)

Bodies(p) ==
  CASE p.type = CONNECT ->
         { Str(ProtoName(p.ver)) \o <<p.ver, ConnectFlags(p.cn)>> \o U16(p.cn.ka) \o pb \o Str(p.cn.cid)
             \o (IF p.cn.will THEN wb \o Str(p.cn.wtopic) \o Bin(p.cn.wpay) ELSE <<>>)
             \o (IF p.cn.uf THEN Bin(p.cn.user) ELSE <<>>)
             \o (IF p.cn.pf THEN Bin(p.cn.pass) ELSE <<>>)
           : pb \in Blocks(p.ver, p.props),
             wb \in (IF p.cn.will THEN Blocks(p.ver, p.cn.wprops) ELSE {<<>>}) }
    [] p.type = CONNACK ->
         { <<B2I(p.sp), p.reason>> \o pb : pb \in Blocks(p.ver, p.props) }
    [] p.type = PUBLISH ->
         { Str(p.topic) \o (IF p.qos > 0 THEN U16(p.pid) ELSE <<>>) \o pb \o p.payload
           : pb \in Blocks(p.ver, p.props) }
    [] p.type \in AckTypes ->
         { U16(p.pid) \o t : t \in ShortTails(p) }
    [] p.type = SUBSCRIBE ->
         { U16(p.pid) \o pb \o FiltersFrom(p.filters, 1, TRUE) : pb \in Blocks(p.ver, p.props) }
    [] p.type = UNSUBSCRIBE ->
         { U16(p.pid) \o pb \o FiltersFrom(p.filters, 1, FALSE) : pb \in Blocks(p.ver, p.props) }
    [] p.type = SUBACK ->
         { U16(p.pid) \o pb \o p.codes : pb \in Blocks(p.ver, p.props) }
    [] p.type = UNSUBACK ->
         { U16(p.pid) \o pb \o (IF p.ver = 5 THEN p.codes ELSE <<>>) : pb \in Blocks(p.ver, p.props) }
    [] p.type \in {PINGREQ, PINGRESP} -> {<<>>}
    [] p.type \in {DISCONNECT, AUTH} -> ShortTails(p)

(* THE SET OF ALL BYTE STRINGS THE STANDARD PERMITS FOR THE ABSTRACT PACKET p *)
Encodings(p) == { Frame(FirstByte(p), b) : b \in Bodies(p) }

-----------------------------------------------------------------------------
(* Well-formedness of an abstract packet: the rules Parse enforces on a single packet *)
PropsWF(ctx, ps) ==
  /\ IsCanon(ps)
  /\ \A i \in 1..Len(ps) :
       /\ ps[i].id \in Allowed(ctx)
       /\ \A j \in 1..Len(ps) : (i # j /\ ps[i].id = ps[j].id) => Repeatable(ctx, ps[i].id)
       /\ Kind(ps[i].id) \in {"str", "pair"} => Utf8Ok(ps[i].s) /\ Utf8Ok(ps[i].t)
       /\ Kind(ps[i].id) = "vbi" => ps[i].n >= 0 /\ ps[i].n <= VbiMax

OptsOk(ver, o) == IF ver = 5 THEN o < 64 /\ o % 4 # 3 /\ (o \div 16) % 4 # 3 ELSE o <= 2

SidOf(ps) == LET ix == {i \in 1..Len(ps) : ps[i].id = 11}
             IN IF ix = {} THEN 0 ELSE ps[CHOOSE i \in ix : \A j \in ix : i <= j].n

WF(p) ==
  /\ p.ver \in {3, 4, 5}
  /\ p.type \in 1..15
  /\ p.type = AUTH => p.ver = 5
  /\ p.ver # 5 => p.props = <<>> /\ p.cn.wprops = <<>>
  /\ PropsWF(p.type, p.props)
  /\ p.type = PUBLISH => p.qos \in 0..2 /\ (p.dup => p.qos > 0) /\ Utf8Ok(p.topic)
  /\ p.type = CONNECT =>
       /\ PropsWF(WILL, p.cn.wprops) /\ Utf8Ok(p.cn.cid)
       /\ (p.cn.will => Utf8Ok(p.cn.wtopic)) /\ p.cn.wqos \in 0..2
       /\ (~p.cn.will => p.cn.wqos = 0 /\ ~p.cn.wret /\ p.cn.wprops = <<>>)
  /\ p.type \in {SUBSCRIBE, UNSUBSCRIBE} =>
       /\ Len(p.filters) >= 1
       /\ \A i \in 1..Len(p.filters) :
            /\ Utf8Ok(p.filters[i].f)
            /\ p.filters[i].sid = SidOf(p.props)
            /\ IF p.type = SUBSCRIBE THEN OptsOk(p.ver, p.filters[i].o) ELSE p.filters[i].o = 0

-----------------------------------------------------------------------------
(* Equivalence: an omitted optional property is its specified default *)
IsDefault(pr) ==
  \/ pr.id \in {17, 24, 34, 25, 1} /\ pr.n = 0       \* session expiry, will delay, topic alias max, request response info, payload format
  \/ pr.id \in {23, 37, 40, 41, 42} /\ pr.n = 1      \* request problem info, retain / wildcard / sub id / shared available
  \/ pr.id = 33 /\ pr.n = 65535                      \* receive maximum
NormProps(ps) == SelectSeq(ps, LAMBDA pr : ~IsDefault(pr))
Normalize(p) == [p EXCEPT !.props = NormProps(@), !.cn.wprops = NormProps(@)]
Equiv(p, q) == Normalize(p) = Normalize(q)

(* canonical form of byte strings inside a packet: only runs of 16 or more bytes stay abbreviated  *)
(* (the Go side abbreviates exactly the maximal runs of >= 16 equal bytes); Take may leave shorter  *)
(* run pieces when a run of the input crosses a field boundary                                      *)
CanonB(s) == Flat([i \in 1..Len(s) |-> IF s[i] > 255 /\ SegLen(s[i]) < 16 THEN [j \in 1..SegLen(s[i]) |-> SegByte(s[i])] ELSE <<s[i]>>])
CanonPs(ps) == [i \in 1..Len(ps) |-> [ps[i] EXCEPT !.s = CanonB(@), !.t = CanonB(@)]]
CanonPkt(p) == [p EXCEPT !.topic = CanonB(@), !.payload = CanonB(@), !.codes = CanonB(@), !.props = CanonPs(@),
                         !.filters = [i \in 1..Len(@) |-> [@[i] EXCEPT !.f = CanonB(@)]],
                         !.cn = [@ EXCEPT !.cid = CanonB(@), !.wtopic = CanonB(@), !.wpay = CanonB(@), !.user = CanonB(@),
                                          !.pass = CanonB(@), !.wprops = CanonPs(@)]]

-----------------------------------------------------------------------------
(* PARSER.  State st = [s: bytes left, pos: bytes consumed, marks: length fields seen so far].      *)
(* A mark [pos, k, w] records the offset (0 based, in the whole packet) of a length field: k = "u16" *)
(* (string / binary length), "vbi" (property length, remaining length), w = its width in bytes.    *)
(* Failure classes (field why):                                                                    *)
(*   "length"  a declared length or a fixed-width field needs more bytes than its container has    *)
(*   "vbi"     a variable byte integer longer than four bytes                                      *)
(*   "utf8"    ill-formed string                                                                   *)
(*   "other"   any other rule of the standard on a single packet (flags, unknown / misplaced /      *)
(*             duplicated property, surplus bytes, reserved bits, empty filter list, ...)          *)
(* Field where: "block" when the failure arose inside a property block (the block is the container *)
(* of its values: a value that runs past the end of the block is a length failure even when the    *)
(* packet has more bytes), else "packet".                                                          *)
Fail(why) == [ok |-> FALSE, why |-> why, where |-> "packet"]
Adv(st, t, n) == [st EXCEPT !.s = t.r, !.pos = @ + n]

RECURSIVE Expand(_)
Expand(h) == IF h = <<>> THEN <<>>          \* only ever applied to at most 4 bytes
             ELSE IF h[1] > 255 THEN <<SegByte(h[1])>> \o Expand(Run(SegLen(h[1]) - 1, SegByte(h[1])) \o Tail(h))
             ELSE <<h[1]>> \o Expand(Tail(h))

RdBytes(st, n) == LET t == Take(st.s, n)
                  IN IF ~t.ok THEN Fail("length") ELSE [ok |-> TRUE, why |-> "", v |-> t.h, st |-> Adv(st, t, n)]
RdU8(st)  == LET r == RdBytes(st, 1) IN IF ~r.ok THEN r ELSE [r EXCEPT !.v = Expand(r.v)[1]]
RdU16(st) == LET r == RdBytes(st, 2) IN IF ~r.ok THEN r ELSE LET e == Expand(r.v) IN [r EXCEPT !.v = e[1] * 256 + e[2]]
RdU32(st) == LET r == RdBytes(st, 4) IN IF ~r.ok THEN r ELSE LET e == Expand(r.v) IN [r EXCEPT !.v = U32Val(e[1], e[2], e[3], e[4])]
RdVbi(st) ==
  LET have == BLen(st.s)
      t == Take(st.s, IF have < 4 THEN have ELSE 4)
      d == VbiDecode(Expand(t.h))
  IN IF ~d.ok THEN Fail(d.why)
     ELSE LET u == Take(st.s, d.n)
          IN [ok |-> TRUE, why |-> "", v |-> d.v,
              st |-> [Adv(st, u, d.n) EXCEPT !.marks = Append(@, [pos |-> st.pos, k |-> "vbi", w |-> d.n])]]
RdBin(st) ==
  LET l == RdU16(st)
  IN IF ~l.ok THEN l
     ELSE LET r == RdBytes(l.st, l.v)
          IN IF ~r.ok THEN r
             ELSE [r EXCEPT !.st.marks = Append(@, [pos |-> st.pos, k |-> "u16", w |-> 2])]
RdStr(st) == LET r == RdBin(st) IN IF r.ok /\ ~Utf8Ok(r.v) THEN Fail("utf8") ELSE r

(* one property value of kind kd *)
RdPropVal(st, id) ==
  LET kd == Kind(id)
  IN CASE kd = "b"   -> LET r == RdU8(st)  IN IF ~r.ok THEN r ELSE [ok |-> TRUE, why |-> "", v |-> PN(id, r.v), st |-> r.st]
       [] kd = "u16" -> LET r == RdU16(st) IN IF ~r.ok THEN r ELSE [ok |-> TRUE, why |-> "", v |-> PN(id, r.v), st |-> r.st]
       [] kd = "u32" -> LET r == RdU32(st) IN IF ~r.ok THEN r ELSE [ok |-> TRUE, why |-> "", v |-> PN(id, r.v), st |-> r.st]
       [] kd = "vbi" -> LET r == RdVbi(st) IN IF ~r.ok THEN r
                         ELSE [ok |-> TRUE, why |-> "", v |-> PN(id, r.v),
                               st |-> [r.st EXCEPT !.marks = SubSeq(@, 1, Len(@) - 1)]]   \* a value, not a length field
       [] kd = "str" -> LET r == RdStr(st) IN IF ~r.ok THEN r ELSE [ok |-> TRUE, why |-> "", v |-> PS(id, r.v), st |-> r.st]
       [] kd = "bin" -> LET r == RdBin(st) IN IF ~r.ok THEN r ELSE [ok |-> TRUE, why |-> "", v |-> PS(id, r.v), st |-> r.st]
       [] kd = "pair" -> LET a == RdStr(st)
                         IN IF ~a.ok THEN a
                            ELSE LET b == RdStr(a.st)
                                 IN IF ~b.ok THEN b ELSE [ok |-> TRUE, why |-> "", v |-> PU(a.v, b.v), st |-> b.st]
       [] OTHER -> Fail("other")

(* the properties inside a block; st.s is exactly the block *)
RECURSIVE RdPropList(_, _, _)
RdPropList(st, ctx, acc) ==
  IF st.s = <<>> THEN [ok |-> TRUE, why |-> "", v |-> acc, st |-> st]
  ELSE LET i == RdU8(st)
       IN IF ~i.ok THEN i
          ELSE IF i.v \notin Allowed(ctx) THEN Fail("other")
          ELSE IF ~Repeatable(ctx, i.v) /\ \E j \in 1..Len(acc) : acc[j].id = i.v THEN Fail("other")
          ELSE LET r == RdPropVal(i.st, i.v)
               IN IF ~r.ok THEN r ELSE RdPropList(r.st, ctx, Append(acc, r.v))

(* property length + block; the values must fit INSIDE the block *)
RdProps(st, ctx) ==
  LET l == RdVbi(st)
  IN IF ~l.ok THEN l
     ELSE LET blk == RdBytes(l.st, l.v)
          IN IF ~blk.ok THEN blk
             ELSE LET inner == RdPropList([s |-> blk.v, pos |-> l.st.pos, marks |-> l.st.marks], ctx, <<>>)
                  IN IF ~inner.ok THEN [inner EXCEPT !.where = "block"]      \* e.g. a value that does not fit INSIDE the block
                     ELSE [ok |-> TRUE, why |-> "", v |-> Canon(inner.v),
                           st |-> [blk.st EXCEPT !.marks = inner.st.marks]]

NoProps(st) == [ok |-> TRUE, why |-> "", v |-> <<>>, st |-> st]
RdPropsV(st, ver, ctx) == IF ver = 5 THEN RdProps(st, ctx) ELSE NoProps(st)

Done(st, p) == IF st.s = <<>> THEN [ok |-> TRUE, why |-> "", pkt |-> p, marks |-> st.marks] ELSE Fail("other")

PConnect(st, p0) ==
  LET nm == RdBin(st)
  IN IF ~nm.ok THEN nm ELSE
  LET vr == RdU8(nm.st)
  IN IF ~vr.ok THEN vr ELSE
  LET fl == RdU8(vr.st)
  IN IF ~fl.ok THEN fl ELSE
  LET ka == RdU16(fl.st)
  IN IF ~ka.ok THEN ka ELSE
  LET ver == vr.v
      f == fl.v
      will == (f \div 4) % 2 = 1
      uf == (f \div 128) % 2 = 1
      pf == (f \div 64) % 2 = 1
      pr == RdPropsV(ka.st, ver, CONNECT)
  IN IF ~pr.ok THEN pr ELSE
  LET cid == RdStr(pr.st)
  IN IF ~cid.ok THEN cid ELSE
  LET wp == IF will THEN RdPropsV(cid.st, ver, WILL) ELSE NoProps(cid.st)
  IN IF ~wp.ok THEN wp ELSE
  LET wt == IF will THEN RdStr(wp.st) ELSE NoProps(wp.st)
  IN IF ~wt.ok THEN wt ELSE
  LET wm == IF will THEN RdBin(wt.st) ELSE NoProps(wt.st)
  IN IF ~wm.ok THEN wm ELSE
  LET un == IF uf THEN RdBin(wm.st) ELSE NoProps(wm.st)
  IN IF ~un.ok THEN un ELSE
  LET pw == IF pf THEN RdBin(un.st) ELSE NoProps(un.st)
  IN IF ~pw.ok THEN pw ELSE
  IF \/ ver \notin {3, 4, 5} \/ nm.v # ProtoName(ver) \/ f % 2 = 1
     \/ (f \div 8) % 4 = 3 \/ (~will /\ ((f \div 8) % 4 # 0 \/ (f \div 32) % 2 = 1))
  THEN Fail("other")
  ELSE Done(pw.st, [p0 EXCEPT !.ver = ver, !.props = pr.v,
                      !.cn = [clean |-> ((f \div 2) % 2 = 1), will |-> will, wqos |-> (f \div 8) % 4,
                              wret |-> ((f \div 32) % 2 = 1), uf |-> uf, pf |-> pf, ka |-> ka.v, cid |-> cid.v,
                              wprops |-> wp.v, wtopic |-> wt.v, wpay |-> wm.v, user |-> un.v, pass |-> pw.v]])

PConnack(st, p0) ==
  LET a == RdU8(st)
  IN IF ~a.ok THEN a ELSE
  LET c == RdU8(a.st)
  IN IF ~c.ok THEN c ELSE
  LET pr == RdPropsV(c.st, p0.ver, CONNACK)
  IN IF ~pr.ok THEN pr
     ELSE IF a.v > 1 THEN Fail("other")
     ELSE Done(pr.st, [p0 EXCEPT !.sp = (a.v = 1), !.reason = c.v, !.props = pr.v])

PPublish(st, p0) ==
  LET tp == RdStr(st)
  IN IF ~tp.ok THEN tp ELSE
  LET id == IF p0.qos > 0 THEN RdU16(tp.st) ELSE [NoProps(tp.st) EXCEPT !.v = 0]
  IN IF ~id.ok THEN id ELSE
  LET pr == RdPropsV(id.st, p0.ver, PUBLISH)
  IN IF ~pr.ok THEN pr
     ELSE [ok |-> TRUE, why |-> "", marks |-> pr.st.marks,
           pkt |-> [p0 EXCEPT !.topic = tp.v, !.pid = id.v, !.props = pr.v, !.payload = pr.st.s]]

(* [reason [properties]] at the end of an acknowledgement, DISCONNECT or AUTH *)
PTail(st, p0) ==
  IF p0.ver # 5 \/ st.s = <<>> THEN Done(st, p0)
  ELSE LET c == RdU8(st)
       IN IF c.st.s = <<>> THEN Done(c.st, [p0 EXCEPT !.reason = c.v])
          ELSE LET pr == RdProps(c.st, p0.type)
               IN IF ~pr.ok THEN pr ELSE Done(pr.st, [p0 EXCEPT !.reason = c.v, !.props = pr.v])

PAck(st, p0) ==
  LET id == RdU16(st)
  IN IF ~id.ok THEN id ELSE PTail(id.st, [p0 EXCEPT !.pid = id.v])

RECURSIVE PFilters(_, _, _, _, _)
PFilters(st, ver, withOpt, sid, acc) ==
  IF st.s = <<>> THEN [ok |-> TRUE, why |-> "", v |-> acc, st |-> st]
  ELSE LET f == RdStr(st)
       IN IF ~f.ok THEN f ELSE
          LET o == IF withOpt THEN RdU8(f.st) ELSE [NoProps(f.st) EXCEPT !.v = 0]
          IN IF ~o.ok THEN o
             ELSE IF withOpt /\ ~OptsOk(ver, o.v) THEN Fail("other")
             ELSE PFilters(o.st, ver, withOpt, sid, Append(acc, Filt(f.v, o.v, sid)))

PSubUnsub(st, p0) ==
  LET id == RdU16(st)
  IN IF ~id.ok THEN id ELSE
  LET pr == RdPropsV(id.st, p0.ver, p0.type)
  IN IF ~pr.ok THEN pr ELSE
  LET fs == PFilters(pr.st, p0.ver, p0.type = SUBSCRIBE, SidOf(pr.v), <<>>)
  IN IF ~fs.ok THEN fs
     ELSE IF fs.v = <<>> THEN Fail("other")
     ELSE Done(fs.st, [p0 EXCEPT !.pid = id.v, !.props = pr.v, !.filters = fs.v])

PSubackUnsuback(st, p0) ==
  LET id == RdU16(st)
  IN IF ~id.ok THEN id ELSE
  LET pr == RdPropsV(id.st, p0.ver, p0.type)
  IN IF ~pr.ok THEN pr
     ELSE IF p0.type = UNSUBACK /\ p0.ver # 5 THEN Done(pr.st, [p0 EXCEPT !.pid = id.v])
     ELSE [ok |-> TRUE, why |-> "", marks |-> pr.st.marks,
           pkt |-> [p0 EXCEPT !.pid = id.v, !.props = pr.v, !.codes = pr.st.s]]

(* Parse(bytes, ver): bytes = one complete packet (fixed header included); ver = the protocol      *)
(* version of the connection (a CONNECT carries its own version and ver is ignored for it).        *)
(* Returns [ok |-> TRUE, pkt, marks] or [ok |-> FALSE, why].                                       *)
Parse(bytes, ver) ==
  LET st0 == [s |-> bytes, pos |-> 0, marks |-> <<>>]
      h == RdU8(st0)
  IN IF ~h.ok THEN h ELSE
  LET t == h.v \div 16
      fl == h.v % 16
      rl == RdVbi(h.st)
  IN IF ~rl.ok THEN rl ELSE
  LET have == BLen(rl.st.s)
  IN IF rl.v > have THEN Fail("length")
     ELSE IF rl.v < have THEN Fail("other")
     ELSE IF t = 0 \/ (t = AUTH /\ ver # 5) THEN Fail("other")
     ELSE IF t # PUBLISH /\ fl # FixedFlags(t) THEN Fail("other")
     ELSE IF t = PUBLISH /\ ((fl \div 2) % 4 = 3 \/ ((fl \div 2) % 4 = 0 /\ fl \div 8 = 1)) THEN Fail("other")
     ELSE LET p0 == IF t = PUBLISH
                    THEN [Pkt(t, ver) EXCEPT !.dup = (fl \div 8 = 1), !.qos = (fl \div 2) % 4, !.retain = (fl % 2 = 1)]
                    ELSE Pkt(t, ver)
              st == rl.st
          IN CASE t = CONNECT -> PConnect(st, p0)
               [] t = CONNACK -> PConnack(st, p0)
               [] t = PUBLISH -> PPublish(st, p0)
               [] t \in AckTypes -> PAck(st, p0)
               [] t \in {SUBSCRIBE, UNSUBSCRIBE} -> PSubUnsub(st, p0)
               [] t \in {SUBACK, UNSUBACK} -> PSubackUnsuback(st, p0)
               [] t \in {PINGREQ, PINGRESP} -> Done(st, p0)
               [] t \in {DISCONNECT, AUTH} -> PTail(st, p0)

ParseOk(bytes, ver) == Parse(bytes, ver).ok
================================================================================
