------------------------------- MODULE MC_Attach -------------------------------
(* Model-checking configurations of Attach.tla.  The handlers' CONNECT parameters are chosen    *)
(* in the initial state from a family of configurations (one family per property group).        *)
EXTENDS Attach

Rec(i, v, c, e, w) == [id |-> i, ver |-> v, clean |-> c, expire |-> e, will |-> w]
(* (version, Clean Start, session ends with the connection): v3 sessions end iff clean          *)
Kinds == {<<4, TRUE, TRUE>>, <<4, FALSE, FALSE>>, <<5, TRUE, TRUE>>, <<5, TRUE, FALSE>>, <<5, FALSE, TRUE>>, <<5, FALSE, FALSE>>}

(* C35 / C36: distinct ids and one shared id, no wills *)
LimitChoices == {[h \in H |-> Rec(IF h = 1 THEN "a" ELSE i[h], k[h][1], k[h][2], k[h][3], -1)]
                   : i \in [H -> {"a", "b"}], k \in [H -> {<<5, TRUE, TRUE>>, <<4, FALSE, FALSE>>}]}
(* C13 / C14 / C15: all handlers use id "a", every kind *)
TakeoverChoices == {[h \in H |-> Rec("a", k[h][1], k[h][2], k[h][3], -1)] : k \in [H -> Kinds]}
(* C16: id "a", v5, wills *)
WillChoices == {[h \in H |-> Rec("a", 5, k[h][1], k[h][2], w[h])]
                   : k \in [H -> {<<TRUE, TRUE>>, <<FALSE, FALSE>>, <<FALSE, TRUE>>}], w \in [H -> {-1, 0, 1}]}

AnyChoices == {[h \in H |-> Rec(i[h], k[h][1], k[h][2], k[h][3], IF k[h][1] = 5 THEN w[h] ELSE -1)]
                   : i \in [H -> {"a", "b"}], k \in [H -> Kinds], w \in [H -> {-1, 0, 1}]}

CodeDevs == {"WgAddInHandler", "TeardownDeletes", "RegBeforeAck", "InheritRace", "LateWill", "TickWipes"}   \* what the code under test does (LimitRace, CloseMissesLate, ReadNil repaired)
AllDevs == {"LimitRace", "WgAddInHandler", "CloseMissesLate", "TeardownDeletes", "RegBeforeAck", "InheritRace", "LateWill", "ReadNil", "TickWipes", "ExpiryDeletesLive"}
NoDev == {}
Dev_LimitRace == {"LimitRace"}
Dev_WgAddInHandler == {"WgAddInHandler"}
Dev_CloseMissesLate == {"CloseMissesLate"}
Dev_TeardownDeletes == {"TeardownDeletes"}
Dev_RegBeforeAck == {"RegBeforeAck"}
Dev_InheritRace == {"InheritRace"}
Dev_LateWill == {"LateWill"}
Dev_ReadNil == {"ReadNil"}
Dev_TickWipes == {"TickWipes", "LateWill"}
EnvLimit == {"drop"}
EnvClose == {"drop", "close"}
EnvTake == {"drop", "sub", "pub"}
EnvWill == {"drop", "tick"}
EnvAll == {"drop", "sub", "pub", "tick", "close"}
EnvExpire == {"drop", "sub", "expire"}
Dev_ExpiryDeletesLive == {"ExpiryDeletesLive"}
(* C14 / C15 with the housekeeping: id "a", persistent and ending sessions *)
ExpireChoices == {[h \in H |-> Rec("a", 5, k[h][1], k[h][2], -1)] : k \in [H -> {<<TRUE, FALSE>>, <<FALSE, FALSE>>, <<FALSE, TRUE>>}]}
=================================================================================
