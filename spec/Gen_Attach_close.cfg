SPECIFICATION Spec
CONSTANTS
  N = 2
  MaxChoices = {2}
  IdSet = {"a", "b"}
  CfgChoices <- LimitChoices
  Dev <- CodeDevs
  EnvOn <- EnvClose
  MaxHist = 1000
INVARIANT DumpInv
CHECK_DEADLOCK FALSE
