\* faulty object with the two named deviations allowed: accepted again
SPECIFICATION Spec
CONSTANTS
  Procs = {1, 2}
  MaxOps = 2
  Alphabet <- SmallAlphabet
  Bug = TRUE
  Allowed <- BothDeviations
INVARIANTS TypeOK WitnessAccepted
CHECK_DEADLOCK FALSE
