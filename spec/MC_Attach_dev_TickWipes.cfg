SPECIFICATION Spec
CONSTANTS
  N = 2
  MaxChoices = {2}
  IdSet = {"a", "b"}
  CfgChoices <- WillChoices
  Dev <- Dev_TickWipes
  EnvOn <- EnvWill
  MaxHist = 60
VIEW view
INVARIANTS P16c
CHECK_DEADLOCK FALSE
