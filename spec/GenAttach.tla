------------------------------- MODULE GenAttach -------------------------------
(* Behaviours of the model of the code (Attach.tla, every deviation the code has) as schedules   *)
(* for the driver: run with tlc -simulate; every state of a behaviour overwrites the file of its *)
(* behaviour, so the file finally holds the longest prefix (use B of DESIGN 2.2).                *)
EXTENDS MC_Attach, Json, IOUtils

OutDir == IOEnv.VERIF_OUT
MinLen == atoi(IOEnv.VERIF_MINLEN)

DumpInv ==
    IF Len(hist) >= MinLen
      THEN JsonSerialize(OutDir \o "/b_" \o ToString(TLCGet("stats").traces) \o ".json",
                         [max |-> MaxClients, hs |-> cfg, hist |-> hist])
      ELSE TRUE
=================================================================================
