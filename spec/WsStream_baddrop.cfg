\* faulty connection: drops the remainder of a message larger than the read buffer: TLC must refute PrefixOfStream
SPECIFICATION Spec
CONSTANTS
  Bytes = {1, 2}
  MaxMsgs = 3
  MaxLen = 2
  ReadSizes = {1, 2, 4}
  DropRest = TRUE
  AcceptText = FALSE
INVARIANTS TypeOK PrefixOfStream CompleteAtEnd EndedOnlyByText
CHECK_DEADLOCK FALSE
