-------------------------- MODULE TraceTopicIndexConc --------------------------
(* C31, use (C): the JUDGE of TopicIndexConc.tla (see Part 2 of its header).                   *)
(* Input VERIF_TRACE: one JSON line per batch recorded from the real TopicsIndex               *)
(*   ops : [ [g, k, inv, ret, op, who, x, p, r] ... ]   calls with stamps and returned value    *)
(*   subs: [ [t, cl, il] ... ]   Subscribers(t) after the batch: client (who, filter) pairs and *)
(*                               inline ids                                                    *)
(*   msgs: [ [f, got] ... ]      Messages(f) after the batch: payload ids                      *)
(* TLC (depth-first queue, 1 worker) looks for ONE linearization per batch; state = (batch,    *)
(* set of linearized calls, abstract state), so revisits are pruned by the fingerprint set.    *)
(* Register 1 = batch being explained, 2 = most calls linearized in it, 3 = batches whose      *)
(* linearization used an allowed deviation.  When the last batch is explained the verdict is   *)
(* written and TLC exits; if the search is exhausted first, LDone writes where it got stuck.   *)
EXTENDS Integers, Sequences, FiniteSets, TLC, Json, IOUtils, SequencesExt

Hist     == ndJsonDeserialize(IOEnv.VERIF_TRACE)
OutFile  == IOEnv.VERIF_OUT
AllowedJ == ToSet(JsonDeserialize(IOEnv.VERIF_ALLOWED))      \* file: JSON array of allowed deviation names

VARIABLES bi, done, st, used
lvars == <<bi, done, st, used>>

(* the abstract object and the judge's constraints; the design model's variables are not used *)
O == INSTANCE TopicIndexConc WITH Procs <- {}, MaxOps <- 0, Alphabet <- {}, Bug <- FALSE, Allowed <- AllowedJ,
                                  pc <- 0, cur <- 0, obj <- st, clock <- 0, hist <- 0, order <- 0
S0 == O!S0

Ops == Hist[bi].ops

FinalOK(S, b) ==
    /\ \A q \in ToSet(b.subs) : /\ {<<p[1], p[2]>> : p \in ToSet(q.cl)} = O!AnsSubs(S, q.t)
                                /\ ToSet(q.il) = O!AnsInline(S, q.t)
    /\ \A q \in ToSet(b.msgs) : /\ ToSet(q.got) = O!AnsMsgs(S, q.f)
                                /\ Len(q.got) = Cardinality(ToSet(q.got))     \* each message once

LInit == bi = 1 /\ done = {} /\ st = S0 /\ used = {}

Lin(i) ==
    /\ i \notin done /\ O!PreOf(Ops, i) \subseteq done
    /\ O!RetOK(Ops[i], Ops[i].r, st, AllowedJ)
    /\ used' = IF Ops[i].r = O!Ret(Ops[i], st) THEN used ELSE used \cup {O!DevName(Ops[i])}
    /\ st' = O!Eff(Ops[i], st)
    /\ done' = done \cup {i}
    /\ UNCHANGED bi
    /\ IF Cardinality(done') > TLCGet(2) THEN TLCSet(2, Cardinality(done')) ELSE TRUE

Finish ==
    /\ done = 1..Len(Ops) /\ FinalOK(st, Hist[bi])
    /\ bi' = bi + 1 /\ done' = {} /\ st' = S0 /\ used' = {}
    /\ TLCSet(1, bi') /\ TLCSet(2, 0)
    /\ TLCSet(3, TLCGet(3) + (IF used = {} THEN 0 ELSE 1))
    /\ IF bi' > Len(Hist)
       THEN /\ JsonSerialize(OutFile, [batches |-> Len(Hist), reached |-> bi', deepest |-> 0, withdev |-> TLCGet(3)])
            /\ TLCSet("exit", TRUE)
       ELSE TRUE

LNext == bi <= Len(Hist) /\ (Finish \/ \E i \in 1..Len(Ops) : Lin(i))

LSpec == LInit /\ [][LNext]_lvars

LRegs == TLCSet(1, 1) /\ TLCSet(2, 0) /\ TLCSet(3, 0)
ASSUME LRegs

(* search exhausted without explaining batch TLCGet(1): that batch is not linearizable *)
LDone == \/ TLCGet(1) > Len(Hist)
         \/ JsonSerialize(OutFile, [batches |-> Len(Hist), reached |-> TLCGet(1), deepest |-> TLCGet(2), withdev |-> TLCGet(3)])
================================================================================
