SPECIFICATION Spec
CONSTANTS
  N = 2
  MaxChoices = {2}
  IdSet = {"a", "b"}
  CfgChoices <- TakeoverChoices
  Dev <- CodeDevs
  EnvOn <- EnvTake
  MaxHist = 1000
INVARIANT DumpInv
CHECK_DEADLOCK FALSE
