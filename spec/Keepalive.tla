------------------------------- MODULE Keepalive -------------------------------
(* C37  Keep-alive of a connection (clients.go refreshDeadline / Read): with keepalive K > 0   *)
(* the connection is closed once no packet has arrived for 1.5 x K, and is never closed for    *)
(* inactivity while packets keep arriving less than 1.5 x K apart; K = 0 disables the timeout. *)
(*                                                                                             *)
(* TIME is counted in QUARTERS of K (for K = 0 a quarter is a nominal 250 ms).  One client     *)
(* follows a schedule of gaps `sched` (quarters between consecutive packets; the CONNECT is    *)
(* the arrival at quarter 0) and then stays silent.                                            *)
(*   Arrive     the next packet of the schedule is due: idle := 0                               *)
(*   IdleClose  the server closes the connection; enabled iff K > 0 and idle >= LimitQ          *)
(*   Tick       a quarter passes; the server may not let the deadline pass by more than Slack   *)
(*   Stop       end of the observation (Observe quarters after the last packet)                 *)
(* LimitQ is what the modelled server uses; the PROPERTY is stated with the constant 6         *)
(* (= 1.5 K): invariants OpenOnlyWhileFresh and ClosedOnlyWhenIdle.  With LimitQ = 6 they hold  *)
(* for every schedule; with LimitQ = 4 (a server that computes K + K/2 in whole seconds for    *)
(* K = 1) TLC refutes ClosedOnlyWhenIdle (Keepalive_bad.cfg).                                  *)
(*                                                                                             *)
(* The two predicates MayNotBeClosed / MustBeClosed are the property in any time unit (q =     *)
(* length of a quarter); TraceKeepalive.tla applies them to wall-clock milliseconds.           *)
EXTENDS Naturals, Sequences, FiniteSets, TLC

CONSTANTS K,            \* keepalive; only K = 0 / K > 0 matters here (time is relative to K)
          Gaps,         \* possible gaps between packets, in quarters
          MaxLen,       \* longest schedule
          LimitQ,       \* idle quarters after which the modelled server closes
          Slack,        \* quarters the server may be late
          Observe       \* quarters the client keeps watching after its last packet

PropertyLimitQ == 6     \* one and a half keepalive periods = 6 quarters

(* the property, for a connection that has been idle for `idle` time units, a quarter being q units *)
MayNotBeClosed(idle, q)      == idle < PropertyLimitQ * q             \* closing now would be too early
MustBeClosed(idle, q, slack) == idle >= PropertyLimitQ * q + slack     \* still open now is too late

Schedules == UNION {[1..n -> Gaps] : n \in 0..MaxLen}

VARIABLES plan, sched, now, idle, open, closedAt, sent
vars == <<plan, sched, now, idle, open, closedAt, sent>>

Init ==
    /\ plan \in Schedules /\ sched = plan
    /\ now = 0 /\ idle = 0 /\ open = TRUE /\ closedAt = 0 /\ sent = <<0>>

Due == sched # <<>> /\ idle = Head(sched)

Arrive ==
    /\ open /\ Due
    /\ idle' = 0 /\ sched' = Tail(sched) /\ sent' = Append(sent, now)
    /\ UNCHANGED <<plan, now, open, closedAt>>

IdleClose ==
    /\ open /\ K > 0 /\ idle >= LimitQ
    /\ open' = FALSE /\ closedAt' = now
    /\ UNCHANGED <<plan, sched, now, idle, sent>>

Watching == sched # <<>> \/ idle < Observe

Tick ==
    /\ open /\ ~Due /\ Watching
    /\ K > 0 => idle < LimitQ + Slack
    /\ now' = now + 1 /\ idle' = idle + 1
    /\ UNCHANGED <<plan, sched, open, closedAt, sent>>

Next == Arrive \/ IdleClose \/ Tick

Spec == Init /\ [][Next]_vars

(* ------------------------------------------------------------------------- properties *)
TypeOK == /\ plan \in Schedules /\ now \in Nat /\ idle \in Nat /\ open \in BOOLEAN
          /\ Len(sent) + Len(sched) = Len(plan) + 1

(* never closed for inactivity while packets keep arriving less than 1.5 K apart *)
ClosedOnlyWhenIdle == ~open => K > 0 /\ ~MayNotBeClosed(idle, 1)
(* closed once no packet has arrived for 1.5 K (the server may be Slack late) *)
OpenOnlyWhileFresh == open /\ K > 0 => ~MustBeClosed(idle, 1, Slack + 1)
(* keepalive 0 disables the timeout *)
ZeroNeverCloses == K = 0 => open

(* the outcome of a finished behaviour, as the table GenKeepalive emits it *)
Finished == ~open \/ (sched = <<>> /\ ~Watching)
Outcome  == [plan |-> plan, closed |-> ~open, at |-> IF open THEN now ELSE closedAt, sent |-> sent]
================================================================================
