---- MODULE TraceTopicIndexConc_TTrace_1790035374 ----
EXTENDS Sequences, TLCExt, Toolbox, TraceTopicIndexConc, Naturals, TLC

_expression ==
    LET TraceTopicIndexConc_TEExpression == INSTANCE TraceTopicIndexConc_TEExpression
    IN TraceTopicIndexConc_TEExpression!expression
----

_trace ==
    LET TraceTopicIndexConc_TETrace == INSTANCE TraceTopicIndexConc_TETrace
    IN TraceTopicIndexConc_TETrace!trace
----

_inv ==
    ~(
        TLCGet("level") = Len(_TETrace)
        /\
        st = ([subs |-> {[f |-> <<"a">>, kind |-> "client", who |-> "c1"]}, ret |-> (<<"a">> :> "m3.4" @@ <<"a", "b">> :> "m3.2")])
        /\
        bi = (1)
        /\
        used = ({})
        /\
        done = ({1, 2, 3, 4, 5, 6, 7, 8})
    )
----

_init ==
    /\ bi = _TETrace[1].bi
    /\ used = _TETrace[1].used
    /\ done = _TETrace[1].done
    /\ st = _TETrace[1].st
----

_next ==
    /\ \E i,j \in DOMAIN _TETrace:
        /\ \/ /\ j = i + 1
              /\ i = TLCGet("level")
        /\ bi  = _TETrace[i].bi
        /\ bi' = _TETrace[j].bi
        /\ used  = _TETrace[i].used
        /\ used' = _TETrace[j].used
        /\ done  = _TETrace[i].done
        /\ done' = _TETrace[j].done
        /\ st  = _TETrace[i].st
        /\ st' = _TETrace[j].st

\* Uncomment the ASSUME below to write the states of the error trace
\* to the given file in Json format. Note that you can pass any tuple
\* to `JsonSerialize`. For example, a sub-sequence of _TETrace.
    \* ASSUME
    \*     LET J == INSTANCE Json
    \*         IN J!JsonSerialize("TraceTopicIndexConc_TTrace_1790035374.json", _TETrace)

=============================================================================

 Note that you can extract this module `TraceTopicIndexConc_TEExpression`
  to a dedicated file to reuse `expression` (the module in the 
  dedicated `TraceTopicIndexConc_TEExpression.tla` file takes precedence 
  over the module `TraceTopicIndexConc_TEExpression` below).

---- MODULE TraceTopicIndexConc_TEExpression ----
EXTENDS Sequences, TLCExt, Toolbox, TraceTopicIndexConc, Naturals, TLC

expression == 
    [
        \* To hide variables of the `TraceTopicIndexConc` spec from the error trace,
        \* remove the variables below.  The trace will be written in the order
        \* of the fields of this record.
        bi |-> bi
        ,used |-> used
        ,done |-> done
        ,st |-> st
        
        \* Put additional constant-, state-, and action-level expressions here:
        \* ,_stateNumber |-> _TEPosition
        \* ,_biUnchanged |-> bi = bi'
        
        \* Format the `bi` variable as Json value.
        \* ,_biJson |->
        \*     LET J == INSTANCE Json
        \*     IN J!ToJson(bi)
        
        \* Lastly, you may build expressions over arbitrary sets of states by
        \* leveraging the _TETrace operator.  For example, this is how to
        \* count the number of times a spec variable changed up to the current
        \* state in the trace.
        \* ,_biModCount |->
        \*     LET F[s \in DOMAIN _TETrace] ==
        \*         IF s = 1 THEN 0
        \*         ELSE IF _TETrace[s].bi # _TETrace[s-1].bi
        \*             THEN 1 + F[s-1] ELSE F[s-1]
        \*     IN F[_TEPosition - 1]
    ]

=============================================================================



Parsing and semantic processing can take forever if the trace below is long.
 In this case, it is advised to uncomment the module below to deserialize the
 trace from a generated binary file.

\*
\*---- MODULE TraceTopicIndexConc_TETrace ----
\*EXTENDS IOUtils, TraceTopicIndexConc, TLC
\*
\*trace == IODeserialize("TraceTopicIndexConc_TTrace_1790035374.bin", TRUE)
\*
\*=============================================================================
\*

---- MODULE TraceTopicIndexConc_TETrace ----
EXTENDS TraceTopicIndexConc, TLC

trace == 
    <<
    ([st |-> [subs |-> {}, ret |-> <<>>],bi |-> 1,used |-> {},done |-> {}]),
    ([st |-> [subs |-> {}, ret |-> <<>>],bi |-> 1,used |-> {},done |-> {2}]),
    ([st |-> [subs |-> {}, ret |-> (<<"a", "b">> :> "m3.2")],bi |-> 1,used |-> {},done |-> {2, 3}]),
    ([st |-> [subs |-> {}, ret |-> (<<"a", "b">> :> "m3.2")],bi |-> 1,used |-> {},done |-> {2, 3, 4}]),
    ([st |-> [subs |-> {}, ret |-> (<<"a">> :> "m3.4" @@ <<"a", "b">> :> "m3.2")],bi |-> 1,used |-> {},done |-> {2, 3, 4, 5}]),
    ([st |-> [subs |-> {[f |-> <<"a">>, kind |-> "client", who |-> "c1"]}, ret |-> (<<"a">> :> "m3.4" @@ <<"a", "b">> :> "m3.2")],bi |-> 1,used |-> {},done |-> {1, 2, 3, 4, 5}]),
    ([st |-> [subs |-> {[f |-> <<"a">>, kind |-> "client", who |-> "c1"]}, ret |-> (<<"a">> :> "m3.4" @@ <<"a", "b">> :> "m3.2")],bi |-> 1,used |-> {},done |-> {1, 2, 3, 4, 5, 6}]),
    ([st |-> [subs |-> {[f |-> <<"a">>, kind |-> "client", who |-> "c1"]}, ret |-> (<<"a">> :> "m3.4" @@ <<"a", "b">> :> "m3.2")],bi |-> 1,used |-> {},done |-> {1, 2, 3, 4, 5, 6, 7}]),
    ([st |-> [subs |-> {[f |-> <<"a">>, kind |-> "client", who |-> "c1"]}, ret |-> (<<"a">> :> "m3.4" @@ <<"a", "b">> :> "m3.2")],bi |-> 1,used |-> {},done |-> {1, 2, 3, 4, 5, 6, 7, 8}])
    >>
----


=============================================================================

---- CONFIG TraceTopicIndexConc_TTrace_1790035374 ----

INVARIANT
    _inv

CHECK_DEADLOCK
    \* CHECK_DEADLOCK off because of PROPERTY or INVARIANT above.
    FALSE

INIT
    _init

NEXT
    _next

CONSTANT
    _TETrace <- _trace

ALIAS
    _expression
=============================================================================
\* Generated on Tue Sep 22 00:02:55 UTC 2026