SPECIFICATION TSpec
CONSTANTS
  Cap = 1
  Buf = 24
  MaxPub = 1000
  MaxDir = 1000
  Sizes = {11, 30, 99}
  Dev = {}
  EnvOn = {"disc"}
  MaxHist = 100000
POSTCONDITION Done
CHECK_DEADLOCK FALSE
