\* faulty object (unsubscribe returns TRUE whenever the node exists), no deviation allowed: TLC must refute WitnessAccepted
SPECIFICATION Spec
CONSTANTS
  Procs = {1, 2}
  MaxOps = 2
  Alphabet <- TinyAlphabet
  Bug = TRUE
  Allowed <- NoDeviation
INVARIANTS TypeOK WitnessAccepted
CHECK_DEADLOCK FALSE
