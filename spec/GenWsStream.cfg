INIT Init
NEXT Next
