SPECIFICATION Spec
CONSTANTS
  N = 3
  MaxChoices = {1, 2}
  IdSet = {"a", "b"}
  CfgChoices <- LimitChoices
  Dev <- CodeDevs
  EnvOn <- EnvLimit
  MaxHist = 1000
INVARIANT DumpInv
CHECK_DEADLOCK FALSE
