SPECIFICATION Spec
CONSTANTS
  C <- Clients3
  Dev <- Dev_Drops
  MaxHist = 40
VIEW view
INVARIANTS TypeOK NoneLeftOpen
PROPERTY StopsAccepting
CHECK_DEADLOCK FALSE
