----------------------------- MODULE GenTopicIndex -----------------------------
(* C31, use (B): TLC enumerates EVERY sequential history of 1..Depth operations over a small   *)
(* alphabet of index calls and writes, for each, the value every call must return and the      *)
(* answers Subscribers(t) / Messages(f) must give afterwards, computed with the abstract       *)
(* object of TopicIndexConc.tla (Ret, Eff, AnsSubs, AnsInline, AnsMsgs).  The harness replays  *)
(* each row on a fresh real TopicsIndex and reports the rows where the real code differs.      *)
(* Field d of a call names the deviation (defect) of TopicIndexConc.tla that could apply to it *)
(* in that state ("" = none): a difference anywhere else is not that defect.                   *)
(* Parameters: VERIF_ALPHA in {small, big}, VERIF_DEPTH, VERIF_OUT.                            *)
EXTENDS Integers, Sequences, FiniteSets, TLC, Json, IOUtils, SequencesExt

O == INSTANCE TopicIndexConc WITH Procs <- {}, MaxOps <- 0, Alphabet <- {}, Bug <- FALSE, Allowed <- {},
                                  pc <- 0, cur <- 0, obj <- 0, clock <- 0, hist <- 0, order <- 0

Depth   == atoi(IOEnv.VERIF_DEPTH)
OutFile == IOEnv.VERIF_OUT

Op(o, w, x, p) == [op |-> o, who |-> w, x |-> x, p |-> p]

Small ==
       {Op(o, w, f, "") : o \in {"sub", "unsub"}, w \in {"c1", "c2"}, f \in {<<"a", "b">>, <<"a", "+">>}}
  \cup {Op(o, "i1", <<"a", "b">>, "") : o \in {"isub", "iunsub"}}
  \cup {Op("retain", "", <<"a", "b">>, "p1"), Op("retain", "", <<"a", "b", "c">>, "p2"),
        Op("clear", "", <<"a", "b">>, ""), Op("clear", "", <<"a", "b", "c">>, "")}
Big == Small
  \cup {Op(o, "c1", <<"a">>, "") : o \in {"sub", "unsub"}}
  \cup {Op(o, "i1", <<"a", "+">>, "") : o \in {"isub", "iunsub"}}
  \cup {Op("retain", "", <<"a">>, "p3"), Op("clear", "", <<"a">>, "")}
Alpha == IF IOEnv.VERIF_ALPHA = "big" THEN Big ELSE Small

QTopics  == <<<<"a">>, <<"a", "b">>, <<"a", "b", "c">>, <<"a", "x">>>>
QFilters == <<<<"a">>, <<"a", "b">>, <<"a", "b", "c">>, <<"a", "+">>, <<"a", "#">>, <<"#">>, <<"a", "b", "+">>, <<"+", "b">>>>

RECURSIVE Run(_, _, _)
(* returns <<annotated calls, final state>> *)
Run(h, n, acc) ==
    IF n > Len(h) THEN acc
    ELSE LET o == h[n]  S == acc[2] IN
         Run(h, n + 1, <<Append(acc[1], [op |-> o.op, who |-> o.who, x |-> o.x, p |-> o.p, r |-> O!Ret(o, S),
                                               d |-> IF O!Deviates(o, 1, S) THEN O!DevName(o) ELSE ""]), O!Eff(o, S)>>)

Row(h) == LET res == Run(h, 1, <<<<>>, O!S0>>)  S == res[2] IN
    [ops  |-> res[1],
     subs |-> [i \in 1..Len(QTopics) |-> [t |-> QTopics[i], cl |-> SetToSeq(O!AnsSubs(S, QTopics[i])),
                                          il |-> SetToSeq(O!AnsInline(S, QTopics[i]))]],
     msgs |-> [i \in 1..Len(QFilters) |-> [f |-> QFilters[i], got |-> SetToSeq(O!AnsMsgs(S, QFilters[i]))]]]

Hists == UNION {[1..n -> Alpha] : n \in 1..Depth}
Rows  == {Row(h) : h \in Hists}

ASSUME /\ JsonSerialize(OutFile, SetToSeq(Rows))
       /\ PrintT(<<"ROWS", Cardinality(Rows), "ALPHABET", Cardinality(Alpha)>>)

(* sanity of the abstract object, checked by TLC on the enumerated histories:                  *)
(* a second identical subscribe reports "not new"; unsubscribe of a non-subscriber reports 0;   *)
(* clearing twice reports -1 then 0                                                            *)
ASSUME \A o \in {x \in Alpha : x.op \in {"sub", "isub"}} : Row(<<o, o>>).ops[2].r = 0 /\ Row(<<o>>).ops[1].r = 1
ASSUME \A o \in {x \in Alpha : x.op \in {"unsub", "iunsub"}} : Row(<<o>>).ops[1].r = 0
ASSUME Row(<<Op("retain", "", <<"a", "b">>, "p1"), Op("clear", "", <<"a", "b">>, ""), Op("clear", "", <<"a", "b">>, "")>>).ops[2].r = -1
ASSUME Row(<<Op("retain", "", <<"a", "b">>, "p1"), Op("clear", "", <<"a", "b">>, ""), Op("clear", "", <<"a", "b">>, "")>>).ops[3].r = 0

VARIABLE x
Init == x = 0
Next == UNCHANGED x
================================================================================
