------------------------------ MODULE GenKeepalive ------------------------------
(* C37, use (B): TLC explores Keepalive.tla for every schedule of <= MaxLen gaps in Gaps and   *)
(* collects the outcome of every finished behaviour: the schedule, whether the connection was  *)
(* closed, and at which quarter (closed) / until which quarter it was watched (still open),    *)
(* and the quarters at which packets were sent.  The table (VERIF_OUT) is the schedule the     *)
(* harness replays in real time and the nominal expectation reported with each run.           *)
(* Run with -workers 1 (the rows are collected in TLC register 1).                             *)
EXTENDS Keepalive, Json, IOUtils, SequencesExt

ASSUME TLCSet(1, {})

Collect == IF Finished THEN TLCSet(1, TLCGet(1) \cup {Outcome}) ELSE TRUE

Written == /\ JsonSerialize(IOEnv.VERIF_OUT, SetToSeq(TLCGet(1)))
           /\ PrintT(<<"ROWS", Cardinality(TLCGet(1))>>)
           /\ Cardinality(TLCGet(1)) = Cardinality(Schedules)       \* exactly one outcome per schedule
================================================================================
