\* design config: uncapped pool
SPECIFICATION Spec
CONSTANTS
  Buffers = {b1, b2, b3}
  Holders = {g1, g2}
  Cap = 0
  Sizes = {0, 1, 2}
  GetRemoves = TRUE
  PutResets = TRUE
  PutChecksCap = TRUE
INVARIANTS TypeOK NoSharing HandedOutEmpty CapRespected Intact NoLeakInModel
