----------------------------- MODULE TraceBufPool -----------------------------
(* C41, use (C): TLC judges a log recorded from the real mempool pool against BufPool.tla.     *)
(*                                                                                             *)
(* The harness (harness/cmd/vcomp bufpool) runs many goroutines on one pool.  Each logs        *)
(*    {"e":"acq","g":G,"b":B,"len":L,"cap":C}        AFTER  Get returned buffer B to G         *)
(*    {"e":"rel","g":G,"b":B,"len":L,"cap":C,"ok":T} BEFORE G calls Put(B)                     *)
(* with a global atomic sequence number; the lines of the file are in that order.  B is the    *)
(* pointer identity (renumbered), L / C are Len() / Cap() at that moment, ok says whether the  *)
(* bytes read back before the release were the bytes G itself had written.  Because "acq" is   *)
(* taken after Get and "rel" before Put, every logged hold interval lies inside the real one.  *)
(*                                                                                             *)
(* Each "acq" line must be a GetPooled or GetFresh step of BufPool (after a Drop step when the *)
(* pool forgot the buffer and the address came back as a new object), each "rel" line a Write  *)
(* step followed by a Put step.  A line that is no such step produces a complaint naming the   *)
(* broken guarantee (shared / dirty / overcap / origin / clobbered), the state is then forced  *)
(* to what was observed and validation continues.  Complaints and counters (how many hand-outs *)
(* were re-used pooled buffers, how many Puts the cap discarded, ...) are written to VERIF_OUT. *)
EXTENDS BufPool, Json, IOUtils, Sequences, SequencesExt

Trace    == ndJsonDeserialize(IOEnv.VERIF_TRACE)
OutFile  == IOEnv.VERIF_OUT
TraceCap == atoi(IOEnv.VERIF_CAP)
TraceIds == Nat                              \* buffers, holders, sizes: whatever the log contains

VARIABLES l, phase, bad, stats
tvars == <<vars, l, phase, bad, stats>>

Stats0 == [pooled |-> 0, fresh |-> 0, kept |-> 0, discarded |-> 0, dropped |-> 0, maxlive |-> 0]
Bump(f) == [stats EXCEPT ![f] = @ + 1]

TInit == Init /\ l = 1 /\ phase = 0 /\ bad = <<>> /\ stats = Stats0

Complain(c) == bad' = IF c = {} \/ Len(bad) >= 40 THEN bad
                      ELSE Append(bad, [line |-> l, ev |-> Trace[l], complaints |-> SetToSeq(c)])

Prev(b)   == IF b \in Live THEN held[b] ELSE {}
Pooled(e) == e.b \in free /\ cap[e.b] = e.cap
(* the pool forgot b and the same address is handed out as a new object *)
Reborn(e) == e.b \in free /\ held[e.b] = {} /\ e.cap = 0 /\ cap[e.b] # 0

AcqComplaints(e) ==
       (IF ~NotShared(Prev(e.b)) THEN {[tag |-> "shared", with |-> Prev(e.b)]} ELSE {})
  \cup (IF ~Empty(e.len)         THEN {[tag |-> "dirty", with |-> {}]} ELSE {})
  \cup (IF ~WithinCap(e.cap)     THEN {[tag |-> "overcap", with |-> {}]} ELSE {})
  \cup (IF ~Pooled(e) /\ (e.cap # 0 \/ e.b \in Live) /\ NotShared(Prev(e.b)) /\ WithinCap(e.cap)
                                 THEN {[tag |-> "origin", with |-> {}]} ELSE {})

(* forced state after a refused hand-out: what was observed *)
ForceAcq(e) ==
    /\ held' = With(held, e.b, Prev(e.b) \cup {e.g})
    /\ len'  = With(len, e.b, e.len) /\ cap' = With(cap, e.b, e.cap)
    /\ data' = With(data, e.b, IF e.b \in Live THEN data[e.b] ELSE None)
    /\ free' = free \ {e.b}
    /\ last' = [b |-> e.b, g |-> e.g, prev |-> Prev(e.b), len |-> e.len, cap |-> e.cap, fresh |-> FALSE]

Acq(e) ==
    IF Reborn(e)
    THEN /\ Drop(e.b) /\ stats' = Bump("dropped") /\ UNCHANGED <<l, phase, bad>>
    ELSE LET c == AcqComplaints(e) IN
         /\ Complain(c)
         /\ IF c # {} THEN ForceAcq(e) /\ UNCHANGED stats
            ELSE IF Pooled(e) THEN GetPooled(e.g, e.b) /\ stats' = Bump("pooled")
            ELSE GetFresh(e.g, e.b) /\ stats' = Bump("fresh")
         /\ last'.len = e.len /\ last'.cap = e.cap /\ last'.g = e.g      \* the model's hand-out is the observed one
         /\ l' = l + 1 /\ UNCHANGED phase

(* "rel", first half: the holder has written e.len bytes (capacity now e.cap) and read them back *)
RelWrite(e) ==
    LET c == (IF CanWrite(e.g, e.b, e.len, e.cap) THEN {} ELSE {[tag |-> "harness-write", with |-> {}]})
             \cup (IF e.ok THEN {} ELSE {[tag |-> "clobbered", with |-> Prev(e.b)]}) IN
    /\ Complain(c)
    /\ IF CanWrite(e.g, e.b, e.len, e.cap) THEN Write(e.g, e.b, e.len, e.cap)
       ELSE /\ held' = With(held, e.b, Prev(e.b) \cup {e.g}) /\ len' = With(len, e.b, e.len)
            /\ cap' = With(cap, e.b, e.cap) /\ data' = With(data, e.b, e.g) /\ UNCHANGED <<free, last>>
    /\ phase' = 1 /\ UNCHANGED <<l, stats>>

(* "rel", second half: Put *)
RelPut(e) ==
    /\ Put(e.g, e.b)
    /\ stats' = [Bump(IF e.b \in free' THEN "kept" ELSE "discarded") EXCEPT
                    !.maxlive = IF Cardinality(Live) > @ THEN Cardinality(Live) ELSE @]
    /\ phase' = 0 /\ l' = l + 1 /\ UNCHANGED bad

TNext ==
    /\ l <= Len(Trace)
    /\ LET e == Trace[l] IN
         CASE e.e = "acq" -> Acq(e)
           [] e.e = "rel" /\ phase = 0 -> RelWrite(e)
           [] e.e = "rel" /\ phase = 1 -> RelPut(e)
    /\ TLCSet(1, l') /\ TLCSet(2, bad') /\ TLCSet(3, stats')

TSpec == TInit /\ [][TNext]_tvars

Done == /\ TLCGet(1) = Len(Trace) + 1
        /\ JsonSerialize(OutFile, [lines |-> Len(Trace), bad |-> TLCGet(2), stats |-> TLCGet(3)])
================================================================================
