SPECIFICATION TSpec
CONSTANTS
  Cap = 2
  Buf = 24
  MaxPub = 1000
  MaxDir = 1000
  Sizes = {16, 35, 99}
  Dev = {}
  EnvOn = {"disc", "age"}
  MaxHist = 100000
POSTCONDITION Done
CHECK_DEADLOCK FALSE
