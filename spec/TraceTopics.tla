------------------------------ MODULE TraceTopics ------------------------------
(* Trace specification for the topic index used sequentially (C01, C02, C31 sequential part).  *)
(* Abstract state: a set of subscriptions and a map topic -> retained payload. Every recorded   *)
(* call of the real TopicsIndex is one line; TLC decides whether the recorded answer is the one *)
(* the abstract state gives. Traces are concatenated; a "reset" line starts a new index.        *)
(* Complaints are collected (the run continues) and written to VERIF_OUT as JSON.               *)
EXTENDS MqttTopics, TLC, Json, IOUtils, SequencesExt, FiniteSetsExt

Trace   == ndJsonDeserialize(IOEnv.VERIF_TRACE)
OutFile == IOEnv.VERIF_OUT
CheckRet == IOEnv.VERIF_CHECKRET = "1"     \* also judge Subscribe/Unsubscribe return values (C31)

VARIABLES l, subs, retained, bad, poisoned
vars == <<l, subs, retained, bad, poisoned>>


(* identity of a subscription inside the index *)
SameKey(a, b) ==
    /\ a.kind = b.kind /\ a.f = b.f
    /\ CASE a.kind = "client" -> a.c = b.c
         [] a.kind = "shared" -> a.c = b.c /\ a.g = b.g
         [] a.kind = "inline" -> a.id = b.id
         [] OTHER -> FALSE

SubOf(e) == [c |-> e.c, kind |-> e.kind, g |-> e.g, f |-> e.f, id |-> e.id]

Expected(t)   == {s.id : s \in {x \in subs : Matches(x.f, t)}}
ExpectedM(f)  == {retained[t] : t \in {x \in DOMAIN retained : Matches(f, x)}}

(* the set of complaints about line e in the current state *)
Judge(e) ==
    CASE e.op = "query" ->
            (IF ToSet(e.got) # Expected(e.t) THEN {[tag |-> "match", want |-> Expected(e.t)]} ELSE {})
            \cup (IF e.dupes # 0 THEN {[tag |-> "dupes", want |-> {}]} ELSE {})
      [] e.op = "messages" ->
            (IF ToSet(e.gotm) # ExpectedM(e.f) THEN {[tag |-> "retained-match", want |-> ExpectedM(e.f)]} ELSE {})
            \cup (IF e.dupes # 0 \/ Len(e.gotm) # Cardinality(ToSet(e.gotm)) THEN {[tag |-> "dupes", want |-> {}]} ELSE {})
      [] e.op = "sub" /\ CheckRet ->
            IF e.ret # ({x \in subs : SameKey(x, SubOf(e))} = {}) THEN {[tag |-> "sub-ret", want |-> {}]} ELSE {}
      [] e.op = "unsub" /\ CheckRet ->
            IF e.ret # ({x \in subs : SameKey(x, SubOf(e))} # {}) THEN {[tag |-> "unsub-ret", want |-> {}]} ELSE {}
      [] OTHER -> {}

Step(e) ==
    /\ subs' = CASE e.op = "reset" -> {}
                 [] e.op = "sub"   -> {x \in subs : ~SameKey(x, SubOf(e))} \cup {SubOf(e)}
                 [] e.op = "unsub" -> {x \in subs : ~SameKey(x, SubOf(e))}
                 [] OTHER -> subs
    /\ retained' = CASE e.op = "reset"  -> <<>>
                     [] e.op = "retain" -> [t \in DOMAIN retained \cup {e.t} |-> IF t = e.t THEN e.p ELSE retained[t]]
                     [] e.op = "clear"  -> [t \in DOMAIN retained \ {e.t} |-> retained[t]]
                     [] OTHER -> retained

Init == l = 1 /\ subs = {} /\ retained = <<>> /\ bad = <<>> /\ poisoned = FALSE

Next ==
    /\ l <= Len(Trace)
    /\ LET e == Trace[l]
           c == IF poisoned /\ e.op # "reset" THEN {} ELSE Judge(e) IN
         /\ Step(e)
         /\ bad' = IF c = {} \/ Len(bad) >= 50 THEN bad
                   ELSE Append(bad, [line |-> l, op |-> e.op, complaints |-> SetToSeq(c)])
         /\ poisoned' = IF e.op = "reset" THEN FALSE ELSE poisoned
         /\ l' = l + 1
         /\ TLCSet(1, l') /\ TLCSet(2, bad')

Spec == Init /\ [][Next]_vars

Done == /\ TLCGet(1) = Len(Trace) + 1
        /\ JsonSerialize(OutFile, [lines |-> Len(Trace), bad |-> TLCGet(2)])
=================================================================================
