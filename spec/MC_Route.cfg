\* routing, shared subscriptions, No Local, unsubscribe (C03 C06)
SPECIFICATION Spec
CONSTANTS
  Clients = {"c1", "c2", "c3"}
  ConnOrder <- K3
  Topics <- T2
  Filters <- F_Route
  QosSet = {0, 1}
  MaxQos = 1
  SrvRecvMax = 2
  RecvMaxSet = {8}
  MaxPid = 8
  ExpirySet = {0}
  WillDelaySet = {}
  MaxMsgs = 2
  MaxNow = 0
  MaxHist = 9
  Enabled = {"Connect", "Subscribe", "Unsubscribe", "Publish"}
VIEW View
CONSTRAINT Bound
INVARIANTS TypeOK PidUnique QuotaBound NoGhosts OneOwner ExactDelivery
CHECK_DEADLOCK FALSE
