----------------------------- MODULE RetainExpiry -----------------------------
(* The retained-message housekeeping (server.go clearExpiredRetainedMessages) against a        *)
(* concurrent retained publish on the same topic; one topic.                                    *)
(* The housekeeping works on a snapshot of the retained messages; between finding a message     *)
(* expired and deleting it there is the schedule point retained.expiring (guarded hook).        *)
(* Time is abstract: "age" makes the stored message old enough to be expired at the next        *)
(* housekeeping run (the harness ages the real record through a probe accessor).               *)
(* Dev "DeleteByTopic": the deletion removes whatever is stored under the topic (the code       *)
(* before its repair); the reference deletes only the message it found expired.                 *)
EXTENDS Integers, Sequences, TLC

CONSTANTS MaxPub, Dev, MaxHist
None == [m |-> 0, old |-> FALSE]

VARIABLES store,     \* the retained message of the topic: [m, old] or None
          npub,
          held,      \* the message the housekeeping found expired and is about to delete (None: not running)
          lost,      \* a message that was never expired has been deleted
          hist
vars == <<store, npub, held, lost, hist>>
view == <<store, npub, held, lost>>
Log(who, what, x) == hist' = IF Len(hist) < MaxHist THEN Append(hist, <<who, what, x>>) ELSE hist

Init == store = None /\ npub = 0 /\ held = None /\ lost = FALSE /\ hist = <<>>

Publish ==       \* a retained publish replaces the stored message
    /\ npub < MaxPub
    /\ npub' = npub + 1
    /\ store' = [m |-> npub + 1, old |-> FALSE]
    /\ Log("env", "pub", npub + 1)
    /\ UNCHANGED <<held, lost>>

Age ==           \* time passes: the stored message is now older than the maximum
    /\ store # None /\ ~store.old /\ held = None
    /\ store' = [store EXCEPT !.old = TRUE]
    /\ Log("env", "age", store.m)
    /\ UNCHANGED <<npub, held, lost>>

TickBegin ==     \* the housekeeping runs: snapshot; an expired message brings it to retained.expiring
    /\ held = None
    /\ IF store # None /\ store.old THEN held' = store /\ Log("hk", "tick", "retained.expiring")
       ELSE held' = None /\ Log("hk", "tick", "returned")
    /\ UNCHANGED <<store, npub, lost>>

TickFinish ==    \* retained.expiring -> the deletion, the run returns
    /\ held # None
    /\ LET del == "DeleteByTopic" \in Dev \/ store = held IN
         /\ store' = IF del THEN None ELSE store
         /\ lost' = (lost \/ (del /\ store # None /\ ~store.old))
    /\ held' = None
    /\ Log("hk", "finish", "returned")
    /\ UNCHANGED npub

Probe ==         \* a new subscriber: gets the stored message (or nothing)
    /\ held = None
    /\ Log("env", "sub", IF store = None THEN 0 ELSE store.m)
    /\ UNCHANGED <<store, npub, held, lost>>

Next == Publish \/ Age \/ TickBegin \/ TickFinish \/ Probe
Spec == Init /\ [][Next]_vars

(* C05 / C25: a retained message that has not expired is never removed by the housekeeping *)
FreshKept == ~lost
TypeOK == npub \in 0..MaxPub
===============================================================================
