------------------------------- MODULE GenTopics -------------------------------
(* Case tables for the pure topic functions: TLC enumerates the complete bounded input space   *)
(* and writes the expected answer of MqttTopics for each case (use B of DESIGN 2.2).           *)
(* Parameters come from the environment: VERIF_TABLE in {match, ledger, valid}, VERIF_DEPTH.   *)
EXTENDS MqttTopics, TLC, Json, IOUtils, SequencesExt, FiniteSetsExt

Table == IOEnv.VERIF_TABLE
Depth == atoi(IOEnv.VERIF_DEPTH)
OutFile == IOEnv.VERIF_OUT

SeqsUpTo(A, lo, hi) == UNION {[1..n -> A] : n \in lo..hi}

FilterLevels == {"", "a", "b", "$a", "+"}
TopicLevels  == {"", "a", "b", "$a"}

Filters(d) == (SeqsUpTo(FilterLevels, 1, d)
                 \cup {Append(f, "#") : f \in SeqsUpTo(FilterLevels, 0, d - 1)}) \ {<<"">>}
Topics(d)  == SeqsUpTo(TopicLevels, 1, d) \ {<<"">>}

MatchTable(d) == {[f |-> f, t |-> t, m |-> Matches(f, t)] : f \in Filters(d), t \in Topics(d)}

(* ledger filters have no '$' rule and their topics may be anything incl. '$a' *)
LedgerTable(d) == {[f |-> f, t |-> t, m |-> LedgerMatchLevels(f, t)] : f \in Filters(d), t \in Topics(d)}

Chars == {"/", "+", "#", "$", "a", "share", "SYS"}
ValidTable(d) == {[s |-> s, vf |-> ValidFilterChars(s), vp |-> ValidPublishTopicChars(s)]
                      : s \in SeqsUpTo(Chars, 0, d)}

Rows == CASE Table = "match"  -> MatchTable(Depth)
          [] Table = "ledger" -> LedgerTable(Depth)
          [] Table = "valid"  -> ValidTable(Depth)

ASSUME /\ JsonSerialize(OutFile, SetToSeq(Rows))
       /\ PrintT(<<"ROWS", Cardinality(Rows)>>)

(* sanity theorems about the relation itself, checked by TLC on the bounded domain *)
ASSUME \A t \in Topics(2) : ~Dollar(Head(t)) => Matches(<<"#">>, t)
ASSUME \A t \in Topics(2) : Dollar(Head(t)) => ~Matches(<<"#">>, t) /\ ~Matches(<<"+", "#">>, t)
ASSUME Matches(<<"a", "#">>, <<"a">>) /\ Matches(<<"+", "#">>, <<"a">>) /\ ~Matches(<<"a", "+">>, <<"a">>)
ASSUME Matches(<<"a", "+">>, <<"a", "">>) /\ ~Matches(<<"a">>, <<"a", "">>)
ASSUME \A f \in Filters(2), t \in Topics(2) :
          (\A i \in 1..Len(f) : ~Wild(f[i])) => (Matches(f, t) <=> f = t)

VARIABLE x
Init == x = 0
Next == UNCHANGED x
=================================================================================
