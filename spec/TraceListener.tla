----------------------------- MODULE TraceListener -----------------------------
(* Trace specification for the schedules of Listener.tla run by harness/cmd/vlisten on a real     *)
(* server with a real TCP listener (C36).  Per scenario one "cfg" line, one "step" line per step   *)
(* (who / what / res as the model logged them, got / gotres = what happened, conns = state of      *)
(* every client connection seen from the client, closer = state of the Close call) and one "end"   *)
(* line after everything was let go and the server closed.                                        *)
(*  (1) CONFORMANCE ("conf.*"): Listener.tla (Dev = {}) takes the logged action; results and the   *)
(*      projection (which connections are closed, whether Close has returned) must agree.          *)
(*  (2) PROPERTY rules on the observations alone ("C36.*").                                        *)
EXTENDS Listener, Json, IOUtils, SequencesExt, FiniteSetsExt

Trace   == ndJsonDeserialize(IOEnv.VERIF_TRACE)
OutFile == IOEnv.VERIF_OUT

VARIABLES l, bad, scen, confOK, reported, closedSeen
tvars == <<l, bad, scen, confOK, reported, closedSeen>>

Has(f, k) == k \in DOMAIN f
ObsClosed(o, c) == Has(o, c) /\ o[c] \in {"closed", "never"}

Mismatch(e) ==
    (IF \E c \in C : Has(e.conns, c) /\ (e.conns[c] = "closed") # (st'[c] \in {"closed"}) /\ e.conns[c] # "never" THEN {"conf.connections"} ELSE {})
    \cup (IF \E c \in C : Has(e.conns, c) /\ e.conns[c] = "never" /\ st'[c] # "refused" THEN {"conf.refused"} ELSE {})
    \cup (IF (e.closer = "") # (cpc' = "idle") \/ (e.closer = "returned") # (cpc' = "returned") THEN {"conf.closer"} ELSE {})
    \cup (IF e.what = "dial" /\ e.gotres # e.res THEN {"conf.dial"} ELSE {})
    \cup (IF e.who = "loop" /\ (e.got = "spawned") # (e.what = "spawned") THEN {"conf.dispatch"} ELSE {})
    \cup (IF e.who = "loop" /\ (e.gotres = "tcp.accepted") # (e.res = "tcp.accepted") THEN {"conf.loop"} ELSE {})
    \cup (IF e.what = "start" /\ e.gotres # e.res THEN {"conf.start"} ELSE {})
    \cup (IF e.who = "closer" /\ e.gotres # e.res THEN {"conf.close"} ELSE {})

StepRules(e) ==
    \* the listener stops accepting: once Close has returned no connection is handed to a handler
    (IF closedSeen /\ e.who = "loop" /\ e.got = "spawned" THEN {"C36.connection-dispatched-after-close"} ELSE {})
EndRules(e) ==
    (IF e.closer # "returned" THEN {"C36.close-did-not-return"} ELSE {})
    \cup (IF e.closer = "returned" /\ \E c \in DOMAIN e.conns : e.conns[c] = "open" THEN {"C36.connection-open-after-close"} ELSE {})

Reset(e) ==
    /\ end' = 0 /\ lopen' = TRUE /\ lpc' = "accept" /\ held' = None /\ st' = [c \in C |-> "new"] /\ bq' = <<>> /\ cpc' = "idle" /\ hist' = <<>>
    /\ scen' = [name |-> e.name, line |-> l] /\ confOK' = TRUE /\ reported' = {} /\ closedSeen' = FALSE /\ bad' = bad

Follow(e) == Next /\ hist' = Append(hist, <<e.who, e.what, e.res>>)

Complain(c, e) ==
    /\ reported' = reported \cup c
    /\ bad' = IF c \ reported = {} \/ Len(bad) >= 2000 THEN bad
                ELSE Append(bad, [line |-> l, scen |-> scen.name, start |-> scen.line, who |-> e.who, what |-> e.what, complaints |-> SetToSeq(c \ reported)])

Conforms(e) == confOK /\ e.who \in C \cup {"loop", "closer"} /\ ENABLED Follow(e)

StepFollow(e) ==
    /\ Conforms(e)
    /\ Follow(e)
    /\ LET m == Mismatch(e) IN
         /\ confOK' = (m = {})
         /\ Complain(m \cup StepRules(e), e)
    /\ closedSeen' = (closedSeen \/ e.closer = "returned")
    /\ UNCHANGED scen

StepFree(e) ==
    /\ ~Conforms(e)
    /\ UNCHANGED vars
    /\ confOK' = FALSE
    /\ Complain((IF confOK THEN {"conf.not-enabled"} ELSE {}) \cup StepRules(e), e)
    /\ closedSeen' = (closedSeen \/ e.closer = "returned")
    /\ UNCHANGED scen

EndLine(e) ==
    /\ UNCHANGED vars
    /\ UNCHANGED <<scen, confOK, closedSeen>>
    /\ Complain(IF e.note # "" THEN {"harness.trouble"} ELSE EndRules(e), [who |-> "-", what |-> "end"])

TInit == Init /\ l = 1 /\ bad = <<>> /\ scen = [name |-> "", line |-> 0] /\ confOK = TRUE /\ reported = {} /\ closedSeen = FALSE

TNext ==
    /\ l <= Len(Trace)
    /\ LET e == Trace[l] IN
         \/ e.ev = "cfg" /\ Reset(e)
         \/ e.ev = "step" /\ (StepFollow(e) \/ StepFree(e))
         \/ e.ev = "end" /\ EndLine(e)
    /\ l' = l + 1
    /\ TLCSet(1, l') /\ TLCSet(2, bad')

TSpec == TInit /\ [][TNext]_<<vars, tvars>>

Done == /\ TLCGet(1) = Len(Trace) + 1
        /\ JsonSerialize(OutFile, [lines |-> Len(Trace), bad |-> TLCGet(2)])
=================================================================================
