-------------------------------- MODULE WsStream --------------------------------
(* C39  The WebSocket listener (listeners/websocket.go, wsConn.Read / Write) is transparent:   *)
(* however the client cuts its byte stream into binary messages, the reader on the broker side *)
(* sees the same bytes in the same order; a non-binary message ends the stream.                *)
(*                                                                                             *)
(* STATE  msgs (the messages the client sent, [kind, data]), cur (index of the message being   *)
(* read), pos (bytes of it already delivered), delivered (all bytes handed to the reader),     *)
(* ended (the stream has been ended by a non-binary message).                                  *)
(* ACTION Read(n): the reader offers a buffer of n bytes.  The connection delivers up to n     *)
(* bytes of the CURRENT message (never across its end) and moves on to the next message at its *)
(* end; if the next message is not binary the stream ends with an error and nothing more is    *)
(* delivered.  (DropRest / AcceptText = TRUE give two faulty connections - the remainder of a  *)
(* message is dropped when the buffer is smaller than the message; text messages are delivered *)
(* like binary ones - which TLC must refute: WsStream_baddrop.cfg, WsStream_badtext.cfg.)      *)
(* INVARIANTS  PrefixOfStream: delivered is a prefix of the concatenation of the binary        *)
(* messages before the first non-binary one; CompleteAtEnd: when nothing more can be read,     *)
(* delivered is that whole concatenation; EndedOnlyByText.                                     *)
EXTENDS Naturals, Sequences, FiniteSets, TLC

CONSTANTS Bytes, MaxMsgs, MaxLen, ReadSizes, DropRest, AcceptText

VARIABLES msgs, cur, pos, delivered, ended
vars == <<msgs, cur, pos, delivered, ended>>

SeqsUpTo(A, n) == UNION {[1..k -> A] : k \in 0..n}
Messages == [kind : {"bin", "text"}, data : SeqsUpTo(Bytes, MaxLen)]

RECURSIVE Concat(_)
Concat(ms) == IF ms = <<>> THEN <<>> ELSE Head(ms).data \o Concat(Tail(ms))

(* the messages that make up the stream: the binary ones before the first non-binary one *)
RECURSIVE BinaryPrefix(_)
BinaryPrefix(ms) == IF ms = <<>> \/ Head(ms).kind # "bin" THEN <<>> ELSE <<Head(ms)>> \o BinaryPrefix(Tail(ms))
Stream(ms) == Concat(BinaryPrefix(ms))

IsPrefix(a, b) == Len(a) <= Len(b) /\ SubSeq(b, 1, Len(a)) = a
MinOf(a, b) == IF a < b THEN a ELSE b

Init == /\ msgs \in SeqsUpTo(Messages, MaxMsgs)
        /\ cur = 1 /\ pos = 0 /\ delivered = <<>> /\ ended = FALSE

Exhausted == cur > Len(msgs)

Read(n) ==
    /\ ~ended /\ ~Exhausted
    /\ LET m == msgs[cur] IN
       IF m.kind # "bin" /\ ~AcceptText
       THEN ended' = TRUE /\ UNCHANGED <<msgs, cur, pos, delivered>>
       ELSE LET k == MinOf(n, Len(m.data) - pos) IN
            /\ delivered' = delivered \o SubSeq(m.data, pos + 1, pos + k)
            /\ IF pos + k = Len(m.data) \/ (DropRest /\ k = n)
               THEN cur' = cur + 1 /\ pos' = 0
               ELSE cur' = cur /\ pos' = pos + k
            /\ UNCHANGED <<msgs, ended>>

Next == \E n \in ReadSizes : Read(n)
Spec == Init /\ [][Next]_vars

TypeOK == cur \in 1..(Len(msgs) + 1) /\ pos \in 0..MaxLen /\ ended \in BOOLEAN
PrefixOfStream  == IsPrefix(delivered, Stream(msgs))
CompleteAtEnd   == (ended \/ Exhausted) => delivered = Stream(msgs)
EndedOnlyByText == ended => ~Exhausted /\ msgs[cur].kind # "bin"
================================================================================
