----------------------------- MODULE TraceWsStream -----------------------------
(* C39, use (C): TLC judges what the real WebSocket listener did against WsStream.tla.         *)
(*                                                                                             *)
(* READER records (harness = the reader behind a real listeners.Websocket):                    *)
(*   n      size of the buffer offered to every Read                                           *)
(*   frames [ [kind, len, hex] ... ]  the messages the client sent ("bin" / "text")            *)
(*   reads  [ [k, hex, err] ... ]     every result of wsConn.Read, the last one with an error  *)
(*   echo   [ [kind, len, hex] ... ]  what the client received (the reader writes back every   *)
(*                                    non-empty read with wsConn.Write)                        *)
(*   expect (segmentation-table cases) the stream WsStream!Stream gives, written by TLC        *)
(* One step per Read, mirroring WsStream!Read(n): a read delivers k <= n bytes of the CURRENT   *)
(* message, never across its end; at the end of a message its bytes (the concatenation of the  *)
(* reads) must be the message; empty reads deliver nothing; empty messages are skipped; a text *)
(* message is never passed: the stream must end there with the listener's error and nothing    *)
(* more may be delivered; when the reads end, every binary message before the first text       *)
(* message must have been delivered completely (CompleteAtEnd).  Data are hex strings: only    *)
(* \o and = are needed, the position bookkeeping is done on the lengths.                       *)
(*                                                                                             *)
(* BROKER records (a real mqtt.Server with a WebSocket and a TCP listener, the same client     *)
(* bytes sent over both): the packets the broker read (OnPacketRead hook) and the reply stream *)
(* seen by the client, cut into packets, must be equal; replies must be binary messages; in a  *)
(* "text" case the TCP reference carries the bytes before the text message only (that is       *)
(* WsStream!Stream) and the WebSocket connection must have been closed by the broker.          *)
EXTENDS Naturals, Sequences, FiniteSets, TLC, Json, IOUtils, SequencesExt

Trace   == ndJsonDeserialize(IOEnv.VERIF_TRACE)
OutFile == IOEnv.VERIF_OUT
NotBinaryError == "message type not binary"       \* listeners.ErrInvalidMessage

VARIABLES l,        \* record
          i,        \* next read of the record
          mi, rem, acc,   \* current message, bytes of it still to deliver, hex delivered of it so far
          dl,       \* hex of all completely delivered messages
          cs,       \* complaints about this record
          bad, stats
vars == <<l, i, mi, rem, acc, dl, cs, bad, stats>>

Rec == Trace[l]
Kind(f) == f[1]
LenF(f) == f[2]
Hex(f)  == f[3]

(* index of the first text message (Len + 1 if none) and the stream of WsStream, on hex strings *)
FirstText(fs) == IF \E j \in 1..Len(fs) : Kind(fs[j]) # "bin"
                 THEN CHOOSE j \in 1..Len(fs) : Kind(fs[j]) # "bin" /\ \A m \in 1..(j - 1) : Kind(fs[m]) = "bin"
                 ELSE Len(fs) + 1
RECURSIVE CatHex(_, _, _)
CatHex(fs, a, b) == IF a > b THEN "" ELSE Hex(fs[a]) \o CatHex(fs, a + 1, b)
StreamHex(fs) == CatHex(fs, 1, FirstText(fs) - 1)
RECURSIVE SumLen(_, _, _)
SumLen(fs, a, b) == IF a > b THEN 0 ELSE LenF(fs[a]) + SumLen(fs, a + 1, b)
StreamLen(fs) == SumLen(fs, 1, FirstText(fs) - 1)

(* next message after m that has bytes (Len + 1 if none) *)
NextNonEmpty(fs, m) == IF \E j \in (m + 1)..Len(fs) : LenF(fs[j]) > 0
                       THEN CHOOSE j \in (m + 1)..Len(fs) : LenF(fs[j]) > 0 /\ \A x \in (m + 1)..(j - 1) : LenF(fs[x]) = 0
                       ELSE Len(fs) + 1

C(tag) == {tag}
Stats0 == [reader |-> 0, broker |-> 0, reads |-> 0, nontrivial |-> 0, text |-> 0]

Init == l = 1 /\ i = 1 /\ mi = 0 /\ rem = 0 /\ acc = "" /\ dl = "" /\ cs = {} /\ bad = <<>> /\ stats = Stats0

NextRecord(c) ==
    /\ bad' = IF c = {} \/ Len(bad) >= 40 THEN bad ELSE Append(bad, [id |-> Rec.id, kind |-> Rec.kind, complaints |-> SetToSeq(c)])
    /\ l' = l + 1 /\ i' = 1 /\ mi' = 0 /\ rem' = 0 /\ acc' = "" /\ dl' = "" /\ cs' = {}

(* ---------------------------------------------------------------- reader records *)
NonTrivial(r) == Len(r.frames) > 1 \/ \E j \in 1..Len(r.frames) : LenF(r.frames[j]) > r.n

ReadStep ==
    LET r == Rec  rd == r.reads[i]  k == rd[1]  hx == rd[2]  err == rd[3]  fs == r.frames IN
    /\ r.kind = "reader" /\ r.note = "" /\ i <= Len(r.reads)
    /\ IF err = "" /\ k = 0 THEN UNCHANGED <<mi, rem, acc, dl, cs>>          \* an empty read delivers nothing
       ELSE IF err = "" THEN
            LET m  == IF rem > 0 THEN mi ELSE NextNonEmpty(fs, mi)
                r0 == IF rem > 0 THEN rem ELSE IF m <= Len(fs) THEN LenF(fs[m]) ELSE 0
                a0 == IF rem > 0 THEN acc ELSE ""
            IN  IF m > Len(fs) THEN cs' = cs \cup C("delivered-more-than-sent") /\ UNCHANGED <<mi, rem, acc, dl>>
                ELSE IF m >= FirstText(fs) THEN cs' = cs \cup C("delivered-a-text-message-or-beyond") /\ UNCHANGED <<mi, rem, acc, dl>>
                ELSE /\ mi' = m /\ rem' = (IF k <= r0 THEN r0 - k ELSE 0)
                     /\ acc' = (IF k = r0 THEN "" ELSE a0 \o hx)
                     /\ dl' = (IF k = r0 THEN dl \o a0 \o hx ELSE dl)
                     /\ cs' = cs \cup (IF k > r.n THEN C("read-larger-than-buffer") ELSE {})
                                 \cup (IF k > r0 THEN C("read-across-message-end") ELSE {})
                                 \cup (IF k = r0 /\ a0 \o hx # Hex(fs[m]) THEN C("message-bytes-differ") ELSE {})
       ELSE \* the read that ended the stream
            LET nx == NextNonEmpty(fs, mi)  ft == FirstText(fs) IN
            /\ cs' = cs \cup (IF k # 0 THEN C("bytes-with-error") ELSE {})
                        \cup (IF rem > 0 \/ nx < ft THEN C("stream-incomplete") ELSE {})
                        \cup (IF ft <= Len(fs) /\ err # NotBinaryError THEN C("text-message-not-refused") ELSE {})
                        \cup (IF ft > Len(fs) /\ err = NotBinaryError THEN C("binary-message-refused") ELSE {})
                        \cup (IF i # Len(r.reads) THEN C("read-after-error") ELSE {})
            /\ UNCHANGED <<mi, rem, acc, dl>>
    /\ i' = i + 1 /\ UNCHANGED <<l, bad>>
    /\ stats' = [stats EXCEPT !.reads = @ + 1]

NonZero(r) == SelectSeq(r.reads, LAMBDA x : x[1] > 0)
EchoOK(r) ==
    LET nz == NonZero(r) IN
    /\ Len(r.echo) <= Len(nz)
    /\ FirstText(r.frames) > Len(r.frames) => Len(r.echo) = Len(nz)      \* (after a refused text message the tail may be lost with the connection)
    /\ \A j \in 1..Len(r.echo) : r.echo[j] = <<"bin", nz[j][1], nz[j][2]>>

ReaderEnd ==
    LET r == Rec IN
    /\ r.kind = "reader" /\ (i > Len(r.reads) \/ r.note # "")
    /\ NextRecord(IF r.note # "" THEN C("harness: " \o r.note)
                  ELSE cs \cup (IF Len(r.reads) = 0 \/ r.reads[Len(r.reads)][3] = "" THEN C("harness: reads did not end") ELSE {})
                          \cup (IF dl # StreamHex(r.frames) THEN C("delivered-differs-from-stream") ELSE {})
                          \cup (IF "expect" \in DOMAIN r /\ dl # r.expect THEN C("delivered-differs-from-table") ELSE {})
                          \cup (IF ~EchoOK(r) THEN C("echo-differs") ELSE {}))
    /\ stats' = [stats EXCEPT !.reader = @ + 1, !.nontrivial = @ + (IF NonTrivial(r) THEN 1 ELSE 0),
                              !.text = @ + (IF FirstText(r.frames) <= Len(r.frames) THEN 1 ELSE 0)]

(* ---------------------------------------------------------------- broker records *)
BrokerStep ==
    LET r == Rec IN
    /\ r.kind = "broker"
    /\ NextRecord(IF r.note # "" THEN C("harness: " \o r.note)
                  ELSE (IF r.tcp_bytes # StreamLen(r.frames) THEN C("harness: tcp reference is not the stream") ELSE {})
                  \cup (IF r.ws_packets # r.tcp_packets THEN C("packets-differ") ELSE {})
                  \cup (IF r.ws_reply # r.tcp_reply THEN C("reply-differs") ELSE {})
                  \cup (IF ~r.ws_binary_only THEN C("non-binary-reply") ELSE {})
                  \cup (IF r.case = "text" /\ ~r.ws_closed THEN C("not-closed-after-text") ELSE {})
                  \cup (IF ~r.complete THEN C("incomplete") ELSE {}))
    /\ stats' = [stats EXCEPT !.broker = @ + 1, !.nontrivial = @ + (IF Len(r.frames) > 1 THEN 1 ELSE 0),
                              !.text = @ + (IF r.case = "text" THEN 1 ELSE 0)]

Next == /\ l <= Len(Trace)
        /\ (ReadStep \/ ReaderEnd \/ BrokerStep)
        /\ TLCSet(1, l') /\ TLCSet(2, bad') /\ TLCSet(3, stats')

Spec == Init /\ [][Next]_vars

Done == /\ TLCGet(1) = Len(Trace) + 1
        /\ JsonSerialize(OutFile, [records |-> Len(Trace), bad |-> TLCGet(2), stats |-> TLCGet(3)])
================================================================================
