SPECIFICATION Spec
CONSTANT Progs <- ProgsDef
INVARIANT Exclusion
