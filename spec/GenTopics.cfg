INIT Init
NEXT Next
