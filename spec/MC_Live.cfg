\* liveness of flow control (C11): deferred messages are eventually sent if the client acknowledges
SPECIFICATION FairSpec
CONSTANTS
  Clients = {"c1", "c2"}
  ConnOrder <- K2
  Topics <- T1
  Filters <- F_One
  QosSet = {1}
  MaxQos = 2
  SrvRecvMax = 1
  RecvMaxSet = {1}
  MaxPid = 3
  ExpirySet = {5}
  WillDelaySet = {}
  MaxMsgs = 2
  MaxNow = 0
  MaxHist = 9
  Enabled = {"Connect", "Subscribe", "Publish", "Ack"}
PROPERTIES DeferredEventuallySent
CHECK_DEADLOCK FALSE
