---------------------------- MODULE TraceStorage21 -----------------------------
(* C21 - a crash never loses acknowledged state or resurrects discarded state                  *)
(* (CrashConsistent of spec/Storage.tla, judged on runs of the real broker).                    *)
(*                                                                                              *)
(* One run = one history executed with a cut-off n on the storage writes (harness/driver/       *)
(* storage.go, CrashHook): every storage-hook call is a write w = 1, 2, ...; writes after the   *)
(* n-th are dropped (marked "dropped" in the log) - the process died between write n and n+1.   *)
(* Writes and the packets the broker sent to clients (CONNACK, SUBACK, PUBACK, PUBREC, PUBLISH) *)
(* share one sequence (`log` of each line), so "acknowledged before the crash" = the entry      *)
(* precedes the first dropped write.  After the crash: line "restart" (fresh broker, store-     *)
(* loading step on the surviving store, projection sv), then the probe.                         *)
(*                                                                                              *)
(* The spec folds the entries before the crash into obligations R, exactly as ReqStep of        *)
(* Storage.tla does for the abstract log:                                                       *)
(*   R.subs  subscriptions of persistent sessions granted by a SUBACK, not since removed by an  *)
(*           issued UNSUBSCRIBE / re-SUBSCRIBE / non-resuming or session-ending CONNECT         *)
(*   R.ret   per topic: the last retained value acknowledged to its publisher (PUBACK/PUBREC)   *)
(*           and the values of retained publishes issued after it                               *)
(*   R.inf   messages whose publisher got PUBACK/PUBREC while a required subscription of QoS>0  *)
(*           matched, and whose receiver has not issued its acknowledgement                     *)
(* Rules: at "restart" every obligation is in the restored projection; a write on behalf of a   *)
(* superseded connection object never deletes an obligated in-flight record; restored session   *)
(* settings are those of the last acknowledged connection; in the probe a Clean Start 0         *)
(* reconnect finds the session, gets the in-flight messages again and receives through the      *)
(* obligated subscriptions; a Clean Start 1 connection receives nothing.                        *)
EXTENDS StorageKV, Json, IOUtils, SequencesExt, FiniteSetsExt

Trace   == ndJsonDeserialize(IOEnv.VERIF_TRACE)
OutFile == IOEnv.VERIF_OUT

VARIABLES l, R, conns, del, liveK, live, dead, seenSF, tZ, persisted, zdel, post, pconns, probing, bad, nruns, nobl, backend
vars == <<l, R, conns, del, liveK, live, dead, seenSF, tZ, persisted, zdel, post, pconns, probing, bad, nruns, nobl, backend>>

RECURSIVE JoinFrom(_, _)
JoinFrom(f, i) == IF i > Len(f) THEN "" ELSE IF i = Len(f) THEN f[i] ELSE f[i] \o "/" \o JoinFrom(f, i + 1)
Join(f) == JoinFrom(f, 1)

Cli(sv, id) == CHOOSE c \in ToSet(sv.clients) : c.id = id
Ids(sv) == {c.id : c \in ToSet(sv.clients)}
OutOf(e, k) == IF k \in DOMAIN e.out THEN ToSet(e.out[k]) ELSE {}
MinQ(a, b) == IF a < b THEN a ELSE b

R0 == [subs |-> {}, inf |-> {}, ret |-> <<>>]
RetOf(RR, t) == IF t \in DOMAIN RR.ret THEN RR.ret[t] ELSE [acked |-> "", later |-> {}]
SetRet(RR, t, v) == [RR EXCEPT !.ret = [x \in DOMAIN RR.ret \cup {t} |-> IF x = t THEN v ELSE RR.ret[x]]]
DropClient(RR, c) == [RR EXCEPT !.subs = {s \in @ : s.c # c}, !.inf = {x \in @ : x[1] # c}]

PersistentConn(a) == (a.v < 5 /\ ~a.clean) \/ (a.v = 5 /\ a.sei > 0)

CW(rule, c, x, why) == [rule |-> rule, backend |-> backend, c |-> c, x |-> x, why |-> why]
Collides(c, f) == \E o \in seenSF : o # <<c, f>> /\ SubKey("concat", o[1], o[2]) = SubKey("concat", c, f)

(* ---- the effect of ISSUING the op of line e (a request the client has sent) ---- *)
Issue(RR, e) ==
    CASE e.ev = "connect" ->
            IF ~e.a.clean /\ PersistentConn(e.a) THEN RR ELSE DropClient(RR, e.a.id)
      [] e.ev = "subscribe" /\ e.k \in DOMAIN conns ->
            [RR EXCEPT !.subs = {s \in @ : ~(s.c = conns[e.k].c /\ \E i \in 1..Len(e.a.filters) : s.f = Join(e.a.filters[i].f))}]
      [] e.ev = "unsubscribe" /\ e.k \in DOMAIN conns ->
            [RR EXCEPT !.subs = {s \in @ : ~(s.c = conns[e.k].c /\ \E i \in 1..Len(e.a.filters) : s.f = Join(e.a.filters[i].f))}]
      [] e.ev \in {"disconnect", "netdrop"} /\ e.k \in DOMAIN conns ->
            IF conns[e.k].persist THEN RR ELSE DropClient(RR, conns[e.k].c)
      [] e.ev = "publish" /\ e.a.retain /\ e.a.qos > 0 ->
            SetRet(RR, Join(e.a.t), [RetOf(RR, Join(e.a.t)) EXCEPT !.later = @ \cup {e.a.m}])
      [] e.ev = "publish" /\ e.a.retain /\ e.a.qos = 0 ->      \* never acknowledged: any outcome is acceptable from now on
            SetRet(RR, Join(e.a.t), [RetOf(RR, Join(e.a.t)) EXCEPT !.later = @ \cup {e.a.m, RetOf(RR, Join(e.a.t)).acked}])
      [] e.ev \in {"puback", "pubrec", "pubcomp"} /\ e.k \in DOMAIN conns ->
            LET c == conns[e.k].c IN
            IF <<c, e.pid>> \in DOMAIN del THEN [RR EXCEPT !.inf = @ \ {<<c, del[<<c, e.pid>>][1], del[<<c, e.pid>>][2]>>}] ELSE RR
      [] e.ev = "tick" -> [RR EXCEPT !.subs = {}, !.inf = {}, !.ret = <<>>]    \* expiry ticks release everything (not used by the generator)
      [] OTHER -> RR

(* ---- the effect of one log entry x (of line e) that lies before the crash ---- *)
Entry(RR, e, x) ==
    CASE x.k = "a" /\ x.h = "suback" /\ e.ev = "subscribe" /\ x.conn = e.k /\ x.pid = e.a.pid /\ e.k \in DOMAIN conns /\ conns[e.k].persist ->
            [RR EXCEPT !.subs = @ \cup {[c |-> conns[e.k].c, f |-> Join(e.a.filters[i].f), q |-> e.a.filters[i].qos,
                                          nl |-> e.a.filters[i].nl, rap |-> e.a.filters[i].rap, rh |-> e.a.filters[i].rh, id |-> e.a.subid]
                                         : i \in {j \in 1..Len(e.a.filters) : j <= Len(x.codes) /\ x.codes[j] < 128}}]
      [] x.k = "a" /\ x.h \in {"puback", "pubrec"} /\ e.ev = "publish" /\ x.conn = e.k /\ x.pid = e.a.pid /\ x.rc < 128 /\ e.k \in DOMAIN conns ->
            LET ts == Join(e.a.t)
                r1 == IF e.a.retain THEN SetRet(RR, ts, [acked |-> e.a.m, later |-> {}]) ELSE RR
            IN IF e.a.m = "" THEN r1
               ELSE [r1 EXCEPT !.inf = @ \cup {<<s.c, ts, e.a.m>> : s \in {y \in RR.subs : y.f = ts /\ MinQ(e.a.qos, y.q) >= 1 /\ ~(y.nl /\ y.c = conns[e.k].c)}}]
      [] OTHER -> RR

DelAfter(d, x) ==
    IF (x.k = "a" /\ x.h = "publish" /\ x.qos > 0) \/ (x.k = "w" /\ x.h = "qos_publish" /\ x.ty = 3)
    THEN [p \in DOMAIN d \cup {<<x.c, x.pid>>} |-> IF p = <<x.c, x.pid>> THEN <<x.topic, x.m>> ELSE d[p]]
    ELSE d

(* entries of line e that precede the crash *)
RECURSIVE FirstDropped(_, _)
FirstDropped(lg, i) == IF i > Len(lg) THEN Len(lg) + 1 ELSE IF lg[i].k = "w" /\ lg[i].dropped THEN i ELSE FirstDropped(lg, i + 1)
Before(e) == SubSeq(e.log, 1, FirstDropped(e.log, 1) - 1)

RECURSIVE FoldEntries(_, _, _, _)
FoldEntries(RR, e, es, i) == IF i > Len(es) THEN RR ELSE FoldEntries(Entry(RR, e, es[i]), e, es, i + 1)
RECURSIVE FoldDel(_, _, _)
FoldDel(d, es, i) == IF i > Len(es) THEN d ELSE FoldDel(DelAfter(d, es[i]), es, i + 1)

(* a write made for a superseded connection object that deletes the record of an obligated in-flight message *)
SupersededDeletes(RR, d, es) ==
    {CW("C21.superseded-write.inflight-deleted", es[i].c, ToString(es[i].pid), "")
        : i \in {j \in 1..Len(es) : es[j].k = "w" /\ es[j].h \in {"qos_dropped", "qos_complete"} /\ es[j].to
                    /\ <<es[j].c, es[j].pid>> \in DOMAIN d
                    /\ <<es[j].c, d[<<es[j].c, es[j].pid>>][1], d[<<es[j].c, es[j].pid>>][2]>> \in RR.inf}}

(* ---- judgement at the restart line ---- *)
JudgeRestart(e) ==
    LET sv == e.sv
        trie == ToSet(sv.trie)
        subs == UNION {
            (IF s \in trie THEN {}
             ELSE IF \E p \in trie : p.c = s.c /\ p.f = s.f THEN {CW("C21.sub.options", s.c, s.f, "")}
             ELSE {CW("C21.sub.lost", s.c, s.f, IF Collides(s.c, s.f) THEN "key-collision" ELSE "")})
            \cup (IF s.c \in Ids(sv) THEN {} ELSE {CW("C21.sub.session-lost", s.c, s.f, IF s.c \in tZ THEN "zombie" ELSE "")})
            : s \in R.subs}
        retv(t) == IF \E m \in ToSet(sv.retained) : m.topic = t THEN (CHOOSE m \in ToSet(sv.retained) : m.topic = t).m ELSE ""
        rets == {CW("C21.retained.lost", "", t, "want " \o R.ret[t].acked \o " got " \o retv(t))
                    : t \in {x \in DOMAIN R.ret : retv(x) \notin {R.ret[x].acked} \cup R.ret[x].later}}
        infs == UNION {
            IF x[1] \in Ids(sv) /\ \E i \in ToSet(Cli(sv, x[1]).inf) : i.ty = 3 /\ i.topic = x[2] /\ i.m = x[3] THEN {}
            ELSE {CW("C21.inflight.lost", x[1], x[3],
                     IF <<x[1], x[3]>> \notin persisted THEN "acked-before-persisted"
                     ELSE IF <<x[1], x[3]>> \in zdel THEN "deleted-by-superseded"
                     ELSE IF x[1] \in Ids(sv) /\ \E i \in ToSet(Cli(sv, x[1]).inf) : i.pid = 0 THEN "pid0"
                     ELSE IF x[1] \notin Ids(sv) THEN (IF x[1] \in tZ THEN "session-lost-zombie" ELSE "session-lost") ELSE "")}
            : x \in R.inf}
        sett == UNION {
            IF c \in Ids(sv) /\ c \in DOMAIN live
            THEN {CW("C21.session.settings", c, f, IF c \in tZ THEN "zombie" ELSE "")
                    : f \in {g \in {"v", "clean"} : Cli(sv, c)[g] # live[c][g]}
                          \cup (IF live[c].v = 5 /\ Cli(sv, c).sei # live[c].sei THEN {"sei"} ELSE {})}
            ELSE {} : c \in {s.c : s \in R.subs} \cup {x[1] : x \in R.inf}}
        err == IF e.err # "" THEN {CW("C21.restart.error", "", e.err, "")} ELSE {}
    IN subs \cup rets \cup infs \cup sett \cup err

(* ---- the probe ---- *)
JudgeProbe(e) ==
    CASE e.ev = "connect" /\ e.err = "" /\ ~e.a.clean ->
            LET c == e.a.id
                must == (\E s \in R.subs : s.c = c) \/ (\E x \in R.inf : x[1] = c)
                acks == {p \in OutOf(e, e.k) : p.t = 2}
                why == IF c \in Ids(post) /\ \E i \in ToSet(Cli(post, c).inf) : i.pid = 0 THEN "pid0" ELSE IF c \in tZ THEN "zombie" ELSE ""
            IN (IF must /\ ~\E p \in acks : p.sp THEN {CW("C21.probe.session-present", c, "want 1", why)} ELSE {})
               \cup (IF must /\ e.k \in ToSet(e.closed) THEN {CW("C21.probe.connection-closed", c, "", why)} ELSE {})
               \cup {CW("C21.probe.not-redelivered", c, x[3], why)      \* restored (a loss is reported at the restart line) but not sent again
                        : x \in {y \in R.inf : y[1] = c /\ c \in Ids(post) /\ (\E i \in ToSet(Cli(post, c).inf) : i.ty = 3 /\ i.topic = y[2] /\ i.m = y[3])
                                                /\ ~\E p \in OutOf(e, e.k) : p.t = 3 /\ p.topic = y[2] /\ p.m = y[3] /\ p.qos > 0}}
      [] e.ev = "publish" /\ e.err = "" ->
            LET ts == Join(e.a.t)
                got == {k \in DOMAIN e.out \ {e.k} : \E p \in ToSet(e.out[k]) : p.t = 3 /\ p.m = e.a.m}
                wantA == {k \in DOMAIN pconns : ~pconns[k].clean /\ pconns[k].alive /\ \E s \in R.subs : s.c = pconns[k].c /\ s.f = ts}
                cleanK == {k \in DOMAIN pconns : pconns[k].clean}
                whyB(k) == IF \E s \in ToSet(post.trie) : s.c = pconns[k].c /\ s.f = ts /\ s.c \notin Ids(post) THEN "orphan-subscription"
                           ELSE IF \E s \in ToSet(post.trie) : s.c = pconns[k].c /\ s.f = ts THEN "restored-subscription-survives-clean-start" ELSE ""
            IN {CW("C21.probe.delivery-missing", pconns[k].c, ts, IF Collides(pconns[k].c, ts) THEN "key-collision" ELSE "") : k \in wantA \ got}
               \cup {CW("C21.probe.cleanstart-received", pconns[k].c, ts, whyB(k)) : k \in got \cap cleanK}
      [] OTHER -> {}

Init == /\ l = 1 /\ R = R0 /\ conns = <<>> /\ del = <<>> /\ liveK = <<>> /\ live = <<>> /\ dead = FALSE /\ seenSF = {} /\ tZ = {}
        /\ persisted = {} /\ zdel = {} /\ post = <<>> /\ pconns = <<>> /\ probing = FALSE /\ bad = <<>> /\ nruns = 0 /\ nobl = 0 /\ backend = ""

Next ==
    /\ l <= Len(Trace)
    /\ LET e == Trace[l]
           isOp == e.ev \notin {"Config", "crash", "restart", "mark"} /\ ~probing
           es == IF isOp /\ ~dead THEN Before(e) ELSE <<>>
           R1 == IF isOp /\ ~dead THEN Issue(R, e) ELSE R
           R2 == FoldEntries(R1, e, es, 1)
           d2 == FoldDel(del, es, 1)
           W  == SelectSeq(es, LAMBDA x : x.k = "w")
           cmp == CASE e.ev = "restart" -> JudgeRestart(e)
                    [] probing /\ e.ev \notin {"Config", "mark"} -> JudgeProbe(e)
                    [] isOp /\ ~dead -> SupersededDeletes(R1, d2, es)
                    [] OTHER -> {}
           \* a connection becomes the acknowledged live connection of its id when its CONNACK is in the sequence before the crash
           acked == isOp /\ ~dead /\ e.ev = "connect" /\ \E i \in 1..Len(es) : es[i].k = "a" /\ es[i].h = "connack" /\ es[i].conn = e.k /\ es[i].rc < 128
       IN /\ backend' = IF e.ev = "Config" THEN e.backend ELSE backend
          /\ R' = IF e.ev = "Config" THEN R0 ELSE R2
          /\ del' = IF e.ev = "Config" THEN <<>> ELSE d2
          /\ dead' = CASE e.ev = "Config" -> FALSE
                       [] isOp /\ ~dead -> Len(es) < Len(e.log)
                       [] e.ev = "crash" -> TRUE
                       [] OTHER -> dead
          /\ conns' = CASE e.ev = "Config" -> <<>>
                        [] isOp /\ ~dead /\ e.ev = "connect" ->
                             [k \in DOMAIN conns \cup {e.k} |-> IF k = e.k THEN [c |-> e.a.id, persist |-> PersistentConn(e.a)] ELSE conns[k]]
                        [] OTHER -> conns
          /\ live' = CASE e.ev = "Config" -> <<>>
                       [] acked -> [c \in DOMAIN live \cup {e.a.id} |-> IF c = e.a.id THEN [v |-> e.a.v, clean |-> e.a.clean, sei |-> IF e.a.sei < 0 THEN 0 ELSE e.a.sei, k |-> e.k] ELSE live[c]]
                       [] OTHER -> live
          /\ liveK' = CASE e.ev = "Config" -> <<>>
                        [] OTHER -> [id \in DOMAIN liveK \cup {W[i].c : i \in {j \in 1..Len(W) : W[j].h = "established"}} |->
                                        LET js == {j \in 1..Len(W) : W[j].h = "established" /\ W[j].c = id} IN
                                        IF js = {} THEN liveK[id] ELSE W[CHOOSE j \in js : \A j2 \in js : j2 <= j].conn]
          /\ tZ' = IF e.ev = "Config" THEN {}
                   ELSE tZ \cup {W[i].c : i \in {j \in 1..Len(W) : W[j].h \in {"disconnect", "will_sent"} /\
                            LET ps == {j2 \in 1..Len(W) : j2 < j /\ W[j2].h = "established" /\ W[j2].c = W[j].c} IN
                            IF ps = {} THEN W[j].c \in DOMAIN liveK /\ liveK[W[j].c] # W[j].conn
                            ELSE W[CHOOSE j2 \in ps : \A j3 \in ps : j3 <= j2].conn # W[j].conn}}
          /\ persisted' = IF e.ev = "Config" THEN {}
                          ELSE persisted \cup {<<W[i].c, W[i].m>> : i \in {j \in 1..Len(W) : W[j].h = "qos_publish" /\ W[j].ty = 3}}
          /\ zdel' = IF e.ev = "Config" THEN {}
                     ELSE LET RECURSIVE Z(_, _)
                              Z(z, i) == IF i > Len(W) THEN z
                                         ELSE IF W[i].h \in {"qos_dropped", "qos_complete"} /\ W[i].to /\ <<W[i].c, W[i].pid>> \in DOMAIN d2
                                              THEN Z(z \cup {<<W[i].c, d2[<<W[i].c, W[i].pid>>][2]>>}, i + 1)
                                         ELSE IF W[i].h = "qos_publish" /\ W[i].ty = 3 THEN Z(z \ {<<W[i].c, W[i].m>>}, i + 1)
                                         ELSE Z(z, i + 1)
                          IN Z(zdel, 1)
          /\ seenSF' = CASE e.ev = "Config" -> {}
                         [] e.ev \in {"subscribe", "unsubscribe"} -> seenSF \cup {<<e.c, Join(e.a.filters[i].f)>> : i \in 1..Len(e.a.filters)}
                         [] OTHER -> seenSF
          /\ post' = IF e.ev = "restart" THEN e.sv ELSE IF e.ev = "Config" THEN <<>> ELSE post
          /\ probing' = CASE e.ev = "Config" -> FALSE [] e.ev = "mark" /\ e.a.kind = "probe" -> TRUE [] OTHER -> probing
          /\ pconns' = CASE e.ev = "Config" -> <<>>
                         [] probing /\ e.ev = "connect" /\ e.err = "" ->
                              [k \in DOMAIN pconns \cup {e.k} |-> IF k = e.k THEN [c |-> e.a.id, clean |-> e.a.clean, alive |-> e.k \notin ToSet(e.closed)] ELSE pconns[k]]
                         [] probing /\ e.ev \in {"disconnect", "netdrop"} -> [k \in DOMAIN pconns \ {e.k} |-> pconns[k]]
                         [] OTHER -> pconns
          /\ bad' = IF cmp = {} THEN bad
                    ELSE Append(bad, [line |-> l, name |-> e.name, backend |-> e.backend, ev |-> e.ev, cut |-> e.cut, complaints |-> SetToSeq(cmp)])
          /\ nruns' = nruns + (IF e.ev = "restart" THEN 1 ELSE 0)
          /\ nobl' = nobl + (IF e.ev = "restart" THEN Cardinality(R.subs) + Cardinality(R.inf) + Cardinality(DOMAIN R.ret) ELSE 0)
          /\ l' = l + 1
          /\ TLCSet(1, l') /\ TLCSet(2, bad') /\ TLCSet(3, <<nruns', nobl'>>)

Spec == Init /\ [][Next]_vars

Done == /\ TLCGet(1) = Len(Trace) + 1
        /\ JsonSerialize(OutFile, [lines |-> Len(Trace), runs |-> TLCGet(3)[1], obligations |-> TLCGet(3)[2], bad |-> TLCGet(2)])
================================================================================
