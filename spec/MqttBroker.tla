------------------------------- MODULE MqttBroker -------------------------------
(* Reference state machine of an MQTT 3.1.1 / 5 broker, at the granularity "one client packet   *)
(* (or one environment event) handled to quiescence" - the same granularity at which the real   *)
(* broker is driven and judged (TraceBroker.tla).  It is the weakest operational broker that    *)
(* satisfies the listed properties: sessions, subscriptions, retained store, QoS 1/2 flows in   *)
(* both directions with packet identifiers and Receive Maximum flow control (deferral queue),   *)
(* session expiry, will messages (immediate and delayed).  Routing, delivery attributes, the    *)
(* retained store and the expiry arithmetic come from BrokerOps.tla, the same operators the     *)
(* trace specification uses to judge the implementation.                                        *)
(*                                                                                               *)
(* The properties (bottom of the module) are stated independently of the machinery above them   *)
(* and are checked by TLC for every interleaving of the bounded configurations MC_*.cfg.         *)
(* `hist` records the operation list that led to a state; it is outside the VIEW and is what     *)
(* TLC emits (one representative history per explored transition) for replay against the real   *)
(* broker (use B).                                                                               *)
EXTENDS BrokerOps, Sequences, FiniteSets, SequencesExt, FiniteSetsExt, Json

CONSTANTS
    Clients,        \* client identifiers (strings)
    ConnOrder,      \* sequence of connection names (strings), each used at most once, in this order
    Topics,         \* set of topic names (level sequences)
    Filters,        \* set of topic filters (level sequences; $share/g/... for shared)
    QosSet,         \* QoS values clients use
    MaxQos,         \* server maximum QoS
    SrvRecvMax,     \* server Receive Maximum (inbound)
    RecvMaxSet,     \* Receive Maximum values clients declare (outbound flow control)
    MaxPid,         \* size of the packet identifier space (65535 in reality)
    ExpirySet,      \* session expiry intervals clients declare (0 = ends with the connection)
    WillDelaySet,   \* will delay intervals ({} = no wills)
    MaxMsgs,        \* bound on the number of publishes
    MaxNow,         \* bound on the clock
    MaxHist,        \* bound on the length of explored histories
    Enabled         \* set of action names switched on in this configuration

None == "none"
NoWill == -1          \* "no will message" among the (natural) will delay values
(* will of a connection / pending delayed will of a client: records with a `has` flag (TLC cannot compare a record with None) *)
NoW == [has |-> FALSE, m |-> "", t |-> <<>>, delay |-> 0]
NoD == [has |-> FALSE, m |-> "", t |-> <<>>, due |-> 0]
Conns == {ConnOrder[i] : i \in 1..Len(ConnOrder)}

VARIABLES
    conn,       \* connection -> [st, c, clean, rm, will]  st \in {"free","open","closed"}, will = [has, m, t, delay]
    sess,       \* client -> [on, expiry, discAt]   (on = a session exists)
    subs,       \* set of subscriptions [c, kind, g, f, qos, nl, rap, rh, id]
    retained,   \* topic -> message id or None
    outq,       \* client -> sequence of outbound records [pid, m, qos, t, origin, phase, tx] in publish order
    inq,        \* client -> set of packet ids of its QoS 2 publishes received and not yet released
    pidCur,     \* client -> last allocated packet id
    delayed,    \* client -> pending delayed will [has, m, t, due]
    now,        \* clock
    nmsg,       \* messages published so far
    wire,       \* connection -> sequence of packets written to it (observation)
    log,        \* sequence of [m, origin, t, qos, got (set of clients that took delivery)] (observation)
    fwd,        \* <<client, pid>> -> number of times an inbound QoS 2 exchange was forwarded (observation)
    hist        \* operation list (observation, for replay)

vars == <<conn, sess, subs, retained, outq, inq, pidCur, delayed, now, nmsg, wire, log, fwd, hist>>
View == <<conn, sess, subs, retained, outq, inq, pidCur, delayed, now, nmsg>>

On(a) == a \in Enabled

(* ------------------------------------------------------------------ helpers *)
Open(k)      == conn[k].st = "open"
Owner(c)     == IF \E k \in Conns : Open(k) /\ conn[k].c = c THEN CHOOSE k \in Conns : Open(k) /\ conn[k].c = c ELSE None
Online(c)    == Owner(c) # None
Msg(n)       == "m" \o ToString(n)
Pids(c)      == {outq[c][i].pid : i \in 1..Len(outq[c])}
InTransitN(c) == Cardinality({i \in 1..Len(outq[c]) : outq[c][i].phase \in {"sent", "rel"}})
RmOf(c)      == IF Online(c) THEN conn[Owner(c)].rm ELSE 0
Quota(c)     == Online(c) /\ InTransitN(c) < RmOf(c)
(* next unused packet identifier after the cursor (wraps around) *)
NextPid(c)   == LET cand == {p \in 1..MaxPid : p \notin Pids(c)}
                    after == {p \in cand : p > pidCur[c]} IN
                IF cand = {} THEN 0 ELSE IF after # {} THEN MinIn(after) ELSE MinIn(cand)
Pkt(t, pid, m, qos, dup, rc) == [t |-> t, pid |-> pid, m |-> m, qos |-> qos, dup |-> dup, rc |-> rc]
Send(w, k, p) == [w EXCEPT ![k] = Append(@, p)]
PlainSub(c, f, q, nl) == [c |-> c, kind |-> IF f[1] = "$share" THEN "shared" ELSE "client",
                          g |-> IF f[1] = "$share" THEN f[2] ELSE "",
                          f |-> IF f[1] = "$share" THEN SubSeq(f, 3, Len(f)) ELSE f,
                          qos |-> q, nl |-> nl, rap |-> FALSE, rh |-> 0, id |-> 0]
SameSubKey(a, b) == a.c = b.c /\ a.kind = b.kind /\ a.g = b.g /\ a.f = b.f

(* ------------------------------------------------------------------ routing one publication *)
(* deliver message m (topic t, qos q, from origin) to the set R of clients: per client either   *)
(* written now, queued (deferred), or - QoS 0 offline - dropped.  Returns the new <<outq, pidCur, wire>>. *)
RECURSIVE DeliverAll(_, _, _, _, _, _, _, _)
DeliverAll(R, m, t, q, origin, oq, pc, w) ==
    IF R = {} THEN <<oq, pc, w>> ELSE
    LET d  == CHOOSE x \in R : TRUE
        S  == {s \in MatchingSubs(subs, t) : s.c = d}
        dq == DeliveredQos(q, {s.qos : s \in S}, MaxQos)
        k  == Owner(d)
        pid == LET cand == {p \in 1..MaxPid : p \notin {oq[d][i].pid : i \in 1..Len(oq[d])}}
                   after == {p \in cand : p > pc[d]} IN
               IF cand = {} THEN 0 ELSE IF after # {} THEN MinIn(after) ELSE MinIn(cand)
        inTr == Cardinality({i \in 1..Len(oq[d]) : oq[d][i].phase \in {"sent", "rel"}})
        sendNow == k # None /\ inTr < conn[k].rm
                   /\ ~(\E i \in 1..Len(oq[d]) : oq[d][i].phase = "deferred")     \* never overtake a waiting message
    IN IF dq = 0
       THEN DeliverAll(R \ {d}, m, t, q, origin, oq, pc, IF k # None THEN Send(w, k, Pkt("PUBLISH", 0, m, 0, FALSE, 0)) ELSE w)
       ELSE IF pid = 0 THEN DeliverAll(R \ {d}, m, t, q, origin, oq, pc, w)      \* identifiers exhausted: reported drop
       ELSE DeliverAll(R \ {d}, m, t, q, origin,
                       [oq EXCEPT ![d] = Append(@, [pid |-> pid, m |-> m, qos |-> dq, t |-> t, origin |-> origin,
                                                    phase |-> IF sendNow THEN "sent" ELSE "deferred", tx |-> sendNow])],
                       [pc EXCEPT ![d] = pid],
                       IF sendNow THEN Send(w, k, Pkt("PUBLISH", pid, m, dq, FALSE, 0)) ELSE w)

(* recipients: entitled clients plus one chosen member per matching shared subscription *)
Recipients(origin, t, ch) ==
    (EntitledPlain(subs, origin, t, LAMBDA d : TRUE) \cup ChosenSet(ch)) \cap {c \in Clients : sess[c].on}

(* release deferred messages of client c while quota remains (oldest first) *)
RECURSIVE Release(_, _, _)
Release(c, q, w) ==
    LET k == Owner(c)
        inTr == Cardinality({i \in 1..Len(q) : q[i].phase \in {"sent", "rel"}})
        defs == {i \in 1..Len(q) : q[i].phase = "deferred"} IN
    IF k = None \/ defs = {} \/ inTr >= conn[k].rm THEN <<q, w>>
    ELSE LET i == MinIn(defs) IN
         Release(c, [q EXCEPT ![i].phase = "sent", ![i].tx = TRUE], Send(w, k, Pkt("PUBLISH", q[i].pid, q[i].m, q[i].qos, q[i].tx, 0)))

Route(origin, t, q, retainFlag, m, ch, w0) ==
    LET R == Recipients(origin, t, ch)
        res == DeliverAll(R, m, t, q, origin, outq, pidCur, w0) IN
    /\ outq' = res[1] /\ pidCur' = res[2] /\ wire' = res[3]
    /\ retained' = IF retainFlag /\ m # "" THEN [retained EXCEPT ![t] = m] ELSE retained
    /\ log' = Append(log, [m |-> m, origin |-> origin, t |-> t, qos |-> q, kind |-> "pub",
                           subsAt |-> subs, onlineAt |-> {d \in Clients : Online(d)},
                           full |-> {d \in Clients : Cardinality(Pids(d)) = MaxPid},
                           got |-> {d \in Clients : \E i \in 1..Len(res[1][d]) : res[1][d][i].m = m}
                                   \cup {d \in Clients : Online(d) /\ \E i \in 1..Len(res[3][Owner(d)]) : res[3][Owner(d)][i].m = m}])

EndSession(c) ==
    /\ subs' = {s \in subs : s.c # c}
    /\ outq' = [outq EXCEPT ![c] = <<>>]
    /\ inq' = [inq EXCEPT ![c] = {}]

(* ------------------------------------------------------------------ actions *)
Connect(k, c, clean, rm, expiry, wd) ==
    /\ On("Connect") /\ conn[k].st = "free"
    /\ LET old == Owner(c)
           sp  == sess[c].on /\ ~clean
           w1  == IF old # None THEN Send(wire, old, Pkt("DISCONNECT", 0, "", 0, FALSE, 142)) ELSE wire
           w2  == Send(w1, k, Pkt("CONNACK", 0, "", 0, sp, 0))
           \* resend: everything stored, same identifiers, DUP, PUBREL after PUBREC - within the new Receive Maximum
           q0  == IF sp THEN [i \in 1..Len(outq[c]) |-> [outq[c][i] EXCEPT !.phase = IF @ = "rel" THEN "rel" ELSE "deferred"]] ELSE <<>>
           RECURSIVE Resend(_, _, _)
           Resend(q, w, i) == IF i > Len(q) THEN <<q, w>>
                              ELSE IF q[i].phase = "rel" THEN Resend(q, Send(w, k, Pkt("PUBREL", q[i].pid, "", 0, FALSE, 0)), i + 1)
                              ELSE IF Cardinality({j \in 1..Len(q) : q[j].phase \in {"sent", "rel"}}) < rm
                                   THEN Resend([q EXCEPT ![i].phase = "sent", ![i].tx = TRUE], Send(w, k, Pkt("PUBLISH", q[i].pid, q[i].m, q[i].qos, TRUE, 0)), i + 1)
                              ELSE Resend(q, w, i + 1)
           rs  == Resend(q0, w2, 1)
           oldWill == IF old # None THEN conn[old].will ELSE NoW
       IN
       /\ conn' = LET me == [st |-> "open", c |-> c, clean |-> clean, rm |-> rm,
                                will |-> IF wd = NoWill THEN NoW ELSE [has |-> TRUE, m |-> "w" \o k, t |-> <<"w">>, delay |-> MinOf(wd, expiry)]] IN
                  IF old # None THEN [conn EXCEPT ![k] = me, ![old].st = "closed"] ELSE [conn EXCEPT ![k] = me]
       /\ sess' = [sess EXCEPT ![c] = [on |-> TRUE, expiry |-> expiry, discAt |-> -1]]
       /\ subs' = IF sp THEN subs ELSE {s \in subs : s.c # c}
       /\ outq' = [outq EXCEPT ![c] = rs[1]]
       /\ inq'  = IF sp THEN inq ELSE [inq EXCEPT ![c] = {}]
       /\ wire' = rs[2]
       \* a pending delayed will: cancelled by a resuming connection, due now otherwise (reported through log);
       \* the predecessor's own will (takeover = abnormal end) likewise
       /\ delayed' = [delayed EXCEPT ![c] = NoD]
       /\ log' = LET due == (IF delayed[c].has /\ ~sp THEN <<delayed[c].m>> ELSE <<>>)
                            \o (IF oldWill.has /\ (oldWill.delay = 0 \/ ~sp) THEN <<oldWill.m>> ELSE <<>>) IN
                 log \o [i \in 1..Len(due) |-> [m |-> due[i], origin |-> c, t |-> <<"w">>, qos |-> 0, kind |-> "will", subsAt |-> {}, onlineAt |-> {}, full |-> {}, got |-> {}]]
       /\ fwd' = IF sp THEN fwd ELSE [x \in {y \in DOMAIN fwd : y[1] # c} |-> fwd[x]]
       /\ UNCHANGED <<retained, pidCur, now, nmsg>>
       /\ hist' = Append(hist, [op |-> "connect", k |-> k, id |-> c, clean |-> clean, rm |-> rm, sei |-> expiry,
                                 will |-> wd # NoWill, delay |-> IF wd = NoWill THEN 0 ELSE wd])

Subscribe(k, f, q, nl) ==
    /\ On("Subscribe") /\ Open(k)
    /\ LET c == conn[k].c s == PlainSub(c, f, MinOf(q, MaxQos), nl) IN
       /\ subs' = {x \in subs : ~SameSubKey(x, s)} \cup {s}
       /\ wire' = Send(wire, k, Pkt("SUBACK", 0, "", 0, FALSE, MinOf(q, MaxQos)))
       /\ hist' = Append(hist, [op |-> "subscribe", k |-> k, f |-> f, qos |-> q, nl |-> nl])
    /\ UNCHANGED <<conn, sess, retained, outq, inq, pidCur, delayed, now, nmsg, log, fwd>>

Unsubscribe(k, f) ==
    /\ On("Unsubscribe") /\ Open(k)
    /\ LET c == conn[k].c s == PlainSub(c, f, 0, FALSE) IN
       /\ \E x \in subs : SameSubKey(x, s)
       /\ subs' = {x \in subs : ~SameSubKey(x, s)}
       /\ wire' = Send(wire, k, Pkt("UNSUBACK", 0, "", 0, FALSE, 0))
       /\ hist' = Append(hist, [op |-> "unsubscribe", k |-> k, f |-> f])
    /\ UNCHANGED <<conn, sess, retained, outq, inq, pidCur, delayed, now, nmsg, log, fwd>>

Publish(k, t, q0, r, pid) ==
    /\ On("Publish") /\ Open(k) /\ nmsg < MaxMsgs
    /\ LET c == conn[k].c q == MinOf(q0, MaxQos) dup2 == q0 = 2 /\ pid \in inq[c] m == Msg(nmsg + 1) IN
       /\ (q0 > 0 /\ ~dup2) => Cardinality(inq[c]) < SrvRecvMax          \* a well-behaved client stays within the quota (a QoS 1 publish counts until its PUBACK)
       /\ \E ch \in SharedChoices(subs, t, LAMBDA d : TRUE) :
            LET ack == IF q0 = 1 THEN Send(wire, k, Pkt("PUBACK", pid, "", 0, FALSE, 0))
                       ELSE IF q0 = 2 THEN Send(wire, k, Pkt("PUBREC", pid, "", 0, FALSE, 0)) ELSE wire IN
            IF dup2
            THEN /\ wire' = ack /\ UNCHANGED <<outq, pidCur, retained, log, nmsg>>     \* retransmission: answered, not forwarded again
            ELSE /\ Route(c, t, q, r, m, ch, ack) /\ nmsg' = nmsg + 1
       /\ inq' = IF q0 = 2 THEN [inq EXCEPT ![c] = @ \cup {pid}] ELSE inq
       /\ fwd' = IF q0 = 2 /\ ~dup2 THEN [x \in DOMAIN fwd \cup {<<c, pid>>} |-> (IF x \in DOMAIN fwd THEN fwd[x] ELSE 0) + (IF x = <<c, pid>> THEN 1 ELSE 0)] ELSE fwd
       /\ hist' = Append(hist, [op |-> "publish", k |-> k, t |-> t, qos |-> q0, retain |-> r, pid |-> pid, dup |-> dup2])
    /\ UNCHANGED <<conn, sess, subs, delayed, now>>

Pubrel(k, pid) ==
    /\ On("Publish") /\ Open(k) /\ pid \in inq[conn[k].c]
    /\ inq' = [inq EXCEPT ![conn[k].c] = @ \ {pid}]
    /\ wire' = Send(wire, k, Pkt("PUBCOMP", pid, "", 0, FALSE, 0))
    /\ fwd' = [x \in DOMAIN fwd \ {<<conn[k].c, pid>>} |-> fwd[x]]
    /\ hist' = Append(hist, [op |-> "pubrel", k |-> k, pid |-> pid])
    /\ UNCHANGED <<conn, sess, subs, retained, outq, pidCur, delayed, now, nmsg, log>>

(* the client acknowledges the i-th record of its outbound queue that is in transit *)
Ack(k, i) ==
    /\ On("Ack") /\ Open(k)
    /\ LET c == conn[k].c q == outq[c] IN
       /\ i \in 1..Len(q) /\ q[i].phase \in {"sent", "rel"}
       /\ IF q[i].qos = 2 /\ q[i].phase = "sent"
          THEN \* PUBREC -> PUBREL
               /\ outq' = [outq EXCEPT ![c][i].phase = "rel"]
               /\ wire' = Send(wire, k, Pkt("PUBREL", q[i].pid, "", 0, FALSE, 0))
               /\ hist' = Append(hist, [op |-> "pubrec", k |-> k, nth |-> Cardinality({j \in 1..i : q[j].qos = 2 /\ q[j].phase = "sent"})])
          ELSE \* PUBACK / PUBCOMP: record removed, quota returned, oldest deferred message released
               LET q1 == [j \in 1..(Len(q) - 1) |-> IF j < i THEN q[j] ELSE q[j + 1]]
                   rel == Release(c, q1, wire) IN
               /\ outq' = [outq EXCEPT ![c] = rel[1]]
               /\ wire' = rel[2]
               /\ hist' = Append(hist, [op |-> IF q[i].qos = 1 THEN "puback" ELSE "pubcomp", k |-> k,
                                         nth |-> IF q[i].qos = 1 THEN Cardinality({j \in 1..i : q[j].qos = 1 /\ q[j].phase = "sent"})
                                                 ELSE Cardinality({j \in 1..i : q[j].qos = 2 /\ q[j].phase = "rel"})])
    /\ UNCHANGED <<conn, sess, subs, retained, inq, pidCur, delayed, now, nmsg, log, fwd>>

(* end of a connection: normal DISCONNECT (will discarded) or abnormal (network drop: will due) *)
Close(k, normal) ==
    /\ On("Close") /\ Open(k)
    /\ LET c == conn[k].c w == conn[k].will ends == sess[c].expiry = 0 IN
       /\ conn' = [conn EXCEPT ![k].st = "closed"]
       /\ sess' = [sess EXCEPT ![c] = IF ends THEN [on |-> FALSE, expiry |-> 0, discAt |-> -1] ELSE [@ EXCEPT !.discAt = now]]
       /\ IF ends THEN EndSession(c) ELSE UNCHANGED <<subs, outq, inq>>
       /\ delayed' = IF ~normal /\ w.has /\ w.delay > 0 /\ ~ends
                     THEN [delayed EXCEPT ![c] = [has |-> TRUE, m |-> w.m, t |-> w.t, due |-> now + w.delay]] ELSE delayed
       /\ log' = IF ~normal /\ w.has /\ (w.delay = 0 \/ ends)
                 THEN Append(log, [m |-> w.m, origin |-> c, t |-> w.t, qos |-> 0, kind |-> "will", subsAt |-> {}, onlineAt |-> {}, full |-> {}, got |-> {}]) ELSE log
       /\ fwd' = IF ends THEN [x \in {y \in DOMAIN fwd : y[1] # c} |-> fwd[x]] ELSE fwd
       /\ hist' = Append(hist, [op |-> IF normal THEN "disconnect" ELSE "netdrop", k |-> k])
    /\ UNCHANGED <<retained, pidCur, now, nmsg, wire>>

(* time passes; housekeeping discards expired sessions and publishes due delayed wills *)
Tick ==
    /\ On("Tick") /\ now < MaxNow
    /\ now' = now + 1
    /\ LET dead == {c \in Clients : sess[c].on /\ ~Online(c) /\ sess[c].discAt >= 0 /\ sess[c].discAt + sess[c].expiry < now + 1}
           dueW == {c \in Clients : delayed[c].has /\ (delayed[c].due < now + 1 \/ c \in dead)} IN
       /\ sess' = [c \in Clients |-> IF c \in dead THEN [on |-> FALSE, expiry |-> 0, discAt |-> -1] ELSE sess[c]]
       /\ subs' = {s \in subs : s.c \notin dead}
       /\ outq' = [c \in Clients |-> IF c \in dead THEN <<>> ELSE outq[c]]
       /\ inq'  = [c \in Clients |-> IF c \in dead THEN {} ELSE inq[c]]
       /\ delayed' = [c \in Clients |-> IF c \in dueW THEN NoD ELSE delayed[c]]
       /\ log' = log \o [i \in 1..Cardinality(dueW) |-> LET c == SetToSeq(dueW)[i] IN
                           [m |-> delayed[c].m, origin |-> c, t |-> delayed[c].t, qos |-> 0, kind |-> "will", subsAt |-> {}, onlineAt |-> {}, full |-> {}, got |-> {}]]
       /\ fwd' = [x \in {y \in DOMAIN fwd : y[1] \notin dead} |-> fwd[x]]
       /\ hist' = Append(hist, [op |-> "tick", dt |-> now + 1])
    /\ UNCHANGED <<conn, retained, pidCur, nmsg, wire>>

Init ==
    /\ conn = [k \in Conns |-> [st |-> "free", c |-> "", clean |-> TRUE, rm |-> 0, will |-> NoW]]
    /\ sess = [c \in Clients |-> [on |-> FALSE, expiry |-> 0, discAt |-> -1]]
    /\ subs = {} /\ retained = [t \in Topics |-> None]
    /\ outq = [c \in Clients |-> <<>>] /\ inq = [c \in Clients |-> {}] /\ pidCur = [c \in Clients |-> 0]
    /\ delayed = [c \in Clients |-> NoD] /\ now = 0 /\ nmsg = 0
    /\ wire = [k \in Conns |-> <<>>] /\ log = <<>> /\ fwd = <<>> /\ hist = <<>>

Next ==
    \* (connections are interchangeable: the next one used is always the first free one of ConnOrder)
    \/ \E c \in Clients, clean \in BOOLEAN, rm \in RecvMaxSet, x \in ExpirySet, wd \in WillDelaySet \cup {NoWill} :
          \E i \in 1..Len(ConnOrder) : /\ conn[ConnOrder[i]].st = "free" /\ \A j \in 1..(i - 1) : conn[ConnOrder[j]].st # "free"
                                       /\ Connect(ConnOrder[i], c, clean, rm, x, wd)
    \/ \E k \in Conns, f \in Filters, q \in QosSet, nl \in BOOLEAN : Subscribe(k, f, q, nl /\ f[1] # "$share")
    \/ \E k \in Conns, f \in Filters : Unsubscribe(k, f)
    \/ \E k \in Conns, t \in Topics, q \in QosSet, r \in {FALSE}, pid \in 1..2 : (q = 2 \/ pid = 1) /\ Publish(k, t, q, r, IF q = 0 THEN 0 ELSE pid)
    \/ \E k \in Conns, pid \in 1..2 : Pubrel(k, pid)
    \/ \E k \in Conns, i \in 1..3 : Ack(k, i)
    \/ \E k \in Conns, n \in BOOLEAN : Close(k, n)
    \/ Tick

Spec == Init /\ [][Next]_vars
(* FairSpec / DeferredEventuallySent state the liveness half of C11 for the design; no registered configuration   *)
(* checks them with TLC (the observation variables wire/hist grow without bound, so the unconstrained graph is   *)
(* infinite); on the implementation that half is judged at the "mark drained" lines of the recorded traces.      *)
FairSpec == Spec /\ \A k \in Conns, i \in 1..3 : WF_vars(Ack(k, i))

(* ================================================================== properties *)
TypeOK ==
    /\ \A c \in Clients : \A i \in 1..Len(outq[c]) : outq[c][i].pid \in 1..MaxPid /\ outq[c][i].phase \in {"deferred", "sent", "rel"}

(* C10: outbound identifiers unique per session and in range *)
PidUnique == \A c \in Clients : \A i, j \in 1..Len(outq[c]) : i # j => outq[c][i].pid # outq[c][j].pid

(* C11: never more PUBLISH packets in transit than the client's Receive Maximum *)
QuotaBound == \A c \in Clients : Online(c) => InTransitN(c) <= RmOf(c)
InboundBound == \A c \in Clients : Cardinality(inq[c]) <= SrvRecvMax

(* C15 / C14: nothing belongs to a session that does not exist *)
NoGhosts ==
    /\ \A s \in subs : sess[s.c].on
    /\ \A c \in Clients : ~sess[c].on => outq[c] = <<>> /\ inq[c] = {} /\ ~Online(c)
(* C15: a connected session is never discarded; C14: at most one live connection per client id *)
OneOwner == \A a, b \in Conns : Open(a) /\ Open(b) /\ conn[a].c = conn[b].c => a = b
ConnectedHasSession == \A k \in Conns : Open(k) => sess[conn[k].c].on

(* C12: within one stream (origin, topic, qos) a message is never transmitted for the first time while an   *)
(* earlier one has not been transmitted yet (tx = "has been on the wire at least once")                     *)
NoOvertaking ==
    \A c \in Clients : \A i, j \in 1..Len(outq[c]) :
        i < j /\ outq[c][i].origin = outq[c][j].origin /\ outq[c][i].t = outq[c][j].t /\ outq[c][i].qos = outq[c][j].qos
          => ~(~outq[c][i].tx /\ outq[c][j].tx)

(* C08: an inbound QoS 2 exchange is forwarded exactly once *)
Qos2Once == \A x \in DOMAIN fwd : fwd[x] <= 1

(* C03/C06: every logged publication was taken (written or queued) exactly by the entitled sessions plus the *)
(* members chosen for matching shared subscriptions - stated on the log, with its own computation            *)
ExactDelivery ==
    \A n \in 1..Len(log) : log[n].kind = "pub" =>
        LET e == log[n]
            M == {s \in e.subsAt : Matches(s.f, e.t)}
            plain == {d \in Clients : \E s \in M : s.kind = "client" /\ s.c = d /\ ~(s.nl /\ d = e.origin)}
            groups == {<<s.g, s.f>> : s \in {x \in M : x.kind = "shared"}}
            members(G) == {s.c : s \in {x \in e.subsAt : x.kind = "shared" /\ x.g = G[1] /\ x.f = G[2]}}
            dq(d) == MinOf(MinOf(e.qos, MaxIn({s.qos : s \in {x \in M : x.c = d}})), MaxQos)
            must == {d \in plain : (d \in e.onlineAt \/ dq(d) > 0) /\ d \notin e.full}
        IN /\ must \subseteq e.got                                         \* nobody entitled is left out
           /\ e.got \subseteq plain \cup UNION {members(G) : G \in groups}    \* nobody else gets it
           /\ \A G \in groups : Cardinality((e.got \ plain) \cap members(G)) <= 1 \/ \E G2 \in groups \ {G} : members(G2) \cap members(G) # {}

(* C16: a will message is published at most once *)
WillOnce == \A i, j \in 1..Len(log) : i # j /\ log[i].kind = "will" => log[i].m # log[j].m

(* C09 as an action property: a stored outbound record disappears only by acknowledgement or session end *)
InflightMonotone ==
    [][\A c \in Clients :
         LET gone == {outq[c][i].pid : i \in 1..Len(outq[c])} \ {outq'[c][i].pid : i \in 1..Len(outq'[c])} IN
         gone # {} => \/ ~sess'[c].on
                      \/ (\E k \in Conns : Open(k) /\ conn[k].c = c /\ Cardinality(gone) = 1 /\ Len(wire'[k]) >= Len(wire[k]))
                      \/ (\E k \in Conns : conn[k].st = "free" /\ conn'[k].st = "open" /\ conn'[k].c = c /\ conn'[k].clean)]_vars
(* C10 as an action property: a client's own publish never touches the broker's outbound records of that client *)
DirectionsIndependent ==
    [][\A c \in Clients : (inq'[c] # inq[c] /\ (\A k \in Conns : conn'[k].st = conn[k].st) /\ now' = now) =>
          {<<outq[c][i].pid, outq[c][i].m>> : i \in 1..Len(outq[c])} \subseteq {<<outq'[c][i].pid, outq'[c][i].m>> : i \in 1..Len(outq'[c])}]_vars

(* C11 liveness: if the client keeps acknowledging, everything deferred is eventually sent *)
DeferredEventuallySent ==
    \A c \in Clients : [](( \E i \in 1..Len(outq[c]) : outq[c][i].phase = "deferred") /\ Online(c)
                           => <>(~Online(c) \/ ~(\E i \in 1..Len(outq[c]) : outq[c][i].phase = "deferred")))

(* use B: emit the operation list of every explored history of maximal length (as an "invariant" that  *)
(* always holds); the runner turns each line into a history for the real broker                          *)
EmitLeaf == (Len(hist) = MaxHist) => PrintT(<<"HIST", ToJson(hist)>>)

(* bounded exploration *)
Bound == Len(hist) <= MaxHist
=================================================================================
