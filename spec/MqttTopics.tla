------------------------------- MODULE MqttTopics -------------------------------
(* Topic names, topic filters and the MQTT matching relation (MQTT 5 section 4.7, 4.8).        *)
(*                                                                                             *)
(* A topic name or filter is a sequence of LEVELS; a level is a string token ("" is the empty  *)
(* level, "+" and "#" are the wildcards, a level listed in DollarLevels starts with '$').      *)
(* The implementation-side string is the levels joined with "/".                               *)
(* For validation (C30) a string is a sequence of CHARACTER TOKENS (see ValidFilterChars).     *)
EXTENDS Naturals, Sequences, FiniteSets

DollarLevels == {"$a", "$b", "$x", "$SYS", "$share"}
Dollar(l) == l \in DollarLevels
Wild(l)   == l \in {"+", "#"}

(* ---------------------------------------------------------------- matching (C01, C02, C40) *)
RECURSIVE MatchLevels(_, _)
MatchLevels(f, t) ==
    IF f = <<>> THEN t = <<>>
    ELSE IF Head(f) = "#" THEN Len(f) = 1            \* trailing '#': parent level and any children
    ELSE IF t = <<>> THEN FALSE
    ELSE IF Head(f) = "+" THEN MatchLevels(Tail(f), Tail(t))
    ELSE Head(f) = Head(t) /\ MatchLevels(Tail(f), Tail(t))

(* [MQTT-4.7.2-1] a filter starting with a wildcard never matches a topic starting with '$'.  *)
Matches(f, t) ==
    /\ f # <<>> /\ t # <<>>
    /\ ~(Wild(Head(f)) /\ Dollar(Head(t)))
    /\ MatchLevels(f, t)

(* A well-formed filter in level form: '#' only as the whole last level.                      *)
WellFormedFilter(f) ==
    /\ f # <<>> /\ f # <<"">>
    /\ \A i \in 1..Len(f) : f[i] = "#" => i = Len(f)
WellFormedTopic(t) ==
    /\ t # <<>> /\ t # <<"">>
    /\ \A i \in 1..Len(t) : ~Wild(t[i])

(* A subscription is a record [kind, group, filter]; kind "client" | "shared" | "inline".     *)
(* Shared subscriptions match on the filter that follows $share/<group>/.                     *)
SubMatches(s, t) == Matches(s.filter, t)

(* ---------------------------------------------------------------- ledger matching (C18)   *)
(* Level semantics for ACL rule filters: no wildcard => identical topic; '+' one level;      *)
(* trailing '#' one or more FURTHER levels. (No '$' rule: the ledger has none.)               *)
RECURSIVE LedgerMatchLevels(_, _)
LedgerMatchLevels(f, t) ==
    IF f = <<>> THEN t = <<>>
    ELSE IF Head(f) = "#" /\ Len(f) = 1 THEN t # <<>>
    ELSE IF t = <<>> THEN FALSE
    ELSE IF Head(f) = "+" THEN LedgerMatchLevels(Tail(f), Tail(t))
    ELSE Head(f) = Head(t) /\ LedgerMatchLevels(Tail(f), Tail(t))

(* ---------------------------------------------------------------- validation (C30)         *)
(* s is a sequence of character tokens from {"/", "+", "#", "$", "a", "share", "SYS"}.        *)
RECURSIVE SplitAt(_, _)
SplitAt(s, acc) ==          \* sequence of levels, each a sequence of tokens
    IF s = <<>> THEN <<acc>>
    ELSE IF Head(s) = "/" THEN <<acc>> \o SplitAt(Tail(s), <<>>)
    ELSE SplitAt(Tail(s), Append(acc, Head(s)))
LevelsOf(s) == SplitAt(s, <<>>)

HasTok(lv, c) == \E i \in 1..Len(lv) : lv[i] = c
LevelOK(lv, isLast) ==
    /\ HasTok(lv, "#") => (lv = <<"#">> /\ isLast)
    /\ HasTok(lv, "+") => lv = <<"+">>

WildRulesOK(ls) == \A i \in 1..Len(ls) : LevelOK(ls[i], i = Len(ls))

IsShareLevel(lv) == lv = <<"$", "share">>

ValidFilterChars(s) ==
    LET ls == LevelsOf(s) IN
    /\ s # <<>>
    /\ WildRulesOK(ls)
    /\ IsShareLevel(ls[1]) =>
          /\ Len(ls) >= 3                                   \* $share/<name>/<filter>
          /\ ls[2] # <<>>                                   \* non-empty share name
          /\ ~HasTok(ls[2], "+") /\ ~HasTok(ls[2], "#")     \* without wildcards
          /\ ~(Len(ls) = 3 /\ ls[3] = <<>>)                 \* followed by a non-empty filter

ValidPublishTopicChars(s) ==
    /\ \A i \in 1..Len(s) : s[i] \notin {"+", "#"}
    /\ ~(Len(s) >= 2 /\ s[1] = "$" /\ s[2] = "SYS")

=================================================================================
