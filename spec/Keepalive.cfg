\* design config: every schedule of <= 4 gaps in {5, 7} quarters, K > 0, exact server
SPECIFICATION Spec
CONSTANTS
  K = 1
  Gaps = {5, 7}
  MaxLen = 4
  LimitQ = 6
  Slack = 0
  Observe = 8
INVARIANTS TypeOK ClosedOnlyWhenIdle OpenOnlyWhileFresh ZeroNeverCloses
CHECK_DEADLOCK FALSE
