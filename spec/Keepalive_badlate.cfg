\* faulty server: closes only after 2 K: TLC must refute OpenOnlyWhileFresh
SPECIFICATION Spec
CONSTANTS
  K = 1
  Gaps = {5, 7}
  MaxLen = 4
  LimitQ = 8
  Slack = 0
  Observe = 8
INVARIANTS TypeOK ClosedOnlyWhenIdle OpenOnlyWhileFresh ZeroNeverCloses
CHECK_DEADLOCK FALSE
