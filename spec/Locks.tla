--------------------------------- MODULE Locks ---------------------------------
(* Go's sync.RWMutex / sync.Mutex as the broker uses them, and straight-line lock programs       *)
(* extracted from the sources (harness/cmd/vlocks extract): TLC decides whether a set of         *)
(* goroutines running the programs can reach a state in which some goroutine has not finished    *)
(* and none can move (property C32).                                                             *)
(*                                                                                               *)
(* RWMutex semantics that matter (sync package documentation): a blocked Lock call excludes new   *)
(* readers from acquiring the lock - so a goroutine that holds a read lock and asks for it again  *)
(* deadlocks with a writer that arrived in between; Lock waits for all readers and the writer.    *)
(* A Mutex is an RWMutex used in mode "w" only.                                                   *)
(*                                                                                               *)
(* Progs is a sequence of programs; a program is a sequence of [op, lock, mode] with op "acq" or   *)
(* "rel" and mode "r" or "w".                                                                     *)
EXTENDS Integers, Sequences, FiniteSets

CONSTANT Progs

P == 1..Len(Progs)
LockSet == UNION {{Progs[p][i].lock : i \in 1..Len(Progs[p])} : p \in P}

VARIABLES pc,        \* pc[p]: index of the next instruction of goroutine p
          readers,   \* readers[l][p]: how many read locks of l goroutine p holds
          writer,    \* writer[l]: the goroutine holding the write lock of l, or 0
          pending    \* pending[l]: goroutines blocked in Lock() on l (they exclude new readers)
vars == <<pc, readers, writer, pending>>

Init == /\ pc = [p \in P |-> 1]
        /\ readers = [l \in LockSet |-> [p \in P |-> 0]]
        /\ writer = [l \in LockSet |-> 0]
        /\ pending = [l \in LockSet |-> {}]

Live(p) == pc[p] <= Len(Progs[p])
Cur(p) == Progs[p][pc[p]]
Step(p) == pc' = [pc EXCEPT ![p] = @ + 1]

(* Lock() is called: from now on new readers are excluded *)
Announce(p) ==
    /\ Live(p) /\ Cur(p).op = "acq" /\ Cur(p).mode = "w" /\ p \notin pending[Cur(p).lock]
    /\ pending' = [pending EXCEPT ![Cur(p).lock] = @ \cup {p}]
    /\ UNCHANGED <<pc, readers, writer>>

AcquireW(p) ==
    /\ Live(p) /\ Cur(p).op = "acq" /\ Cur(p).mode = "w"
    /\ LET l == Cur(p).lock IN
         /\ p \in pending[l] /\ writer[l] = 0 /\ \A q \in P : readers[l][q] = 0
         /\ writer' = [writer EXCEPT ![l] = p]
         /\ pending' = [pending EXCEPT ![l] = @ \ {p}]
    /\ Step(p) /\ UNCHANGED readers

AcquireR(p) ==
    /\ Live(p) /\ Cur(p).op = "acq" /\ Cur(p).mode = "r"
    /\ LET l == Cur(p).lock IN
         /\ writer[l] = 0 /\ pending[l] = {}
         /\ readers' = [readers EXCEPT ![l][p] = @ + 1]
    /\ Step(p) /\ UNCHANGED <<writer, pending>>

Release(p) ==
    /\ Live(p) /\ Cur(p).op = "rel"
    /\ LET l == Cur(p).lock IN
         IF Cur(p).mode = "w"
           THEN writer' = [writer EXCEPT ![l] = 0] /\ UNCHANGED readers
           ELSE readers' = [readers EXCEPT ![l][p] = @ - 1] /\ UNCHANGED writer
    /\ Step(p) /\ UNCHANGED pending

AllDone == \A p \in P : ~Live(p)
Next == (\E p \in P : Announce(p) \/ AcquireW(p) \/ AcquireR(p) \/ Release(p)) \/ (AllDone /\ UNCHANGED vars)
Spec == Init /\ [][Next]_vars

(* mutual exclusion, as a sanity property of the lock model itself *)
Exclusion == \A l \in LockSet : writer[l] # 0 => \A q \in P : readers[l][q] = 0
=================================================================================
