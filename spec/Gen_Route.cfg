SPECIFICATION Spec
CONSTANTS
  Clients = {"c1", "c2", "c3"}
  ConnOrder <- K4
  Topics <- T2
  Filters <- F_Route
  QosSet = {0, 1}
  MaxQos = 1
  SrvRecvMax = 2
  RecvMaxSet = {8}
  MaxPid = 8
  ExpirySet = {0, 5}
  WillDelaySet = {}
  MaxMsgs = 5
  MaxNow = 0
  MaxHist = 12
  Enabled = {"Connect", "Subscribe", "Unsubscribe", "Publish", "Close"}
INVARIANTS EmitLeaf ExactDelivery NoGhosts
CHECK_DEADLOCK FALSE
