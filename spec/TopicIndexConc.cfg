\* design config: 2 processes x 2 calls on the atomic abstract index; the judge's constraints must accept every history
SPECIFICATION Spec
CONSTANTS
  Procs = {1, 2}
  MaxOps = 2
  Alphabet <- SmallAlphabet
  Bug = FALSE
  Allowed <- NoDeviation
INVARIANTS TypeOK WitnessAccepted
CHECK_DEADLOCK FALSE
