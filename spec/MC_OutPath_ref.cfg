SPECIFICATION Spec
CONSTANTS
  Cap = 2
  Buf = 24
  MaxPub = 4
  MaxDir = 2
  Sizes <- SizesAll
  Dev <- NoDev
  EnvOn <- EnvNone
  MaxHist = 0
VIEW view
INVARIANTS TypeOK OneWriter LockHeld Flushed SentOnWire NoDup Accounted NoGhost Ordered
CHECK_DEADLOCK FALSE
