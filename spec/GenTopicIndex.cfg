INIT Init
NEXT Next
