INIT Init
NEXT Next
