------------------------------- MODULE Listener --------------------------------
(* The TCP accept loop against Server.Close (listeners/tcp.go Serve / Close, listeners.go          *)
(* CloseAll, server.go Close / attachClient), as far as C36 goes: "every connected client is       *)
(* disconnected and its connection closed, every listener stops accepting".                        *)
(*                                                                                                *)
(* Processes: the accept loop of one listener, the closer (Server.Close), clients that dial, and   *)
(* the handler goroutine of every dispatched connection.  Schedule points: tcp.accepted (between   *)
(* Accept and the test of the end flag; guarded hook in listeners/tcp.go) and attach.added (the    *)
(* handler goroutine has started).  Listener.Close runs under the listener's lock without a       *)
(* schedule point: one action.                                                                    *)
(*                                                                                                *)
(* Dev:                                                                                           *)
(*   "DropsAcceptedAfterClose"  a connection returned by Accept when the end flag is already set   *)
(*                              is neither served nor closed (the code before the repair)          *)
EXTENDS Integers, Sequences, FiniteSets, TLC

CONSTANTS C,          \* clients
          Dev,
          MaxHist

VARIABLES end,        \* the listener's end flag
          lopen,      \* the listening socket is open
          lpc,        \* accept loop: "accept" (blocked in Accept), "accepted" (at tcp.accepted), "done"
          held,       \* the connection Accept returned
          st,         \* per client: "new", "backlog", "held", "spawned", "running", "closed", "refused", "leaked"
          bq,         \* the kernel's accept queue: connected, not yet returned by Accept (first in, first out)
          cpc,        \* closer: "idle", "waiting" (in ClientsWg.Wait for handlers that have not run yet), "returned"
          hist
vars == <<end, lopen, lpc, held, st, bq, cpc, hist>>
view == <<end, lopen, lpc, held, st, bq, cpc>>

None == "none"
Log(who, what, res) == hist' = IF Len(hist) < MaxHist THEN Append(hist, <<who, what, res>>) ELSE hist

Init == /\ end = 0 /\ lopen = TRUE /\ lpc = "accept" /\ held = None /\ st = [c \in C |-> "new"] /\ bq = <<>> /\ cpc = "idle" /\ hist = <<>>

(* a client dials: the kernel completes the handshake; a loop blocked in Accept returns with it at once *)
Dial(c) ==
    /\ st[c] = "new"
    /\ IF ~lopen THEN st' = [st EXCEPT ![c] = "refused"] /\ UNCHANGED <<lpc, held, bq>> /\ Log(c, "dial", "refused")
       ELSE IF lpc = "accept" THEN st' = [st EXCEPT ![c] = "held"] /\ held' = c /\ lpc' = "accepted" /\ UNCHANGED bq /\ Log(c, "dial", "tcp.accepted")
       ELSE st' = [st EXCEPT ![c] = "backlog"] /\ bq' = Append(bq, c) /\ UNCHANGED <<lpc, held>> /\ Log(c, "dial", "connected")
    /\ UNCHANGED <<end, lopen, cpc>>

(* tcp.accepted -> the end flag is tested; the connection is handed to a new goroutine, or (flag set) dropped; the  *)
(* loop goes round: returns when the flag is set, else Accept (which returns at once when a connection is waiting) *)
Dispatch ==
    /\ lpc = "accepted"
    /\ LET c == held
           fate == IF end = 0 THEN "spawned" ELSE IF "DropsAcceptedAfterClose" \in Dev THEN "leaked" ELSE "closed"
           st1 == [st EXCEPT ![c] = fate]
       IN IF end = 1 \/ ~lopen THEN /\ st' = st1 /\ lpc' = "done" /\ held' = None /\ UNCHANGED bq /\ Log("loop", fate, "done")
          ELSE IF bq # <<>> THEN
               LET x == Head(bq) IN /\ st' = [st1 EXCEPT ![x] = "held"] /\ held' = x /\ bq' = Tail(bq) /\ lpc' = "accepted" /\ Log("loop", fate, "tcp.accepted")
          ELSE /\ st' = st1 /\ lpc' = "accept" /\ held' = None /\ UNCHANGED bq /\ Log("loop", fate, "accept")
    /\ UNCHANGED <<end, lopen, cpc>>

(* the handler goroutine (it has reached attach.added: it is counted in ClientsWg) runs: CONNECT is read and answered; *)
(* after Close has begun the connection is refused and closed instead; a closer that was waiting for this last       *)
(* handler returns                                                                                                   *)
HStart(c) ==
    /\ st[c] = "spawned"
    /\ st' = [st EXCEPT ![c] = IF cpc = "idle" THEN "running" ELSE "closed"]
    /\ cpc' = IF cpc = "waiting" /\ ~\E x \in C \ {c} : st[x] = "spawned" THEN "returned" ELSE cpc
    /\ Log(c, "start", IF cpc = "idle" THEN "connack" ELSE "closed")
    /\ UNCHANGED <<end, lopen, lpc, held, bq>>

(* Server.Close: flag, the clients of the listener are disconnected, the socket is closed (connections still in the  *)
(* backlog are reset; a loop blocked in Accept returns), ClientsWg.Wait (the handlers that serve a client finish when *)
(* their connections are closed: the closer runs on by itself; handlers that have been counted but have not run yet  *)
(* keep it waiting), return                                                                                          *)
CloseStep ==
    /\ cpc = "idle"
    /\ end' = 1 /\ lopen' = FALSE
    /\ st' = [c \in C |-> IF st[c] \in {"running", "backlog"} THEN "closed" ELSE st[c]]
    /\ lpc' = IF lpc = "accept" THEN "done" ELSE lpc
    /\ cpc' = IF \E c \in C : st[c] = "spawned" THEN "waiting" ELSE "returned"
    /\ Log("closer", "close", cpc')
    /\ bq' = <<>>
    /\ UNCHANGED held

Next == (\E c \in C : Dial(c) \/ HStart(c)) \/ Dispatch \/ CloseStep

Spec == Init /\ [][Next]_vars

(* ---------------------------------------------------------------- properties *)
AtRest == cpc = "returned" /\ lpc = "done" /\ \A c \in C : st[c] \notin {"held", "spawned", "backlog"}
(* C36: when the server has been closed and everything has come to rest, no connection is left open *)
NoneLeftOpen == AtRest => \A c \in C : st[c] \in {"new", "closed", "refused"}
(* ... the listener stops accepting: nothing is dispatched to a handler once the flag is set *)
StopsAccepting == [][end = 1 => \A c \in C : st'[c] = "spawned" => st[c] = "spawned"]_vars
TypeOK == /\ end \in {0, 1} /\ lpc \in {"accept", "accepted", "done"} /\ cpc \in {"idle", "waiting", "returned"}
          /\ (lpc = "accepted") = (held # None)
=============================================================================
