---------------------------- MODULE TraceStorage20 -----------------------------
(* C20 - persistent state is restored faithfully after a restart (RestoreFaithful of            *)
(* spec/Storage.tla, judged on runs of the real broker with a real storage backend).            *)
(*                                                                                              *)
(* Trace (harness/driver/storage.go): one line per executed op, each with the projection `sv`   *)
(* of the broker state (sessions with expiry settings, client subscriptions, the subscription   *)
(* trie, retained messages, in-flight messages).  A restart is two lines: "shutdown" (all       *)
(* connections closed: the projection BEFORE shutdown) and "restart" (new broker, fresh hook    *)
(* instance on the same store, after the store-loading step).                                   *)
(*                                                                                              *)
(* Rule at every "restart" line: post = Restrict(pre) where Restrict keeps the non-expired      *)
(* sessions with their settings, the subscriptions (all options) of those sessions, every       *)
(* retained message with payload, qos, properties and expiry, and the in-flight messages of     *)
(* those sessions with their packet ids.  Every difference is a complaint naming the element.   *)
(* After the marker line {"ev":"mark","a":{"kind":"probe"}} the continued history is judged     *)
(* against mem = Restrict(pre) (NOT against what the broker restored): session present and      *)
(* redelivery on reconnect, expiry ticks, retained replay to a new subscriber, delivery of new  *)
(* publishes through the restored subscriptions and to nobody else.                             *)
EXTENDS StorageKV, Json, IOUtils, SequencesExt, FiniteSetsExt

Trace   == ndJsonDeserialize(IOEnv.VERIF_TRACE)
OutFile == IOEnv.VERIF_OUT

VARIABLES l, cfg, pre, hp, mem, probing, conns, bad, nrestart, nprobe, seenSF, tPid, tZd, tZw, liveK
vars == <<l, cfg, pre, hp, mem, probing, conns, bad, nrestart, nprobe, seenSF, tPid, tZd, tZw, liveK>>

Huge == 2000000000
NoMem == [sess |-> {}, set |-> <<>>, subs |-> {}, ret |-> <<>>, inf |-> <<>>, expd |-> {}, retexpd |-> {}]

RECURSIVE JoinFrom(_, _)
JoinFrom(f, i) == IF i > Len(f) THEN "" ELSE IF i = Len(f) THEN f[i] ELSE f[i] \o "/" \o JoinFrom(f, i + 1)
Join(f) == JoinFrom(f, 1)

Cli(sv, id) == CHOOSE c \in ToSet(sv.clients) : c.id = id
Ids(sv) == {c.id : c \in ToSet(sv.clients)}

(* session expiry: effective interval of a stored session *)
EffSei(c) == IF c.v = 5 /\ c.seif THEN c.sei
             ELSE IF cfg.max_sess_expiry >= 0 THEN cfg.max_sess_expiry ELSE Huge
ExpiredAt(c, stop, t) == stop # 0 /\ EffSei(c) < Huge /\ stop + EffSei(c) < t

MsgFields == {"ty", "q", "ret", "topic", "m", "o", "created", "expiry", "pv", "mei", "ct", "rt", "cd", "up"}
DiffFields(a, b, F) == {x \in F : a[x] # b[x]}

(* why: attribution of a complaint to an earlier, already reported loss of the same run:                       *)
(*   "pid0"   - the client's in-flight records were restored without packet ids at an earlier restart         *)
(*   "zombie-will" / "zombie-disconnect" - the write log shows an OnWillSent / OnDisconnect call made on      *)
(*              behalf of a superseded connection object of this client id AFTER the live connection's        *)
(*              OnSessionEstablished (both hooks rewrite the client record from the object they are given)    *)
(*   "key-collision" - the subscription's concatenated key equals the key of another (client, filter) pair    *)
WhyOf(c) == IF c \in tPid THEN "pid0" ELSE IF c \in tZw THEN "zombie-will" ELSE IF c \in tZd THEN "zombie-disconnect" ELSE ""
Collides(c, f) == \E o \in seenSF : o # <<c, f>> /\ SubKey("concat", o[1], o[2]) = SubKey("concat", c, f)
CW(rule, e, c, x, why) == [rule |-> rule, backend |-> e.backend, c |-> c, x |-> x, why |-> why]
C(rule, e, c, x) == CW(rule, e, c, x, WhyOf(c))

(* -------- RestoreFaithful at a restart line: e.sv (post) against pre -------- *)
JudgeRestart(e) ==
    LET post == e.sv
        ES == {c \in Ids(pre) : ~ExpiredAt(Cli(pre, c), Cli(pre, c).stop, post.now)}
        sess ==
            {C("C20.session.lost", e, c, "") : c \in ES \ Ids(post)}
            \cup {C("C20.session.resurrected", e, c, "") : c \in Ids(post) \ ES}
            \cup UNION {{C("C20.session.field", e, c, x) : x \in DiffFields(Cli(pre, c), Cli(post, c), {"v", "clean", "sei", "seif", "rpi", "rpif"})}
                        : c \in ES \cap Ids(post)}
        preTrie == ToSet(pre.trie)
        ESub == {s \in preTrie : s.c \in ES}
        PSub == ToSet(post.trie)
        subs ==
            UNION {IF s \in PSub THEN {}
                   ELSE IF \E p \in PSub : p.c = s.c /\ p.f = s.f
                        THEN {C("C20.sub.options", e, s.c, s.f)}
                        ELSE {C(IF Collides(s.c, s.f) THEN "C20.sub.lost-key-collision" ELSE "C20.sub.lost", e, s.c, s.f)} : s \in ESub}
            \cup UNION {IF \E s \in ESub : s.c = p.c /\ s.f = p.f THEN {}
                        ELSE {C(IF p.q >= 128 THEN "C20.sub.refused-restored"
                                ELSE IF p.c \notin Ids(post) THEN "C20.sub.orphan" ELSE "C20.sub.extra", e, p.c, p.f)} : p \in PSub}
            \cup UNION {{C("C20.sub.unattached", e, p.c, p.f) : p \in {x \in PSub : x.c = c /\ x \notin ToSet(Cli(post, c).subs)}}
                        : c \in Ids(post)}
        preRet == [t \in {m.topic : m \in ToSet(pre.retained)} |-> CHOOSE m \in ToSet(pre.retained) : m.topic = t]
        postRet == [t \in {m.topic : m \in ToSet(post.retained)} |-> CHOOSE m \in ToSet(post.retained) : m.topic = t]
        ret ==
            {CW("C20.retained.lost", e, "", t, "") : t \in DOMAIN preRet \ DOMAIN postRet}
            \cup {CW("C20.retained.extra", e, "", t, "") : t \in DOMAIN postRet \ DOMAIN preRet}
            \cup UNION {{CW("C20.retained.field", e, t, x, "") : x \in DiffFields(preRet[t], postRet[t], MsgFields)}
                        : t \in DOMAIN preRet \cap DOMAIN postRet}
        inf ==
            UNION { LET a == {y \in ToSet(Cli(pre, c).inf) : y.pid # 0}  b == ToSet(Cli(post, c).inf) IN
                    {C(IF \E y \in b : y.pid = 0 THEN "C20.inflight.lost-no-packet-id" ELSE "C20.inflight.lost", e, c, ToString(x.pid))
                        : x \in {y \in a : ~\E z \in b : z.pid = y.pid}}
                    \cup {C(IF x.pid = 0 THEN "C20.inflight.extra-no-packet-id" ELSE "C20.inflight.extra", e, c, ToString(x.pid))
                        : x \in {y \in b : ~\E z \in a : z.pid = y.pid}}
                    \cup UNION {{C("C20.inflight.field", e, c, f) : f \in DiffFields(x, CHOOSE z \in b : z.pid = x.pid, MsgFields)}
                                : x \in {y \in a : \E z \in b : z.pid = y.pid}}
                  : c \in ES \cap Ids(post)}
        err == IF e.err # "" THEN {CW("C20.restart.error", e, "", e.err, "")} ELSE {}
    IN sess \cup subs \cup ret \cup inf \cup err

(* the expectation for the continued history *)
MemOf(e) ==
    LET post == e.sv
        ES == {c \in Ids(pre) : ~ExpiredAt(Cli(pre, c), Cli(pre, c).stop, post.now)}
    IN [sess |-> ES,
        set  |-> [c \in ES |-> [v |-> Cli(pre, c).v, seif |-> Cli(pre, c).seif, sei |-> Cli(pre, c).sei,
                                stop |-> IF c \in Ids(post) THEN Cli(post, c).stop ELSE post.now]],
        subs |-> {s \in ToSet(pre.trie) : s.c \in ES},
        ret  |-> [t \in {m.topic : m \in ToSet(pre.retained)} |-> CHOOSE m \in ToSet(pre.retained) : m.topic = t],
        inf  |-> [c \in ES |-> ToSet(Cli(pre, c).inf)],
        expd |-> {}, retexpd |-> {}]

SessExpires(c, t) == mem.set[c].v = 5 /\ mem.set[c].seif /\ mem.set[c].sei < Huge /\ mem.set[c].stop + mem.set[c].sei < t

OutOf(e, k) == IF k \in DOMAIN e.out THEN ToSet(e.out[k]) ELSE {}

(* -------- the continued history -------- *)
JudgeProbe(e) ==
    CASE e.ev = "connect" /\ e.err = "" ->
            LET resume == ~e.a.clean /\ e.a.id \in mem.sess
                acks == {p \in OutOf(e, e.k) : p.t = 2}
                why == IF e.a.id \in mem.expd THEN "expired-session-kept" ELSE WhyOf(e.a.id)
            IN (IF acks = {} THEN {C("C20.probe.no-connack", e, e.a.id, "")}
                ELSE {CW("C20.probe.session-present", e, e.a.id, IF resume THEN "want 1" ELSE "want 0", why) : p \in {q \in acks : q.sp # resume}})
               \cup (IF e.k \in ToSet(e.closed) THEN {C("C20.probe.connection-closed", e, e.a.id, IF resume THEN "on resume" ELSE "")} ELSE {})
               \cup (IF ~resume \/ e.k \in ToSet(e.closed) THEN {}
                     ELSE {C("C20.probe.not-redelivered", e, e.a.id, ToString(r.pid))
                             : r \in {x \in mem.inf[e.a.id] : x.ty = 3 /\
                                        ~\E p \in OutOf(e, e.k) : p.t = 3 /\ p.pid = x.pid /\ p.topic = x.topic /\ p.m = x.m /\ p.qos = x.q}}
                          \cup {C("C20.probe.not-redelivered", e, e.a.id, ToString(r.pid))
                             : r \in {x \in mem.inf[e.a.id] : x.ty = 6 /\ ~\E p \in OutOf(e, e.k) : p.t = 6 /\ p.pid = x.pid}})
      [] e.ev = "tick" /\ e.a.kind = "clients" ->
            LET exp == {c \in mem.sess : SessExpires(c, e.tick)}
            IN {C("C20.expiry.session-kept", e, c, "") : c \in exp \cap Ids(e.sv)}
               \cup {C("C20.expiry.session-dropped", e, c, "") : c \in (mem.sess \ exp) \ Ids(e.sv)}
      [] e.ev = "tick" /\ e.a.kind = "retained" ->
            LET exp == {t \in DOMAIN mem.ret : mem.ret[t].pv = 5 /\ mem.ret[t].expiry > 0 /\ mem.ret[t].expiry < e.tick}
                now == {m.topic : m \in ToSet(e.sv.retained)}
            IN {CW("C20.expiry.retained-kept", e, t, "", "") : t \in exp \cap now}
               \cup {CW("C20.expiry.retained-dropped", e, t, "", "") : t \in (DOMAIN mem.ret \ exp) \ now}
      [] e.ev = "subscribe" /\ e.err = "" ->
            UNION { LET f == e.a.filters[i]  fs == Join(f.f)
                        got == {p \in OutOf(e, e.k) : p.t = 3 /\ p.topic = fs /\ p.ret}
                    IN IF fs \notin DOMAIN mem.ret
                       THEN {CW("C20.probe.retained-extra", e, fs, p.m, IF fs \in mem.retexpd THEN "expired-message-kept" ELSE "") : p \in got}
                       ELSE LET r == mem.ret[fs] IN
                            IF ~\E p \in got : p.m = r.m THEN {CW("C20.probe.retained-missing", e, fs, r.m, "")}
                            ELSE LET p == CHOOSE q \in got : q.m = r.m IN
                                 {CW("C20.probe.retained-field", e, fs, x, "") : x \in
                                    (IF p.qos # (IF f.qos < r.q THEN f.qos ELSE r.q) THEN {"qos"} ELSE {})
                                    \cup (IF e.v = 5 /\ p.ct # r.ct THEN {"ct"} ELSE {})
                                    \cup (IF e.v = 5 /\ p.rt # r.rt THEN {"rt"} ELSE {})
                                    \cup (IF e.v = 5 /\ p.cd # r.cd THEN {"cd"} ELSE {})
                                    \cup (IF e.v = 5 /\ p.up # r.up THEN {"up"} ELSE {})
                                    \cup (IF e.v = 5 /\ ((r.mei > 0 \/ r.expiry > 0) # (p.mei > 0)) THEN {"mei"} ELSE {})}
                                    \* (a message with an expiry time - the publisher's interval or the server's maximum - is sent
                                    \*  with the remaining interval, as the broker does before the restart)
                  : i \in 1..Len(e.a.filters)}
      [] e.ev = "publish" /\ e.err = "" /\ ~e.a.retain ->
            LET ts == Join(e.a.t)
                want == {k \in DOMAIN conns : conns[k].alive /\ conns[k].resumed /\ \E s \in mem.subs : s.c = conns[k].c /\ s.f = ts /\ s.q < 128}
                Who(k) == IF k \in DOMAIN conns THEN conns[k].c ELSE k
                Why(k) == IF Who(k) \in mem.expd THEN "expired-session-kept" ELSE WhyOf(Who(k))
                got == {k \in DOMAIN e.out \ {e.k} : \E p \in ToSet(e.out[k]) : p.t = 3 /\ p.m = e.a.m}
            IN {CW("C20.probe.delivery-missing", e, Who(k), ts, IF Collides(Who(k), ts) THEN "key-collision" ELSE WhyOf(Who(k))) : k \in want \ got}
               \cup {CW("C20.probe.delivery-unexpected", e, Who(k), ts, Why(k)) : k \in got \ want}
      [] OTHER -> {}

MemAfter(e) ==
    CASE e.ev = "connect" /\ e.err = "" /\ e.a.clean ->
            [mem EXCEPT !.sess = @ \ {e.a.id}, !.subs = {s \in @ : s.c # e.a.id}]
      [] e.ev = "tick" /\ e.a.kind = "clients" ->
            LET exp == {c \in mem.sess : SessExpires(c, e.tick)}
            IN [mem EXCEPT !.sess = @ \ exp, !.subs = {s \in @ : s.c \notin exp}, !.expd = @ \cup exp]
      [] e.ev = "tick" /\ e.a.kind = "retained" ->
            LET exp == {t \in DOMAIN mem.ret : mem.ret[t].pv = 5 /\ mem.ret[t].expiry > 0 /\ mem.ret[t].expiry < e.tick}
            IN [mem EXCEPT !.ret = [t \in DOMAIN mem.ret \ exp |-> mem.ret[t]], !.retexpd = @ \cup exp]
      [] OTHER -> mem

ConnsAfter(e) ==
    IF e.ev = "connect" /\ e.err = ""
    THEN [k \in DOMAIN conns \cup {e.k} |-> IF k = e.k THEN [c |-> e.a.id, resumed |-> ~e.a.clean /\ e.a.id \in mem.sess,
                                                                  alive |-> e.k \notin ToSet(e.closed)] ELSE conns[k]]
    ELSE conns

Init == /\ l = 1 /\ cfg = <<>> /\ pre = <<>> /\ hp = FALSE /\ mem = NoMem /\ probing = FALSE /\ conns = <<>> /\ bad = <<>>
        /\ nrestart = 0 /\ nprobe = 0 /\ seenSF = {} /\ tPid = {} /\ tZd = {} /\ tZw = {} /\ liveK = <<>>

Next ==
    /\ l <= Len(Trace)
    /\ LET e == Trace[l]
           c == CASE e.ev = "restart" /\ hp -> JudgeRestart(e)
                  [] probing /\ e.ev \notin {"Config", "shutdown", "restart", "mark"} -> JudgeProbe(e)
                  [] OTHER -> {}
       IN /\ cfg' = IF e.ev = "Config" THEN e.cfg ELSE cfg
          /\ pre' = CASE e.ev = "Config" -> <<>> [] e.ev = "shutdown" -> e.sv [] OTHER -> pre
          /\ hp' = CASE e.ev = "Config" -> FALSE [] e.ev = "shutdown" -> TRUE [] OTHER -> hp
          /\ mem' = CASE e.ev = "Config" -> NoMem
                      [] e.ev = "restart" /\ hp -> MemOf(e)
                      [] probing -> MemAfter(e)
                      [] OTHER -> mem
          /\ probing' = CASE e.ev = "Config" -> FALSE
                          [] e.ev \in {"shutdown", "restart"} -> FALSE
                          [] e.ev = "mark" /\ e.a.kind = "probe" -> TRUE
                          [] OTHER -> probing
          /\ conns' = CASE e.ev \in {"Config", "shutdown", "restart"} -> <<>> [] probing -> ConnsAfter(e) [] OTHER -> conns
          /\ bad' = IF c = {} THEN bad
                    ELSE Append(bad, [line |-> l, name |-> e.name, backend |-> e.backend, ev |-> e.ev, complaints |-> SetToSeq(c)])
          /\ nrestart' = nrestart + (IF e.ev = "restart" THEN 1 ELSE 0)
          /\ nprobe' = nprobe + (IF probing /\ e.ev \in {"connect", "tick", "subscribe", "publish"} THEN 1 ELSE 0)
          /\ seenSF' = CASE e.ev = "Config" -> {}
                          [] e.ev \in {"subscribe", "unsubscribe"} -> seenSF \cup {<<e.c, Join(e.a.filters[i].f)>> : i \in 1..Len(e.a.filters)}
                          [] OTHER -> seenSF
          /\ tPid' = CASE e.ev = "Config" -> {}
                        [] e.ev = "restart" -> tPid \cup {id \in Ids(e.sv) : \E y \in ToSet(Cli(e.sv, id).inf) : y.pid = 0}
                        [] OTHER -> tPid
          /\ LET W == SelectSeq(e.log, LAMBDA x : x.k = "w" /\ ~x.dropped)
                 \* connection that issued the latest OnSessionEstablished per client id, after this line
                 lk == [id \in DOMAIN liveK \cup {W[i].c : i \in {j \in 1..Len(W) : W[j].h = "established"}} |->
                            LET js == {j \in 1..Len(W) : W[j].h = "established" /\ W[j].c = id} IN
                            IF js = {} THEN liveK[id] ELSE W[CHOOSE j \in js : \A j2 \in js : j2 <= j].conn]
                 \* a call on behalf of a connection object that is not the one whose OnSessionEstablished is the latest for the id
                 Zs(hook) == {W[i].c : i \in {j \in 1..Len(W) : W[j].h = hook /\
                            LET es == {j2 \in 1..Len(W) : j2 < j /\ W[j2].h = "established" /\ W[j2].c = W[j].c} IN
                            IF es = {} THEN W[j].c \in DOMAIN liveK /\ liveK[W[j].c] # W[j].conn
                            ELSE W[CHOOSE j2 \in es : \A j3 \in es : j3 <= j2].conn # W[j].conn}}
             IN /\ liveK' = IF e.ev \in {"Config", "shutdown", "restart"} THEN <<>> ELSE lk
                /\ tZd' = IF e.ev = "Config" THEN {} ELSE tZd \cup Zs("disconnect")
                /\ tZw' = IF e.ev = "Config" THEN {} ELSE tZw \cup Zs("will_sent")
          /\ l' = l + 1
          /\ TLCSet(1, l') /\ TLCSet(2, bad') /\ TLCSet(3, <<nrestart', nprobe'>>)

Spec == Init /\ [][Next]_vars

Done == /\ TLCGet(1) = Len(Trace) + 1
        /\ JsonSerialize(OutFile, [lines |-> Len(Trace), restarts |-> TLCGet(3)[1], probes |-> TLCGet(3)[2], bad |-> TLCGet(2)])
================================================================================
