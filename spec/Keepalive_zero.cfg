\* design config: keepalive 0 never closes
SPECIFICATION Spec
CONSTANTS
  K = 0
  Gaps = {5, 7}
  MaxLen = 4
  LimitQ = 6
  Slack = 0
  Observe = 8
INVARIANTS TypeOK ClosedOnlyWhenIdle OpenOnlyWhileFresh ZeroNeverCloses
CHECK_DEADLOCK FALSE
