SPECIFICATION Spec
CONSTANTS
  Cap = 2
  Buf = 24
  MaxPub = 4
  MaxDir = 2
  Sizes <- SizesAged
  Dev <- NoDev
  EnvOn <- EnvAge
  MaxHist = 1000
INVARIANT DumpInv
CHECK_DEADLOCK FALSE
