------------------------------ MODULE GenStorage -------------------------------
(* C22, use (B): TLC enumerates EVERY sequence of at most VERIF_DEPTH storage-hook events over  *)
(* a six-event alphabet (VERIF_ALPHA in {session, message, misc}) and writes them as the table   *)
(* the harness replays into the four real backends (vstore c22 ... <table>).  The events are the *)
(* same records spec/Storage.tla!ApplyEvent consumes; the read-backs are judged by              *)
(* TraceStorage22.  The module also checks, on every enumerated sequence, a model-level sanity   *)
(* theorem: the code's concatenated key only ever LOSES subscriptions relative to the injective *)
(* reference key (never invents one), and the reference key is injective.                       *)
EXTENDS StorageKV, Json, IOUtils, SequencesExt, FiniteSetsExt

Alpha   == IOEnv.VERIF_ALPHA
Depth   == atoi(IOEnv.VERIF_DEPTH)
OutFile == IOEnv.VERIF_OUT

NoWill == [t |-> "", m |-> "", q |-> 0, r |-> FALSE, f |-> 0, d |-> 0]
Cli(id, v, clean, sei, will, stop) ==
    [id |-> id, user |-> "", v |-> v, clean |-> clean, sei |-> sei, seif |-> sei > 0, rpi |-> 0, rpif |-> FALSE, rri |-> 0,
     rm |-> 0, tam |-> 0, mps |-> 0, will |-> will, listener |-> "t1", remote |-> "pipe", stop |-> stop]
Filt(f, q) == [f |-> f, q |-> q, nl |-> FALSE, rap |-> TRUE, rh |-> 1, ident |-> 3]
Pk(topic, m, q, ty, pid, ret) ==
    [topic |-> topic, m |-> m, q |-> q, r |-> ret, dup |-> FALSE, ty |-> ty, pid |-> pid, created |-> 1700000000, o |-> "a:b",
     mei |-> 60, ct |-> "text/x", rt |-> "", cd |-> "", up |-> <<<<"k", "v">>>>, sid |-> <<>>, alias |-> 0, pf |-> 0, pff |-> FALSE]

CA  == Cli("a", 4, FALSE, 0, [t |-> "a/b", m |-> "w1", q |-> 1, r |-> TRUE, f |-> 1, d |-> 0], "")
CA5 == Cli("a", 5, FALSE, 30, NoWill, "takenover")
CAB == Cli("a:b", 5, TRUE, 0, NoWill, "")

Ev(op, c) == [ev |-> "event", op |-> op, c |-> c]

Session == <<
    Ev("established", CA),
    Ev("disconnect", CA) @@ [expire |-> TRUE],
    Ev("disconnect", CA5) @@ [expire |-> TRUE],                                \* superseded object: rewrite, no delete
    Ev("subscribed", CAB) @@ [filters |-> <<Filt("c", 1)>>, codes |-> <<1>>],      \* key "a:b" + ":" + "c"
    Ev("subscribed", CA) @@ [filters |-> <<Filt("b:c", 2)>>, codes |-> <<135>>],  \* key "a" + ":" + "b:c", refused (0x87)
    Ev("unsubscribed", CA) @@ [filters |-> <<Filt("b:c", 0)>>] >>

Message == <<
    Ev("retain", CA) @@ [pk |-> Pk("a/b", "m1", 1, 3, 0, TRUE), r |-> 1],
    Ev("retain", CA) @@ [pk |-> Pk("a/b", "", 1, 3, 0, TRUE), r |-> -1],
    Ev("retain", CA) @@ [pk |-> Pk("a/b", "", 0, 3, 0, TRUE), r |-> 0],
    Ev("qos_publish", CA) @@ [pk |-> Pk("b:c", "m2", 2, 3, 1, FALSE), sent |-> 1700000001],
    Ev("qos_complete", CA) @@ [pk |-> Pk("", "", 0, 4, 1, FALSE)],
    [ev |-> "event", op |-> "retained_expired", pk |-> Pk("a/b", "", 0, 0, 0, FALSE)] >>

Misc == <<
    Ev("established", CAB),
    Ev("client_expired", CAB),
    Ev("will_sent", Cli("a:b", 5, TRUE, 0, NoWill, "other")),
    Ev("qos_publish", CAB) @@ [pk |-> Pk("", "", 0, 6, 1, FALSE), sent |-> 1700000002],   \* PUBREL marker, key "a:b:1"
    Ev("qos_dropped", CAB) @@ [pk |-> Pk("", "", 0, 3, 1, FALSE)],
    [ev |-> "event", op |-> "sys_tick", sys |-> [id |-> "", t |-> "", version |-> "2.x", started |-> 1700000000, uptime |-> 5,
        bytes_received |-> 100, clients_connected |-> 1, retained |-> 2, inflight |-> 3, subscriptions |-> 4, threads |-> 9]] >>

Alphabet == CASE Alpha = "session" -> Session [] Alpha = "message" -> Message [] Alpha = "misc" -> Misc

Seqs == UNION {[1..n -> 1..Len(Alphabet)] : n \in 0..Depth}
Rows == {[events |-> [i \in 1..Len(s) |-> Alphabet[s[i]]]] : s \in Seqs}

RECURSIVE Fold(_, _, _, _, _)
Fold(store, mode, dev, evs, i) == IF i > Len(evs) THEN store ELSE Fold(ApplyEvent(store, mode, dev, evs[i]), mode, dev, evs, i + 1)

(* sanity of the model on every enumerated sequence *)
SubsOf(store) == {<<r.c, r.f>> : r \in ValuesOf(store, "SUB")}
ASSUME \A r \in Rows :
          LET t == Fold(EmptyStore, "tuple", {"StoreRefused"}, r.events, 1)
              c == Fold(EmptyStore, "concat", {"StoreRefused"}, r.events, 1)
          IN /\ SubsOf(c) \subseteq SubsOf(t)                                       \* collisions only lose records
             /\ Cardinality(SubsOf(t)) = Cardinality(KeysOf(t, "SUB"))
ASSUME /\ JsonSerialize(OutFile, SetToSeq(Rows))
       /\ PrintT(<<"ROWS", Cardinality(Rows)>>)

VARIABLE x
Init == x = 0
Next == UNCHANGED x
================================================================================
