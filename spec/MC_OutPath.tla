---------------------------- MODULE MC_OutPath ----------------------------
EXTENDS OutPath
NoDev == {}
Dev_NoFlushOnRefuse == {"NoFlushOnRefuse"}
Dev_EarlyQueueRead == {"EarlyQueueRead"}
Dev_UnlockBeforeWrite == {"UnlockBeforeWrite"}
Dev_NoDropReport == {"NoDropReport"}
Dev_WritesAfterDisconnect == {"WritesAfterDisconnect"}
EnvNone == {}
EnvDisc == {"disc"}
EnvAge == {"age"}
SizesAged == {16, 35, 99}      \* the same messages with a Message Expiry Interval property (5 bytes)
SizesAll == {11, 30, 99}
SizesNoOver == {11, 30}
===========================================================================
