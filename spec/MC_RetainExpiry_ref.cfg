SPECIFICATION Spec
CONSTANTS
  MaxPub = 4
  Dev <- NoDev
  MaxHist = 0
VIEW view
INVARIANTS TypeOK FreshKept
CHECK_DEADLOCK FALSE
