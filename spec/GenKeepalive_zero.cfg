\* table of outcomes for K = 0 (a quarter is a nominal 250 ms)
SPECIFICATION Spec
CONSTANTS
  K = 0
  Gaps = {5, 7}
  MaxLen = 4
  LimitQ = 6
  Slack = 0
  Observe = 8
INVARIANTS Collect ZeroNeverCloses
POSTCONDITION Written
CHECK_DEADLOCK FALSE
