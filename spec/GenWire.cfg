SPECIFICATION Spec
INVARIANT TypeOK
CHECK_DEADLOCK FALSE
