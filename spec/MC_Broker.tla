------------------------------- MODULE MC_Broker -------------------------------
(* Bounded instances of MqttBroker for TLC (one cfg per property family). *)
EXTENDS MqttBroker

T1 == {<<"a">>}
T2 == {<<"a">>, <<"a", "b">>}
F_Route == {<<"a">>, <<"a", "+">>, <<"#">>, <<"$share", "g", "a">>}
F_One   == {<<"a">>}
F_Two   == {<<"a">>, <<"#">>}
=================================================================================
