SPECIFICATION Spec
CONSTANTS
  Cap = 2
  Buf = 24
  MaxPub = 6
  MaxDir = 3
  Sizes <- SizesAll
  Dev <- NoDev
  EnvOn <- EnvDisc
  MaxHist = 1000
INVARIANT DumpInv
CHECK_DEADLOCK FALSE
