------------------------------ MODULE TraceLedger ------------------------------
(* Judges recorded evaluations of the real auth ledger (use C of DESIGN 2.2).  One line =      *)
(* one (ledger, client, topic/password) query evaluated N times on the real Ledger:            *)
(*   [led, kind \in {"acl","auth"}, c, t, w, pw, outs : <<BOOLEAN ...>>]                        *)
(* Complaints: "unstable" (the evaluations differ: the decision is not a function of its       *)
(* arguments), "not-permitted" (a verdict outside the set Ledger.tla permits).                 *)
EXTENDS Ledger, TLC, Json, IOUtils, SequencesExt, FiniteSetsExt

Trace   == ndJsonDeserialize(IOEnv.VERIF_TRACE)
OutFile == IOEnv.VERIF_OUT

VARIABLES l, bad
vars == <<l, bad>>

Permitted(e) == IF e.kind = "acl" THEN AclPermitted(e.led, e.c, e.t, e.w) ELSE {AuthDecision(e.led, e.c, e.pw)}

Judge(e) ==
    (IF \E i \in 1..Len(e.outs) : e.outs[i] # e.outs[1] THEN {"unstable"} ELSE {})
    \cup (IF \E i \in 1..Len(e.outs) : e.outs[i] \notin Permitted(e) THEN {"not-permitted"} ELSE {})

Init == l = 1 /\ bad = <<>>
Next ==
    /\ l <= Len(Trace)
    /\ LET e == Trace[l]
           c == Judge(e) IN
         /\ bad' = IF c = {} \/ Len(bad) >= 50 THEN bad
                   ELSE Append(bad, [line |-> l, complaints |-> SetToSeq(c), permitted |-> SetToSeq(Permitted(e))])
         /\ l' = l + 1
         /\ TLCSet(1, l') /\ TLCSet(2, bad')
Spec == Init /\ [][Next]_vars
Done == /\ TLCGet(1) = Len(Trace) + 1
        /\ JsonSerialize(OutFile, [lines |-> Len(Trace), bad |-> TLCGet(2)])
=================================================================================
