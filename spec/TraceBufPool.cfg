SPECIFICATION TSpec
CONSTANTS
  Buffers <- TraceIds
  Holders <- TraceIds
  Sizes <- TraceIds
  Cap <- TraceCap
  GetRemoves = TRUE
  PutResets = TRUE
  PutChecksCap = TRUE
POSTCONDITION Done
CHECK_DEADLOCK FALSE
