---- MODULE BufPool_TTrace_1790034280 ----
EXTENDS Sequences, TLCExt, BufPool_TEConstants, Toolbox, Naturals, TLC, BufPool

_expression ==
    LET BufPool_TEExpression == INSTANCE BufPool_TEExpression
    IN BufPool_TEExpression!expression
----

_trace ==
    LET BufPool_TETrace == INSTANCE BufPool_TETrace
    IN BufPool_TETrace!trace
----

_inv ==
    ~(
        TLCGet("level") = Len(_TETrace)
        /\
        cap = ((b1 :> 0))
        /\
        len = ((b1 :> 0))
        /\
        last = ([len |-> 0, cap |-> 0, b |-> b1, g |-> g1, prev |-> {}, fresh |-> FALSE])
        /\
        data = ((b1 :> "none"))
        /\
        held = ((b1 :> {g1}))
        /\
        free = ({b1})
    )
----

_init ==
    /\ len = _TETrace[1].len
    /\ cap = _TETrace[1].cap
    /\ last = _TETrace[1].last
    /\ held = _TETrace[1].held
    /\ data = _TETrace[1].data
    /\ free = _TETrace[1].free
----

_next ==
    /\ \E i,j \in DOMAIN _TETrace:
        /\ \/ /\ j = i + 1
              /\ i = TLCGet("level")
        /\ len  = _TETrace[i].len
        /\ len' = _TETrace[j].len
        /\ cap  = _TETrace[i].cap
        /\ cap' = _TETrace[j].cap
        /\ last  = _TETrace[i].last
        /\ last' = _TETrace[j].last
        /\ held  = _TETrace[i].held
        /\ held' = _TETrace[j].held
        /\ data  = _TETrace[i].data
        /\ data' = _TETrace[j].data
        /\ free  = _TETrace[i].free
        /\ free' = _TETrace[j].free

\* Uncomment the ASSUME below to write the states of the error trace
\* to the given file in Json format. Note that you can pass any tuple
\* to `JsonSerialize`. For example, a sub-sequence of _TETrace.
    \* ASSUME
    \*     LET J == INSTANCE Json
    \*         IN J!JsonSerialize("BufPool_TTrace_1790034280.json", _TETrace)

=============================================================================

 Note that you can extract this module `BufPool_TEExpression`
  to a dedicated file to reuse `expression` (the module in the 
  dedicated `BufPool_TEExpression.tla` file takes precedence 
  over the module `BufPool_TEExpression` below).

---- MODULE BufPool_TEExpression ----
EXTENDS Sequences, TLCExt, BufPool_TEConstants, Toolbox, Naturals, TLC, BufPool

expression == 
    [
        \* To hide variables of the `BufPool` spec from the error trace,
        \* remove the variables below.  The trace will be written in the order
        \* of the fields of this record.
        len |-> len
        ,cap |-> cap
        ,last |-> last
        ,held |-> held
        ,data |-> data
        ,free |-> free
        
        \* Put additional constant-, state-, and action-level expressions here:
        \* ,_stateNumber |-> _TEPosition
        \* ,_lenUnchanged |-> len = len'
        
        \* Format the `len` variable as Json value.
        \* ,_lenJson |->
        \*     LET J == INSTANCE Json
        \*     IN J!ToJson(len)
        
        \* Lastly, you may build expressions over arbitrary sets of states by
        \* leveraging the _TETrace operator.  For example, this is how to
        \* count the number of times a spec variable changed up to the current
        \* state in the trace.
        \* ,_lenModCount |->
        \*     LET F[s \in DOMAIN _TETrace] ==
        \*         IF s = 1 THEN 0
        \*         ELSE IF _TETrace[s].len # _TETrace[s-1].len
        \*             THEN 1 + F[s-1] ELSE F[s-1]
        \*     IN F[_TEPosition - 1]
    ]

=============================================================================



Parsing and semantic processing can take forever if the trace below is long.
 In this case, it is advised to uncomment the module below to deserialize the
 trace from a generated binary file.

\*
\*---- MODULE BufPool_TETrace ----
\*EXTENDS IOUtils, BufPool_TEConstants, TLC, BufPool
\*
\*trace == IODeserialize("BufPool_TTrace_1790034280.bin", TRUE)
\*
\*=============================================================================
\*

---- MODULE BufPool_TETrace ----
EXTENDS BufPool_TEConstants, TLC, BufPool

trace == 
    <<
    ([cap |-> <<>>,len |-> <<>>,last |-> [b |-> "none"],data |-> <<>>,held |-> <<>>,free |-> {}]),
    ([cap |-> (b1 :> 0),len |-> (b1 :> 0),last |-> [len |-> 0, cap |-> 0, b |-> b1, g |-> g2, prev |-> {}, fresh |-> TRUE],data |-> (b1 :> "none"),held |-> (b1 :> {g2}),free |-> {}]),
    ([cap |-> (b1 :> 0),len |-> (b1 :> 0),last |-> [len |-> 0, cap |-> 0, b |-> b1, g |-> g2, prev |-> {}, fresh |-> TRUE],data |-> (b1 :> "none"),held |-> (b1 :> {}),free |-> {b1}]),
    ([cap |-> (b1 :> 0),len |-> (b1 :> 0),last |-> [len |-> 0, cap |-> 0, b |-> b1, g |-> g1, prev |-> {}, fresh |-> FALSE],data |-> (b1 :> "none"),held |-> (b1 :> {g1}),free |-> {b1}])
    >>
----


=============================================================================

---- MODULE BufPool_TEConstants ----
EXTENDS BufPool

CONSTANTS b1, b2, b3, g1, g2

=============================================================================

---- CONFIG BufPool_TTrace_1790034280 ----
CONSTANTS
    Buffers = { b1 , b2 , b3 }
    Holders = { g1 , g2 }
    Cap = 2
    Sizes = { 0 , 1 , 2 , 3 }
    GetRemoves = FALSE
    PutResets = TRUE
    PutChecksCap = TRUE
    b1 = b1
    g2 = g2
    g1 = g1
    b3 = b3
    b2 = b2

INVARIANT
    _inv

CHECK_DEADLOCK
    \* CHECK_DEADLOCK off because of PROPERTY or INVARIANT above.
    FALSE

INIT
    _init

NEXT
    _next

CONSTANT
    _TETrace <- _trace

ALIAS
    _expression
=============================================================================
\* Generated on Mon Sep 21 23:44:41 UTC 2026