SPECIFICATION TSpec
POSTCONDITION Done
CHECK_DEADLOCK FALSE
