SPECIFICATION Spec
CONSTANTS
  Clients = {"c1", "c2"}
  ConnOrder <- K4
  Topics <- T1
  Filters <- F_Two
  QosSet = {0, 1}
  MaxQos = 2
  SrvRecvMax = 2
  RecvMaxSet = {2}
  MaxPid = 4
  ExpirySet = {0, 2}
  WillDelaySet = {0, 1}
  MaxMsgs = 3
  MaxNow = 5
  MaxHist = 12
  Enabled = {"Connect", "Subscribe", "Publish", "Ack", "Close", "Tick"}
INVARIANTS EmitLeaf NoGhosts OneOwner WillOnce
CHECK_DEADLOCK FALSE
