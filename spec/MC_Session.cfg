\* sessions, expiry, takeover, wills (C14 C15 C16)
SPECIFICATION Spec
CONSTANTS
  Clients = {"c1", "c2"}
  Conns = {"k1", "k2", "k3"}
  Topics <- T1
  Filters <- F_Two
  QosSet = {1}
  MaxQos = 2
  SrvRecvMax = 2
  RecvMaxSet = {2}
  MaxPid = 4
  ExpirySet = {0, 2}
  WillDelaySet = {0, 1}
  MaxMsgs = 1
  MaxNow = 4
  MaxHist = 9
  Enabled = {"Connect", "Subscribe", "Publish", "Ack", "Close", "Tick"}
VIEW View
CONSTRAINT Bound
INVARIANTS TypeOK PidUnique QuotaBound NoGhosts OneOwner ConnectedHasSession WillOnce ExactDelivery
PROPERTIES InflightMonotone
CHECK_DEADLOCK FALSE
