--------------------------- MODULE MC_RetainExpiry ---------------------------
EXTENDS RetainExpiry, Json, IOUtils
NoDev == {}
Dev_DeleteByTopic == {"DeleteByTopic"}
OutDir == IOEnv.VERIF_OUT
DumpInv ==
    IF Len(hist) >= 4
      THEN JsonSerialize(OutDir \o "/b_" \o ToString(TLCGet("stats").traces) \o ".json", [hist |-> hist])
      ELSE TRUE
==============================================================================
