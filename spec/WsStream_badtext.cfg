\* faulty connection: delivers text messages like binary ones: TLC must refute PrefixOfStream
SPECIFICATION Spec
CONSTANTS
  Bytes = {1, 2}
  MaxMsgs = 3
  MaxLen = 2
  ReadSizes = {1, 2, 4}
  DropRest = FALSE
  AcceptText = TRUE
INVARIANTS TypeOK PrefixOfStream CompleteAtEnd EndedOnlyByText
CHECK_DEADLOCK FALSE
