SPECIFICATION Spec
CONSTANTS
  MaxPub = 5
  Dev <- NoDev
  MaxHist = 14
INVARIANT DumpInv
CHECK_DEADLOCK FALSE
