-------------------------------- MODULE GenWire --------------------------------
(* Binding of Wire.tla to the real codec.  One module, several jobs selected by the environment      *)
(* (IOEnv): TLC enumerates a bounded domain of abstract packets, CHECKS THE THEOREMS of DESIGN 3.7 on *)
(* every element (as an invariant of a small state machine, so that the TLC workers share the work), *)
(* and WRITES CASE TABLES (use B) that cmd/vwire replays into mochi's packets package; in job        *)
(* "judge" it reads values recorded from the real code and decides them (use C).                     *)
(*                                                                                                   *)
(*   VERIF_JOB     vbi | c42 | c26 | c27 | judge | thm                                               *)
(*   VERIF_SIZE    1 (quick) | 2 (thorough)            size of the packet domain                     *)
(*   VERIF_OUT     output file prefix; shard k writes <prefix>.<k>.json                              *)
(*   VERIF_IN      input file (job judge)                                                            *)
(*   VERIF_SHARDS  number of shards = number of level-1 states (the workers run them in parallel)    *)
(*   VERIF_STRIDE, VERIF_OFFSET   job c27: every STRIDE-th encoding of the domain is a base case      *)
(*                                                                                                   *)
(* State machine: ph = 0 --> (ph = 1, sh = k) for every shard k --> (ph = 2, sh = k); the second     *)
(* step evaluates Work(k): it Asserts the theorems on the shard's packets and serialises its rows.   *)
EXTENDS Wire, Json, IOUtils, SequencesExt, FiniteSetsExt

Job     == IOEnv.VERIF_JOB
Size    == atoi(IOEnv.VERIF_SIZE)
OutFile == IOEnv.VERIF_OUT
InFile  == IOEnv.VERIF_IN
NShards == atoi(IOEnv.VERIF_SHARDS)
Stride  == atoi(IOEnv.VERIF_STRIDE)
Offset  == atoi(IOEnv.VERIF_OFFSET)

-----------------------------------------------------------------------------
(* Value domains *)
SA == <<97>>                      \* "a"
SB == <<98>>
SE == <<195, 169>>                \* U+00E9, two bytes
SF == <<97, 47, 35>>              \* "a/#"
SR == <<239, 191, 189>>           \* U+FFFD REPLACEMENT CHARACTER, correctly encoded (three bytes)
S3 == <<226, 130, 172>>           \* U+20AC, three bytes
S4 == <<240, 159, 152, 128>>      \* U+1F600, four bytes
SLong == Run(65535, 97)           \* the maximum-length string
BLong == Run(65535, 0)            \* maximum-length binary data
PayLong == Run(70000, 120)        \* payload longer than any length-prefixed field
Strs == {<<>>, SA, SE}
Pids == {1, 255, 256, 65535}

Pick(pool, S) == LET ix == SetToSortSeq(S, <) IN [i \in 1..Len(ix) |-> pool[ix[i]]]
(* every sub-sequence of at most k elements of the (canonically ordered) pool that is well-formed *)
Combos(ctx, pool, k) ==
  { q \in { Pick(pool, S) : S \in {T \in SUBSET (1..Len(pool)) : Cardinality(T) <= k} } : PropsWF(ctx, q) }
Singles(pool) == { <<pool[i]>> : i \in 1..Len(pool) }

(* pools: "multi" = combined up to 3 at a time in every order; "single" = boundary values, one at a time *)
UserPool == <<PU(SA, SB), PU(SA, <<>>), PU(SE, SE)>>                     \* incl. a repeated key, an empty value
MultiPool(ctx, sz) ==
  CASE ctx = CONNECT     -> IF sz = 1 THEN <<PN(17, 1), PS(21, SA), PN(33, 1)>> \o UserPool
                            ELSE <<PN(17, 1), PS(21, SA), PS(22, <<0>>), PN(33, 1), PN(34, 256)>> \o UserPool \o <<PN(39, 65536)>>
    [] ctx = WILL        -> IF sz = 1 THEN <<PN(1, 1), PN(24, 5), PU(SA, SB)>>
                            ELSE <<PN(1, 1), PN(2, 65536), PS(3, SA), PS(8, SA), PN(24, 5), PU(SA, SB)>>
    [] ctx = CONNACK     -> IF sz = 1 THEN <<PN(17, 1), PS(18, SA), PN(36, 1)>> \o UserPool
                            ELSE <<PN(17, 1), PS(18, SA), PN(19, 256), PS(31, SA), PN(36, 1)>> \o UserPool \o <<PN(42, 0)>>
    [] ctx = PUBLISH     -> IF sz = 1 THEN <<PN(1, 1), PS(3, SA), PN(35, 1)>> \o UserPool
                            ELSE <<PN(1, 1), PN(2, 256), PS(3, SA), PS(9, <<0>>), PN(35, 1)>> \o UserPool
    [] ctx \in AckTypes  -> <<PS(31, SA)>> \o UserPool
    [] ctx = SUBSCRIBE   -> <<PN(11, 1)>> \o UserPool
    [] ctx = SUBACK      -> <<PS(31, SA)>> \o UserPool
    [] ctx = UNSUBSCRIBE -> UserPool
    [] ctx = UNSUBACK    -> <<PS(31, SA)>> \o UserPool
    [] ctx = DISCONNECT  -> IF sz = 1 THEN <<PN(17, 1), PS(31, SA)>> \o UserPool ELSE <<PN(17, 1), PS(28, SA), PS(31, SA)>> \o UserPool
    [] ctx = AUTH        -> <<PS(21, SA), PS(22, <<0, 255>>), PS(31, SA)>> \o UserPool
U32s == <<1, 65535, 65536, 2147483647, -1>>       \* -1 is 4294967295
U16s == <<1, 255, 256, 65535>>
SubIds == <<1, 127, 128, 16383, 16384, 2097151, 2097152, 268435455>>
Nums(id, vals) == [i \in 1..Len(vals) |-> PN(id, vals[i])]
SinglePool(ctx) ==
  CASE ctx = CONNECT     -> Nums(17, <<0>> \o U32s) \o Nums(33, U16s) \o Nums(39, U32s) \o Nums(34, <<0>> \o U16s)
                            \o Nums(25, <<0, 1>>) \o Nums(23, <<0, 1>>) \o <<PS(21, SE), PS(22, <<0>>), PU(<<>>, <<>>)>>
    [] ctx = WILL        -> Nums(1, <<0, 1>>) \o Nums(2, U32s) \o <<PS(3, SE), PS(8, SA), PS(9, <<0, 255>>)>> \o Nums(24, <<0>> \o U32s)
    [] ctx = CONNACK     -> Nums(17, <<0>> \o U32s) \o <<PS(18, SE)>> \o Nums(19, <<0>> \o U16s) \o <<PS(21, SA), PS(22, <<0>>), PS(26, SA), PS(28, SA), PS(31, SE)>>
                            \o Nums(33, U16s) \o Nums(34, <<0>> \o U16s) \o Nums(36, <<0, 1>>) \o Nums(37, <<0, 1>>)
                            \o Nums(39, U32s) \o Nums(40, <<0, 1>>) \o Nums(41, <<0, 1>>) \o Nums(42, <<0, 1>>)
    [] ctx = PUBLISH     -> Nums(1, <<0, 1>>) \o Nums(2, U32s) \o <<PS(3, SE), PS(3, SR), PS(3, S4), PS(8, SA), PS(8, SE), PS(8, S3), PS(9, <<0>>), PS(9, <<0, 255>>)>>
                            \o Nums(35, U16s) \o <<PU(<<>>, <<>>)>>
    [] ctx \in AckTypes  -> <<PS(31, SE)>>
    [] ctx = SUBSCRIBE   -> Nums(11, SubIds)
    [] ctx = SUBACK      -> <<PS(31, SE)>>
    [] ctx = UNSUBSCRIBE -> <<PU(<<>>, <<>>)>>
    [] ctx = UNSUBACK    -> <<PS(31, SE)>>
    [] ctx = DISCONNECT  -> Nums(17, <<0>> \o U32s) \o <<PS(28, SA), PS(31, SE)>>
    [] ctx = AUTH        -> <<PS(21, SE), PS(22, <<0>>)>>
(* properties that only the server side produces: subscription identifiers on a PUBLISH *)
PubSubIds == { <<PN(11, 1)>>, <<PN(11, 268435455)>>, <<PN(11, 127), PN(11, 128)>>, <<PN(11, 16384), PN(11, 2097151)>>,
               <<PN(11, 16383), PN(11, 2097152), PU(SA, SB)>> }

PropSets(ctx, ver, sz) ==
  IF ver # 5 THEN {<<>>}
  ELSE {<<>>} \cup Singles(SinglePool(ctx)) \cup Combos(ctx, MultiPool(ctx, sz), IF sz = 1 /\ ctx \notin {DISCONNECT, AUTH} \cup AckTypes THEN 2 ELSE 3)
(* a smaller choice to be crossed with other fields *)
FewProps(ctx, ver) == IF ver # 5 THEN {<<>>} ELSE {<<>>} \cup Combos(ctx, MultiPool(ctx, 1), 1)

ReasonsOf(t) ==
  CASE t = PUBACK \/ t = PUBREC   -> {0, 16, 128, 135, 145, 151, 153}
    [] t = PUBREL \/ t = PUBCOMP -> {0, 146}
    [] t = DISCONNECT            -> {0, 4, 128, 129, 130, 147, 148, 149, 151, 152, 153}
    [] t = AUTH                  -> {0, 24, 25}
    [] t = CONNACK               -> {0, 128, 133, 134, 135}

Opts5 == {q + nl * 4 + rap * 8 + rh * 16 : q \in 0..2, nl \in 0..1, rap \in 0..1, rh \in 0..2}
OptsFor(ver) == IF ver = 5 THEN Opts5 ELSE 0..2
FilterStrs == <<SA, SF, SE>>

-----------------------------------------------------------------------------
(* The packet domain of a type and version.  Slices vary a few fields jointly around a base value. *)
ConnBase(v) == [Pkt(CONNECT, v) EXCEPT !.cn.clean = TRUE, !.cn.ka = 60, !.cn.cid = SA]
WithWill(p, q, r) == [p EXCEPT !.cn.will = TRUE, !.cn.wqos = q, !.cn.wret = r, !.cn.wtopic = SA, !.cn.wpay = SB]
UP(p, uf, pf) == [p EXCEPT !.cn.uf = uf, !.cn.pf = pf, !.cn.user = IF uf THEN SA ELSE <<>>, !.cn.pass = IF pf THEN SB ELSE <<>>]
DomConnect(v, sz) ==
  LET b == ConnBase(v) IN
     { UP(IF w = 0 THEN [b EXCEPT !.cn.clean = c] ELSE WithWill([b EXCEPT !.cn.clean = c], (w - 1) % 3, w > 3), up[1], up[2])
         : c \in BOOLEAN, w \in 0..6, up \in {<<FALSE, FALSE>>, <<TRUE, FALSE>>, <<TRUE, TRUE>>, <<FALSE, TRUE>>} }
  \cup { [b EXCEPT !.cn.ka = k] : k \in {0, 255, 256, 65535} }
  \cup { [b EXCEPT !.cn.cid = s] : s \in Strs }
  \cup { [WithWill(b, 1, FALSE) EXCEPT !.cn.wtopic = s, !.cn.wpay = t] : s \in Strs \ {<<>>}, t \in Strs }
  \cup { [UP(b, TRUE, TRUE) EXCEPT !.cn.user = s, !.cn.pass = t] : s \in Strs, t \in Strs }
  \cup { [b EXCEPT !.props = ps] : ps \in PropSets(CONNECT, v, sz) }
  \cup { [WithWill(b, 0, FALSE) EXCEPT !.cn.wprops = ps] : ps \in PropSets(WILL, v, sz) }
  \cup { [UP(WithWill(b, 2, TRUE), TRUE, TRUE) EXCEPT !.props = ps, !.cn.wprops = ws]
           : ps \in FewProps(CONNECT, v), ws \in FewProps(WILL, v) }
  \cup (IF sz = 2 THEN { [UP(WithWill([b EXCEPT !.cn.clean = c], (w - 1) % 3, w > 3), up[1], up[2]) EXCEPT !.props = ps, !.cn.wprops = ws]
                          : c \in BOOLEAN, w \in 1..6, up \in {<<FALSE, FALSE>>, <<TRUE, FALSE>>, <<TRUE, TRUE>>},
                            ps \in PropSets(CONNECT, v, 1), ws \in FewProps(WILL, v) } ELSE {})

PubFlags == { <<d, q, r>> \in BOOLEAN \X (0..2) \X BOOLEAN : d => q > 0 }
PubBase(v) == [Pkt(PUBLISH, v) EXCEPT !.topic = SA, !.payload = SB]
SetFl(p, f) == [p EXCEPT !.dup = f[1], !.qos = f[2], !.retain = f[3], !.pid = IF f[2] > 0 THEN 7 ELSE 0]
DomPublish(v, sz) ==
  LET b == PubBase(v) IN
     { SetFl(b, f) : f \in PubFlags }
  \cup { [SetFl(b, <<FALSE, 1, FALSE>>) EXCEPT !.pid = i] : i \in Pids }
  \cup { [b EXCEPT !.topic = s, !.payload = t] : s \in Strs \ {<<>>}, t \in Strs }
  \cup { [b EXCEPT !.props = ps] : ps \in PropSets(PUBLISH, v, sz) }
  \cup { [SetFl(b, <<FALSE, 2, TRUE>>) EXCEPT !.props = ps, !.payload = t] : ps \in FewProps(PUBLISH, v), t \in {<<>>, SE} }
  \cup (IF v = 5 THEN { [b EXCEPT !.topic = <<>>, !.props = <<PN(35, a)>>] : a \in {1, 65535} } ELSE {})
  \cup (IF sz = 2 THEN { [SetFl(b, f) EXCEPT !.props = ps, !.payload = t] : f \in PubFlags, ps \in PropSets(PUBLISH, v, 2), t \in {<<>>, SB} } ELSE {})
(* what only a server sends *)
DomPublishServer(v) == IF v = 5 THEN { [PubBase(v) EXCEPT !.props = ps] : ps \in PubSubIds } ELSE {}

DomAck(t, v, sz) ==
  LET b == [Pkt(t, v) EXCEPT !.pid = 7] IN
     { [b EXCEPT !.pid = i] : i \in Pids }
  \cup (IF v = 5 THEN { [b EXCEPT !.reason = c, !.props = ps] : c \in ReasonsOf(t), ps \in FewProps(t, v) }
                      \cup { [b EXCEPT !.reason = c, !.props = ps] : c \in (IF sz = 2 THEN ReasonsOf(t) ELSE {0, 128}), ps \in PropSets(t, v, sz) }
                 ELSE {})

MkFilters(fs, os, sid) == [i \in 1..Len(fs) |-> Filt(fs[i], os[i], sid)]
DomSubscribe(v, sz) ==
  LET b == [Pkt(SUBSCRIBE, v) EXCEPT !.pid = 7] IN
     { [b EXCEPT !.filters = <<Filt(SA, o, 0)>>] : o \in OptsFor(v) }
  \cup { [b EXCEPT !.pid = i, !.filters = <<Filt(SF, 1, 0)>>] : i \in Pids }
  \cup { [b EXCEPT !.filters = MkFilters(SubSeq(FilterStrs, 1, n), os, 0)]
           : n \in 2..3, os \in { <<0, 1, 2>>, <<2, 1, 0>> } \cup (IF v = 5 THEN {<<46, 29, 4>>, <<8, 16, 38>>} ELSE {}) }
  \cup { [b EXCEPT !.props = ps, !.filters = MkFilters(SubSeq(FilterStrs, 1, n), <<1, 0, 2>>, SidOf(ps))]
           : ps \in PropSets(SUBSCRIBE, v, sz), n \in {1, 2} }
  \cup (IF sz = 2 THEN { [b EXCEPT !.props = ps, !.filters = <<Filt(SE, o, SidOf(ps)), Filt(SA, o2, SidOf(ps))>>]
                          : o \in OptsFor(v), o2 \in OptsFor(v), ps \in (IF v = 5 THEN {<<>>, <<PN(11, 128)>>, <<PU(SA, SB)>>} ELSE {<<>>}) } ELSE {})

DomUnsubscribe(v, sz) ==
  LET b == [Pkt(UNSUBSCRIBE, v) EXCEPT !.pid = 7] IN
     { [b EXCEPT !.pid = i, !.filters = <<Filt(SA, 0, 0)>>] : i \in Pids }
  \cup { [b EXCEPT !.filters = MkFilters(SubSeq(FilterStrs, 1, n), <<0, 0, 0>>, 0)] : n \in 1..3 }
  \cup { [b EXCEPT !.props = ps, !.filters = MkFilters(SubSeq(FilterStrs, 1, n), <<0, 0, 0>>, 0)]
           : ps \in PropSets(UNSUBSCRIBE, v, sz), n \in {1, 3} }

Codes(t, v) == IF t = SUBACK THEN (IF v = 5 THEN {<<0>>, <<1, 2>>, <<0, 128, 2>>, <<135, 143, 145, 151, 158, 161, 162>>} ELSE {<<0>>, <<1, 2>>, <<0, 128, 2>>})
               ELSE (IF v = 5 THEN {<<0>>, <<17>>, <<0, 17, 128>>, <<131, 135, 143, 145>>} ELSE {<<>>})
DomSubUnsuback(t, v, sz) ==
  LET b == [Pkt(t, v) EXCEPT !.pid = 7, !.codes = IF t = UNSUBACK /\ v # 5 THEN <<>> ELSE <<0>>] IN
     { [b EXCEPT !.pid = i] : i \in Pids }
  \cup { [b EXCEPT !.codes = c] : c \in Codes(t, v) }
  \cup { [b EXCEPT !.props = ps, !.codes = c] : ps \in PropSets(t, v, sz), c \in (IF v = 5 THEN {<<0>>, <<1, 2>>} ELSE {b.codes}) }

DomConnack(v, sz) ==
  LET b == Pkt(CONNACK, v) IN
     { [b EXCEPT !.sp = s, !.reason = c] : s \in BOOLEAN, c \in (IF v = 5 THEN ReasonsOf(CONNACK) ELSE 0..5) }
  \cup { [b EXCEPT !.props = ps] : ps \in PropSets(CONNACK, v, sz) }

DomTail(t, v, sz) ==           \* DISCONNECT, AUTH
  LET b == Pkt(t, v) IN
  IF v # 5 THEN {b}
  ELSE { [b EXCEPT !.reason = c, !.props = ps] : c \in ReasonsOf(t), ps \in FewProps(t, v) }
       \cup { [b EXCEPT !.reason = c, !.props = ps] : c \in (IF sz = 2 THEN ReasonsOf(t) ELSE {0, IF t = AUTH THEN 24 ELSE 4}), ps \in PropSets(t, v, sz) }

Dom(t, v, sz) ==
  CASE t = CONNECT     -> DomConnect(v, sz)
    [] t = CONNACK     -> DomConnack(v, sz)
    [] t = PUBLISH     -> DomPublish(v, sz)
    [] t \in AckTypes  -> DomAck(t, v, sz)
    [] t = SUBSCRIBE   -> DomSubscribe(v, sz)
    [] t = UNSUBSCRIBE -> DomUnsubscribe(v, sz)
    [] t \in {SUBACK, UNSUBACK} -> DomSubUnsuback(t, v, sz)
    [] t \in {PINGREQ, PINGRESP} -> {Pkt(t, v)}
    [] t \in {DISCONNECT, AUTH} -> IF t = AUTH /\ v # 5 THEN {} ELSE DomTail(t, v, sz)

(* the maximum-length class and "every permitted property at once" -- used by C26 *)
AllProps(ctx) ==
  CASE ctx = CONNECT     -> <<PN(17, 1), PS(21, SA), PS(22, <<1>>), PN(23, 0), PN(25, 1), PN(33, 2), PN(34, 3), PU(SA, SB), PU(SA, SE), PN(39, 4)>>
    [] ctx = WILL        -> <<PN(1, 1), PN(2, 9), PS(3, SA), PS(8, SA), PS(9, <<1>>), PN(24, 5), PU(SA, SB)>>
    [] ctx = CONNACK     -> <<PN(17, 1), PS(18, SA), PN(19, 5), PS(21, SA), PS(22, <<1>>), PS(26, SA), PS(28, SA), PS(31, SA), PN(33, 2),
                              PN(34, 3), PN(36, 1), PN(37, 0), PU(SA, SB), PU(SA, SE), PN(39, 4), PN(40, 0), PN(41, 0), PN(42, 0)>>
    [] ctx = PUBLISH     -> <<PN(1, 1), PN(2, 9), PS(3, SA), PS(8, SA), PS(9, <<1>>), PN(11, 5), PN(11, 300), PN(35, 2), PU(SA, SB), PU(SA, SE)>>
    [] ctx = DISCONNECT  -> <<PN(17, 1), PS(28, SA), PS(31, SA), PU(SA, SB), PU(SA, SE)>>
    [] ctx = AUTH        -> <<PS(21, SA), PS(22, <<1>>), PS(31, SA), PU(SA, SB), PU(SA, SE)>>
    [] OTHER             -> <<>>
DomBig(t, v) ==
  (IF v = 5 /\ AllProps(t) # <<>>
     THEN { IF t = CONNECT THEN [UP(WithWill(ConnBase(v), 1, TRUE), TRUE, TRUE) EXCEPT !.props = AllProps(CONNECT), !.cn.wprops = AllProps(WILL)]
            ELSE IF t = PUBLISH THEN [PubBase(v) EXCEPT !.props = AllProps(t)]
            ELSE [Pkt(t, v) EXCEPT !.props = AllProps(t), !.reason = IF t = AUTH THEN 24 ELSE 0] }
     ELSE {})
  \cup
  (CASE t = CONNECT -> { [ConnBase(v) EXCEPT !.cn.cid = SLong],
                         [UP(WithWill(ConnBase(v), 0, FALSE), TRUE, TRUE) EXCEPT !.cn.wtopic = SLong, !.cn.wpay = BLong, !.cn.user = SLong, !.cn.pass = BLong] }
                       \cup (IF v = 5 THEN { [ConnBase(v) EXCEPT !.props = <<PS(22, BLong), PU(SLong, SLong)>>] } ELSE {})
     [] t = PUBLISH -> { [PubBase(v) EXCEPT !.topic = SLong], [PubBase(v) EXCEPT !.payload = PayLong],
                         [SetFl(PubBase(v), <<TRUE, 2, TRUE>>) EXCEPT !.topic = SLong, !.payload = PayLong] }
                       \cup (IF v = 5 THEN { [PubBase(v) EXCEPT !.props = <<PS(3, SLong), PS(9, BLong)>>] } ELSE {})
     [] t = SUBSCRIBE -> { [Pkt(t, v) EXCEPT !.pid = 7, !.filters = <<Filt(SLong, 1, 0), Filt(SA, 2, 0)>>] }
     [] t = UNSUBSCRIBE -> { [Pkt(t, v) EXCEPT !.pid = 7, !.filters = <<Filt(SLong, 0, 0), Filt(SA, 0, 0)>>] }
     [] t = PUBACK -> IF v = 5 THEN { [Pkt(t, v) EXCEPT !.pid = 7, !.reason = 128, !.props = <<PS(31, SLong)>>] } ELSE {}
     [] t = SUBACK -> { [Pkt(t, v) EXCEPT !.pid = 7, !.codes = Run(300, 1)] }
     [] OTHER -> {})

Types == 1..15
AllDom(types, vers, sz) == UNION { Dom(t, v, sz) : t \in types, v \in vers }

(* C42: what a client may send *)
ClientMay(p) == /\ p.type = PUBLISH => (p.topic # <<>> \/ \E i \in 1..Len(p.props) : p.props[i].id = 35)
                /\ (p.type = CONNECT /\ p.ver # 5) => (p.cn.pf => p.cn.uf)        \* [MQTT-3.1.2-22]

-----------------------------------------------------------------------------
(* Theorems of DESIGN 3.7 for one packet p of the domain *)
RoundTrips(p) ==
  /\ Assert(WF(p), <<"domain packet is not well-formed", p>>)
  /\ \A e \in Encodings(p) :
       LET r == Parse(e, p.ver)
       IN /\ Assert(r.ok /\ r.pkt = p, <<"Parse(e) # p", p, e, r>>)
          /\ Assert(Normalize(r.pkt) = Normalize(p) /\ Equiv(r.pkt, p), <<"Equiv", p>>)
(* every strict prefix of an encoding fails, and fails for its length *)
PrefixesFail(e, ver) ==
  \A k \in 0..(Len(e) - 1) :
     LET r == Parse(SubSeq(e, 1, k), ver)
     IN Assert(~r.ok /\ r.why \in {"length"}, <<"a strict prefix parses", e, k, r>>)
(* distinct packets never share an encoding (Parse is a function, so this follows from RoundTrips;  *)
(* checked directly on the pairs of a set as a sanity test of Encodings)                            *)
NoSharedEncoding(ps) == \A p \in ps, q \in ps : p # q => Encodings(p) \cap Encodings(q) = {}

-----------------------------------------------------------------------------
(* JOB vbi (C29) *)
Boundaries == <<0, 127, 128, 16383, 16384, 2097151, 2097152, 268435455>>
NearBoundaries == { v \in UNION { (Boundaries[i] - 2)..(Boundaries[i] + 2) : i \in 1..Len(Boundaries) } : v >= 0 /\ v <= VbiMax }
(* the values that take exactly k bytes *)
VbiRange(k) == CASE k = 1 -> [len |-> 1, lo |-> 0, hi |-> 127]
                 [] k = 2 -> [len |-> 2, lo |-> 128, hi |-> 16383]
                 [] k = 3 -> [len |-> 3, lo |-> 16384, hi |-> 2097151]
                 [] k = 4 -> [len |-> 4, lo |-> 2097152, hi |-> VbiMax]
MaxOfLen(k) == VbiDecode([i \in 1..k |-> IF i < k THEN 255 ELSE 127]).v      \* the largest value k bytes can carry
VbiTheorems ==
  /\ \A v \in NearBoundaries :
       /\ VbiDecode(Vbi(v)).ok /\ VbiDecode(Vbi(v)).v = v /\ VbiDecode(Vbi(v)).n = Len(Vbi(v))
       /\ Len(Vbi(v)) \in 1..4
       /\ \A k \in 1..(Len(Vbi(v)) - 1) : v > MaxOfLen(k)                      \* no shorter encoding exists: minimal
       /\ \A k \in 1..4 : (v >= VbiRange(k).lo /\ v <= VbiRange(k).hi) <=> Len(Vbi(v)) = k
  /\ \A k \in 1..4 : MaxOfLen(k) = VbiRange(k).hi
  /\ \A k \in 1..3 : VbiRange(k + 1).lo = VbiRange(k).hi + 1
  /\ ~VbiDecode(<<128, 128, 128, 128, 0>>).ok /\ ~VbiDecode(<<255, 255, 255, 255, 127>>).ok /\ ~VbiDecode(<<128, 128>>).ok
  /\ \A v \in NearBoundaries : \A k \in 0..(Len(Vbi(v)) - 1) : ~VbiDecode(SubSeq(Vbi(v), 1, k)).ok

DataBits == {0, 1, 127}
PatternsOfLen(n) == { [i \in 1..n |-> c[i] * 128 + d[i]] : c \in [1..n -> {0, 1}], d \in [1..n -> DataBits] }
(* quick tier: lengths 5 and 6 with one data-bit value in all but the last position *)
PatternsOfLenFew(n) == { [i \in 1..n |-> c[i] * 128 + (IF i < n THEN d ELSE dl)] : c \in [1..n -> {0, 1}], d \in DataBits, dl \in DataBits }
Patterns(sz) == UNION { PatternsOfLen(n) : n \in 1..(IF sz = 1 THEN 4 ELSE 6) }
                \cup (IF sz = 1 THEN PatternsOfLenFew(5) \cup PatternsOfLenFew(6) ELSE {})
PatRow(b) == LET d == VbiDecode(b)
             IN [bytes |-> b, expect |-> IF d.ok THEN "value" ELSE "reject", v |-> d.v, n |-> d.n, why |-> d.why]
VbiTable(sz) ==
  [ patterns   |-> SetToSeq({ PatRow(b) : b \in Patterns(sz) }),
    enc        |-> SetToSeq({ [v |-> v, bytes |-> Vbi(v),
                               subid |-> IF v >= 1 THEN PropBlock(<<PN(11, v)>>) ELSE <<>>] : v \in NearBoundaries }),
    thresholds |-> [k \in 1..4 |-> VbiRange(k)] ]

-----------------------------------------------------------------------------
(* Shards *)
ShardOf(seq, k) == LET n == Len(seq) IN [j \in 1..((n - k + NShards) \div NShards) |-> seq[k + (j - 1) * NShards]]
Res(r) == [ok |-> r.ok, why |-> r.why, where |-> IF r.ok THEN "" ELSE r.where, pkt |-> IF r.ok THEN Normalize(CanonPkt(r.pkt)) ELSE Pkt(0, 0)]

(* JOB c42: every encoding of every packet a client may send, with the packet the sender meant *)
C42Packets == IF Job # "c42" THEN <<>> ELSE SetToSeq({ p \in AllDom(ClientTypes, {4, 5}, Size) : ClientMay(p) })
C42Rows(k) ==
  LET ps == ShardOf(C42Packets, k)
  IN Flat([i \in 1..Len(ps) |->
        LET p == ps[i]
            es == SetToSeq(Encodings(p))
        IN [j \in 1..Len(es) |-> [id |-> k * 1000000 + i * 100 + j, t |-> p.type, ver |-> p.ver, bytes |-> es[j],
                                  forms |-> Len(es), exp |-> Normalize(p)]]])
C42Work(k) ==
  LET ps == ShardOf(C42Packets, k)
  IN /\ \A i \in 1..Len(ps) : RoundTrips(ps[i]) /\ (Len(ps[i].props) > 1 \/ \A e \in Encodings(ps[i]) : PrefixesFail(e, ps[i].ver))
     /\ LET rows == C42Rows(k)
        IN JsonSerialize(OutFile \o "." \o ToString(k) \o ".json", rows) /\ PrintT(<<"ROWS", k, Len(rows), Len(ps)>>)

(* JOB c26: packets of every type and version with the complete set of permitted encodings.           *)
(* mode: how the encoder is asked to suppress (packets.Mods): "plain" | "noresp" (response information *)
(* not allowed) | "noproblem" (problem information not wanted) | "maxsize" (packet size limit msz).   *)
(* qs = the packets the output may denote, encs[i] = [b: bytes, q: index into qs]; big = TRUE when the *)
(* orders of the properties are too many to enumerate: then encs holds the canonical order only and   *)
(* the output is judged by Parse (job judge).                                                         *)
Without(ps, ids) == SelectSeq(ps, LAMBDA pr : pr.id \notin ids)
HasAny(ps, ids) == \E i \in 1..Len(ps) : ps[i].id \in ids
C26Base == IF Job # "c26" THEN {} ELSE AllDom(Types, {3, 4, 5}, Size) \cup UNION { DomPublishServer(v) \cup DomBig(t, v) : t \in Types, v \in {3, 4, 5} }
IsBig(p) == Len(p.props) + Len(p.cn.wprops) > 4        \* too many orders to enumerate
(* the packets equivalent to q that differ from it by leaving out properties that carry their default *)
DefaultIx(ps) == {i \in 1..Len(ps) : IsDefault(ps[i])}
DropIx(ps, D) == LET keep == SetToSortSeq((1..Len(ps)) \ D, <) IN [i \in 1..Len(keep) |-> ps[keep[i]]]
Variants(q) == { [q EXCEPT !.props = DropIx(q.props, D), !.cn.wprops = DropIx(q.cn.wprops, E)]
                   : D \in SUBSET DefaultIx(q.props), E \in SUBSET DefaultIx(q.cn.wprops) }
ProblemVariants(p) ==      \* [MQTT-3.1.2-29]: mandatory except on CONNACK / DISCONNECT, where it is optional
  IF p.type \in {CONNACK, DISCONNECT}
    THEN <<[p EXCEPT !.props = Without(@, {31, 38})], p, [p EXCEPT !.props = Without(@, {31})], [p EXCEPT !.props = Without(@, {38})]>>
    ELSE <<[p EXCEPT !.props = Without(@, {31, 38})]>>
(* a case: p = what the encoder is given, us = the packets its output may denote (before Normalize) *)
C26Cases ==
  IF Job # "c26" THEN <<>> ELSE SetToSeq(
     { [p |-> p, mode |-> "plain", msz |-> 0, us |-> <<p>>] : p \in C26Base }
     \cup { [p |-> p, mode |-> "noresp", msz |-> 0, us |-> <<[p EXCEPT !.props = Without(@, {8, 9, 26})]>>]
              : p \in { q \in C26Base : HasAny(q.props, {8, 9, 26}) /\ ~IsBig(q) } }
     \cup { [p |-> p, mode |-> "noproblem", msz |-> 0, us |-> ProblemVariants(p)]
              : p \in { q \in C26Base : q.type \notin {CONNECT, PUBLISH} /\ HasAny(q.props, {31, 38}) /\ ~IsBig(q) /\ Plain(PropBody(q.props)) } }
     \cup { [p |-> p, mode |-> "maxsize", msz |-> m,
             us |-> <<p, [p EXCEPT !.props = Without(@, {31})], [p EXCEPT !.props = Without(@, {38})], [p EXCEPT !.props = Without(@, {31, 38})]>>]
              : p \in { q \in C26Base : q.type \in {PUBACK, DISCONNECT, SUBACK} /\ HasAny(q.props, {31, 38}) /\ ~IsBig(q) /\ Len(q.props) <= 2 /\ Plain(PropBody(q.props)) },
                m \in {12, 16, 20} })
C26EncList(c) ==
  LET mk(i) == { [b |-> e, q |-> i] : e \in (IF IsBig(c.us[i]) THEN {} ELSE UNION { Encodings(v) : v \in Variants(c.us[i]) }) }
  IN SetToSeq(UNION { mk(i) : i \in 1..Len(c.us) })
C26Rows(k) ==
  LET cs == ShardOf(C26Cases, k)
  IN [i \in 1..Len(cs) |-> [id |-> k * 1000000 + i, p |-> cs[i].p, mode |-> cs[i].mode, msz |-> cs[i].msz,
                            qs |-> [j \in 1..Len(cs[i].us) |-> Normalize(cs[i].us[j])],
                            big |-> IsBig(cs[i].p), encs |-> C26EncList(cs[i])]]
C26Work(k) ==
  LET cs == ShardOf(C26Cases, k)
  IN /\ \A i \in 1..Len(cs) : cs[i].mode = "plain" /\ ~IsBig(cs[i].p) =>
          RoundTrips(cs[i].p) /\ \A v \in Variants(cs[i].p) : Assert(Equiv(v, cs[i].p), <<"Variants", v>>)
     /\ JsonSerialize(OutFile \o "." \o ToString(k) \o ".json", C26Rows(k))
     /\ PrintT(<<"ROWS", k, Len(cs), Len(cs)>>)

(* JOB c27: structured corruptions of valid encodings, each with the verdict of Parse under MQTT 3.1.1 *)
(* and MQTT 5.  kinds: "cut" (the packet cut after c bytes, fixed header untouched), "prefix" (the body *)
(* cut after c bytes, remaining length adjusted), "u16+1" / "vbi+1" (a length field incremented),      *)
(* "cont" (continuation bit set on the last byte of a variable byte integer).                          *)
C27Bases ==
  IF Job # "c27" THEN <<>> ELSE
  LET all == SetToSeq(UNION { Encodings(p) : p \in { q \in AllDom(Types, {4, 5}, Size) : Len(q.props) <= 2 } })
      n == Len(all)
  IN [j \in 1..((n - Offset + Stride - 1) \div Stride) |-> all[1 + Offset + (j - 1) * Stride]]
HeaderLen(e) == 1 + VbiDecode(SubSeq(e, 2, Len(e))).n
Reframe(e, body) == Frame(e[1], body)
IncU16(e, pos) == LET v == (e[pos + 1] * 256 + e[pos + 2] + 1) % 65536
                  IN SubSeq(e, 1, pos) \o U16(v) \o SubSeq(e, pos + 3, Len(e))
IncVbi(e, pos, w) == LET v == VbiDecode(SubSeq(e, pos + 1, pos + w)).v
                     IN SubSeq(e, 1, pos) \o Vbi(v + 1) \o SubSeq(e, pos + w + 1, Len(e))
SetCont(e, pos, w) == [e EXCEPT ![pos + w] = @ + 128]
Corruptions(e, ver) ==
  LET h == HeaderLen(e)
      body == SubSeq(e, h + 1, Len(e))
      marks == Parse(e, ver).marks
  IN { [kind |-> "cut", c |-> k, bytes |-> SubSeq(e, 1, k)] : k \in 0..(Len(e) - 1) }
     \cup { [kind |-> "prefix", c |-> k, bytes |-> Reframe(e, SubSeq(body, 1, k))] : k \in 0..(Len(body) - 1) }
     \cup { [kind |-> "u16+1", c |-> marks[i].pos, bytes |-> IncU16(e, marks[i].pos)] : i \in {j \in 1..Len(marks) : marks[j].k = "u16"} }
     \cup { [kind |-> "vbi+1", c |-> marks[i].pos, bytes |-> IncVbi(e, marks[i].pos, marks[i].w)] : i \in {j \in 1..Len(marks) : marks[j].k = "vbi"} }
     \cup { [kind |-> "cont", c |-> marks[i].pos, bytes |-> SetCont(e, marks[i].pos, marks[i].w)] : i \in {j \in 1..Len(marks) : marks[j].k = "vbi"} }
C27Rows(k) ==
  LET bs == ShardOf(C27Bases, k)
  IN Flat([i \in 1..Len(bs) |->
        LET e == bs[i]
            v == IF Parse(e, 5).ok THEN 5 ELSE 4            \* a version under which the base is valid
            cs == SetToSeq(Corruptions(e, v))
        IN [j \in 1..Len(cs) |-> [id |-> k * 1000000 + i * 1000 + j, base |-> e, kind |-> cs[j].kind, c |-> cs[j].c,
                                  bytes |-> cs[j].bytes, e4 |-> Res(Parse(cs[j].bytes, 4)), e5 |-> Res(Parse(cs[j].bytes, 5))]]])
C27Work(k) ==
  /\ \A i \in 1..Len(ShardOf(C27Bases, k)) : Assert(Plain(ShardOf(C27Bases, k)[i]), "run in a c27 base")
  /\ LET rows == C27Rows(k)
     IN JsonSerialize(OutFile \o "." \o ToString(k) \o ".json", rows) /\ PrintT(<<"ROWS", k, Len(rows), Len(ShardOf(C27Bases, k))>>)

(* JOB judge (use C): rows recorded from the real code.                                              *)
(*   [id, op = "equiv", exp, got]          are the two abstract packets equivalent?                   *)
(*   [id, op = "parse", bytes, ver, exp]   what does the byte string denote, is it equivalent to exp? *)
JudgeIn == IF Job = "judge" THEN ndJsonDeserialize(InFile) ELSE <<>>
Judge(row) ==
  IF row.op = "equiv"
    THEN [id |-> row.id, op |-> "equiv", equiv |-> Equiv(row.exp, row.got), res |-> Res(Fail("n/a"))]
    ELSE LET r == Parse(row.bytes, row.ver)
         IN [id |-> row.id, op |-> "parse", equiv |-> r.ok /\ Equiv(CanonPkt(r.pkt), row.exp), res |-> Res(r)]
JudgeWork(k) ==
  LET rows == ShardOf(JudgeIn, k)
  IN /\ JsonSerialize(OutFile \o "." \o ToString(k) \o ".json", [i \in 1..Len(rows) |-> Judge(rows[i])])
     /\ PrintT(<<"ROWS", k, Len(rows), Len(rows)>>)

(* JOB thm: the theorems alone, on the whole domain of the given size (design check) *)
ThmPackets == IF Job # "thm" THEN <<>> ELSE SetToSeq(AllDom(Types, {3, 4, 5}, Size) \cup UNION { DomPublishServer(v) \cup { q \in DomBig(t, v) : ~IsBig(q) } : t \in Types, v \in {3, 4, 5} })
ThmWork(k) ==
  LET ps == ShardOf(ThmPackets, k)
  IN /\ \A i \in 1..Len(ps) : RoundTrips(ps[i])
     /\ \A i \in 1..Len(ps) : (Len(ps[i].props) <= 1 /\ Plain(CHOOSE e \in Encodings(ps[i]) : TRUE)) => \A e \in Encodings(ps[i]) : PrefixesFail(e, ps[i].ver)
     /\ k = 1 => VbiTheorems /\ NoSharedEncoding(Dom(PUBACK, 5, 1) \cup Dom(DISCONNECT, 5, 1))
     /\ PrintT(<<"ROWS", k, Len(ps), Len(ps)>>)

VbiWork(k) == /\ Assert(VbiTheorems, "VbiTheorems")
              /\ LET t == VbiTable(Size)
                 IN JsonSerialize(OutFile \o "." \o ToString(k) \o ".json", t) /\ PrintT(<<"ROWS", k, Len(t.patterns), Len(t.enc)>>)

Work(k) == CASE Job = "vbi"   -> VbiWork(k)
             [] Job = "c42"   -> C42Work(k)
             [] Job = "c26"   -> C26Work(k)
             [] Job = "c27"   -> C27Work(k)
             [] Job = "judge" -> JudgeWork(k)
             [] Job = "thm"   -> ThmWork(k)

VARIABLES ph, sh
vars == <<ph, sh>>
Init == ph = 0 /\ sh = 0
Next == \/ ph = 0 /\ ph' = 1 /\ sh' \in 1..NShards
        \/ ph = 1 /\ ph' = 2 /\ sh' = sh /\ Work(sh)
Spec == Init /\ [][Next]_vars
(* every shard finished: the run is complete only if all NShards states with ph = 2 exist; the runner *)
(* checks that NShards output files / ROWS lines were produced.                                       *)
TypeOK == ph \in 0..2 /\ sh \in 0..NShards
================================================================================
