SPECIFICATION Spec
CONSTANTS
  C <- Clients3
  Dev <- NoDev
  MaxHist = 100
INVARIANT DumpInv
CHECK_DEADLOCK FALSE
