---- MODULE TopicIndexConc_TTrace_1790035155 ----
EXTENDS Sequences, TLCExt, Toolbox, Naturals, TLC, TopicIndexConc

_expression ==
    LET TopicIndexConc_TEExpression == INSTANCE TopicIndexConc_TEExpression
    IN TopicIndexConc_TEExpression!expression
----

_trace ==
    LET TopicIndexConc_TETrace == INSTANCE TopicIndexConc_TETrace
    IN TopicIndexConc_TETrace!trace
----

_inv ==
    ~(
        TLCGet("level") = Len(_TETrace)
        /\
        cur = (<<[op |-> "nil"], [op |-> "nil"]>>)
        /\
        hist = (<<[ret |-> 2, op |-> "sub", who |-> "c1", x |-> <<"a">>, p |-> "", r |-> 1, inv |-> 1, g |-> 1, k |-> 1], [ret |-> 4, op |-> "unsub", who |-> "c2", x |-> <<"a">>, p |-> "", r |-> 1, inv |-> 3, g |-> 1, k |-> 2]>>)
        /\
        pc = (<<"idle", "idle">>)
        /\
        obj = ([subs |-> {[kind |-> "client", who |-> "c1", f |-> <<"a">>]}, ret |-> <<>>])
        /\
        clock = (5)
        /\
        order = (<<<<1, 1>>, <<1, 2>>>>)
    )
----

_init ==
    /\ cur = _TETrace[1].cur
    /\ clock = _TETrace[1].clock
    /\ pc = _TETrace[1].pc
    /\ hist = _TETrace[1].hist
    /\ obj = _TETrace[1].obj
    /\ order = _TETrace[1].order
----

_next ==
    /\ \E i,j \in DOMAIN _TETrace:
        /\ \/ /\ j = i + 1
              /\ i = TLCGet("level")
        /\ cur  = _TETrace[i].cur
        /\ cur' = _TETrace[j].cur
        /\ clock  = _TETrace[i].clock
        /\ clock' = _TETrace[j].clock
        /\ pc  = _TETrace[i].pc
        /\ pc' = _TETrace[j].pc
        /\ hist  = _TETrace[i].hist
        /\ hist' = _TETrace[j].hist
        /\ obj  = _TETrace[i].obj
        /\ obj' = _TETrace[j].obj
        /\ order  = _TETrace[i].order
        /\ order' = _TETrace[j].order

\* Uncomment the ASSUME below to write the states of the error trace
\* to the given file in Json format. Note that you can pass any tuple
\* to `JsonSerialize`. For example, a sub-sequence of _TETrace.
    \* ASSUME
    \*     LET J == INSTANCE Json
    \*         IN J!JsonSerialize("TopicIndexConc_TTrace_1790035155.json", _TETrace)

=============================================================================

 Note that you can extract this module `TopicIndexConc_TEExpression`
  to a dedicated file to reuse `expression` (the module in the 
  dedicated `TopicIndexConc_TEExpression.tla` file takes precedence 
  over the module `TopicIndexConc_TEExpression` below).

---- MODULE TopicIndexConc_TEExpression ----
EXTENDS Sequences, TLCExt, Toolbox, Naturals, TLC, TopicIndexConc

expression == 
    [
        \* To hide variables of the `TopicIndexConc` spec from the error trace,
        \* remove the variables below.  The trace will be written in the order
        \* of the fields of this record.
        cur |-> cur
        ,clock |-> clock
        ,pc |-> pc
        ,hist |-> hist
        ,obj |-> obj
        ,order |-> order
        
        \* Put additional constant-, state-, and action-level expressions here:
        \* ,_stateNumber |-> _TEPosition
        \* ,_curUnchanged |-> cur = cur'
        
        \* Format the `cur` variable as Json value.
        \* ,_curJson |->
        \*     LET J == INSTANCE Json
        \*     IN J!ToJson(cur)
        
        \* Lastly, you may build expressions over arbitrary sets of states by
        \* leveraging the _TETrace operator.  For example, this is how to
        \* count the number of times a spec variable changed up to the current
        \* state in the trace.
        \* ,_curModCount |->
        \*     LET F[s \in DOMAIN _TETrace] ==
        \*         IF s = 1 THEN 0
        \*         ELSE IF _TETrace[s].cur # _TETrace[s-1].cur
        \*             THEN 1 + F[s-1] ELSE F[s-1]
        \*     IN F[_TEPosition - 1]
    ]

=============================================================================



Parsing and semantic processing can take forever if the trace below is long.
 In this case, it is advised to uncomment the module below to deserialize the
 trace from a generated binary file.

\*
\*---- MODULE TopicIndexConc_TETrace ----
\*EXTENDS IOUtils, TLC, TopicIndexConc
\*
\*trace == IODeserialize("TopicIndexConc_TTrace_1790035155.bin", TRUE)
\*
\*=============================================================================
\*

---- MODULE TopicIndexConc_TETrace ----
EXTENDS TLC, TopicIndexConc

trace == 
    <<
    ([cur |-> <<[op |-> "nil"], [op |-> "nil"]>>,hist |-> <<>>,pc |-> <<"idle", "idle">>,obj |-> [subs |-> {}, ret |-> <<>>],clock |-> 1,order |-> <<>>]),
    ([cur |-> <<[ret |-> 0, op |-> "sub", who |-> "c1", x |-> <<"a">>, p |-> "", r |-> 0, inv |-> 1, g |-> 1, k |-> 1], [op |-> "nil"]>>,hist |-> <<>>,pc |-> <<"invoked", "idle">>,obj |-> [subs |-> {}, ret |-> <<>>],clock |-> 2,order |-> <<>>]),
    ([cur |-> <<[ret |-> 0, op |-> "sub", who |-> "c1", x |-> <<"a">>, p |-> "", r |-> 1, inv |-> 1, g |-> 1, k |-> 1], [op |-> "nil"]>>,hist |-> <<>>,pc |-> <<"effected", "idle">>,obj |-> [subs |-> {[kind |-> "client", who |-> "c1", f |-> <<"a">>]}, ret |-> <<>>],clock |-> 2,order |-> <<<<1, 1>>>>]),
    ([cur |-> <<[op |-> "nil"], [op |-> "nil"]>>,hist |-> <<[ret |-> 2, op |-> "sub", who |-> "c1", x |-> <<"a">>, p |-> "", r |-> 1, inv |-> 1, g |-> 1, k |-> 1]>>,pc |-> <<"idle", "idle">>,obj |-> [subs |-> {[kind |-> "client", who |-> "c1", f |-> <<"a">>]}, ret |-> <<>>],clock |-> 3,order |-> <<<<1, 1>>>>]),
    ([cur |-> <<[ret |-> 0, op |-> "unsub", who |-> "c2", x |-> <<"a">>, p |-> "", r |-> 0, inv |-> 3, g |-> 1, k |-> 2], [op |-> "nil"]>>,hist |-> <<[ret |-> 2, op |-> "sub", who |-> "c1", x |-> <<"a">>, p |-> "", r |-> 1, inv |-> 1, g |-> 1, k |-> 1]>>,pc |-> <<"invoked", "idle">>,obj |-> [subs |-> {[kind |-> "client", who |-> "c1", f |-> <<"a">>]}, ret |-> <<>>],clock |-> 4,order |-> <<<<1, 1>>>>]),
    ([cur |-> <<[ret |-> 0, op |-> "unsub", who |-> "c2", x |-> <<"a">>, p |-> "", r |-> 1, inv |-> 3, g |-> 1, k |-> 2], [op |-> "nil"]>>,hist |-> <<[ret |-> 2, op |-> "sub", who |-> "c1", x |-> <<"a">>, p |-> "", r |-> 1, inv |-> 1, g |-> 1, k |-> 1]>>,pc |-> <<"effected", "idle">>,obj |-> [subs |-> {[kind |-> "client", who |-> "c1", f |-> <<"a">>]}, ret |-> <<>>],clock |-> 4,order |-> <<<<1, 1>>, <<1, 2>>>>]),
    ([cur |-> <<[op |-> "nil"], [op |-> "nil"]>>,hist |-> <<[ret |-> 2, op |-> "sub", who |-> "c1", x |-> <<"a">>, p |-> "", r |-> 1, inv |-> 1, g |-> 1, k |-> 1], [ret |-> 4, op |-> "unsub", who |-> "c2", x |-> <<"a">>, p |-> "", r |-> 1, inv |-> 3, g |-> 1, k |-> 2]>>,pc |-> <<"idle", "idle">>,obj |-> [subs |-> {[kind |-> "client", who |-> "c1", f |-> <<"a">>]}, ret |-> <<>>],clock |-> 5,order |-> <<<<1, 1>>, <<1, 2>>>>])
    >>
----


=============================================================================

---- CONFIG TopicIndexConc_TTrace_1790035155 ----
CONSTANTS
    Procs = { 1 , 2 }
    MaxOps = 2
    Alphabet <- SmallAlphabet
    Bug = TRUE
    Allowed <- NoDeviation

INVARIANT
    _inv

CHECK_DEADLOCK
    \* CHECK_DEADLOCK off because of PROPERTY or INVARIANT above.
    FALSE

INIT
    _init

NEXT
    _next

CONSTANT
    _TETrace <- _trace

ALIAS
    _expression
=============================================================================
\* Generated on Mon Sep 21 23:59:18 UTC 2026