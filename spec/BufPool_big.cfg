\* design config (thorough tier): capped pool (cap 2 of sizes 0..3), 3 buffers, 2 holders - all invariants must hold
SPECIFICATION Spec
CONSTANTS
  Buffers = {b1, b2, b3}
  Holders = {g1, g2}
  Cap = 2
  Sizes = {0, 1, 2, 3}
  GetRemoves = TRUE
  PutResets = TRUE
  PutChecksCap = TRUE
INVARIANTS TypeOK NoSharing HandedOutEmpty CapRespected Intact NoLeakInModel
