------------------------------ MODULE GenWsStream ------------------------------
(* C39, use (B): TLC enumerates the segmentations of a two-packet MQTT byte stream - a CONNECT *)
(* (MQTT 3.1.1, empty client id, clean session, keepalive 60: 14 bytes) followed by a PINGREQ  *)
(* (2 bytes) - into WebSocket binary messages: every subset of the 15 cut positions with at    *)
(* most VERIF_MAXCUTS cuts (15 = ALL 32768 segmentations: the CONNECT split anywhere, the      *)
(* PINGREQ glued to it or not, or split itself).  For each it writes the frames and the byte   *)
(* stream the reader on the broker side must see according to WsStream.tla (Stream(msgs)),     *)
(* for the read-buffer sizes 1, 2 and 4096 alike.                                              *)
EXTENDS Naturals, Sequences, FiniteSets, TLC, Json, IOUtils, SequencesExt

WS == INSTANCE WsStream WITH Bytes <- 0..255, MaxMsgs <- 16, MaxLen <- 16, ReadSizes <- {1, 2, 4096},
                             DropRest <- FALSE, AcceptText <- FALSE,
                             msgs <- <<>>, cur <- 0, pos <- 0, delivered <- <<>>, ended <- FALSE

MaxCuts == atoi(IOEnv.VERIF_MAXCUTS)
Connect == <<16, 12, 0, 4, 77, 81, 84, 84, 4, 2, 0, 60, 0, 0>>
PingReq == <<192, 0>>
Bytes16 == Connect \o PingReq
N == Len(Bytes16)

CutSets == {c \in SUBSET (1..(N - 1)) : Cardinality(c) <= MaxCuts}

(* the frames obtained by cutting after each position in c *)
Bounds(c) == SetToSortSeq(c \cup {0, N}, <)
Frames(c) == LET b == Bounds(c) IN [i \in 1..(Len(b) - 1) |-> SubSeq(Bytes16, b[i] + 1, b[i + 1])]
AsMsgs(fs) == [i \in 1..Len(fs) |-> [kind |-> "bin", data |-> fs[i]]]

Row(c) == [cuts |-> SetToSortSeq(c, <), frames |-> Frames(c), stream |-> WS!Stream(AsMsgs(Frames(c)))]
Rows == {Row(c) : c \in CutSets}

ASSUME /\ JsonSerialize(IOEnv.VERIF_OUT, SetToSeq(Rows))
       /\ PrintT(<<"ROWS", Cardinality(Rows)>>)
(* by WsStream every segmentation yields the same stream *)
ASSUME \A r \in Rows : r.stream = Bytes16

VARIABLE x
Init == x = 0
Next == UNCHANGED x
================================================================================
