------------------------------ MODULE GenOutPath ------------------------------
(* Behaviours of OutPath.tla (the code as it stands: Dev = {}) as schedules for the runner       *)
(* harness/driver/outpath.go: run with tlc -simulate; every state of a behaviour overwrites the   *)
(* file of its behaviour, so the file finally holds the longest prefix.                           *)
EXTENDS MC_OutPath, Json, IOUtils

OutDir == IOEnv.VERIF_OUT
MinLen == atoi(IOEnv.VERIF_MINLEN)

DumpInv ==
    IF Len(hist) >= MinLen
      THEN JsonSerialize(OutDir \o "/b_" \o ToString(TLCGet("stats").traces) \o ".json", [cap |-> Cap, hist |-> hist])
      ELSE TRUE
===============================================================================
