SPECIFICATION Spec
CONSTANTS
  C <- Clients3
  Dev <- NoDev
  MaxHist = 0
VIEW view
INVARIANTS TypeOK NoneLeftOpen
PROPERTY StopsAccepting
CHECK_DEADLOCK FALSE
