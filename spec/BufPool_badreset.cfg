\* faulty pool (Put without Reset): TLC must refute HandedOutEmpty
SPECIFICATION Spec
CONSTANTS
  Buffers = {b1, b2, b3}
  Holders = {g1, g2}
  Cap = 1
  Sizes = {0, 1, 2}
  GetRemoves = TRUE
  PutResets = FALSE
  PutChecksCap = TRUE
INVARIANTS TypeOK NoSharing HandedOutEmpty CapRespected Intact NoLeakInModel
