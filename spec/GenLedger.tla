------------------------------- MODULE GenLedger -------------------------------
(* Case tables for the auth ledger (use B of DESIGN 2.2): TLC enumerates small ledgers of a    *)
(* family (VERIF_JOB in {user, global, auth}) with a fixed battery of queries and writes, for  *)
(* every query, the verdicts the property permits.  VERIF_STRIDE/VERIF_OFFSET subsample the    *)
(* ledger set for the quick tier.                                                              *)
EXTENDS Ledger, TLC, Json, IOUtils, SequencesExt, FiniteSetsExt

Job    == IOEnv.VERIF_JOB
Out    == IOEnv.VERIF_OUT
Stride == atoi(IOEnv.VERIF_STRIDE)
Offset == atoi(IOEnv.VERIF_OFFSET)

S(a) == a   \* strings written as tuples of characters below
C1 == <<"c", "1">>    C2 == <<"c", "2", "x">>   D1 == <<"d", "1">>
U1 == <<"u", "1">>    U2 == <<"u", "2">>
R1 == <<"r", "1", ".", "9">>   R2 == <<"q", "7">>
PW == <<"p", "w">>    PX == <<"p", "x">>
AnyP == <<>>   Star == <<"*">>   CStar == <<"c", "*">>   RStar == <<"r", "1", "*">>   PStar == <<"p", "*">>

Acc == 0..3
AB == <<"a", "b">>   APlus == <<"a", "+">>   AHash == <<"a", "#">>   PlusB == <<"+", "b">>   Hash == <<"#">>   A == <<"a">>
Topics == {<<"a", "b">>, <<"a", "b", "c">>, <<"a">>, <<"b">>, <<"a", "">>}

Entry(f, a) == [f |-> f, a |-> a]
(* filter maps with at most two (distinct) filters *)
FilterMaps(Fs) == {<<>>} \cup {<<Entry(f, a)>> : f \in Fs, a \in Acc}
                  \cup {<<Entry(f, a), Entry(g, b)>> : f \in Fs, g \in Fs, a \in Acc, b \in Acc}
FLess(f, g) == Len(f) < Len(g) \/ (Len(f) = Len(g) /\ \E i \in 1..Len(f) : f[i] # g[i] /\ (f[i] = "a" \/ (f[i] = "+" /\ g[i] # "a") \/ (f[i] = "b" /\ g[i] = "#")) /\ \A j \in 1..(i-1) : f[j] = g[j])
FilterMapsOK(Fs) == {m \in FilterMaps(Fs) : Len(m) < 2 \/ FLess(m[1].f, m[2].f)}

Clients == {[id |-> i, un |-> u, rm |-> r] : i \in {C1, C2, D1}, u \in {U1, U2}, r \in {R1, R2}}
SmallClients == {[id |-> C1, un |-> U1, rm |-> R1], [id |-> D1, un |-> U2, rm |-> R2], [id |-> C2, un |-> U1, rm |-> R2]}

AclRule(cl, un, rm, fs) == [cl |-> cl, un |-> un, rm |-> rm, fs |-> fs]
AuthRule(cl, un, rm, pw, allow) == [cl |-> cl, un |-> un, rm |-> rm, pw |-> pw, allow |-> allow]
User(n, pw, dis, acl) == [name |-> n, pw |-> pw, dis |-> dis, acl |-> acl]

(* ---- family "user": one user u1 with every filter map of <= 2 filters, a few global tails *)
GlobalTails == {<<>>, <<AclRule(AnyP, AnyP, AnyP, <<Entry(AHash, 0)>>)>>, <<AclRule(AnyP, U1, AnyP, <<Entry(Hash, 1)>>)>>}
UserLedgers == {[users |-> <<User(U1, PW, FALSE, m)>>, auth |-> <<>>, acl |-> g]
                   : m \in FilterMapsOK({AB, APlus, AHash, PlusB, Hash, A}), g \in GlobalTails}

(* ---- family "global": no users, every sequence of <= 2 rules of a rule set                 *)
RuleFilters == {<<>>} \cup {<<Entry(f, a)>> : f \in {AB, APlus}, a \in Acc}
               \cup {<<Entry(AHash, 0)>>, <<Entry(AHash, 3)>>, <<Entry(AHash, 0), Entry(AB, 3)>>,
                     <<Entry(Hash, 1), Entry(APlus, 2)>>, <<Entry(AB, 1), Entry(APlus, 2)>>, <<Entry(AB, 0), Entry(APlus, 3)>>}
RuleSet == {AclRule(cl, un, AnyP, fs) : cl \in {AnyP, CStar}, un \in {AnyP, U1}, fs \in RuleFilters}
           \cup {AclRule(AnyP, AnyP, RStar, <<Entry(AHash, 0)>>), AclRule(C1, AnyP, RStar, <<>>)}
RuleSeqs == {<<>>} \cup {<<r>> : r \in RuleSet} \cup {<<r, s>> : r \in RuleSet, s \in RuleSet}
GlobalLedgers == {[users |-> <<>>, auth |-> <<>>, acl |-> rs] : rs \in RuleSeqs}

(* ---- family "auth"                                                                          *)
AuthRuleSet == {AuthRule(cl, un, AnyP, pw, al) : cl \in {AnyP, CStar}, un \in {AnyP, U1}, pw \in {AnyP, PW, PStar}, al \in BOOLEAN}
               \cup {AuthRule(AnyP, AnyP, RStar, AnyP, al) : al \in BOOLEAN}
AuthSeqs == {<<>>} \cup {<<r>> : r \in AuthRuleSet} \cup {<<r, s>> : r \in AuthRuleSet, s \in AuthRuleSet}
AuthUsers == {<<>>, <<User(U1, PW, FALSE, <<>>)>>, <<User(U1, PW, TRUE, <<>>)>>, <<User(U1, <<>>, FALSE, <<>>)>>,
              <<User(U2, PX, FALSE, <<>>), User(U1, PW, FALSE, <<>>)>>}
AuthLedgers == {[users |-> us, auth |-> rs, acl |-> <<>>] : us \in AuthUsers, rs \in AuthSeqs}

QClients == SmallClients \cup {[id |-> D1, un |-> U1, rm |-> R1]}

Pick(Set) == LET sq == SetToSeq(Set) IN {sq[i] : i \in {j \in 1..Len(sq) : j % Stride = Offset % Stride}}

AclQueries(L, Cs) == SetToSeq({[c |-> c, t |-> t, w |-> w, ok |-> SetToSeq(AclPermitted(L, c, t, w))]
                                 : c \in Cs, t \in Topics, w \in BOOLEAN})
AuthQueries(L) == SetToSeq({[c |-> c, pw |-> pw, ok |-> <<AuthDecision(L, c, pw)>>] : c \in QClients, pw \in {PW, PX, <<>>}})

Rows == CASE Job = "user"   -> {[led |-> L, kind |-> "acl", qs |-> AclQueries(L, SmallClients)] : L \in Pick(UserLedgers)}
          [] Job = "global" -> {[led |-> L, kind |-> "acl", qs |-> AclQueries(L, QClients)] : L \in Pick(GlobalLedgers)}
          [] Job = "auth"   -> {[led |-> L, kind |-> "auth", qs |-> AuthQueries(L)] : L \in Pick(AuthLedgers)}

ASSUME LedgerTheorems
ASSUME /\ JsonSerialize(Out, SetToSeq(Rows))
       /\ PrintT(<<"ROWS", Cardinality(Rows)>>)

VARIABLE x
Init == x = 0
Next == UNCHANGED x
=================================================================================
