SPECIFICATION Spec
POSTCONDITION Done
CHECK_DEADLOCK FALSE
