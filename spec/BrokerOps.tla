------------------------------- MODULE BrokerOps -------------------------------
(* Pure operators of the reference broker: who must receive a publish, with which attributes,   *)
(* what the retained store becomes, which acknowledgement answers which request, when a session  *)
(* may be discarded, ...  They are used by the design model (MqttBroker.tla, checked by TLC      *)
(* against the listed properties) and by the trace specification (TraceBroker.tla, which judges  *)
(* recorded executions of the real broker), so both speak about the same definitions.            *)
(*                                                                                               *)
(* Abstract shapes                                                                               *)
(*   subscription  [c, kind ("client"|"shared"|"inline"), g, f (levels), qos, nl, rap, rh, id]   *)
(*   a set `subs` of subscriptions is the routing state                                          *)
EXTENDS MqttTopics, Integers, TLC

MinOf(a, b) == IF a <= b THEN a ELSE b
MaxOf(a, b) == IF a >= b THEN a ELSE b
MaxIn(S)    == CHOOSE x \in S : \A y \in S : y <= x
MinIn(S)    == CHOOSE x \in S : \A y \in S : x <= y

(* packet types *)
CONNECT == 1   CONNACK == 2   PUBLISH == 3   PUBACK == 4   PUBREC == 5   PUBREL == 6   PUBCOMP == 7
SUBSCRIBE == 8 SUBACK == 9    UNSUBSCRIBE == 10 UNSUBACK == 11 PINGREQ == 12 PINGRESP == 13
DISCONNECT == 14 AUTH == 15

IsFailure(rc) == rc >= 128

(* ------------------------------------------------------------------ routing (C03, C06, C17) *)
MatchingSubs(subs, t) == {s \in subs : Matches(s.f, t)}

(* clients entitled through a NON-shared subscription: matching, readable, not excluded by     *)
(* No Local (a subscription-level option: one matching subscription without it suffices).      *)
EntitledPlain(subs, origin, t, CanRead(_)) ==
    {d \in {s.c : s \in {x \in MatchingSubs(subs, t) : x.kind = "client"}} :
        /\ CanRead(d)
        /\ \E s \in MatchingSubs(subs, t) : s.kind = "client" /\ s.c = d /\ ~(s.nl /\ d = origin)}

(* a shared subscription (in the MQTT sense) is the pair (share name, filter)                  *)
SharedGroups(subs, t) == {<<s.g, s.f>> : s \in {x \in MatchingSubs(subs, t) : x.kind = "shared"}}
GroupMembers(subs, G, CanRead(_)) ==
    {d \in {s.c : s \in {x \in subs : x.kind = "shared" /\ x.g = G[1] /\ x.f = G[2]}} : CanRead(d)}

(* every way of choosing one member per matching shared subscription that has a member         *)
SharedChoices(subs, t, CanRead(_)) ==
    LET Gs == {G \in SharedGroups(subs, t) : GroupMembers(subs, G, CanRead) # {}}
    IN  {ch \in [Gs -> UNION {GroupMembers(subs, G, CanRead) : G \in Gs}] :
             \A G \in Gs : ch[G] \in GroupMembers(subs, G, CanRead)}
ChosenSet(ch) == {ch[G] : G \in DOMAIN ch}

InlineMatching(subs, t) == {s.id : s \in {x \in MatchingSubs(subs, t) : x.kind = "inline"}}

(* ------------------------------------------------------------------ delivery attributes (C04) *)
(* the subscriptions of client d that account for a delivery of topic t, given the chosen       *)
(* shared members                                                                               *)
AccountingSubs(subs, d, t, chosenGroups) ==
    {s \in MatchingSubs(subs, t) : s.c = d /\
         (s.kind = "client" \/ (s.kind = "shared" /\ <<s.g, s.f>> \in chosenGroups))}

DeliveredQos(pubQos, subQoss, maxQos) == MinOf(MinOf(pubQos, MaxIn(subQoss)), maxQos)
GrantedQos(req, maxQos) == MinOf(req, maxQos)
IdsOf(S) == {s.id : s \in {x \in S : x.id > 0}}

(* ------------------------------------------------------------------ retained store (C05)     *)
(* retained is a function topic-string -> message id                                            *)
RetainedAfter(retained, ts, m, emptyPayload, retainAvail) ==
    IF retainAvail = 0 THEN retained
    ELSE IF emptyPayload THEN [x \in DOMAIN retained \ {ts} |-> retained[x]]
    ELSE [x \in DOMAIN retained \cup {ts} |-> IF x = ts THEN m ELSE retained[x]]

ReplayWanted(kind, rh, existed) == kind # "shared" /\ (rh = 0 \/ (rh = 1 /\ ~existed))

(* ------------------------------------------------------------------ acknowledgements (C07)   *)
ResponseType(reqType, qos) ==
    CASE reqType = PUBLISH /\ qos = 1 -> PUBACK
      [] reqType = PUBLISH /\ qos = 2 -> PUBREC
      [] reqType = PUBREL      -> PUBCOMP
      [] reqType = SUBSCRIBE   -> SUBACK
      [] reqType = UNSUBSCRIBE -> UNSUBACK
      [] reqType = PINGREQ     -> PINGRESP
      [] OTHER -> 0

(* ------------------------------------------------------------------ sessions (C14, C15)      *)
(* effective expiry interval of a disconnected session                                          *)
SessionExpiry(v, clean, seiFlag, sei, serverMax) ==
    IF v = 5 THEN MinOf(sei, serverMax)          \* absent property = 0
    ELSE IF clean THEN 0 ELSE serverMax
EndsAtDisconnect(v, clean, sei) == (v = 5 /\ sei = 0) \/ (v < 5 /\ clean)

(* ------------------------------------------------------------------ message expiry (C25)     *)
EffectiveExpiry(pubInterval, serverMax) ==
    IF pubInterval = 0 THEN serverMax
    ELSE IF serverMax = 0 THEN pubInterval
    ELSE MinOf(pubInterval, serverMax)
=================================================================================
