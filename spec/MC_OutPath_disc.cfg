SPECIFICATION Spec
CONSTANTS
  Cap = 2
  Buf = 24
  MaxPub = 3
  MaxDir = 1
  Sizes <- SizesAll
  Dev <- NoDev
  EnvOn <- EnvDisc
  MaxHist = 60
VIEW view
INVARIANTS TypeOK OneWriter LockHeld Flushed SentOnWire NoDup Accounted NoGhost Ordered LastIsDisconnect DisconnectWritten
CHECK_DEADLOCK FALSE
