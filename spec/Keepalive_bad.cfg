\* faulty server: closes after 4 quarters (K + K/2 in whole seconds for K = 1): TLC must refute ClosedOnlyWhenIdle
SPECIFICATION Spec
CONSTANTS
  K = 1
  Gaps = {5, 7}
  MaxLen = 4
  LimitQ = 4
  Slack = 0
  Observe = 8
INVARIANTS TypeOK ClosedOnlyWhenIdle OpenOnlyWhileFresh ZeroNeverCloses
CHECK_DEADLOCK FALSE
