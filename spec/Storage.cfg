SPECIFICATION PSpec
CONSTANTS
  Clients = {"a", "a:b"}
  Filters = {"c", "b:c"}
  Msgs = {"m1", "m2"}
  Dev = {}
  MaxOps = 5
  MaxConn = 3
  MaxSub = 2
  MaxPub = 2
INVARIANTS RestoreFaithful CrashConsistent StoreIsReplay
CHECK_DEADLOCK FALSE
