SPECIFICATION TSpec
CONSTANTS
  MaxPub = 1000
  Dev = {}
  MaxHist = 100000
POSTCONDITION Done
CHECK_DEADLOCK FALSE
