-------------------------------- MODULE Storage --------------------------------
(* Persistence of broker state (properties C20, C21, C22).                                      *)
(*                                                                                              *)
(* PART 1 (module StorageKV, extended here) - the key/value store.  `store` is a function Key -> Value.  There is one operator    *)
(*   per storage-hook event: PutClient, DelClient, PutSub, DelSub, PutRetained, DelRetained,    *)
(*   PutInflight, DelInflight, PutSys; each is ONE atomic write.  The key function is a         *)
(*   parameter (`mode`): "tuple" is the injective reference key <<kind, <<id, suffix>>>>;       *)
(*   "concat" is the code's  prefix + id + ":" + suffix  string, for which ("a:b","c") and      *)
(*   ("a","b:c") collide.  ReadBack(store) is what StoredClients / StoredSubscriptions /        *)
(*   StoredRetainedMessages / StoredInflightMessages / StoredSysInfo must return.               *)
(*   ApplyEvent maps one recorded hook call (established, disconnect, subscribed, ...) to the   *)
(*   writes it must perform.  `dev` is a set of named deviations from the reference.            *)
(*                                                                                              *)
(* PART 2 - the persistence protocol of a broker (sessions, subscriptions, retained messages,   *)
(*   in-flight messages; connect / subscribe / publish / acknowledge / disconnect / takeover /  *)
(*   expiry / shutdown+restart / crash), as a state machine over abstract memory `mem`, the     *)
(*   store and one common log of writes and client-visible acknowledgements.  Reference:        *)
(*   persist-before-acknowledge, writes of a superseded connection object never touch the       *)
(*   store.  Properties: RestoreFaithful (C20), CrashConsistent (C21).  Model-checked with      *)
(*   Storage.cfg (reference: both hold) and Storage_dev.cfg (each deviation: TLC shows the      *)
(*   loss).  The operators Load, Replay, Required* are also used by the trace specifications    *)
(*   TraceStorage20 / TraceStorage21 which judge runs of the real broker.                       *)
EXTENDS StorageKV

--------------------------------------------------------------------------------
(* PART 2: the persistence protocol                                                             *)
(*                                                                                              *)
(* Dev is the set of enabled deviations from the reference (each is one defect of the pinned    *)
(* code, see /verif/known_findings.d/storage.json):                                             *)
(*   FlagsNotPersisted   the "has an expiry interval" flag of a session is not written          *)
(*   NoMsgExpiry         the expiry of a retained message is not written                        *)
(*   ConcatKeys          key = id ":" suffix string instead of the tuple                        *)
(*   StoreRefused        a refused SUBSCRIBE is written (failure code as qos) and loaded        *)
(*   OrphanSubs          Load subscribes records whose client has no loaded session; session    *)
(*                       expiry deletes only the client record                                  *)
(*   TakeoverDeletesLive a resuming takeover deletes the in-flight records (same keys as the    *)
(*                       live session's) on behalf of the superseded object, re-puts them after *)
(*                       the CONNACK                                                            *)
(*   ZombieRewrite       the superseded object's teardown rewrites the client record            *)
(*   NoPacketID          in-flight records are written without packet id                        *)
(*   AckBeforePersist    the publisher's PUBACK precedes the subscribers' in-flight writes      *)
CONSTANTS Clients, Filters, Msgs, Dev, MaxOps, MaxConn, MaxSub, MaxPub

VARIABLES sess, subs, ret, inf, store, log, zomb, nops, nconn, nsub, npub
pvars == <<sess, subs, ret, inf, store, log, zomb, nops, nconn, nsub, npub>>

Mode   == IF "ConcatKeys" \in Dev THEN "concat" ELSE "tuple"
NoSess == [kind |-> "none", inc |-> 0, online |-> FALSE]
NoMsg  == [m |-> "", exp |-> FALSE]
Kinds2 == {"temp", "keepexp"}            \* temp: ends with the connection; keepexp: persistent with an expiry interval
Persistent(k) == k = "keepexp"

(* ---- records as written ---- *)
CRec(kind)  == [persist |-> Persistent(kind), seif |-> IF "FlagsNotPersisted" \in Dev THEN FALSE ELSE Persistent(kind)]
SRec(c, f, q) == [c |-> c, f |-> f, q |-> q]
RRec(t, v)  == [t |-> t, m |-> v.m, exp |-> IF "NoMsgExpiry" \in Dev THEN FALSE ELSE v.exp]
IRec(c, pid, m) == [c |-> c, pid |-> IF "NoPacketID" \in Dev THEN 0 ELSE pid, m |-> m]
IKeyPid(pid) == IF "NoPacketID" \in Dev THEN pid ELSE pid     \* the KEY always carries the pid (as in the code)

(* ---- log entries ---- *)
Wr(t, c, x, rec, live, harm) == [k |-> "w", t |-> t, c |-> c, x |-> x, rec |-> rec, live |-> live, harm |-> harm]
Ack(a, c, x, m, ok) == [k |-> "a", a |-> a, c |-> c, x |-> x, m |-> m, ok |-> ok]
OpE(o, c, x, m, flag, cs) == [k |-> "op", o |-> o, c |-> c, x |-> x, m |-> m, flag |-> flag, cs |-> cs]

ApplyWrite(st, w) ==
    CASE w.t = "PutClient"   -> PutClient(st, Mode, w.c, w.rec)
      [] w.t = "DelClient"   -> DelClient(st, Mode, w.c)
      [] w.t = "PutSub"      -> PutSub(st, Mode, w.c, w.x, w.rec)
      [] w.t = "DelSub"      -> DelSub(st, Mode, w.c, w.x)
      [] w.t = "PutRetained" -> PutRetained(st, Mode, w.x, w.rec)
      [] w.t = "DelRetained" -> DelRetained(st, Mode, w.x)
      [] w.t = "PutInflight" -> PutInflight(st, Mode, w.c, w.x, w.rec)
      [] w.t = "DelInflight" -> DelInflight(st, Mode, w.c, w.x)

RECURSIVE ApplyAll(_, _, _)
ApplyAll(st, es, i) == IF i > Len(es) THEN st
                       ELSE ApplyAll(IF es[i].k = "w" THEN ApplyWrite(st, es[i]) ELSE st, es, i + 1)

Writes(es) == SelectSeq(es, LAMBDA e : e.k = "w")
(* position in es of write number n+1 (Len+1 if there is none): everything before it happened before the crash *)
RECURSIVE PosOfWrite(_, _, _, _)
PosOfWrite(es, n, i, seen) == IF i > Len(es) THEN Len(es) + 1
                              ELSE IF es[i].k = "w" THEN (IF seen = n THEN i ELSE PosOfWrite(es, n, i + 1, seen + 1))
                              ELSE PosOfWrite(es, n, i + 1, seen)
Prefix(es, n) == SubSeq(es, 1, PosOfWrite(es, n, 1, 0) - 1)
(* the store that survives a crash after the n-th write (CrashAt(n)) *)
Replay(es, n) == ApplyAll(EmptyStore, Prefix(es, n), 1)

(* ---- Load = readStore: clients first (non-persistent ones dropped), then subscriptions, in-flight, retained ---- *)
Load(st) ==
    LET cl == {k \in KeysOf(st, "CL") : st[k].persist}
        ids == {c \in Clients : ClientKey(Mode, c) \in cl}
        srecs == {r \in ValuesOf(st, "SUB") : r.q < 128 \/ "StoreRefused" \in Dev}
    IN [sess |-> [c \in Clients |-> IF c \in ids THEN [persist |-> TRUE, seif |-> st[ClientKey(Mode, c)].seif] ELSE [persist |-> FALSE, seif |-> FALSE]],
        has  |-> ids,
        subs |-> {<<r.c, r.f, r.q>> : r \in {x \in srecs : x.c \in ids \/ "OrphanSubs" \in Dev}},
        inf  |-> {<<r.c, r.pid, r.m>> : r \in {x \in ValuesOf(st, "IFM") : x.c \in ids}},
        ret  |-> [t \in Filters |-> IF RetKey(Mode, t) \in DOMAIN st THEN [m |-> st[RetKey(Mode, t)].m, exp |-> st[RetKey(Mode, t)].exp] ELSE NoMsg]]

(* the projection of the abstract memory that Load must reproduce (sessions that are persistent) *)
Project(se, su, re, in) ==
    LET ids == {c \in Clients : se[c].kind # "none" /\ Persistent(se[c].kind)}
    IN [sess |-> [c \in Clients |-> IF c \in ids THEN [persist |-> TRUE, seif |-> TRUE] ELSE [persist |-> FALSE, seif |-> FALSE]],
        has  |-> ids,
        subs |-> {<<s[1], s[2], 1>> : s \in {x \in su : x[1] \in ids}},
        inf  |-> {i \in in : i[1] \in ids},
        ret  |-> re]

(* ---- the writes that end the session of c (reference: everything keyed by c) ---- *)
SetToSeqD(S) == IF S = {} THEN <<>> ELSE LET RECURSIVE F(_) F(T) == IF T = {} THEN <<>> ELSE LET x == CHOOSE y \in T : TRUE IN <<x>> \o F(T \ {x}) IN F(S)
EndWrites(c, live, harm) ==
    <<Wr("DelClient", c, "", <<>>, live, harm)>>
    \o [i \in 1..Len(SetToSeqD({s \in subs : s[1] = c})) |-> Wr("DelSub", c, SetToSeqD({s \in subs : s[1] = c})[i][2], <<>>, live, harm)]
    \o [i \in 1..Len(SetToSeqD({x \in inf : x[1] = c})) |-> Wr("DelInflight", c, SetToSeqD({x \in inf : x[1] = c})[i][2], <<>>, live, harm)]

Emit(es) == /\ log' = log \o es
            /\ store' = ApplyAll(store, es, 1)

Budget == nops < MaxOps
Tick == nops' = nops + 1

(* ---- actions ---- *)
(* a client connects while no connection with its id is open; clean = discard any stored session *)
Connect(c, kind, clean) ==
    /\ Budget /\ nconn < MaxConn /\ ~sess[c].online
    /\ LET resume == ~clean /\ sess[c].kind # "none"
           drop == IF resume THEN <<>> ELSE SubSeq(EndWrites(c, TRUE, FALSE), 2, Len(EndWrites(c, TRUE, FALSE)))
       IN /\ sess' = [sess EXCEPT ![c] = [kind |-> kind, inc |-> sess[c].inc + 1, online |-> TRUE]]
          /\ subs' = IF resume THEN subs ELSE {s \in subs : s[1] # c}
          /\ inf'  = IF resume THEN inf ELSE {x \in inf : x[1] # c}
          /\ Emit(<<OpE("connect", c, "", kind, resume, {})>> \o drop
                  \o <<Wr("PutClient", c, "", CRec(kind), TRUE, FALSE), Ack("connack", c, "", "", resume)>>)
    /\ Tick /\ nconn' = nconn + 1 /\ UNCHANGED <<ret, zomb, nsub, npub>>

(* a second connection with the id of an open one: the old connection object is superseded *)
Takeover(c, kind, clean) ==
    /\ Budget /\ nconn < MaxConn /\ sess[c].online
    /\ LET resume == ~clean /\ Persistent(sess[c].kind)
           mine == SetToSeqD({x \in inf : x[1] = c})
           drop == IF resume THEN <<>> ELSE SubSeq(EndWrites(c, TRUE, FALSE), 2, Len(EndWrites(c, TRUE, FALSE)))
           dels == IF resume /\ "TakeoverDeletesLive" \in Dev
                   THEN [i \in 1..Len(mine) |-> Wr("DelInflight", c, mine[i][2], <<>>, FALSE, TRUE)] ELSE <<>>
           puts == IF resume /\ "TakeoverDeletesLive" \in Dev
                   THEN [i \in 1..Len(mine) |-> Wr("PutInflight", c, mine[i][2], IRec(c, mine[i][2], mine[i][3]), TRUE, FALSE)] ELSE <<>>
       IN /\ sess' = [sess EXCEPT ![c] = [kind |-> kind, inc |-> sess[c].inc + 1, online |-> TRUE]]
          /\ zomb' = zomb \cup {[c |-> c, kind |-> sess[c].kind, inc |-> sess[c].inc]}
          /\ subs' = IF resume THEN subs ELSE {s \in subs : s[1] # c}
          /\ inf'  = IF resume THEN inf ELSE {x \in inf : x[1] # c}
          /\ IF "TakeoverDeletesLive" \in Dev
             THEN Emit(<<OpE("connect", c, "", kind, resume, {})>> \o drop \o dels \o <<Ack("connack", c, "", "", resume)>> \o puts
                       \o <<Wr("PutClient", c, "", CRec(kind), TRUE, FALSE)>>)
             ELSE Emit(<<OpE("connect", c, "", kind, resume, {})>> \o drop
                       \o <<Wr("PutClient", c, "", CRec(kind), TRUE, FALSE), Ack("connack", c, "", "", resume)>>)
    /\ Tick /\ nconn' = nconn + 1 /\ UNCHANGED <<ret, nsub, npub>>

(* the superseded connection object finishes its teardown (any time later); the reference writes nothing *)
ZombieTeardown(z) ==
    /\ z \in zomb /\ zomb' = zomb \ {z}
    /\ IF "ZombieRewrite" \in Dev
       THEN Emit(<<Wr("PutClient", z.c, "", CRec(z.kind), FALSE, TRUE)>>)
       ELSE UNCHANGED <<log, store>>
    /\ UNCHANGED <<sess, subs, ret, inf, nops, nconn, nsub, npub>>

Subscribe(c, f) ==
    /\ Budget /\ nsub < MaxSub /\ sess[c].online
    /\ subs' = subs \cup {<<c, f>>}
    /\ Emit(<<OpE("subscribe", c, f, "", TRUE, {}), Wr("PutSub", c, f, SRec(c, f, 1), TRUE, FALSE), Ack("suback", c, f, "", TRUE)>>)
    /\ Tick /\ nsub' = nsub + 1 /\ UNCHANGED <<sess, ret, inf, zomb, nconn, npub>>

(* a SUBSCRIBE the broker refuses (not authorised): nothing is subscribed *)
SubscribeRefused(c, f) ==
    /\ Budget /\ nsub < MaxSub /\ sess[c].online /\ <<c, f>> \notin subs
    /\ Emit(<<OpE("subscribe", c, f, "", FALSE, {})>>
            \o (IF "StoreRefused" \in Dev THEN <<Wr("PutSub", c, f, SRec(c, f, 135), TRUE, FALSE)>> ELSE <<>>)
            \o <<Ack("suback", c, f, "", FALSE)>>)
    /\ Tick /\ nsub' = nsub + 1 /\ UNCHANGED <<sess, subs, ret, inf, zomb, nconn, npub>>

Unsubscribe(c, f) ==
    /\ Budget /\ sess[c].online /\ <<c, f>> \in subs
    /\ subs' = subs \ {<<c, f>>}
    /\ Emit(<<OpE("unsubscribe", c, f, "", TRUE, {}), Wr("DelSub", c, f, <<>>, TRUE, FALSE), Ack("unsuback", c, f, "", TRUE)>>)
    /\ Tick /\ UNCHANGED <<sess, ret, inf, zomb, nconn, nsub, npub>>

NextMsg == CHOOSE m \in Msgs : \A m2 \in Msgs : (m2 \in {x[3] : x \in inf} \cup {ret[t].m : t \in Filters}) \/ m <= m2 \/ m2 = m

(* a QoS 1 retained publish (with a message expiry interval), acknowledged to the publisher *)
PublishRetained(t, m) ==
    /\ Budget /\ npub < MaxPub
    /\ ret' = [ret EXCEPT ![t] = [m |-> m, exp |-> TRUE]]
    /\ Emit(<<OpE("pubret", "", t, m, TRUE, {}), Wr("PutRetained", "", t, RRec(t, [m |-> m, exp |-> TRUE]), TRUE, FALSE), Ack("puback", "", t, m, TRUE)>>)
    /\ Tick /\ npub' = npub + 1 /\ UNCHANGED <<sess, subs, inf, zomb, nconn, nsub>>

(* a QoS 1 publish: one in-flight message per subscription of a persistent or online session, then the publisher's PUBACK *)
FreePid(c) == CHOOSE p \in 1..(Cardinality(Msgs) + 1) : \A x \in inf : ~(x[1] = c /\ x[2] = p)
PublishQos(t, m) ==
    /\ Budget /\ npub < MaxPub /\ \E s \in subs : s[2] = t
    /\ LET rcv == SetToSeqD({s[1] : s \in {x \in subs : x[2] = t}})
           new == {<<rcv[i], FreePid(rcv[i]), m>> : i \in 1..Len(rcv)}
           ws  == [i \in 1..Len(rcv) |-> Wr("PutInflight", rcv[i], FreePid(rcv[i]), IRec(rcv[i], FreePid(rcv[i]), m), TRUE, FALSE)]
       IN /\ inf' = inf \cup new
          /\ IF "AckBeforePersist" \in Dev
             THEN Emit(<<OpE("pubqos", "", t, m, TRUE, {}), Ack("puback", "", t, m, TRUE)>> \o ws)
             ELSE Emit(<<OpE("pubqos", "", t, m, TRUE, {})>> \o ws \o <<Ack("puback", "", t, m, TRUE)>>)
    /\ Tick /\ npub' = npub + 1 /\ UNCHANGED <<sess, subs, ret, zomb, nconn, nsub>>

(* the receiving client acknowledges a delivery *)
AckDelivery(x) ==
    /\ Budget /\ x \in inf /\ sess[x[1]].online
    /\ inf' = inf \ {x}
    /\ Emit(<<OpE("ackdel", x[1], x[2], x[3], TRUE, {}), Wr("DelInflight", x[1], x[2], <<>>, TRUE, FALSE)>>)
    /\ Tick /\ UNCHANGED <<sess, subs, ret, zomb, nconn, nsub, npub>>

Disconnect(c) ==
    /\ Budget /\ sess[c].online
    /\ IF Persistent(sess[c].kind)
       THEN /\ sess' = [sess EXCEPT ![c].online = FALSE]
            /\ Emit(<<OpE("disconnect", c, "", "", TRUE, {})>>)
            /\ UNCHANGED <<subs, inf>>
       ELSE /\ sess' = [sess EXCEPT ![c] = NoSess]
            /\ subs' = {s \in subs : s[1] # c} /\ inf' = {x \in inf : x[1] # c}
            /\ Emit(<<OpE("disconnect", c, "", "", FALSE, {})>> \o EndWrites(c, TRUE, FALSE))
    /\ Tick /\ UNCHANGED <<ret, zomb, nconn, nsub, npub>>

(* the session expiry interval of every offline session has passed *)
ExpiryTick ==
    /\ Budget /\ \E c \in Clients : sess[c].kind # "none" /\ ~sess[c].online
    /\ LET ex == {c \in Clients : sess[c].kind # "none" /\ ~sess[c].online}
           exs == SetToSeqD(ex)
           RECURSIVE WS(_)
           WS(i) == IF i > Len(exs) THEN <<>>
                    ELSE (IF "OrphanSubs" \in Dev THEN <<Wr("DelClient", exs[i], "", <<>>, TRUE, FALSE)>> ELSE EndWrites(exs[i], TRUE, FALSE)) \o WS(i + 1)
       IN /\ sess' = [c \in Clients |-> IF c \in ex THEN NoSess ELSE sess[c]]
          /\ subs' = {s \in subs : s[1] \notin ex} /\ inf' = {x \in inf : x[1] \notin ex}
          /\ Emit(<<OpE("expiry", "", "", "", TRUE, ex)>> \o WS(1))
    /\ Tick /\ UNCHANGED <<ret, zomb, nconn, nsub, npub>>

PInit == /\ sess = [c \in Clients |-> NoSess] /\ subs = {} /\ ret = [t \in Filters |-> NoMsg] /\ inf = {}
         /\ store = EmptyStore /\ log = <<>> /\ zomb = {} /\ nops = 0 /\ nconn = 0 /\ nsub = 0 /\ npub = 0

PNext == \/ \E c \in Clients, k \in Kinds2, clean \in BOOLEAN : Connect(c, k, clean) \/ Takeover(c, k, clean)
         \/ \E z \in zomb : ZombieTeardown(z)
         \/ \E c \in Clients, f \in Filters : Subscribe(c, f) \/ SubscribeRefused(c, f) \/ Unsubscribe(c, f)
         \/ \E t \in Filters, m \in Msgs : PublishRetained(t, m) \/ PublishQos(t, m)
         \/ \E x \in inf : AckDelivery(x)
         \/ \E c \in Clients : Disconnect(c)
         \/ ExpiryTick

PSpec == PInit /\ [][PNext]_pvars

(* ---- RestoreFaithful (C20): shut down now (every open connection is dropped), restart: memory := Load(store) ---- *)
ShutdownLog ==
    LET on == SetToSeqD({c \in Clients : sess[c].online /\ ~Persistent(sess[c].kind)})
        RECURSIVE WS(_)
        WS(i) == IF i > Len(on) THEN <<>> ELSE EndWrites(on[i], TRUE, FALSE) \o WS(i + 1)
    IN WS(1)
RestoreFaithful ==
    LET gone == {c \in Clients : sess[c].online /\ ~Persistent(sess[c].kind)}
        se == [c \in Clients |-> IF c \in gone THEN NoSess ELSE sess[c]]
        su == {s \in subs : s[1] \notin gone}
        in == {x \in inf : x[1] \notin gone}
    IN Load(ApplyAll(store, ShutdownLog, 1)) = Project(se, su, ret, in)

(* ---- CrashConsistent (C21) ---- *)
(* obligations after a prefix of the log: what a client was told and has not been removed since *)
Req0 == [subs |-> {}, inf |-> {}, ret |-> [t \in Filters |-> [acked |-> "", later |-> {}]], persist |-> [c \in Clients |-> FALSE]]
ReqStep(R, e) ==
    CASE e.k = "op" /\ e.o = "connect" ->
            \* a connection that does not resume, or that makes the session end with the connection, releases the obligations
            LET keep == e.flag /\ Persistent(e.m) IN
            [R EXCEPT !.subs = IF keep THEN @ ELSE {s \in @ : s[1] # e.c}, !.inf = IF keep THEN @ ELSE {x \in @ : x[1] # e.c}]
      [] e.k = "w" /\ e.t = "PutClient" /\ e.live -> [R EXCEPT !.persist[e.c] = e.rec.persist]
      [] e.k = "op" /\ e.o = "subscribe" -> [R EXCEPT !.subs = @ \ {<<e.c, e.x>>}]
      [] e.k = "a" /\ e.a = "suback" /\ e.ok /\ R.persist[e.c] -> [R EXCEPT !.subs = @ \cup {<<e.c, e.x>>}]
      [] e.k = "op" /\ e.o = "unsubscribe" -> [R EXCEPT !.subs = @ \ {<<e.c, e.x>>}]
      [] e.k = "op" /\ e.o = "disconnect" /\ ~e.flag -> [R EXCEPT !.subs = {s \in @ : s[1] # e.c}, !.inf = {x \in @ : x[1] # e.c}]
      [] e.k = "op" /\ e.o = "expiry" -> [R EXCEPT !.subs = {s \in @ : s[1] \notin e.cs}, !.inf = {x \in @ : x[1] \notin e.cs}]
      [] e.k = "op" /\ e.o = "pubret" -> [R EXCEPT !.ret[e.x].later = @ \cup {e.m}]
      [] e.k = "a" /\ e.a = "puback" /\ \E i \in 1..1 : TRUE ->
            [R EXCEPT !.ret = IF e.m \in R.ret[e.x].later THEN [@ EXCEPT ![e.x] = [acked |-> e.m, later |-> {}]] ELSE @,
                      !.inf = IF e.m \in R.ret[e.x].later THEN @ ELSE @ \cup {<<s[1], e.m>> : s \in {y \in R.subs : y[2] = e.x}}]
      [] e.k = "op" /\ e.o = "ackdel" -> [R EXCEPT !.inf = @ \ {<<e.c, e.m>>}]
      [] OTHER -> R
RECURSIVE ReqOf(_, _, _)
ReqOf(R, es, i) == IF i > Len(es) THEN R ELSE ReqOf(ReqStep(R, es[i]), es, i + 1)

Consistent(M, R, es) ==
    /\ \A s \in R.subs : <<s[1], s[2], 1>> \in M.subs /\ s[1] \in M.has                   \* acknowledged subscriptions restored, with their session
    /\ \A t \in Filters : M.ret[t].m \in {R.ret[t].acked} \cup R.ret[t].later            \* acknowledged retained message restored
    /\ \A x \in R.inf : \E i \in M.inf : i[1] = x[1] /\ i[3] = x[2]                       \* acknowledged, undelivered message restored
    /\ \A s \in M.subs : s[1] \in M.has                                                   \* nothing a Clean Start 1 connection cannot discard
    /\ \A i \in 1..Len(es) : es[i].k = "w" => ~es[i].harm                                 \* no superseded write on a live key

CrashConsistent ==
    \A n \in 0..Len(Writes(log)) : Consistent(Load(Replay(log, n)), ReqOf(Req0, Prefix(log, n), 1), Prefix(log, n))

(* the store is always the replay of all writes (sanity of the bookkeeping) *)
StoreIsReplay == store = Replay(log, Len(Writes(log)))
================================================================================
