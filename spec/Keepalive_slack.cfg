\* design config: more gaps, a server that may be one quarter late
SPECIFICATION Spec
CONSTANTS
  K = 1
  Gaps = {3, 5, 7, 9}
  MaxLen = 4
  LimitQ = 6
  Slack = 1
  Observe = 8
INVARIANTS TypeOK ClosedOnlyWhenIdle OpenOnlyWhileFresh ZeroNeverCloses
CHECK_DEADLOCK FALSE
