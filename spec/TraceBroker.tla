------------------------------ MODULE TraceBroker ------------------------------
(* Trace specification of the broker: judges recorded executions of the real mochi-mqtt broker  *)
(* (harness/driver) against the reference rules of BrokerOps.tla, one trace line = one step     *)
(* (one client packet or environment event followed by quiescence).                             *)
(*                                                                                               *)
(* Each line carries the operation, every packet the broker wrote per connection (decoded by an *)
(* independent codec), hook events and the projection `st` of the broker state after the step.  *)
(* The pre-state of line l is the projection logged on line l-1, so every step is judged as one *)
(* transition from the real pre-state to the real post-state (the specification never drifts    *)
(* away from the implementation after a recorded deviation). Protocol-level history that the    *)
(* broker state cannot be trusted to hold (what is unacknowledged, which QoS 2 ids are open,    *)
(* which aliases a connection has seen, ...) lives in the ghost variable g, computed from the   *)
(* wire only.                                                                                   *)
(*                                                                                               *)
(* Rules are grouped by the property that governs them; Params.enforce selects which groups are *)
(* judged in this run (attribution: a check for property P enforces P's rules only).            *)
(* Complaints do not stop the run: they are collected and written to VERIF_OUT.                 *)
EXTENDS BrokerOps, Sequences, FiniteSets, SequencesExt, FiniteSetsExt, Json, IOUtils

Trace   == ndJsonDeserialize(IOEnv.VERIF_TRACE)
Params  == JsonDeserialize(IOEnv.VERIF_PARAMS)
OutFile == IOEnv.VERIF_OUT
Enforce == ToSet(Params.enforce)
T(tag)  == tag \in Enforce

VARIABLES l, cfg, g, bad, nbad
vars == <<l, cfg, g, bad, nbad>>

(* ------------------------------------------------------------------ helpers *)
Get(f, k, d) == IF k \in DOMAIN f THEN f[k] ELSE d
Put(f, k, v) == [x \in DOMAIN f \cup {k} |-> IF x = k THEN v ELSE f[x]]
Del(f, k)    == [x \in DOMAIN f \ {k} |-> f[x]]
Cmp(rule, c, m, x) == <<[rule |-> rule, c |-> c, m |-> m, x |-> x]>>
If(cond, s) == IF cond THEN s ELSE <<>>
RECURSIVE Cat(_)
Cat(ss) == IF ss = <<>> THEN <<>> ELSE Head(ss) \o Cat(Tail(ss))
ForAll(S, F(_)) == LET sq == SetToSeq(S) IN Cat([n \in 1..Len(sq) |-> F(sq[n])])
RECURSIVE JoinL(_)
JoinL(t) == IF t = <<>> THEN "" ELSE IF Len(t) = 1 THEN t[1] ELSE t[1] \o "/" \o JoinL(Tail(t))
Count(s, P(_)) == Len(SelectSeq(s, P))

EmptySt == [clients |-> <<>>, trie |-> <<>>, ret_paths |-> <<>>, retained |-> <<>>, delayed |-> <<>>,
            info |-> [connected |-> 0, subscriptions |-> 0, retained |-> 0, inflight |-> 0,
                      inflight_dropped |-> 0, messages_dropped |-> 0, clients_total |-> 0], now |-> 0]

IsFirst(i) == i = 1 \/ Trace[i].ev = "Config"
Pre(i)  == IF IsFirst(i) THEN EmptySt ELSE Trace[i - 1].st
PreConns(i) == IF IsFirst(i) THEN <<>> ELSE Trace[i - 1].conns

Clients(st)      == ToSet(st.clients)
HasClient(st, c) == \E x \in Clients(st) : x.id = c
ClientRec(st, c) == CHOOSE x \in Clients(st) : x.id = c
Subs(st)         == ToSet(st.trie)
SubsOf(st, c)    == {s \in Subs(st) : s.c = c /\ s.kind # "inline"}
InflightOf(st, c) == IF HasClient(st, c) THEN ToSet(ClientRec(st, c).inflight) ELSE {}
Online(st, c)    == HasClient(st, c) /\ ~ClientRec(st, c).closed /\ ClientRec(st, c).k # ""
RetainedSet(st)  == ToSet(st.retained)
RetainedTopics(st) == {r.ts : r \in RetainedSet(st)}
RetainedMsg(st, ts) == (CHOOSE r \in RetainedSet(st) : r.ts = ts).m

HasConn(cs, k)  == \E x \in ToSet(cs) : x.k = k
ConnRec(cs, k)  == CHOOSE x \in ToSet(cs) : x.k = k
ConnOpen(cs, k) == HasConn(cs, k) /\ ~ConnRec(cs, k).done /\ ~ConnRec(cs, k).eof /\ ~ConnRec(cs, k).dropped

OutOf(e, k) == IF k \in DOMAIN e.out THEN e.out[k] ELSE <<>>
PktsTo(e, d) == Cat([i \in 1..Len(e.conns) |-> IF e.conns[i].c = d THEN OutOf(e, e.conns[i].k) ELSE <<>>])
PublishesOf(e, d, m) == SelectSeq(PktsTo(e, d), LAMBDA p : p.t = PUBLISH /\ p.m = m)
Hooks(e) == ToSet(e.hooks)
Hooked(e, h, c, m) == \E x \in Hooks(e) : x.h = h /\ x.c = c /\ x.m = m

CanRead(c, ts)  == <<c, ts>> \notin ToSet(cfg.deny_read)
CanWrite(c, ts) == <<c, ts>> \notin ToSet(cfg.deny_write)
SysTopic(t)     == t # <<>> /\ t[1] = "$SYS"
ValidPubTopic(t) == t # <<>> /\ t # <<"">> /\ (\A i \in 1..Len(t) : ~Wild(t[i])) /\ ~SysTopic(t)
ValidFilterLevels(f) ==
    /\ f # <<>> /\ f # <<"">>
    /\ \A i \in 1..Len(f) : f[i] = "#" => i = Len(f)
    /\ f[1] = "$share" => (Len(f) >= 3 /\ f[2] # "" /\ ~Wild(f[2]) /\ ~(Len(f) = 3 /\ f[3] = ""))
IsSharedF(f) == f # <<>> /\ f[1] = "$share"
InnerF(f) == IF IsSharedF(f) THEN SubSeq(f, 3, Len(f)) ELSE f

AllClientIds(e) == {x.c : x \in ToSet(e.conns)} \cup {x.id : x \in Clients(e.st)}
NoScripts == cfg.scripted = <<>>

(* ================================================================== ghost state *)
(* q2in   : client -> set of packet ids of QoS 2 publishes received and not yet released        *)
(* unacked: client -> set of [pid, m, qos, phase] of QoS>0 PUBLISHes seen on the wire and not    *)
(*          yet acknowledged by the client (phase "pub" | "rel")                                 *)
(* txed   : client -> set of message ids transmitted to it at least once                         *)
(* connack: connection -> number of CONNACKs seen; first: connection -> type of first packet     *)
(* discd  : set of connections that were sent a DISCONNECT                                       *)
(* ackd   : client -> set of message ids whose delivery the client has completely acknowledged  *)
(* pubidx : message id -> [idx, origin, ts] in publish order (C12)                               *)
(* seen   : connections that have been sent at least one packet; connacks: connection -> count   *)
(* rm/tam : connection -> Receive Maximum / Topic Alias Maximum the client declared              *)
(* will   : connection -> registered will [c, m, t, ts, qos, retain, delay, v] ; pendw: client -> *)
(*          delayed will waiting [m, t, ts, qos, retain, due] ; nowill: will messages that must   *)
(*          never be published any more ; aliasOut / aliasIn: connection -> (alias -> topic)      *)
GhostInit == [q2in |-> <<>>, unacked |-> <<>>, txed |-> <<>>, ackd |-> <<>>, pubidx |-> <<>>, npub |-> 0,
              seen |-> {}, connacks |-> <<>>, discd |-> {}, rm |-> <<>>, tam |-> <<>>, mps |-> <<>>,
              will |-> <<>>, pendw |-> <<>>, nowill |-> {}, willsent |-> {}, aliasOut |-> <<>>, aliasIn |-> <<>>,
              expm |-> <<>>, deadR |-> {}, deadI |-> {}, dsdel |-> <<>>, resentOn |-> {},
              sdr |-> {}, rdr |-> {}, clob |-> <<>>, wipedw |-> {}, rpi |-> <<>>, subG |-> <<>>, optG |-> <<>>, stq |-> <<>>, inlG |-> {}, subL |-> <<>>]

(* ================================================================== publications of a step *)
Qos2Open(c, pid) == pid \in Get(g.q2in, c, {})

(* A client PUBLISH is accepted for routing iff its connection is open, the topic is a valid    *)
(* publish topic, the client may write to it, it does not retransmit an open QoS 2 exchange,    *)
(* and no scripted hook interferes (C19's histories are judged by their own rules).              *)
PubAccepted(i) ==
    LET e == Trace[i] IN
    /\ e.ev = "publish" /\ e.err = "" /\ ~e.a.notopic /\ e.a.alias = 0
    /\ ConnOpen(PreConns(i), e.k)
    /\ ValidPubTopic(e.a.t)
    /\ CanWrite(e.c, JoinL(e.a.t))
    /\ ~(e.a.qos = 2 /\ Qos2Open(e.c, e.a.pid))
    /\ ClientRec(Pre(i), e.c).recvq > 0
    /\ NoScripts

(* the publication a step performs, as [origin, t, ts, qos, retain, m, ct, rt, cd, up] or none  *)
(* (a client QoS 1 PUBLISH reusing the id of its own open QoS 2 exchange is client misbehaviour:   *)
(*  such steps are not judged by the routing rules)                                              *)
IsPubStep(i) == /\ Trace[i].ev \in {"publish", "inline_publish"} /\ Trace[i].err = ""
                /\ ~(Trace[i].ev = "publish" /\ Trace[i].a.qos = 1 /\ Qos2Open(Trace[i].c, Trace[i].a.pid))
PubOf(i) ==
    LET e == Trace[i] IN
    [origin |-> IF e.ev = "inline_publish" THEN "inline" ELSE e.c, t |-> e.a.t, ts |-> JoinL(e.a.t),
     qos |-> MinOf(e.a.qos, cfg.max_qos), retain |-> e.a.retain, m |-> e.a.m,
     ct |-> e.a.ct, rt |-> e.a.rt, cd |-> e.a.cd, up |-> e.a.up, inline |-> e.ev = "inline_publish"]
Routed(i) == IF Trace[i].ev = "inline_publish" THEN Trace[i].err = "" ELSE PubAccepted(i)

(* did session d take delivery of message m in this step: on the wire, or newly queued          *)
WireCopies(e, d, m)  == Len(PublishesOf(e, d, m))
QueuedNew(i, d, m)   == Cardinality({r \in InflightOf(Trace[i].st, d) : r.m = m /\ r.t = PUBLISH})
                        - Cardinality({r \in InflightOf(Pre(i), d) : r.m = m /\ r.t = PUBLISH})
Got(i, d, m) == WireCopies(Trace[i], d, m) > 0 \/ QueuedNew(i, d, m) > 0

(* permitted omissions (C03): reported drops, in-flight limit / id exhaustion, QoS 0 offline    *)
Excused(i, d, m, dq) ==
    \/ Hooked(Trace[i], "dropped", d, m)
    \/ Hooked(Trace[i], "pid_exhausted", d, m)
    \/ Trace[i].st.info.inflight_dropped > Pre(i).info.inflight_dropped
    \/ (~Online(Pre(i), d) /\ dq = 0)
    \/ ~HasClient(Pre(i), d)

ReadOK(i, d) == CanRead(d, JoinL(Trace[i].a.t))

(* ================================================================== C03 / C06 routing *)
PlainEntitled(i) ==
    LET p == PubOf(i) IN EntitledPlain(Subs(Pre(i)), p.origin, p.t, LAMBDA d : CanRead(d, p.ts))
ShChoices(i) ==
    LET p == PubOf(i) IN SharedChoices(Subs(Pre(i)), p.t, LAMBDA d : CanRead(d, p.ts))

(* the highest QoS client d could be delivered at (for the offline QoS 0 excuse)               *)
MaxSubQos(i, d) ==
    LET S == {s \in MatchingSubs(Subs(Pre(i)), PubOf(i).t) : s.c = d /\ s.kind # "inline"}
    IN IF S = {} THEN 0 ELSE MinOf(PubOf(i).qos, MaxIn({s.qos : s \in S}))

Receivers(i) == {d \in AllClientIds(Trace[i]) : Got(i, d, PubOf(i).m)}

J_C03(i) ==
    LET e == Trace[i] p == PubOf(i) IN
    IF ~IsPubStep(i) \/ p.m = "" THEN <<>> ELSE
    LET E == IF Routed(i) THEN PlainEntitled(i) ELSE {}
        sharedMembers == UNION {GroupMembers(Subs(Pre(i)), G, LAMBDA d : CanRead(d, p.ts)) : G \in SharedGroups(Subs(Pre(i)), p.t)}
    IN Cat(<<
        \* nobody outside the entitled set (and the members of matching shared subscriptions) gets it
        ForAll(Receivers(i) \ (E \cup (IF Routed(i) THEN sharedMembers ELSE {})),
               LAMBDA d : Cmp("C03.unentitled-delivery", d, p.m, 0)),
        \* ... and, judged by the protocol history instead of the broker's topic index: a client whose current session has
        \* subscribed to nothing that matches the topic gets nothing (subscriptions of a discarded session left in the index
        \* entitle nobody)
        ForAll({d \in Receivers(i) : HasClient(Pre(i), d) /\ d \in DOMAIN g.subL
                                      /\ ~(\E f \in g.subL[d] : IF f # <<>> /\ f[1] = "$share" /\ Len(f) > 2 THEN Matches(SubSeq(f, 3, Len(f)), p.t) ELSE Matches(f, p.t))},
               LAMBDA d : Cmp("C03.delivery-without-subscription-in-session", d, p.m, 0)),
        \* every entitled client gets it unless excused
        \* (the publisher's own copy withheld because ANOTHER of its matching subscriptions has No
        \*  Local is reported under its own rule name: it is the signature of a recorded finding)
        ForAll({d \in E : ~Got(i, d, p.m) /\ ~Excused(i, d, p.m, MaxSubQos(i, d))},
               LAMBDA d : IF d = p.origin /\ (\E s \in MatchingSubs(Subs(Pre(i)), p.t) : s.c = d /\ s.kind = "client" /\ s.nl)
                          THEN Cmp("C03.missing-delivery-nolocal-overlap", d, p.m, 0)
                          ELSE Cmp("C03.missing-delivery", d, p.m, 0)),
        \* at most one copy per session
        ForAll({d \in AllClientIds(e) : WireCopies(e, d, p.m) > 1 \/ QueuedNew(i, d, p.m) > 1},
               LAMBDA d : Cmp("C03.duplicate-delivery", d, p.m, WireCopies(e, d, p.m))),
        \* content unchanged
        ForAll({d \in AllClientIds(e) : WireCopies(e, d, p.m) > 0},
               LAMBDA d : LET q == PublishesOf(e, d, p.m)[1]
                              v5 == HasClient(Pre(i), d) /\ ClientRec(Pre(i), d).v = 5 IN
                  Cat(<<If(q.topic # p.t /\ q.alias = 0, Cmp("C03.topic-changed", d, p.m, 0)),
                        If(v5 /\ ~p.inline /\ (q.ct # p.ct \/ q.rt # p.rt \/ q.cd # p.cd), Cmp("C03.property-changed", d, p.m, 0)),
                        If(v5 /\ ~p.inline /\ q.up # p.up, Cmp("C03.user-properties-changed", d, p.m, Len(q.up)))>>))
       >>)

(* C06 proper: SOME choice of one member per matching shared subscription explains the share-group part *)
(* of the routing - every receiver that no plain subscription entitles is a chosen member, and every   *)
(* chosen member took the message (or is excused).  Whether the plainly entitled clients got their     *)
(* copy is C03's question (J_C03), not this one: a publisher whose own copy is withheld by the         *)
(* recorded No Local finding must not be reported as a share-group failure.                            *)
(* the highest QoS member d is owed under choice ch: by its plain subscriptions and by the shared subscriptions it  *)
(* is chosen for (a member chosen only for a QoS 0 share subscription while offline is owed nothing, whatever its    *)
(* other share subscriptions of the same group name say)                                                            *)
ChQos(i, ch, d) ==
    LET S == {s \in MatchingSubs(Subs(Pre(i)), PubOf(i).t) :
                 s.c = d /\ (s.kind = "client" \/ (s.kind = "shared" /\ <<s.g, s.f>> \in DOMAIN ch /\ ch[<<s.g, s.f>>] = d))}
    IN IF S = {} THEN 0 ELSE MinOf(PubOf(i).qos, MaxIn({s.qos : s \in S}))
GroupsExplained(i, skip) ==
    LET p == PubOf(i)
        E == PlainEntitled(i)
        R == Receivers(i)
    IN \E ch \in ShChoices(i) :
          /\ (R \ E) \subseteq ChosenSet(ch)
          /\ \A d \in ChosenSet(ch) \ skip : d \in R \/ Excused(i, d, p.m, ChQos(i, ch, d))
(* the publisher itself, when one of its own matching plain subscriptions has No Local (signature of   *)
(* the recorded finding NoLocalOrMerge: the merged subscription withholds every copy to the publisher) *)
NoLocalOverlap(i) ==
    LET p == PubOf(i) IN
    {d \in {p.origin} : \E s \in MatchingSubs(Subs(Pre(i)), p.t) : s.c = d /\ s.kind = "client" /\ s.nl}

J_C06(i) ==
    LET e == Trace[i] p == PubOf(i) IN
    IF ~IsPubStep(i) \/ p.m = "" \/ ~Routed(i) THEN <<>> ELSE
    Cat(<<If(~GroupsExplained(i, {}),
             IF GroupsExplained(i, NoLocalOverlap(i))
             THEN Cmp("C06.chosen-member-withheld-nolocal-overlap", p.origin, p.m, Cardinality(Receivers(i)))
             ELSE Cmp("C06.no-single-member-choice-explains-receivers", p.origin, p.m, Cardinality(Receivers(i)))),
          ForAll({d \in AllClientIds(e) : WireCopies(e, d, p.m) > 1},
                 LAMBDA d : Cmp("C06.duplicate-delivery", d, p.m, WireCopies(e, d, p.m)))>>)

(* no PUBLISH reaches a client without an explanation: the step's own publication, a retained    *)
(* replay to the subscriber of this step, or a record of its session's in-flight store           *)
J_Spurious(i) ==
    LET e == Trace[i] IN
    ForAll(AllClientIds(e), LAMBDA d :
       ForAll({n \in 1..Len(PktsTo(e, d)) : PktsTo(e, d)[n].t = PUBLISH}, LAMBDA n :
          LET q == PktsTo(e, d)[n] IN
          If(~(\/ (IsPubStep(i) /\ q.m = PubOf(i).m)
               \/ (e.ev = "inline_subscribe" /\ e.a.dur_m # "" /\ q.m = e.a.dur_m)
               \/ (e.ev = "subscribe" /\ d = e.c /\ q.ret)
               \/ (\E r \in InflightOf(Pre(i), d) \cup InflightOf(e.st, d) : r.m = q.m)
               \/ (\E w \in ToSet(Pre(i).delayed) : w.m = q.m)
               \/ (\E h \in Hooks(e) : h.h = "will_sent" /\ h.m = q.m)
               \/ e.ev = "tick"),
             Cmp("C03.unexplained-publish", d, q.m, i))))

(* ================================================================== C04 delivery attributes *)
J_C04(i) ==
    LET e == Trace[i] IN
    IF e.ev = "subscribe" /\ e.err = "" THEN
        \* SUBACK grants min(requested, server maximum) for every granted filter
        LET acks == SelectSeq(OutOf(e, e.k), LAMBDA q : q.t = SUBACK) IN
        IF Len(acks) # 1 \/ Len(acks[1].codes) # Len(e.a.filters) THEN <<>> ELSE
        ForAll(1..Len(e.a.filters), LAMBDA n :
            LET code == acks[1].codes[n] IN
            If(code < 128 /\ code # GrantedQos(e.a.filters[n].qos, cfg.max_qos), Cmp("C04.granted-qos", e.c, JoinL(e.a.filters[n].f), code)))
    ELSE IF ~IsPubStep(i) \/ PubOf(i).m = "" \/ ~Routed(i) THEN <<>> ELSE
    LET p == PubOf(i) IN
    ForAll({d \in AllClientIds(e) : WireCopies(e, d, p.m) = 1}, LAMBDA d :
        LET q == PublishesOf(e, d, p.m)[1]
            v5 == ClientRec(Pre(i), d).v = 5
            M  == {s \in MatchingSubs(Subs(Pre(i)), p.t) : s.c = d}
            base == {s \in M : s.kind = "client"}
            sh   == {s \in M : s.kind = "shared"}
            sets == {base \cup X : X \in SUBSET sh} \ {{}}
            okQ  == \E S \in sets : q.qos = DeliveredQos(p.qos, {s.qos : s \in S}, cfg.max_qos)
            okI  == IF v5 THEN \E S \in sets : ToSet(q.sid) = IdsOf(S) ELSE q.sid = <<>>
            okR  == IF ~v5 THEN ~q.ret
                    ELSE \E S \in sets : (\A s \in S : s.rap) => q.ret = p.retain
            noR  == IF ~v5 THEN TRUE ELSE \E S \in sets : ((\A s \in S : ~s.rap) => ~q.ret)
        IN Cat(<<If(sets # {} /\ ~okQ, Cmp("C04.delivered-qos", d, p.m, q.qos)),
                 If(sets # {} /\ ~okI, Cmp("C04.subscription-identifiers", d, p.m, Len(q.sid))),
                 If(sets # {} /\ (~okR \/ ~noR), Cmp("C04.retain-flag", d, p.m, IF q.ret THEN 1 ELSE 0))>>))

(* retained replay attributes (after SUBACK): retain flag set, identifier of this subscription, *)
(* QoS = min(message QoS, granted, server maximum)                                               *)
J_C04R(i) ==
    LET e == Trace[i] IN
    IF e.ev # "subscribe" \/ e.err # "" \/ Len(e.a.filters) # 1 THEN <<>> ELSE
    LET f == e.a.filters[1]
        v5 == e.v = 5
        reps == SelectSeq(OutOf(e, e.k), LAMBDA q : q.t = PUBLISH /\ q.ret) IN
    ForAll(1..Len(reps), LAMBDA n :
        LET q == reps[n]
            R == {r \in RetainedSet(Pre(i)) : r.m = q.m} IN
        IF R = {} THEN <<>> ELSE LET r == CHOOSE x \in R : TRUE IN
        Cat(<<If(q.qos # MinOf(MinOf(r.qos, f.qos), cfg.max_qos), Cmp("C04.retained-qos", e.c, q.m, q.qos)),
              If(v5 /\ e.a.subid > 0 /\ ToSet(q.sid) # {e.a.subid}, Cmp("C04.retained-subscription-identifier", e.c, q.m, Len(q.sid))),
              If((~v5 \/ e.a.subid = 0) /\ q.sid # <<>>, Cmp("C04.retained-subscription-identifier", e.c, q.m, Len(q.sid)))>>))

(* ================================================================== C05 retained store *)
ExpectedRetained(i) ==
    LET e == Trace[i] pre == Pre(i)
        cur == [ts \in RetainedTopics(pre) |-> RetainedMsg(pre, ts)] IN
    IF IsPubStep(i) /\ Routed(i) /\ e.a.retain
    THEN RetainedAfter(cur, JoinL(e.a.t), e.a.m, e.a.m = "", cfg.retain_avail)
    ELSE cur

J_C05(i) ==
    LET e == Trace[i] pre == Pre(i) post == e.st IN
    Cat(<<
      \* the store changes only by retained publishes, and then to the latest message
      If(e.ev \in {"publish", "inline_publish", "subscribe", "unsubscribe", "connect", "puback", "pubrec", "pubrel", "pubcomp", "ping"}
           /\ ~(\E h \in Hooks(e) : h.h = "will_sent")
           /\ [ts \in RetainedTopics(post) |-> RetainedMsg(post, ts)] # ExpectedRetained(i),
         Cmp("C05.retained-store", e.c, e.a.m, Cardinality(RetainedTopics(post)))),
      \* replay after SUBACK: exactly the matching retained messages, per Retain Handling
      IF e.ev # "subscribe" \/ e.err # "" \/ Len(e.a.filters) # 1 THEN <<>> ELSE
      LET f == e.a.filters[1]
          acks == SelectSeq(OutOf(e, e.k), LAMBDA q : q.t = SUBACK)
          granted == Len(acks) = 1 /\ Len(acks[1].codes) = 1 /\ acks[1].codes[1] < 128
          existed == JoinL(f.f) \in Get(g.subG, e.c, {})      \* from the protocol history, not from the broker's index
          want == IF granted /\ ReplayWanted(IF IsSharedF(f.f) THEN "shared" ELSE "client", IF e.v = 5 THEN f.rh ELSE 0, existed)
                  THEN {r.m : r \in {x \in RetainedSet(pre) : Matches(f.f, x.t) /\ CanRead(e.c, x.ts)}} ELSE {}
          reps == SelectSeq(OutOf(e, e.k), LAMBDA q : q.t = PUBLISH /\ q.ret)
          gotm == {reps[n].m : n \in 1..Len(reps)}
          excusedAll == post.info.inflight_dropped > pre.info.inflight_dropped \/ (\E h \in Hooks(e) : h.h = "dropped")
      IN Cat(<<ForAll(gotm \ want, LAMBDA m : Cmp("C05.unexpected-retained-replay", e.c, m, f.rh)),
               If(~excusedAll, ForAll({m \in want \ gotm : ~(\E r \in InflightOf(post, e.c) : r.m = m)}, LAMBDA m : Cmp("C05.missing-retained-replay", e.c, m, f.rh))),
               If(Len(reps) # Cardinality(gotm), Cmp("C05.duplicate-retained-replay", e.c, "", Len(reps)))>>)
    >>)

(* ================================================================== C07 request/response *)
Answered(e, type, pid) == \E n \in 1..Len(OutOf(e, e.k)) : OutOf(e, e.k)[n].t = type /\ OutOf(e, e.k)[n].pid = pid
ClosedInStep(e) == e.k \in ToSet(e.closed) \/ (HasConn(e.conns, e.k) /\ (ConnRec(e.conns, e.k).eof \/ ConnRec(e.conns, e.k).done))

J_C07(i) ==
    LET e == Trace[i] IN
    IF e.err # "" \/ ~NoScripts THEN <<>> ELSE
    CASE e.ev = "publish" /\ e.a.qos > 0 ->
            If(~Answered(e, ResponseType(PUBLISH, e.a.qos), e.a.pid) /\ ~ClosedInStep(e),
               Cmp("C07.publish-unanswered", e.c, JoinL(e.a.t), e.a.qos))
      [] e.ev = "pubrel" ->
            If(~Answered(e, PUBCOMP, e.pid) /\ ~ClosedInStep(e), Cmp("C07.pubrel-unanswered", e.c, "", e.a.rc))
      [] e.ev = "ping" ->
            If(~(\E n \in 1..Len(OutOf(e, e.k)) : OutOf(e, e.k)[n].t = PINGRESP) /\ ~ClosedInStep(e), Cmp("C07.ping-unanswered", e.c, "", 0))
      [] e.ev \in {"subscribe", "unsubscribe"} ->
            LET rt == IF e.ev = "subscribe" THEN SUBACK ELSE UNSUBACK
                acks == SelectSeq(OutOf(e, e.k), LAMBDA q : q.t = rt /\ q.pid = e.a.pid) IN
            IF ClosedInStep(e) THEN <<>>
            ELSE IF Len(acks) # 1 THEN Cmp("C07." \o e.ev \o "-unanswered", e.c, "", Len(acks))
            ELSE If((e.ev = "subscribe" \/ e.v = 5) /\ Len(acks[1].codes) # Len(e.a.filters),
                    Cmp("C07.reason-code-count", e.c, "", Len(acks[1].codes)))
      [] OTHER -> <<>>

(* ================================================================== C17 authorisation *)
J_C17(i) ==
    LET e == Trace[i] pre == Pre(i) IN
    Cat(<<
      \* nobody receives a PUBLISH on a topic its read permission denies
      ForAll(AllClientIds(e), LAMBDA d :
         ForAll({n \in 1..Len(PktsTo(e, d)) : PktsTo(e, d)[n].t = PUBLISH /\ PktsTo(e, d)[n].ts # ""}, LAMBDA n :
            If(~CanRead(d, PktsTo(e, d)[n].ts), Cmp("C17.read-denied-delivery", d, PktsTo(e, d)[n].m, 0)))),
      \* a publish its writer may not write (or to $SYS) is neither delivered nor retained
      IF e.ev = "publish" /\ e.err = "" /\ e.a.m # "" /\ ~e.a.notopic /\ (~CanWrite(e.c, JoinL(e.a.t)) \/ SysTopic(e.a.t))
      THEN Cat(<<ForAll({d \in AllClientIds(e) : Got(i, d, e.a.m)}, LAMBDA d : Cmp("C17.write-denied-delivered", d, e.a.m, 0)),
                 If(\E r \in RetainedSet(e.st) : r.m = e.a.m, Cmp("C17.write-denied-retained", e.c, e.a.m, 0))>>)
      ELSE <<>>,
      \* subscriptions to denied filters are refused and create nothing
      IF e.ev = "subscribe" /\ e.err = "" /\ NoScripts THEN
         LET acks == SelectSeq(OutOf(e, e.k), LAMBDA q : q.t = SUBACK) IN
         IF Len(acks) # 1 \/ Len(acks[1].codes) # Len(e.a.filters) THEN <<>> ELSE
         ForAll({n \in 1..Len(e.a.filters) : ~CanRead(e.c, JoinL(e.a.filters[n].f)) /\ ValidFilterLevels(e.a.filters[n].f)}, LAMBDA n :
            LET want == IF e.v < 5 \/ cfg.obscure THEN 128 ELSE 135 IN
            Cat(<<If(acks[1].codes[n] # want, Cmp("C17.denied-subscribe-code", e.c, JoinL(e.a.filters[n].f), acks[1].codes[n])),
                  If(\E s \in SubsOf(e.st, e.c) : s.fs = JoinL(e.a.filters[n].f) /\ ~(\E s0 \in SubsOf(pre, e.c) : s0.fs = s.fs),
                     Cmp("C17.denied-subscribe-created", e.c, JoinL(e.a.filters[n].f), 0))>>))
      ELSE <<>>,
      \* will messages obey the write permission and must be valid topic names
      ForAll({h \in Hooks(e) : h.h = "will_sent"}, LAMBDA h :
         Cat(<<If(~CanWrite(h.c, h.ts), Cmp("C17.will-write-denied", h.c, h.m, 0))>>))
    >>)

(* ================================================================== C30 (end to end) *)
J_C30(i) ==
    LET e == Trace[i] pre == Pre(i) IN
    \* a client publish to a topic that starts with $SYS (or contains a wildcard) is never accepted: nobody receives it and
    \* nothing is retained - whether the topic travels with or without a topic alias
    IF e.ev = "publish" /\ e.err = "" /\ ~e.a.notopic /\ e.a.m # "" /\ (SysTopic(e.a.t) \/ \E j \in 1..Len(e.a.t) : Wild(e.a.t[j])) THEN
       Cat(<<If(\E d \in AllClientIds(e) : WireCopies(e, d, e.a.m) > 0, Cmp("C30.refused-topic-publish-routed", e.c, JoinL(e.a.t), e.a.alias)),
             If(\E r \in RetainedSet(e.st) : r.m = e.a.m, Cmp("C30.refused-topic-publish-retained", e.c, JoinL(e.a.t), e.a.alias))>>)
    ELSE
    IF e.ev # "subscribe" \/ e.err # "" THEN <<>> ELSE
    LET acks == SelectSeq(OutOf(e, e.k), LAMBDA q : q.t = SUBACK) IN
    IF Len(acks) # 1 \/ Len(acks[1].codes) # Len(e.a.filters) THEN <<>> ELSE
    ForAll({n \in 1..Len(e.a.filters) : ~ValidFilterLevels(e.a.filters[n].f)}, LAMBDA n :
       Cat(<<If(acks[1].codes[n] # (IF e.v < 5 THEN 128 ELSE 143), Cmp("C30.invalid-filter-code", e.c, JoinL(e.a.filters[n].f), acks[1].codes[n])),
             If(Cardinality(Subs(e.st)) > Cardinality(Subs(pre)) /\ Len(e.a.filters) = 1, Cmp("C30.invalid-filter-created", e.c, JoinL(e.a.filters[n].f), 0))>>))

(* ================================================================== C23 well-formed output *)
J_C23(i) ==
    LET e == Trace[i] IN
    ForAll(DOMAIN e.out, LAMBDA k :
       ForAll(1..Len(e.out[k]), LAMBDA n :
          LET q == e.out[k][n] v == ConnRec(e.conns, k).v IN
          \* (refcodec's "v3-session-present" concerns the reserved CONNACK byte of MQTT 3.1, about which the property
          \*  says nothing: not judged)
          Cat(<<If(q.wf # "" /\ q.wf # "v3-session-present",
                   Cmp("C23." \o q.wf \o ".t" \o ToString(q.t) \o (IF v < 5 THEN ".v3" ELSE ".v5"), k, ToString(q.t), q.rc)),
                If(q.t = PUBLISH /\ (\E j \in 1..Len(q.topic) : Wild(q.topic[j])), Cmp("C23.wildcard-in-publish-topic", k, q.m, 0)),
                LET mps == IF e.ev = "connect" /\ e.k = k THEN (IF e.a.v = 5 THEN e.a.mps ELSE 0) ELSE Get(g.mps, k, 0) IN
                   If(mps > 0 /\ q.len > mps, Cmp("C23.exceeds-maximum-packet-size", k, ToString(q.t), q.len)),
                LET rpi == IF e.ev = "connect" /\ e.k = k THEN e.a.rpi ELSE Get(g.rpi, k, -1) IN
                   If(rpi = 0 /\ q.t \notin {PUBLISH, CONNACK, DISCONNECT} /\ (q.rs \/ q.up # <<>>), Cmp("C23.problem-information-not-allowed", k, ToString(q.t), 0)),
                LET rri == IF e.ev = "connect" /\ e.k = k THEN e.a.rri ELSE -1 IN
                   If(q.t = CONNACK /\ q.ri /\ rri # 1, Cmp("C23.response-information-not-requested", k, "2", 0)),
                If(k \in g.discd, Cmp("C23.output-after-disconnect", k, ToString(q.t), 0)),
                If(\E j \in 1..(n - 1) : e.out[k][j].t = DISCONNECT, Cmp("C23.output-after-disconnect", k, ToString(q.t), 0))>>)))

(* ================================================================== C38 $SYS counters *)
(* the difference "reported counter - actual count" must be 0; the step at which it CHANGES is reported  *)
(* (a counter that drifted stays wrong, so later steps are not reported again)                        *)
CountDrift(st) ==
    [subscriptions |-> st.info.subscriptions - Cardinality({s \in Subs(st) : s.kind # "inline"}),
     retained      |-> st.info.retained - Cardinality(RetainedSet(st)),
     inflight      |-> st.info.inflight - Cardinality(UNION {{<<c.id, r.pid>> : r \in ToSet(c.inflight)} : c \in Clients(st)})]
J_C38(i) ==
    LET e == Trace[i] st == e.st d1 == CountDrift(st) d0 == CountDrift(Pre(i)) IN
    IF e.ev = "Config" THEN <<>> ELSE
    Cat(<<If(d1.subscriptions # d0.subscriptions, Cmp("C38.subscriptions-on-" \o e.ev, e.c, e.a.kind, d1.subscriptions - d0.subscriptions)),
          If(d1.retained # d0.retained, Cmp("C38.retained-on-" \o e.ev, e.c, e.a.kind, d1.retained - d0.retained)),
          If(d1.inflight # d0.inflight, Cmp("C38.inflight-on-" \o e.ev, e.c, e.a.kind, d1.inflight - d0.inflight)),
          If(st.info.connected # Cardinality({c \in ToSet(e.conns) : ~c.done}) /\ e.gates = <<>> /\ e.a.until = "",
             Cmp("C38.connected-on-" \o e.ev, e.c, e.a.kind, st.info.connected - Cardinality({c \in ToSet(e.conns) : ~c.done}))),
          If((st.info.subscriptions < 0 /\ Pre(i).info.subscriptions >= 0) \/ (st.info.retained < 0 /\ Pre(i).info.retained >= 0)
               \/ (st.info.inflight < 0 /\ Pre(i).info.inflight >= 0) \/ st.info.connected < 0, Cmp("C38.negative-on-" \o e.ev, e.c, e.a.kind, 0))>>)

(* ================================================================== connect helpers *)
Connacks(e)  == SelectSeq(OutOf(e, e.k), LAMBDA q : q.t = CONNACK)
ConnackOK(e) == e.ev = "connect" /\ Len(Connacks(e)) >= 1 /\ Connacks(e)[1].rc = 0
ConnackSP(e) == ConnackOK(e) /\ Connacks(e)[1].sp
HasWill(e)   == "will" \in DOMAIN e.a
OldConnOf(i) == \* the live connection of the same client id before a connect step ("" if none)
    LET e == Trace[i] IN IF Online(Pre(i), e.c) THEN ClientRec(Pre(i), e.c).k ELSE ""

(* structural validity of a CONNECT as generated by the harness (flags are computed from the    *)
(* fields unless rawflags overrides them)                                                        *)
Bit(n, b) == (n \div (2 ^ b)) % 2
ConnectFlagsOf(a) ==
    IF a.rawflags > 0 THEN a.rawflags
    ELSE (IF a.clean THEN 2 ELSE 0)
         + (IF "will" \in DOMAIN a THEN 4 + 8 * a.will.qos + (IF a.will.retain THEN 32 ELSE 0) ELSE 0)
         + (IF a.pass # "" THEN 64 ELSE 0) + (IF a.user # "" THEN 128 ELSE 0)
ValidConnect(a) ==
    LET fl == ConnectFlagsOf(a)
        willQ == (fl \div 8) % 4 IN
    /\ a.v \in {3, 4, 5}
    /\ (a.proto = "" \/ (a.v = 3 /\ a.proto = "MQIsdp") \/ (a.v \in {4, 5} /\ a.proto = "MQTT"))
    /\ Bit(fl, 0) = 0                                                    \* [MQTT-3.1.2-3]
    /\ (Bit(fl, 2) = 0 => (willQ = 0 /\ Bit(fl, 5) = 0))                 \* [MQTT-3.1.2-11] [MQTT-3.1.2-13]
    /\ willQ # 3                                                         \* [MQTT-3.1.2-12]
    /\ (Bit(fl, 2) = 1 => "will" \in DOMAIN a)
    /\ (a.v < 5 => (Bit(fl, 6) = 1 => Bit(fl, 7) = 1))                    \* [MQTT-3.1.2-22]
    /\ ~(a.v < 5 /\ ~a.clean /\ a.id = "")
    /\ (("will" \in DOMAIN a) => (a.will.qos <= cfg.max_qos /\ (a.will.retain => cfg.retain_avail = 1)
                                  /\ a.will.t # <<>> /\ a.will.m # "" /\ (\A n \in 1..Len(a.will.t) : ~Wild(a.will.t[n]))))
    /\ a.v >= cfg.min_proto
(* a client is admitted iff ANY authentication hook allows it (the harness's base hook, the scripted ones) *)
AuthAllows(a) ==
    \/ (cfg.auth \in {"allow", "acl"} /\ a.id \notin ToSet(cfg.deny_conn))
    \/ (\E n \in 1..Len(cfg.scripted) : cfg.scripted[n].auth = "allow")

(* the abnormal end of connection k in this step (its will becomes due) *)
AbnormalEndG(i, k) ==
    LET e == Trace[i] IN
    /\ k \in DOMAIN g.will
    /\ \/ (e.ev = "netdrop" /\ e.k = k /\ e.err = "" /\ e.a.until = "")
       \/ (e.k = k /\ e.ev \notin {"netdrop", "disconnect", "connect"} /\ e.err = ""
             /\ (e.k \in ToSet(e.closed) \/ (HasConn(e.conns, e.k) /\ (ConnRec(e.conns, e.k).eof \/ ConnRec(e.conns, e.k).done))))
       \/ (e.ev = "disconnect" /\ e.k = k /\ e.err = "" /\ e.a.rc = 4)
       \/ (e.ev = "connect" /\ e.err = "" /\ ConnackOK(e) /\ OldConnOf(i) = k)

StalledClient(e, c) == \E n \in 1..Len(e.conns) : e.conns[n].c = c /\ e.conns[n].stalled /\ ~e.conns[n].done

(* ================================================================== ghost update *)
RECURSIVE ApplyPk(_, _, _, _)
ApplyPk(U, pk, n, k) ==
    IF n > Len(pk) THEN U ELSE
    LET q == pk[n] IN
    ApplyPk(CASE q.t = PUBLISH /\ q.qos > 0 ->
                    {r \in U : r.pid # q.pid} \cup {[pid |-> q.pid, m |-> q.m, qos |-> q.qos, phase |-> "pub", k |-> k]}
              [] q.t = PUBREL -> {IF r.pid = q.pid THEN [r EXCEPT !.phase = "rel", !.k = k] ELSE r : r \in U}
              [] OTHER -> U,
            pk, n + 1, k)
RECURSIVE ApplyConns(_, _, _, _)
ApplyConns(U, e, n, c0) ==
    IF n > Len(e.conns) THEN U
    ELSE ApplyConns(IF e.conns[n].c = c0 THEN ApplyPk(U, OutOf(e, e.conns[n].k), 1, e.conns[n].k) ELSE U, e, n + 1, c0)

SessionEndsIn(i, c) ==
    LET e == Trace[i] IN
    \/ ~HasClient(e.st, c)
    \/ (e.ev = "connect" /\ e.c = c /\ ConnackOK(e) /\ ~ConnackSP(e))
    \/ (\E h \in Hooks(e) : h.h = "client_expired" /\ h.c = c)
DroppedNow(e, c, pid) == \E h \in Hooks(e) : h.h = "qos_dropped" /\ h.c = c /\ h.p = pid

(* records of session c that were written to the wire by the deferred-send tail of this step and   *)
(* deleted from the store at once (signature of a recorded finding)                                *)
DeferredDeleted(i, c) ==
    LET e == Trace[i] IN
    {r \in InflightOf(Pre(i), c) : r.t = PUBLISH /\ r.expiry < 0 /\ ~(\E r2 \in InflightOf(e.st, c) : r2.pid = r.pid)
                                    /\ (\E q \in ToSet(PktsTo(e, c)) : q.t = PUBLISH /\ q.pid = r.pid /\ q.m = r.m)}

(* ... and the variant where that write failed because the connection ended in the same step (the    *)
(* client closed it right after its acknowledgement): the record is deleted all the same, the         *)
(* message was never transmitted and is lost (same call site, same recorded finding)                  *)
DeferredLost(i, c) ==
    LET e == Trace[i] IN
    IF ~(e.c = c /\ e.err = "" /\ e.ev \in {"puback", "pubrec", "pubcomp"} /\ ClosedInStep(e)) THEN {} ELSE
    {r \in InflightOf(Pre(i), c) : r.t = PUBLISH /\ r.expiry < 0 /\ ~(\E r2 \in InflightOf(e.st, c) : r2.pid = r.pid)
                                    /\ ~(\E q \in ToSet(PktsTo(e, c)) : q.t = PUBLISH /\ q.pid = r.pid)}

WillDelivered(e, m) == \E d \in AllClientIds(e) : \E q \in ToSet(PktsTo(e, d)) : q.t = PUBLISH /\ q.m = m
InlNext(cur, e) ==
    IF e.ev = "inline_subscribe" /\ e.err = "" THEN cur \cup {<<e.a.inline_id, e.a.t>>}
    ELSE IF e.ev = "inline_unsubscribe" /\ e.err = "" THEN cur \ {<<e.a.inline_id, e.a.t>>}
    ELSE cur
GhostNextOf(i) ==
    LET e == Trace[i] IN
    IF e.ev = "Config" THEN GhostInit ELSE
    LET ok  == e.err = ""
        pre == Pre(i)
        ids == AllClientIds(e) \cup DOMAIN g.unacked
        ackNow(c0) == ok /\ e.c = c0 /\ e.ev \in {"puback", "pubcomp"}
        recFail(c0) == ok /\ e.c = c0 /\ e.ev = "pubrec" /\ e.a.rc >= 128
        afterOp(c0) ==
            LET U == Get(g.unacked, c0, {}) IN
            IF SessionEndsIn(i, c0) /\ ~(e.ev = "connect" /\ e.c = c0 /\ ConnackSP(e)) THEN {}
            ELSE LET V == {r \in U : ~((ackNow(c0) \/ recFail(c0)) /\ r.pid = e.pid) /\ ~DroppedNow(e, c0, r.pid)} IN
                 \* a PUBREC the broker has read moves the exchange on, also when the PUBREL that answers it could not be
                 \* written any more (the client closed the connection right after the PUBREC: op with drop)
                 IF ok /\ e.c = c0 /\ e.ev = "pubrec" /\ e.a.rc < 128
                   THEN {IF r.pid = e.pid /\ r.qos = 2 THEN [r EXCEPT !.phase = "rel"] ELSE r : r \in V}
                   ELSE V
        unackedN == [c0 \in ids |-> ApplyConns(afterOp(c0), e, 1, c0)]
        ackdN == [c0 \in ids |-> Get(g.ackd, c0, {}) \cup
                     (IF ackNow(c0) THEN {r.m : r \in {x \in Get(g.unacked, c0, {}) : x.pid = e.pid}} ELSE {})]
        txedN == [c0 \in ids |-> IF SessionEndsIn(i, c0) /\ ~(e.ev = "connect" /\ e.c = c0) THEN {}
                                 ELSE Get(g.txed, c0, {}) \cup {q.m : q \in {x \in ToSet(PktsTo(e, c0)) : x.t = PUBLISH}}]
        q2N == IF ok /\ e.ev = "publish" /\ e.a.qos = 2
                   /\ (\E q \in ToSet(OutOf(e, e.k)) : q.t = PUBREC /\ q.pid = e.a.pid /\ q.rc < 128)
               THEN Put(g.q2in, e.c, Get(g.q2in, e.c, {}) \cup {e.a.pid})
               ELSE IF ok /\ e.ev = "pubrel" THEN Put(g.q2in, e.c, Get(g.q2in, e.c, {}) \ {e.pid})
               ELSE IF ok /\ e.ev = "connect" /\ ConnackOK(e) /\ ~ConnackSP(e) THEN Put(g.q2in, e.c, {})
               ELSE g.q2in
        isPub == IsPubStep(i) /\ e.a.m # "" /\ e.a.m \notin DOMAIN g.pubidx
        pubN == IF isPub THEN Put(g.pubidx, e.a.m, [idx |-> g.npub + 1, origin |-> PubOf(i).origin, ts |-> JoinL(e.a.t), qos |-> PubOf(i).qos]) ELSE g.pubidx
        eff == IF e.ev = "publish" THEN EffectiveExpiry(e.a.mei, cfg.max_msg_expiry) ELSE cfg.max_msg_expiry
        expN == IF isPub THEN Put(g.expm, e.a.m, IF eff > 0 THEN e.st.now + eff ELSE 0) ELSE g.expm
        seenN == g.seen \cup {k \in DOMAIN e.out : e.out[k] # <<>>}
        conN == [k \in DOMAIN g.connacks \cup DOMAIN e.out |->
                    Get(g.connacks, k, 0) + Len(SelectSeq(OutOf(e, k), LAMBDA q : q.t = CONNACK))]
        discN == g.discd \cup {k \in DOMAIN e.out : \E n \in 1..Len(e.out[k]) : e.out[k][n].t = DISCONNECT}
        isConn == e.ev = "connect" /\ ok
        rmN  == IF isConn THEN Put(g.rm, e.k, IF e.a.v = 5 /\ e.a.rm > 0 THEN e.a.rm ELSE 65535) ELSE g.rm
        tamN == IF isConn THEN Put(g.tam, e.k, IF e.a.v = 5 THEN e.a.tam ELSE 0) ELSE g.tam
        mpsN == IF isConn THEN Put(g.mps, e.k, IF e.a.v = 5 THEN e.a.mps ELSE 0) ELSE g.mps
        \* wills
        ended == {k \in DOMAIN g.will : AbnormalEndG(i, k) \/ (e.ev = "disconnect" /\ e.k = k /\ ok) \/ (HasConn(e.conns, k) /\ ConnRec(e.conns, k).done)}
        willN0 == [k \in DOMAIN g.will \ ended |-> g.will[k]]
        willN == IF isConn /\ ConnackOK(e) /\ HasWill(e)
                 THEN Put(willN0, e.k, [c |-> e.c, m |-> e.a.will.m, t |-> e.a.will.t, ts |-> JoinL(e.a.will.t), qos |-> e.a.will.qos,
                                         retain |-> e.a.will.retain, v |-> e.a.v,
                                         delay |-> IF e.a.v = 5 THEN MinOf(e.a.will.delay, IF e.a.sei > 0 THEN e.a.sei ELSE 0) ELSE 0])
                 ELSE willN0
        newPend == {k \in DOMAIN g.will : AbnormalEndG(i, k) /\ g.will[k].delay > 0 /\ g.will[k].v = 5}
        pend0 == [c0 \in {c1 \in DOMAIN g.pendw : ~(isConn /\ ConnackOK(e) /\ e.c = c1)
                                                   /\ ~(e.ev = "tick" /\ e.a.kind = "wills" /\ g.pendw[c1].due < e.tick)} |-> g.pendw[c0]]
        pendN == [c0 \in DOMAIN pend0 \cup {g.will[k].c : k \in {x \in newPend : ~(isConn /\ ConnackOK(e) /\ g.will[x].c = e.c)}} |->
                    IF \E k \in newPend : g.will[k].c = c0
                    THEN LET w == g.will[CHOOSE k \in newPend : g.will[k].c = c0] IN
                         [m |-> w.m, t |-> w.t, ts |-> w.ts, qos |-> w.qos, retain |-> w.retain, due |-> e.st.now + w.delay]
                    ELSE pend0[c0]]
        nowillN == g.nowill \cup {g.will[k].m : k \in {x \in DOMAIN g.will : e.ev = "disconnect" /\ e.k = x /\ ok /\ e.a.rc = 0}}
                            \cup (IF isConn /\ ConnackSP(e) /\ e.c \in DOMAIN g.pendw THEN {g.pendw[e.c].m} ELSE {})
                            \cup (IF isConn /\ ConnackSP(e) THEN {g.will[k].m : k \in {x \in newPend : g.will[x].c = e.c}} ELSE {})
        \* wills that have been published: reported by OnWillSent, or seen on the wire (the hook is not called when the
        \* session of the will's client is gone by the time a delayed will is published)
        sentN == g.willsent \cup {h.m : h \in {x \in Hooks(e) : x.h = "will_sent"}}
                 \cup {m \in {g.will[k].m : k \in DOMAIN g.will} \cup {g.pendw[c].m : c \in DOMAIN g.pendw} : WillDelivered(e, m)}
        aoN == [k \in DOMAIN g.aliasOut \cup {x \in DOMAIN e.out : \E q \in ToSet(e.out[x]) : q.t = PUBLISH /\ q.alias > 0 /\ q.ts # ""} |->
                  LET old == Get(g.aliasOut, k, <<>>)
                      new == {q \in ToSet(OutOf(e, k)) : q.t = PUBLISH /\ q.alias > 0 /\ q.ts # ""} IN
                  [a \in DOMAIN old \cup {q.alias : q \in new} |->
                      IF \E q \in new : q.alias = a THEN (CHOOSE q \in new : q.alias = a).ts ELSE old[a]]]
        aiN == IF ok /\ e.ev = "publish" /\ e.a.alias > 0 /\ ~e.a.notopic /\ e.a.alias <= cfg.topic_alias_max
               THEN Put(g.aliasIn, e.k, Put(Get(g.aliasIn, e.k, <<>>), e.a.alias, JoinL(e.a.t))) ELSE g.aliasIn
    IN [q2in |-> q2N, unacked |-> unackedN, txed |-> txedN, ackd |-> ackdN, pubidx |-> pubN, npub |-> IF isPub THEN g.npub + 1 ELSE g.npub,
        seen |-> seenN, connacks |-> conN, discd |-> discN, rm |-> rmN, tam |-> tamN, mps |-> mpsN,
        will |-> willN, pendw |-> pendN, nowill |-> nowillN, willsent |-> sentN, aliasOut |-> aoN, aliasIn |-> aiN,
        expm |-> expN,
        sdr |-> g.sdr \cup (IF ok /\ ((e.ev = "connect" /\ (\E q \in ToSet(OutOf(e, e.k)) : q.t \in {PUBLISH, PUBREL}))
                                        \/ e.ev = "pubrel"
                                        \/ (e.ev = "pubcomp" /\ ~(\E r \in Get(g.unacked, e.c, {}) : r.pid = e.pid))
                                        \/ (e.ev = "pubrec" /\ e.a.rc >= 128)
                                        \/ (e.ev \in {"puback", "pubcomp"} /\ e.pid \in Get(g.dsdel, e.c, {}))
                                        \/ DeferredDeleted(i, e.c) # {})
                             THEN {e.k} ELSE {}),
        clob |-> [c0 \in ids |-> IF SessionEndsIn(i, c0) THEN {} ELSE Get(g.clob, c0, {}) \cup
                    (IF ok /\ e.c = c0 /\ e.ev = "publish" /\ e.a.qos > 0
                        /\ (\E r \in InflightOf(pre, c0) : r.t \in {PUBLISH, PUBREL} /\ r.pid = e.a.pid /\ ~(\E r2 \in InflightOf(e.st, c0) : r2.pid = r.pid /\ r2.m = r.m /\ r2.t = r.t))
                     THEN {e.a.pid} ELSE {})],
        wipedw |-> g.wipedw \cup (IF e.ev = "tick" /\ e.a.kind = "wills"
                                   THEN {k \in DOMAIN g.will : \E h \in Hooks(e) : h.h = "will_sent" /\ h.c = g.will[k].c /\ h.m # g.will[k].m}
                                   ELSE {}),
        rpi |-> IF isConn THEN Put(g.rpi, e.k, IF e.a.v = 5 THEN e.a.rpi ELSE -1) ELSE g.rpi,
        \* messages accepted for a client whose connection had stopped reading (no copy on the wire yet, no drop reported):
        \* they are due when it reads again
        stq |-> [c0 \in ids |->
                   IF e.ev = "stall" /\ e.a.kind = "off" /\ e.c = c0 THEN {}
                   ELSE IF SessionEndsIn(i, c0) \/ ~StalledClient(e, c0) THEN {}
                   ELSE {m \in Get(g.stq, c0, {}) : ~Hooked(e, "dropped", c0, m)} \cup      \* (a drop reported meanwhile settles it)
                        (IF IsPubStep(i) /\ Routed(i) /\ PubOf(i).m # "" /\ PubOf(i).qos = 0 /\ c0 \in PlainEntitled(i) /\ Online(Pre(i), c0)
                            /\ ~Hooked(e, "dropped", c0, PubOf(i).m) /\ WireCopies(e, c0, PubOf(i).m) = 0
                            /\ ~(c0 = PubOf(i).origin /\ \E s \in MatchingSubs(Subs(Pre(i)), PubOf(i).t) : s.c = c0 /\ s.nl)
                         THEN {PubOf(i).m} ELSE {})],
        \* the options of the subscriptions of the current session according to the protocol history: client -> (filter
        \* string -> [qos requested, rap, nl, id]); the latest granted SUBSCRIBE of a filter replaces its options
        optG |-> [c0 \in ids |->
                    LET base == IF SessionEndsIn(i, c0) THEN <<>> ELSE Get(g.optG, c0, <<>>)
                        sa == SelectSeq(OutOf(e, e.k), LAMBDA q : q.t = SUBACK)
                        grantedN == IF ok /\ e.c = c0 /\ e.ev = "subscribe" /\ Len(sa) = 1 /\ Len(sa[1].codes) = Len(e.a.filters)
                                      THEN {m \in 1..Len(e.a.filters) : sa[1].codes[m] < 128} ELSE {}
                        newF == {JoinL(e.a.filters[n].f) : n \in grantedN}
                        lastOf(fs) == CHOOSE n \in grantedN : JoinL(e.a.filters[n].f) = fs /\ \A m \in grantedN : JoinL(e.a.filters[m].f) = fs => m <= n
                        gone == IF ok /\ e.c = c0 /\ e.ev = "unsubscribe" THEN {JoinL(e.a.filters[n].f) : n \in 1..Len(e.a.filters)} ELSE {} IN
                    [fs \in (DOMAIN base \cup newF) \ gone |->
                        IF fs \in newF
                          THEN LET f == e.a.filters[lastOf(fs)] IN
                               [qos |-> f.qos, rap |-> (e.v = 5 /\ f.rap), nl |-> (e.v = 5 /\ f.nl), id |-> IF e.v = 5 THEN e.a.subid ELSE 0]
                          ELSE base[fs]]],
        \* the filters the CURRENT session of a client holds according to the protocol history (granted SUBSCRIBEs minus
        \* UNSUBSCRIBEs since the session began) - deliberately not read from the broker's topic index
        \* the inline subscriptions according to the API history: <<identifier, filter>>
        inlG |-> InlNext(g.inlG, e),
        \* the same as level sequences (for matching): what the current session of a client has subscribed to
        subL |-> [c0 \in ids |->
                    LET base == IF SessionEndsIn(i, c0) THEN {} ELSE Get(g.subL, c0, {})
                        sa == SelectSeq(OutOf(e, e.k), LAMBDA q : q.t = SUBACK) IN
                    IF ok /\ e.c = c0 /\ e.ev = "subscribe" /\ Len(sa) = 1 /\ Len(sa[1].codes) = Len(e.a.filters)
                      THEN base \cup {e.a.filters[n].f : n \in {m \in 1..Len(e.a.filters) : sa[1].codes[m] < 128}}
                    ELSE IF ok /\ e.c = c0 /\ e.ev = "unsubscribe"
                      THEN base \ {e.a.filters[n].f : n \in 1..Len(e.a.filters)}
                    ELSE base],
        subG |-> [c0 \in ids |->
                    LET base == IF SessionEndsIn(i, c0) THEN {} ELSE Get(g.subG, c0, {})
                        sa == SelectSeq(OutOf(e, e.k), LAMBDA q : q.t = SUBACK) IN
                    IF ok /\ e.c = c0 /\ e.ev = "subscribe" /\ Len(sa) = 1 /\ Len(sa[1].codes) = Len(e.a.filters)
                      THEN base \cup {JoinL(e.a.filters[n].f) : n \in {m \in 1..Len(e.a.filters) : sa[1].codes[m] < 128}}
                    ELSE IF ok /\ e.c = c0 /\ e.ev = "unsubscribe"
                      THEN base \ {JoinL(e.a.filters[n].f) : n \in 1..Len(e.a.filters)}
                    ELSE base],
        rdr |-> g.rdr \cup (IF ok /\ e.ev = "pubrec" /\ e.a.rc < 128 THEN {e.k} ELSE {}),
        resentOn |-> g.resentOn \cup (IF isConn /\ (\E q \in ToSet(OutOf(e, e.k)) : q.t \in {PUBLISH, PUBREL}) THEN {e.k} ELSE {}),
        dsdel |-> [c0 \in ids |-> IF SessionEndsIn(i, c0) THEN {} ELSE Get(g.dsdel, c0, {}) \cup {r.pid : r \in DeferredDeleted(i, c0) \cup DeferredLost(i, c0)}],
        deadR |-> g.deadR \cup (IF e.ev = "tick" /\ e.a.kind = "retained" THEN {m \in DOMAIN g.expm : g.expm[m] > 0 /\ g.expm[m] < e.tick} ELSE {}),
        deadI |-> g.deadI \cup (IF e.ev = "tick" /\ e.a.kind = "inflight" THEN {m \in DOMAIN g.expm : g.expm[m] > 0 /\ g.expm[m] < e.tick} ELSE {})]

(* ================================================================== C13 CONNACK / admission *)
J_C13(i) ==
    LET e == Trace[i] IN
    Cat(<<
      \* the first packet on every connection is a CONNACK
      ForAll({k \in DOMAIN e.out : k \notin g.seen /\ e.out[k] # <<>>}, LAMBDA k :
         If(e.out[k][1].t # CONNACK, Cmp("C13.first-packet-not-connack", k, ToString(e.out[k][1].t), e.out[k][1].pid))),
      \* at most one CONNACK per connection, and only in answer to its CONNECT
      ForAll(DOMAIN e.out, LAMBDA k :
         LET n == Len(SelectSeq(e.out[k], LAMBDA q : q.t = CONNACK)) IN
         If(n + Get(g.connacks, k, 0) > 1 \/ (n > 0 /\ ~(e.ev = "connect" /\ e.k = k)), Cmp("C13.extra-connack", k, "", n))),
      \* a first packet that is not a CONNECT (raw bytes): no session, at most a failure CONNACK, connection closed
      IF e.ev = "connect" /\ e.err = "" /\ e.a.hex # "" THEN
      Cat(<<If(ConnackOK(e), Cmp("C13.non-connect-admitted", e.c, "", 0)),
            If(~(HasConn(e.conns, e.k) /\ ConnRec(e.conns, e.k).eof), Cmp("C13.refused-but-open", e.c, "", 1)),
            If(HasClient(e.st, e.c) /\ ClientRec(e.st, e.c).k = e.k, Cmp("C13.refused-but-session", e.c, "", 1))>>)
      ELSE
      IF e.ev # "connect" \/ e.err # "" \/ e.a.hex # "" THEN <<>> ELSE
      Cat(<<If(ConnackOK(e) /\ ~AuthAllows(e.a), Cmp("C13.admitted-without-authentication", e.c, "", 0)),
            If(ConnackOK(e) /\ ~ValidConnect(e.a), Cmp("C13.invalid-connect-admitted", e.c, "", e.a.rawflags)),
            \* (closed by the broker: the connection itself, not merely its handler, has ended)
            If(~ConnackOK(e) /\ ~(HasConn(e.conns, e.k) /\ ConnRec(e.conns, e.k).eof), Cmp("C13.refused-but-open", e.c, "", 0)),
            If(~ConnackOK(e) /\ HasClient(e.st, e.c) /\ ClientRec(e.st, e.c).k = e.k, Cmp("C13.refused-but-session", e.c, "", 0)),
            If(ValidConnect(e.a) /\ AuthAllows(e.a) /\ ~ConnackOK(e) /\ (cfg.max_clients = 0 \/ Pre(i).info.connected < cfg.max_clients),
               Cmp("C13.valid-connect-refused", e.c, "", IF Len(Connacks(e)) > 0 THEN Connacks(e)[1].rc ELSE -1))>>)
    >>)

(* ================================================================== C14 session present / takeover *)
SameSub(a, b) == a.fs = b.fs /\ a.kind = b.kind /\ a.qos = b.qos /\ a.nl = b.nl /\ a.rap = b.rap /\ a.rh = b.rh /\ a.id = b.id
J_C14(i) ==
    LET e == Trace[i] pre == Pre(i) post == e.st IN
    Cat(<<
      IF e.ev # "connect" \/ e.err # "" \/ ~ConnackOK(e) THEN <<>> ELSE
      LET existed == HasClient(pre, e.c)
          \* a predecessor session that ends with its network connection (v3 clean session, v5 expiry 0) ends by
          \* the takeover / has ended at its disconnect: whether the broker still counts it is left free
          ephemeral == existed /\ LET c == ClientRec(pre, e.c) IN EndsAtDisconnect(c.v, c.clean, c.sei)
          old == OldConnOf(i) IN
      Cat(<<If(~ephemeral /\ ConnackSP(e) # (existed /\ ~e.a.clean), Cmp("C14.session-present-flag", e.c, "", IF ConnackSP(e) THEN 1 ELSE 0)),
            If(ephemeral /\ ConnackSP(e) /\ e.a.clean, Cmp("C14.session-present-flag", e.c, "", 1)),
            \* an MQTT 3 clean session is never a stored session: it ends with its connection (the takeover closes it), so no
            \* connection of either version resumes it (C15: discarded at disconnect, nothing of it survives for a later connection)
            If(ephemeral /\ ClientRec(pre, e.c).v < 5 /\ ConnackSP(e), Cmp("C14.v3-clean-session-resumed", e.c, "", 1)),
            \* resumed session keeps subscriptions and unacknowledged messages
            IF ConnackSP(e) THEN
               Cat(<<ForAll({s \in SubsOf(pre, e.c) : ~(\E s2 \in SubsOf(post, e.c) : SameSub(s, s2))}, LAMBDA s : Cmp("C14.subscription-lost-on-resume", e.c, s.fs, 0)),
                     ForAll({r \in InflightOf(pre, e.c) : r.t \in {PUBLISH, PUBREL} /\ ~(\E r2 \in InflightOf(post, e.c) : r2.pid = r.pid /\ r2.m = r.m)},
                            LAMBDA r : Cmp("C14.inflight-lost-on-resume", e.c, r.m, r.pid))>>)
            ELSE \* nothing of an earlier session survives a clean start
               Cat(<<ForAll(SubsOf(post, e.c), LAMBDA s : Cmp("C14.subscription-survives-clean-start", e.c, s.fs, 0)),
                     ForAll(InflightOf(post, e.c), LAMBDA r : Cmp("C14.inflight-survives-clean-start", e.c, r.m, r.pid)),
                     ForAll({p \in ToSet(OutOf(e, e.k)) : p.t \in {PUBLISH, PUBREL}}, LAMBDA p : Cmp("C14.delivery-after-clean-start", e.c, p.m, p.pid))>>),
            \* takeover: the predecessor gets (v5) DISCONNECT 0x8E, nothing after it, and is closed
            IF old = "" THEN <<>> ELSE
            LET ov == ConnRec(e.conns, old).v  oo == OutOf(e, old) IN
            Cat(<<If(ov = 5 /\ ~(oo # <<>> /\ oo[Len(oo)].t = DISCONNECT /\ oo[Len(oo)].rc = 142), Cmp("C14.takeover-disconnect-missing", e.c, old, Len(oo))),
                  If(\E n \in 1..Len(oo) : \E j \in 1..(n - 1) : oo[j].t = DISCONNECT, Cmp("C14.output-after-takeover-disconnect", e.c, old, Len(oo))),
                  If(~(ConnRec(e.conns, old).eof \/ ConnRec(e.conns, old).done), Cmp("C14.predecessor-not-closed", e.c, old, 0))>>)
          >>),
      \* a connection that was told DISCONNECT receives nothing afterwards
      ForAll({k \in DOMAIN e.out : k \in g.discd /\ e.out[k] # <<>>}, LAMBDA k : Cmp("C14.output-after-disconnect", k, ToString(e.out[k][1].t), Len(e.out[k])))
    >>)

(* ================================================================== C15 session expiry *)
ExpiryOf(c) == SessionExpiry(c.v, c.clean, c.sei_flag, c.sei, IF cfg.max_sess_expiry < 0 THEN 1000000000 ELSE cfg.max_sess_expiry)
J_C15(i) ==
    LET e == Trace[i] pre == Pre(i) post == e.st IN
    Cat(<<
      \* housekeeping discards only sessions that are disconnected and whose interval has elapsed
      IF e.ev = "tick" /\ e.a.kind = "clients" THEN
         Cat(<<ForAll({c \in Clients(pre) : ~HasClient(post, c.id)}, LAMBDA c :
                  Cat(<<If(~c.closed, Cmp("C15.connected-session-discarded", c.id, "", 0)),
                        If(c.closed /\ ~(e.tick - c.stop_time > ExpiryOf(c)), Cmp("C15.discarded-before-expiry", c.id, "", e.tick - c.stop_time))>>)),
               \* ... and the housekeeping run does discard every disconnected session whose (capped) interval has elapsed
               ForAll({c \in Clients(pre) : HasClient(post, c.id) /\ c.closed /\ ~c.inline /\ c.stop_time > 0 /\ e.tick - c.stop_time > ExpiryOf(c)}, LAMBDA c :
                  Cmp("C15.expired-session-kept-by-housekeeping", c.id, "", e.tick - c.stop_time))>>)
      ELSE <<>>,
      \* a session that ends at disconnect is gone after the disconnect
      IF e.ev \in {"disconnect", "netdrop"} /\ e.err = "" /\ HasClient(pre, e.c) /\ ClientRec(pre, e.c).k = e.k THEN
         LET c == ClientRec(pre, e.c)
             sei == IF e.ev = "disconnect" /\ e.a.sei >= 0 /\ c.v = 5 /\ ~(c.sei = 0 /\ e.a.sei > 0) THEN e.a.sei ELSE c.sei IN
         Cat(<<If(EndsAtDisconnect(c.v, c.clean, sei) /\ HasClient(post, e.c), Cmp("C15.session-kept-after-final-disconnect", e.c, "", sei)),
               If(~EndsAtDisconnect(c.v, c.clean, sei) /\ ~HasClient(post, e.c), Cmp("C15.session-dropped-at-disconnect", e.c, "", sei)),
               If(e.ev = "disconnect" /\ c.v = 5 /\ c.sei = 0 /\ e.a.sei > 0 /\ HasClient(post, e.c) /\ ClientRec(post, e.c).sei > 0,
                  Cmp("C15.expiry-raised-from-zero", e.c, "", e.a.sei))>>)
      ELSE <<>>,
      \* nothing survives a discarded session
      ForAll({s \in Subs(post) : s.kind # "inline" /\ ~HasClient(post, s.c)}, LAMBDA s : Cmp("C15.orphan-subscription", s.c, s.fs, 0))
    >>)

(* ================================================================== C08 inbound QoS 2 exactly once *)
J_C08(i) ==
    LET e == Trace[i] IN
    IF e.ev # "publish" \/ e.err # "" \/ e.a.qos # 2 THEN <<>> ELSE
    LET recs == SelectSeq(OutOf(e, e.k), LAMBDA q : q.t = PUBREC /\ q.pid = e.a.pid) IN
    IF Qos2Open(e.c, e.a.pid) THEN
       Cat(<<ForAll({d \in AllClientIds(e) : Got(i, d, e.a.m)}, LAMBDA d : Cmp("C08.retransmission-forwarded-again", d, e.a.m, e.a.pid)),
             If(\E h \in Hooks(e) : h.h = "inline" /\ h.m = e.a.m, Cmp("C08.retransmission-forwarded-again", "inline", e.a.m, e.a.pid)),
             If(Len(recs) = 0 /\ ~ClosedInStep(e), Cmp("C08.retransmission-unanswered", e.c, e.a.m, e.a.pid)),
             If(Len(recs) > 0 /\ recs[1].rc >= 128, Cmp("C08.retransmission-pubrec-failure", e.c, e.a.m, recs[1].rc))>>)
    ELSE <<>>

(* ================================================================== C09 / C10 outbound in-flight *)
Unacked(c) == Get(g.unacked, c, {})
(* the client's own acknowledgement in this step removes these ids from what must survive        *)
AckedNow(e) == IF e.err = "" /\ e.ev \in {"puback", "pubrec", "pubcomp"} THEN {e.pid} ELSE {}
J_C09(i) ==
    LET e == Trace[i] pre == Pre(i) post == e.st IN
    Cat(<<
      \* (1) a stored outbound record stays until acknowledged, expired, dropped or the session ends
      ForAll({c.id : c \in Clients(pre)}, LAMBDA c :
        IF SessionEndsIn(i, c) THEN <<>> ELSE
        ForAll({r \in InflightOf(pre, c) : r.t \in {PUBLISH, PUBREL} /\ ~(\E r2 \in InflightOf(post, c) : r2.pid = r.pid)}, LAMBDA r :
          IF (e.c = c /\ r.pid \in AckedNow(e)) \/ DroppedNow(e, c, r.pid) \/ (e.ev = "tick" /\ e.a.kind = "inflight") THEN <<>>
          ELSE IF e.c = c /\ e.ev = "publish" /\ e.a.qos > 0 /\ e.a.pid = r.pid THEN <<>>     \* C10's rule reports this one
          ELSE IF r \in DeferredDeleted(i, c)
               THEN Cmp("C09.record-deleted-by-deferred-send", c, r.m, r.pid)
          ELSE IF r \in DeferredLost(i, c)
               THEN Cmp("C09.deferred-record-lost-on-failed-send", c, r.m, r.pid)
          ELSE Cmp("C09.record-vanished", c, r.m, r.pid))),
      \* (2) resuming a session redelivers everything unacknowledged: same id, DUP, PUBREL after PUBREC
      IF e.ev = "connect" /\ e.err = "" /\ ConnackSP(e) THEN
        Cat(<<
          ForAll(Unacked(e.c), LAMBDA r :
            LET pubs == SelectSeq(OutOf(e, e.k), LAMBDA q : q.t = PUBLISH /\ q.pid = r.pid)
                rels == SelectSeq(OutOf(e, e.k), LAMBDA q : q.t = PUBREL /\ q.pid = r.pid)
                stored == \E x \in InflightOf(pre, e.c) : x.pid = r.pid IN
            IF r.phase = "rel" THEN
                Cat(<<If(Len(rels) = 0 /\ stored, Cmp("C09.pubrel-not-resent", e.c, r.m, r.pid)),
                      \* (a record the deferred-send tail deleted cannot be resent in whatever phase the exchange is: recorded finding)
                      If(Len(rels) = 0 /\ ~stored /\ r.pid \in Get(g.dsdel, e.c, {}), Cmp("C09.unacked-not-resent-after-deferred-send-deletion", e.c, r.m, r.pid)),
                      If(Len(rels) = 0 /\ ~stored /\ r.pid \notin Get(g.dsdel, e.c, {}), Cmp("C09.unacked-not-resent-record-gone", e.c, r.m, r.pid)),
                      If(Len(pubs) > 0, Cmp("C09.publish-resent-after-pubrec", e.c, r.m, r.pid))>>)
            ELSE
                Cat(<<If(Len(pubs) = 0 /\ stored, Cmp("C09.unacked-not-resent", e.c, r.m, r.pid)),
                      If(Len(pubs) = 0 /\ ~stored /\ r.pid \in Get(g.dsdel, e.c, {}), Cmp("C09.unacked-not-resent-after-deferred-send-deletion", e.c, r.m, r.pid)),
                      If(Len(pubs) = 0 /\ ~stored /\ r.pid \notin Get(g.dsdel, e.c, {}), Cmp("C09.unacked-not-resent-record-gone", e.c, r.m, r.pid)),
                      \* (an identifier whose record the deferred-send tail deleted is handed out again while the client still
                      \*  holds the first message under it: the resend then carries the later message - same recorded finding)
                      If(Len(pubs) > 0 /\ pubs[1].m # r.m,
                         IF r.pid \in Get(g.dsdel, e.c, {}) THEN Cmp("C09.unacked-not-resent-after-deferred-send-deletion", e.c, r.m, r.pid)
                         ELSE Cmp("C09.resend-different-message", e.c, r.m, r.pid)),
                      If(Len(pubs) > 0 /\ ~pubs[1].dup, Cmp("C09.resend-without-dup", e.c, r.m, r.pid))>>)),
          \* queued but never transmitted messages are sent or stay queued
          ForAll({r \in InflightOf(pre, e.c) : r.t = PUBLISH /\ ~(\E q \in ToSet(OutOf(e, e.k)) : q.t = PUBLISH /\ q.pid = r.pid)
                                                 /\ ~(\E r2 \in InflightOf(post, e.c) : r2.pid = r.pid /\ r2.m = r.m)},
                 LAMBDA r : Cmp("C09.queued-message-lost-on-resume", e.c, r.m, r.pid))
        >>)
      ELSE <<>>,
      \* (3) acknowledged messages are never sent again
      ForAll(AllClientIds(e), LAMBDA d :
         ForAll({q \in ToSet(PktsTo(e, d)) : q.t = PUBLISH /\ q.qos > 0 /\ q.m # "" /\ q.m \in Get(g.ackd, d, {}) /\ ~(IsPubStep(i) /\ PubOf(i).m = q.m)},
                LAMBDA q : Cmp("C09.acknowledged-message-resent", d, q.m, q.pid)))
    >>)

MaxPid == IF cfg.max_packet_id > 0 THEN cfg.max_packet_id ELSE 65535
J_C10(i) ==
    LET e == Trace[i] pre == Pre(i) post == e.st IN
    Cat(<<
      \* identifiers of new outbound messages are in range and not in use by an unacknowledged one
      ForAll(AllClientIds(e), LAMBDA d :
         LET inUse == {r.pid : r \in {x \in Unacked(d) : ~(e.c = d /\ x.pid \in AckedNow(e) /\ e.ev # "pubrec")}} IN
         ForAll({q \in ToSet(PktsTo(e, d)) : q.t = PUBLISH /\ q.qos > 0}, LAMBDA q :
            Cat(<<If(q.pid < 1 \/ q.pid > MaxPid, Cmp("C10.packet-id-out-of-range", d, q.m, q.pid)),
                  If(q.pid \in inUse /\ ~(\E r \in Unacked(d) : r.pid = q.pid /\ r.m = q.m) /\ ~(SessionEndsIn(i, d) /\ e.ev = "connect"),
                     IF q.pid \in Get(GhostNextOf(i).clob, d, {}) THEN Cmp("C10.packet-id-reused-after-client-id-clobbered-record", d, q.m, q.pid)
                     ELSE IF q.pid \in Get(g.dsdel, d, {}) THEN Cmp("C10.packet-id-reused-after-deferred-send-deletion", d, q.m, q.pid)
                     ELSE Cmp("C10.packet-id-in-use", d, q.m, q.pid))>>))),
      \* two different outbound PUBLISHes of one step never share an identifier
      ForAll(DOMAIN e.out, LAMBDA k :
         If(\E a, b \in 1..Len(e.out[k]) : a < b /\ e.out[k][a].t = PUBLISH /\ e.out[k][b].t = PUBLISH /\ e.out[k][a].qos > 0 /\ e.out[k][b].qos > 0
                 /\ e.out[k][a].pid = e.out[k][b].pid /\ e.out[k][a].m # e.out[k][b].m, Cmp("C10.packet-id-shared-in-step", k, "", 0))),
      \* the client's own publish identifiers never touch the broker's outbound records ...
      IF e.ev = "publish" /\ e.err = "" /\ e.a.qos > 0 /\ ~SessionEndsIn(i, e.c) THEN
         ForAll({r \in InflightOf(pre, e.c) : r.t \in {PUBLISH, PUBREL} /\ r.pid = e.a.pid
                    /\ ~(\E r2 \in InflightOf(post, e.c) : r2.pid = r.pid /\ r2.m = r.m /\ r2.t = r.t)},
                LAMBDA r : Cmp("C10.client-publish-id-clobbers-outbound-record", e.c, r.m, r.pid))
      ELSE <<>>,
      \* ... and the client's acknowledgements of outbound messages never release its own open QoS 2 publishes
      IF e.ev \in {"puback", "pubcomp"} /\ e.err = "" /\ ~SessionEndsIn(i, e.c) /\ Qos2Open(e.c, e.pid)
            /\ (\E r \in InflightOf(pre, e.c) : r.pid = e.pid /\ r.t = PUBREC)
            /\ ~(\E r \in InflightOf(post, e.c) : r.pid = e.pid /\ r.t = PUBREC)
      THEN Cmp("C10.client-ack-clobbers-inbound-marker", e.c, "", e.pid) ELSE <<>>,
      \* the broker's own choice of an outbound identifier never replaces the marker of an inbound QoS 2 exchange the
      \* client has open under the same number (the two directions have separate identifier spaces) ...
      ForAll(AllClientIds(e), LAMBDA d :
         ForAll({r \in InflightOf(pre, d) : r.t = PUBREC /\ Qos2Open(d, r.pid) /\ ~SessionEndsIn(i, d)
                    /\ ~(e.c = d /\ e.ev \in {"pubrel", "puback", "pubcomp", "publish"} /\ (e.pid = r.pid \/ (e.ev = "publish" /\ e.a.pid = r.pid)))
                    /\ (\E r2 \in InflightOf(post, d) : r2.pid = r.pid /\ r2.t = PUBLISH)},
                LAMBDA r : Cmp("C10.outbound-id-clobbers-inbound-marker", d, "", r.pid))),
      \* ... and the client's PUBREL, which completes ITS publish, never removes an outbound message of the broker
      IF e.ev = "pubrel" /\ e.err = "" /\ ~SessionEndsIn(i, e.c) THEN
         ForAll({r \in InflightOf(pre, e.c) : r.t = PUBLISH /\ r.pid = e.pid /\ r.m # "" /\ e.pid \notin Get(g.clob, e.c, {})
                    /\ ~(\E r2 \in InflightOf(post, e.c) : r2.pid = r.pid /\ r2.m = r.m)},
                LAMBDA r : Cmp("C10.client-pubrel-deletes-outbound-record", e.c, r.m, r.pid))
      ELSE <<>>
    >>)

(* ================================================================== C11 receive maximum *)
InTransit(U, k) == Cardinality({r \in U : r.k = k})
J_C11(i) ==
    LET e == Trace[i] gn == GhostNextOf(i) IN
    Cat(<<
      \* outbound: never more unacknowledged PUBLISH packets in transit than the client allows.
      \* (Over-sending on a connection on which one of the recorded quota-accounting defects has been
      \*  triggered before - uncharged resend, inbound PUBREL, stray PUBCOMP, failed PUBREC, deferred-send
      \*  deletion - is reported under its own rule name; see known_findings.json.)
      ForAll({c \in ToSet(e.conns) : ~c.done /\ ~c.eof /\ ~c.dropped}, LAMBDA c :
         LET n == InTransit(Get(gn.unacked, c.c, {}), c.k)
             before == InTransit(Unacked(c.c), c.k) IN
         If(n > Get(g.rm, c.k, IF e.ev = "connect" /\ e.k = c.k /\ e.a.rm > 0 THEN e.a.rm ELSE 65535) /\ n > before,
            IF e.ev = "connect" THEN Cmp("C11.receive-maximum-exceeded-by-resend", c.c, c.k, n)
            ELSE IF c.k \in gn.sdr THEN Cmp("C11.receive-maximum-exceeded-after-known-quota-defect", c.c, c.k, n)
            ELSE Cmp("C11.receive-maximum-exceeded", c.c, c.k, n))),
      \* inbound: 0x93 only when the client really exceeds the broker's Receive Maximum; QoS 0 never counts
      IF e.ev = "publish" /\ e.err = "" /\ (\E q \in ToSet(OutOf(e, e.k)) : q.t = DISCONNECT /\ q.rc = 147) THEN
         LET open == Cardinality(Get(g.q2in, e.c, {})) + (IF e.a.qos = 1 \/ (e.a.qos = 2 /\ ~Qos2Open(e.c, e.a.pid)) THEN 1 ELSE 0) IN   \* only a QoS 2 retransmission adds nothing
         If(e.a.qos = 0, Cmp("C11.receive-maximum-applied-to-qos0", e.c, e.a.m, open))
         \o If(e.a.qos > 0 /\ open <= cfg.recv_max,
               IF e.k \in g.rdr THEN Cmp("C11.spurious-receive-maximum-disconnect-after-outbound-pubrec", e.c, e.a.m, open)
               ELSE Cmp("C11.spurious-receive-maximum-disconnect", e.c, e.a.m, open))
      ELSE <<>>,
      \* liveness (checked at "mark drained" lines after the generator acknowledged everything): nothing is stuck
      IF e.ev = "mark" THEN
         ForAll({c \in Clients(e.st) : ~c.closed /\ c.k # ""}, LAMBDA c :
            ForAll({r \in ToSet(c.inflight) : r.t = PUBLISH /\ r.m \notin Get(g.txed, c.id, {})}, LAMBDA r :
               IF c.k \in g.sdr THEN Cmp("C11.deferred-message-stuck-after-known-quota-defect", c.id, r.m, r.pid)
               ELSE Cmp("C11.deferred-message-stuck", c.id, r.m, r.pid)))
      ELSE <<>>
    >>)

(* ================================================================== C12 publish order *)
J_C12(i) ==
    LET e == Trace[i] IN
    ForAll(AllClientIds(e), LAMBDA d :
      LET ps == SelectSeq(PktsTo(e, d), LAMBDA q : q.t = PUBLISH /\ q.m # "" /\ q.m \in DOMAIN g.pubidx /\ q.m \notin Get(g.txed, d, {}))
          pendingM == {r.m : r \in {x \in InflightOf(Pre(i), d) \cup InflightOf(e.st, d) : x.t = PUBLISH /\ x.m \in DOMAIN g.pubidx}}
      IN Cat(<<
        \* first transmissions inside one step follow publish order
        ForAll({n \in 1..Len(ps) : \E j \in 1..(n - 1) : LET a == g.pubidx[ps[j].m] b == g.pubidx[ps[n].m] IN
                                       a.origin = b.origin /\ a.ts = b.ts /\ ps[j].qos = ps[n].qos /\ a.idx > b.idx},
               LAMBDA n : Cmp("C12.out-of-order-in-step", d, ps[n].m, n)),
        \* a first transmission never overtakes an earlier message of the same stream that is still waiting
        ForAll({n \in 1..Len(ps) : \E m1 \in pendingM : m1 \notin Get(g.txed, d, {}) /\ ~(\E j \in 1..Len(ps) : ps[j].m = m1)
                                      /\ LET a == g.pubidx[m1] b == g.pubidx[ps[n].m] IN a.origin = b.origin /\ a.ts = b.ts /\ a.idx < b.idx /\ a.qos = b.qos},
               LAMBDA n : Cmp("C12.overtakes-waiting-message", d, ps[n].m, n))>>))

(* ================================================================== C16 will messages *)
WillOf(k) == g.will[k]
(* the abnormal end of connection k in this step *)
AbnormalEnd(i, k) == AbnormalEndG(i, k)
NormalEnd(i, k) == LET e == Trace[i] IN e.ev = "disconnect" /\ e.k = k /\ e.err = "" /\ e.a.rc = 0 /\ k \in DOMAIN g.will
WillPublishedIn(e, m) == WillDelivered(e, m) \/ (\E h \in Hooks(e) : h.h = "will_sent" /\ h.m = m) \/ (\E r \in RetainedSet(e.st) : r.m = m)

J_C16(i) ==
    LET e == Trace[i] pre == Pre(i) IN
    Cat(<<
      \* immediate wills: published in the step in which the connection ends abnormally, with the requested attributes
      ForAll({k \in DOMAIN g.will : AbnormalEnd(i, k) /\ (g.will[k].delay = 0 \/ g.will[k].v < 5)
                                     /\ g.will[k].m \notin g.nowill /\ g.will[k].m \notin g.willsent /\ CanWrite(g.will[k].c, g.will[k].ts)},
        LAMBDA k : LET w == g.will[k]
                       E == EntitledPlain(Subs(pre), w.c, w.t, LAMBDA d : CanRead(d, w.ts)) IN
          Cat(<<ForAll({d \in E : Online(pre, d) /\ d # w.c /\ WireCopies(e, d, w.m) = 0 /\ ~Excused(i, d, w.m, 1)},
                       LAMBDA d : IF e.ev = "disconnect" /\ e.a.short THEN Cmp("C16.will-not-published-on-short-disconnect-0x04", w.c, w.m, 0)
                                  ELSE IF k \in g.wipedw THEN Cmp("C16.will-not-published-after-delayed-will-wiped-it", w.c, w.m, 0)
                                  ELSE Cmp("C16.will-not-published", w.c, w.m, 0)),
                ForAll({d \in E : WireCopies(e, d, w.m) = 1}, LAMBDA d :
                       LET q == PublishesOf(e, d, w.m)[1] IN
                       If(q.topic # w.t, Cmp("C16.will-attributes", w.c, w.m, 1))),
                If(w.retain /\ cfg.retain_avail = 1 /\ ~(\E r \in RetainedSet(e.st) : r.m = w.m /\ r.ts = w.ts), Cmp("C16.will-not-retained", w.c, w.m, 0))>>)),
      \* a will that was discarded (normal DISCONNECT, session resumed in time, already sent) is never published
      ForAll({m \in g.nowill \cup g.willsent : WillDelivered(e, m) /\ ~(m \in g.willsent /\ \E d \in AllClientIds(e) : \E q \in ToSet(PktsTo(e, d)) : q.m = m /\ (q.dup \/ q.ret))},
             LAMBDA m : IF m \in g.willsent THEN Cmp("C16.will-published-twice", "", m, 0) ELSE Cmp("C16.will-published-after-discard", "", m, 0)),
      ForAll({k \in DOMAIN g.will : NormalEnd(i, k) /\ WillPublishedIn(e, g.will[k].m)}, LAMBDA k : Cmp("C16.will-published-on-normal-disconnect", g.will[k].c, g.will[k].m, 0)),
      \* delayed wills: published by the first housekeeping run after min(delay, session end); cancelled by a resuming connection
      IF e.ev = "tick" /\ e.a.kind = "wills" THEN
         ForAll({c \in DOMAIN g.pendw : g.pendw[c].due < e.tick - 1}, LAMBDA c :
            LET w == g.pendw[c] E == EntitledPlain(Subs(pre), c, w.t, LAMBDA d : CanRead(d, w.ts)) IN
            ForAll({d \in E : Online(pre, d) /\ WireCopies(e, d, w.m) = 0 /\ ~Excused(i, d, w.m, 1)}, LAMBDA d : Cmp("C16.delayed-will-not-published", c, w.m, e.tick - w.due)))
         \o ForAll({c \in DOMAIN g.pendw : g.pendw[c].due > e.tick + 1 /\ WillDelivered(e, g.pendw[c].m)}, LAMBDA c : Cmp("C16.delayed-will-published-early", c, g.pendw[c].m, g.pendw[c].due - e.tick))
      ELSE <<>>,
      \* a clean-start connection ends the session: a pending delayed will is due now
      IF e.ev = "connect" /\ e.err = "" /\ ConnackOK(e) /\ ~ConnackSP(e)
            /\ (e.c \in DOMAIN g.pendw \/ (\E k \in DOMAIN g.will : AbnormalEndG(i, k) /\ g.will[k].c = e.c /\ g.will[k].delay > 0 /\ g.will[k].v = 5)) THEN
         LET w == IF e.c \in DOMAIN g.pendw THEN g.pendw[e.c]
                  ELSE g.will[CHOOSE k \in DOMAIN g.will : AbnormalEndG(i, k) /\ g.will[k].c = e.c /\ g.will[k].delay > 0]
             E == EntitledPlain(Subs(pre), e.c, w.t, LAMBDA d : CanRead(d, w.ts)) IN
         ForAll({d \in E : Online(pre, d) /\ d # e.c /\ WireCopies(e, d, w.m) = 0 /\ ~Excused(i, d, w.m, 1)}, LAMBDA d : Cmp("C16.delayed-will-lost-by-clean-start", e.c, w.m, 0))
      ELSE <<>>
    >>)

(* ================================================================== C24 topic aliases *)
J_C24(i) ==
    LET e == Trace[i] IN
    Cat(<<
      ForAll(DOMAIN e.out, LAMBDA k :
         LET tam == Get(g.tam, k, IF e.ev = "connect" /\ e.k = k THEN e.a.tam ELSE 0) IN
         ForAll({n \in 1..Len(e.out[k]) : e.out[k][n].t = PUBLISH}, LAMBDA n :
            LET q == e.out[k][n]
                \* aliases this connection has been told so far (including earlier packets of this step)
                told == [a \in DOMAIN Get(g.aliasOut, k, <<>>) \cup {e.out[k][j].alias : j \in {x \in 1..(n - 1) : e.out[k][x].t = PUBLISH /\ e.out[k][x].alias > 0 /\ e.out[k][x].ts # ""}} |->
                            IF \E j \in 1..(n - 1) : e.out[k][j].t = PUBLISH /\ e.out[k][j].alias = a /\ e.out[k][j].ts # ""
                            THEN e.out[k][CHOOSE j \in 1..(n - 1) : e.out[k][j].t = PUBLISH /\ e.out[k][j].alias = a /\ e.out[k][j].ts # "" /\ \A j2 \in (j + 1)..(n - 1) : ~(e.out[k][j2].t = PUBLISH /\ e.out[k][j2].alias = a /\ e.out[k][j2].ts # "")].ts
                            ELSE g.aliasOut[k][a]]
            IN Cat(<<\* (a stored in-flight PUBLISH that carried an alias is resent verbatim on the session's next connection,
                     \*  whose Topic Alias Maximum may be smaller or 0: recorded finding AliasedPublishResentVerbatim)
                     If(q.alias > tam, IF e.ev = "connect" /\ k = e.k THEN Cmp("C24.aliased-publish-resent-on-new-connection", k, q.m, q.alias)
                                       ELSE Cmp("C24.alias-exceeds-client-maximum", k, q.m, q.alias)),
                     If(q.ts = "" /\ q.alias = 0, IF e.ev = "connect" THEN Cmp("C24.aliased-publish-resent-on-new-connection", k, q.m, 0)
                                                  ELSE Cmp("C24.empty-topic-without-alias", k, q.m, 0)),
                     \* (an alias that exists only in the broker's outbound table - its first carrier was dropped, deferred
                     \*  or sent on an earlier connection - is the signature of a recorded finding and has its own rule name)
                     If(q.ts = "" /\ q.alias > 0 /\ q.alias \notin DOMAIN told,
                        LET cid == ConnRec(e.conns, k).c
                            tbl == IF HasClient(Pre(i), cid) THEN ToSet(ClientRec(Pre(i), cid).alias_out) ELSE {} IN
                        IF e.ev = "connect" THEN Cmp("C24.aliased-publish-resent-on-new-connection", k, q.m, q.alias)
                        ELSE IF \E pr \in tbl : pr[2] = q.alias THEN Cmp("C24.alias-bound-only-in-broker-table", k, q.m, q.alias)
                        ELSE Cmp("C24.alias-never-bound-on-this-connection", k, q.m, q.alias)),
                     If(q.ts = "" /\ q.alias > 0 /\ q.alias \in DOMAIN told /\ q.m \in DOMAIN g.pubidx /\ told[q.alias] # g.pubidx[q.m].ts,
                        Cmp("C24.alias-resolves-to-wrong-topic", k, q.m, q.alias))>>))),
      \* inbound
      IF e.ev = "publish" /\ e.err = "" /\ e.a.alias > 0 THEN
         LET bound == Get(g.aliasIn, e.k, <<>>)
             resolvable == ~e.a.notopic \/ e.a.alias \in DOMAIN bound
             rts == IF ~e.a.notopic THEN JoinL(e.a.t) ELSE IF e.a.alias \in DOMAIN bound THEN bound[e.a.alias] ELSE ""
             routedTo == {q.ts : q \in UNION {ToSet(PktsTo(e, d)) : d \in AllClientIds(e)} \cap {x \in UNION {ToSet(PktsTo(e, d)) : d \in AllClientIds(e)} : x.t = PUBLISH /\ x.m = e.a.m /\ x.ts # ""}}
         IN Cat(<<If(e.a.alias > cfg.topic_alias_max /\ (\E d \in AllClientIds(e) : Got(i, d, e.a.m)), Cmp("C24.inbound-alias-above-maximum-routed", e.c, e.a.m, e.a.alias)),
                  If(e.a.alias > cfg.topic_alias_max /\ ~ClosedInStep(e), Cmp("C24.inbound-alias-above-maximum-accepted", e.c, e.a.m, e.a.alias)),
                  If(~resolvable /\ (\E d \in AllClientIds(e) : Got(i, d, e.a.m)), Cmp("C24.inbound-unbound-alias-routed", e.c, e.a.m, e.a.alias)),
                  If(~resolvable /\ ~ClosedInStep(e) /\ e.a.alias <= cfg.topic_alias_max, Cmp("C24.inbound-unbound-alias-accepted", e.c, e.a.m, e.a.alias)),
                  If(resolvable /\ e.a.alias <= cfg.topic_alias_max /\ routedTo # {} /\ routedTo # {rts}, Cmp("C24.inbound-alias-resolved-wrongly", e.c, e.a.m, e.a.alias))>>)
      ELSE <<>>
    >>)

(* ================================================================== C34 flush / reported drops *)
J_C34(i) ==
    LET e == Trace[i] IN
    Cat(<<
      \* everything reported as sent is on the connection (same packets, same order)
      ForAll(DOMAIN e.sent \cup DOMAIN e.out, LAMBDA k :
         LET rep == IF k \in DOMAIN e.sent THEN e.sent[k] ELSE <<>>
             wire == [n \in 1..Len(OutOf(e, k)) |-> ToString(OutOf(e, k)[n].t) \o ":" \o ToString(OutOf(e, k)[n].pid)] IN
         LET cid == IF HasConn(e.conns, k) THEN ConnRec(e.conns, k).c ELSE ""
             buffered == (HasClient(e.st, cid) /\ ClientRec(e.st, cid).outbuf > 0) \/ (HasClient(Pre(i), cid) /\ ClientRec(Pre(i), cid).outbuf > 0) IN
         If(rep # wire /\ ~(HasConn(e.conns, k) /\ ConnRec(e.conns, k).dropped)
              \* (a connection that is not being read is not quiescent: what is reported and what is written are compared
              \*  again from the step after it resumed reading)
              /\ ~(HasConn(e.conns, k) /\ ConnRec(e.conns, k).stalled) /\ ~(e.ev = "stall" /\ e.k = k),
            IF buffered THEN Cmp("C34.reported-sent-but-held-in-write-buffer", k, "", Len(rep) - Len(wire))
            ELSE Cmp("C34.reported-sent-differs-from-wire", k, "", Len(rep) - Len(wire)))),
      \* nothing is stranded in a write buffer at quiescence
      ForAll({c \in Clients(e.st) : c.outbuf > 0 /\ ~c.closed}, LAMBDA c : Cmp("C34.bytes-stranded-in-buffer", c.id, "", c.outbuf)),
      \* an entitled, connected client that gets no copy has a drop reported to the hooks
      IF IsPubStep(i) /\ Routed(i) /\ PubOf(i).m # "" THEN
         LET p == PubOf(i) IN
         ForAll({d \in PlainEntitled(i) : Online(Pre(i), d) /\ ~Got(i, d, p.m) /\ ~Hooked(e, "dropped", d, p.m) /\ ~Hooked(e, "pid_exhausted", d, p.m)
                                           /\ ~StalledClient(e, d)      \* (a client that does not read gets its copy, or a reported drop, later: next rule)
                                           /\ ~(d = p.origin /\ \E s \in MatchingSubs(Subs(Pre(i)), p.t) : s.c = d /\ s.nl)},
                LAMBDA d : IF e.st.info.inflight_dropped > Pre(i).info.inflight_dropped THEN Cmp("C34.inflight-limit-drop-not-reported", d, p.m, 0)
                           ELSE IF Get(g.mps, ClientRec(Pre(i), d).k, 0) > 0 THEN Cmp("C34.oversize-drop-not-reported", d, p.m, 0)
                           ELSE Cmp("C34.unreported-drop", d, p.m, 0))
      ELSE <<>>,
      \* when a client that had stopped reading reads again, every message accepted for it meanwhile arrives
      IF e.ev = "stall" /\ e.a.kind = "off" /\ e.err = "" THEN
         ForAll({m \in Get(g.stq, e.c, {}) : WireCopies(e, e.c, m) = 0 /\ ~Hooked(e, "dropped", e.c, m)}, LAMBDA m :
            IF Get(g.mps, e.k, 0) > 0 THEN Cmp("C34.oversize-drop-not-reported", e.c, m, 0)       \* (the size limit is applied when the packet is written)
            ELSE Cmp("C34.unreported-drop-while-not-reading", e.c, m, 0))
      ELSE <<>>
    >>)

(* ================================================================== C40 inline client *)
J_C40(i) ==
    LET e == Trace[i] pre == Pre(i) IN
    Cat(<<
      \* every publication reaches exactly the matching inline subscriptions
      IF IsPubStep(i) /\ Routed(i) /\ PubOf(i).m # "" THEN
         LET want == InlineMatching(Subs(pre), PubOf(i).t)
             got  == {h.p : h \in {x \in Hooks(e) : x.h = "inline" /\ x.m = PubOf(i).m}} IN
         ForAll(want \ got, LAMBDA id : Cmp("C40.inline-subscription-missed", "inline", PubOf(i).m, id))
         \o ForAll(got \ want, LAMBDA id : Cmp("C40.inline-subscription-unexpected", "inline", PubOf(i).m, id))
      ELSE <<>>,
      \* a new inline subscription first receives the matching retained messages
      IF e.ev = "inline_subscribe" /\ e.err = "" THEN
         LET want == {r.m : r \in {x \in RetainedSet(pre) : Matches(e.a.t, x.t)}}
             got  == {h.m : h \in {x \in Hooks(e) : x.h = "inline" /\ x.p = e.a.inline_id}} \ {e.a.dur_m} IN
         \* a message published while the handler of the new subscription runs for the first time (the subscription has
         \* begun to receive, so it is live), or right after Subscribe returned, reaches it
         If(e.a.dur_m # "" /\ Matches(e.a.t, e.a.dur_t) /\ ~(\E x \in Hooks(e) : x.h = "inline" /\ x.p = e.a.inline_id /\ x.m = e.a.dur_m),
            Cmp("C40.publication-during-retained-replay-missed", "inline", e.a.dur_m, e.a.inline_id))
         \o ForAll(want \ got, LAMBDA m : Cmp("C40.inline-retained-missing", "inline", m, e.a.inline_id))
         \o ForAll(got \ want, LAMBDA m : Cmp("C40.inline-retained-unexpected", "inline", m, e.a.inline_id))
         \o If(~(\E s \in Subs(e.st) : s.kind = "inline" /\ s.id = e.a.inline_id /\ s.f = e.a.t), Cmp("C40.inline-subscribe-not-registered", "inline", JoinL(e.a.t), e.a.inline_id))
      ELSE <<>>,
      \* the inline subscriptions in the index are exactly those the API history made (whatever clients do to the same filters)
      IF e.ev # "Config" THEN
         LET have == {<<s.id, s.f>> : s \in {x \in Subs(e.st) : x.kind = "inline"}}
             want == InlNext(g.inlG, e) IN
         ForAll(want \ have, LAMBDA x : Cmp("C40.inline-subscription-lost", "inline", JoinL(x[2]), x[1]))
         \o ForAll(have \ want, LAMBDA x : Cmp("C40.inline-subscription-not-from-api", "inline", JoinL(x[2]), x[1]))
      ELSE <<>>,
      \* unsubscribing one inline subscription removes that identifier on that filter only
      IF e.ev = "inline_unsubscribe" /\ e.err = "" THEN
         LET inl(st) == {<<s.id, s.f>> : s \in {x \in Subs(st) : x.kind = "inline"}} IN
         If(inl(e.st) # inl(pre) \ {<<e.a.inline_id, e.a.t>>}, Cmp("C40.inline-unsubscribe-effect", "inline", JoinL(e.a.t), e.a.inline_id))
      ELSE <<>>
    >>)

(* ================================================================== C19 hook chain (scripted stacks) *)
(* the chain folded over the scripted hooks, for a PUBLISH of topic ts / payload m               *)
RECURSIVE ChainPub(_, _, _, _)
ChainPub(hs, n, ts, m) ==   \* -> [verdict, ts, m, ran]
    IF n > Len(hs) THEN [verdict |-> "pass", ts |-> ts, m |-> m, ran |-> <<>>]
    ELSE LET h == hs[n] IN
         IF h.on_publish = "" THEN ChainPub(hs, n + 1, ts, m)
         ELSE LET rest(ts2, m2) == ChainPub(hs, n + 1, ts2, m2) IN
              CASE h.on_publish = "pass" -> [rest(ts, m) EXCEPT !.ran = <<[name |-> h.name, ts |-> ts, m |-> m]>> \o @]
                [] h.on_publish \in {"reject", "ignore", "code", "error"} ->
                       [verdict |-> h.on_publish, ts |-> ts, m |-> m, ran |-> <<[name |-> h.name, ts |-> ts, m |-> m]>>]
                [] OTHER -> [rest(ts, m) EXCEPT !.ran = <<[name |-> h.name, ts |-> ts, m |-> m]>> \o @]
J_C19(i) ==
    LET e == Trace[i] IN
    IF cfg.scripted = <<>> THEN <<>> ELSE
    Cat(<<
      IF e.ev = "publish" /\ e.err = "" /\ e.a.m # "" THEN
         LET rd == \E n \in 1..Len(cfg.scripted) : cfg.scripted[n].on_read = "reject"
             stopAt == IF \E n \in 1..Len(cfg.scripted) : cfg.scripted[n].on_publish \in {"reject", "ignore", "code", "error"}
                       THEN MinIn({n \in 1..Len(cfg.scripted) : cfg.scripted[n].on_publish \in {"reject", "ignore", "code", "error"}}) ELSE 0
             ranNames == [n \in 1..Len(SelectSeq(e.hooks, LAMBDA h : h.h = "s_publish")) |-> SelectSeq(e.hooks, LAMBDA h : h.h = "s_publish")[n].c]
             provide == SelectSeq(cfg.scripted, LAMBDA h : h.on_publish # "")
             wantRun == [n \in 1..(IF stopAt = 0 THEN Len(provide) ELSE Len(SelectSeq(SubSeq(cfg.scripted, 1, stopAt), LAMBDA h : h.on_publish # ""))) |-> provide[n].name]
             delivered == \E d \in AllClientIds(e) : \E q \in ToSet(PktsTo(e, d)) : q.t = PUBLISH /\ (q.m = e.a.m \/ (\E n \in 1..Len(cfg.scripted) : cfg.scripted[n].on_publish = "payload:" \o q.m))
             retainedNow == \E r \in RetainedSet(e.st) : ~(\E r0 \in RetainedSet(Pre(i)) : r0.m = r.m /\ r0.ts = r.ts)
         IN Cat(<<If(rd /\ (SelectSeq(e.hooks, LAMBDA h : h.h = "s_publish") # <<>> \/ delivered \/ retainedNow), Cmp("C19.packet-rejected-on-read-was-processed", e.c, e.a.m, 0)),
                  If(~rd /\ ValidPubTopic(e.a.t) /\ ranNames # wantRun, Cmp("C19.hook-order-or-short-circuit", e.c, e.a.m, Len(ranNames))),
                  If(~rd /\ stopAt > 0 /\ delivered, Cmp("C19.rejected-publish-forwarded", e.c, e.a.m, stopAt)),
                  If(~rd /\ stopAt > 0 /\ retainedNow, Cmp("C19.rejected-publish-retained", e.c, e.a.m, stopAt))>>)
      ELSE <<>>,
      IF e.ev = "connect" /\ e.err = "" /\ e.a.hex = "" THEN
         If(ConnackOK(e) # (AuthAllows(e.a) /\ ValidConnect(e.a)), Cmp("C19.any-auth-hook-admits", e.c, "", IF ConnackOK(e) THEN 1 ELSE 0))
      ELSE <<>>
    >>)

(* ================================================================== C25 message expiry *)
J_C25(i) ==
    LET e == Trace[i] pre == Pre(i) post == e.st IN
    Cat(<<
      \* stored expiry = publish time + smaller non-zero of publisher interval and server maximum
      IF IsPubStep(i) /\ Routed(i) /\ e.ev = "publish" /\ e.a.m # "" THEN
         LET eff == EffectiveExpiry(e.a.mei, cfg.max_msg_expiry) IN
         ForAll({r \in UNION {InflightOf(post, c.id) : c \in Clients(post)} : r.m = e.a.m /\ r.t = PUBLISH /\ r.expiry >= 0}, LAMBDA r :
            If((eff = 0 /\ r.expiry # 0) \/ (eff > 0 /\ r.expiry # r.created + eff), Cmp("C25.stored-expiry", e.c, e.a.m, r.expiry - r.created)))
         \o ForAll({r \in RetainedSet(post) : r.m = e.a.m}, LAMBDA r :
            If((eff = 0 /\ r.expiry # 0) \/ (eff > 0 /\ r.expiry # r.created + eff), Cmp("C25.retained-expiry", e.c, e.a.m, r.expiry - r.created)))
      ELSE <<>>,
      \* housekeeping removes what has expired strictly before its time argument
      IF e.ev = "tick" /\ e.a.kind = "retained" THEN
         ForAll({r \in RetainedSet(post) : r.expiry > 0 /\ r.expiry < e.tick}, LAMBDA r : Cmp("C25.expired-retained-kept", "", r.m, e.tick - r.expiry))
         \o ForAll({r \in RetainedSet(pre) : ~(\E r2 \in RetainedSet(post) : r2.m = r.m) /\ ~(r.expiry > 0 /\ r.expiry < e.tick)
                                            /\ ~(cfg.max_msg_expiry > 0 /\ e.tick - r.created > cfg.max_msg_expiry)}, LAMBDA r : Cmp("C25.unexpired-retained-removed", "", r.m, r.expiry - e.tick))
      ELSE IF e.ev = "tick" /\ e.a.kind = "inflight" THEN
         ForAll(Clients(post), LAMBDA c : ForAll({r \in ToSet(c.inflight) : r.t = PUBLISH /\ r.expiry > 0 /\ r.expiry < e.tick}, LAMBDA r : Cmp("C25.expired-inflight-kept", c.id, r.m, e.tick - r.expiry)))
      ELSE <<>>,
      \* a message whose expiry lies before the last housekeeping time is never transmitted for the first time
      ForAll(AllClientIds(e), LAMBDA d :
         ForAll({q \in ToSet(PktsTo(e, d)) : q.t = PUBLISH /\ q.m \in DOMAIN g.expm /\ q.m \notin Get(g.txed, d, {})}, LAMBDA q :
            \* (a record stored with the "send later" marker Expiry = -1 is invisible to the in-flight housekeeping:
            \*  recorded finding DeferredMarkerErasesExpiry, own rule name)
            If(q.m \in (IF q.ret /\ e.ev = "subscribe" THEN g.deadR ELSE g.deadI),
               IF \E r \in InflightOf(pre, d) : r.pid = q.pid /\ r.m = q.m /\ r.expiry < 0
               THEN Cmp("C25.expired-message-delivered-from-deferred-record", d, q.m, IF q.ret THEN 1 ELSE 0)
               ELSE Cmp("C25.expired-message-delivered", d, q.m, IF q.ret THEN 1 ELSE 0)))),
      \* delivered Message Expiry Interval never exceeds the time remaining
      ForAll({k \in DOMAIN e.out : ConnRec(e.conns, k).v = 5}, LAMBDA k :
         ForAll({q \in ToSet(e.out[k]) : q.t = PUBLISH /\ q.m \in DOMAIN g.expm /\ g.expm[q.m] > 0}, LAMBDA q :
            Cat(<<If(q.mei < 0,
                     IF \E r \in InflightOf(pre, ConnRec(e.conns, k).c) \cup InflightOf(e.st, ConnRec(e.conns, k).c) : r.pid = q.pid /\ r.m = q.m /\ r.expiry < 0
                     THEN Cmp("C25.expiry-interval-missing-on-deferred-message", k, q.m, 0)
                     ELSE Cmp("C25.expiry-interval-missing", k, q.m, 0)),
                  \* (a record stored with the "send later" marker Expiry = -1 keeps the publisher's interval instead of the
                  \*  time remaining: same recorded finding as the missing interval above, own rule name)
                  If(q.mei >= 0 /\ q.mei > g.expm[q.m] - pre.now + 1 /\ q.mei > 1,
                     IF \E r \in InflightOf(pre, ConnRec(e.conns, k).c) \cup InflightOf(e.st, ConnRec(e.conns, k).c) : r.pid = q.pid /\ r.m = q.m /\ r.expiry < 0
                     THEN Cmp("C25.expiry-interval-stale-on-deferred-message", k, q.m, q.mei - (g.expm[q.m] - pre.now))
                     ELSE Cmp("C25.expiry-interval-grew", k, q.m, q.mei - (g.expm[q.m] - pre.now)))>>)))
    >>)

(* ================================================================== all rules of one line *)
(* membership of share groups: a client that subscribed to $share/<group>/<filter> in its current session and has   *)
(* not unsubscribed from it is a member of that group in the broker's topic index - whatever other clients did      *)
J_C06S(i) ==
    LET e == Trace[i]
        G == GhostNextOf(i).subG IN
    ForAll({c \in DOMAIN G : HasClient(e.st, c)}, LAMBDA c :
        ForAll({fs \in G[c] : \E s \in Subs(Pre(i)) : s.kind = "shared" /\ s.c = c /\ s.fs = fs}, LAMBDA fs :
            If(~(\E s \in Subs(e.st) : s.kind = "shared" /\ s.c = c /\ s.fs = fs)
                 /\ ~(e.c = c /\ e.ev \in {"unsubscribe", "connect", "disconnect", "netdrop"}),
               Cmp("C06.group-member-lost", c, fs, 0))))

(* ... and the same for plain subscriptions: a subscription of the current session that was in the topic index before  *)
(* this step is still there after it, unless the step is the client's own UNSUBSCRIBE / connection change or ends    *)
(* the session (the index is what every delivery rule reads its expectation from)                                    *)
J_C03S(i) ==
    LET e == Trace[i]
        G == GhostNextOf(i).subG IN
    ForAll({c \in DOMAIN G : HasClient(e.st, c) /\ HasClient(Pre(i), c)}, LAMBDA c :
        ForAll({fs \in G[c] : \E s \in Subs(Pre(i)) : s.kind = "client" /\ s.c = c /\ s.fs = fs}, LAMBDA fs :
            If(~(\E s \in Subs(e.st) : s.kind = "client" /\ s.c = c /\ s.fs = fs)
                 /\ ~(e.c = c /\ e.ev \in {"unsubscribe", "connect", "disconnect", "netdrop", "raw"})
                 /\ e.ev # "tick",
               Cmp("C03.subscription-lost", c, fs, 0))))

(* the options under which the broker's topic index holds a client's (non-shared) subscription are those of the     *)
(* client's latest granted SUBSCRIBE of that filter in the current session (they decide QoS, identifiers, retain    *)
(* flag of every later delivery)                                                                                    *)
J_C04S(i) ==
    LET e == Trace[i] IN
    ForAll({s \in Subs(e.st) : s.kind = "client" /\ s.c \in DOMAIN g.optG /\ HasClient(e.st, s.c)}, LAMBDA s :
        LET O == GhostNextOf(i).optG IN
        IF ~(s.c \in DOMAIN O /\ s.fs \in DOMAIN O[s.c]) THEN <<>> ELSE
        LET o == O[s.c][s.fs] IN
        If(s.qos # o.qos \/ s.rap # o.rap \/ s.nl # o.nl \/ s.id # o.id,
           Cmp("C04.subscription-options-stale", s.c, s.fs, s.qos)))


Judge(i) ==
    Cat(<<If(T("C03"), J_C03(i) \o J_Spurious(i)),
          If(T("C06"), J_C06(i)),
          If(T("C04"), J_C04(i) \o J_C04R(i)),
          If(T("C04"), J_C04S(i)),
          If(T("C06"), J_C06S(i)), If(T("C03") \/ T("C05") \/ T("C15"), J_C03S(i)),
          If(T("C05"), J_C05(i)),
          If(T("C07"), J_C07(i)),
          If(T("C08"), J_C08(i)),
          If(T("C09"), J_C09(i)),
          If(T("C10"), J_C10(i)),
          If(T("C11"), J_C11(i)),
          If(T("C12"), J_C12(i)),
          If(T("C13"), J_C13(i)),
          If(T("C14"), J_C14(i)),
          If(T("C15"), J_C15(i)),
          If(T("C16"), J_C16(i)),
          If(T("C17"), J_C17(i)),
          If(T("C19"), J_C19(i)),
          If(T("C24"), J_C24(i)),
          If(T("C25"), J_C25(i)),
          If(T("C30"), J_C30(i)),
          If(T("C23"), J_C23(i)),
          If(T("C34"), J_C34(i)),
          If(T("C38"), J_C38(i)),
          If(T("C40"), J_C40(i))>>)

Init == l = 1 /\ cfg = Trace[1].cfg /\ g = GhostInit /\ bad = <<>> /\ nbad = 0

Next ==
    /\ l <= Len(Trace)
    /\ LET e == Trace[l]
           c == IF e.ev = "Config" THEN <<>> ELSE Judge(l) IN
         /\ cfg' = IF e.ev = "Config" THEN e.cfg ELSE cfg
         /\ g' = GhostNextOf(l)
         /\ nbad' = nbad + Len(c)
         /\ bad' = IF c = <<>> \/ Len(bad) >= 200 THEN bad
                   ELSE Append(bad, [line |-> l, ev |-> e.ev, complaints |-> c])
         /\ l' = l + 1
         /\ TLCSet(1, l') /\ TLCSet(2, bad') /\ TLCSet(3, nbad')

Spec == Init /\ [][Next]_vars

Done == /\ TLCGet(1) = Len(Trace) + 1
        /\ JsonSerialize(OutFile, [lines |-> Len(Trace), bad |-> TLCGet(2), nbad |-> TLCGet(3)])
=================================================================================
