\* faulty pool (Get does not remove the buffer from the pool): TLC must refute NoSharing
SPECIFICATION Spec
CONSTANTS
  Buffers = {b1, b2, b3}
  Holders = {g1, g2}
  Cap = 1
  Sizes = {0, 1, 2}
  GetRemoves = FALSE
  PutResets = TRUE
  PutChecksCap = TRUE
INVARIANTS TypeOK NoSharing HandedOutEmpty CapRespected Intact NoLeakInModel
