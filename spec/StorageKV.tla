------------------------------- MODULE StorageKV -------------------------------
(* PART 1 of the storage specification (see Storage.tla, which EXTENDS this module): the        *)
(* key/value store, pure operators only, so that the trace specifications (TraceStorage20/21/22,*)
(* GenStorage) can use them without the variables of the protocol state machine.                *)
(*   store  : function Key -> Value; nine write events PutClient, DelClient, PutSub, DelSub,    *)
(*            PutRetained, DelRetained, PutInflight, DelInflight, PutSys (one atomic write each) *)
(*   mode   : the key function - "tuple" (injective reference) or "concat" (the code's          *)
(*            prefix + id + ":" + suffix, for which ("a:b","c") and ("a","b:c") collide)        *)
(*   ApplyEvent : one recorded storage-hook call -> the writes it must perform                  *)
(*   ReadBack   : what the five Stored* methods must return                                     *)
EXTENDS Integers, Sequences, FiniteSets, TLC

--------------------------------------------------------------------------------
(* PART 1: key/value store                                                                     *)

Kinds == {"CL", "SUB", "RET", "IFM", "SYS"}

ClientKey(mode, c)    == <<"CL",  IF mode = "concat" THEN c ELSE <<c>>>>
SubKey(mode, c, f)    == <<"SUB", IF mode = "concat" THEN c \o ":" \o f ELSE <<c, f>>>>
RetKey(mode, t)       == <<"RET", IF mode = "concat" THEN t ELSE <<t>>>>
InfKey(mode, c, pid)  == <<"IFM", IF mode = "concat" THEN c \o ":" \o ToString(pid) ELSE <<c, pid>>>>
SysKey(mode)          == <<"SYS", IF mode = "concat" THEN "SYS" ELSE <<"SYS">>>>

EmptyStore == <<>>
Put(store, k, v) == [x \in DOMAIN store \cup {k} |-> IF x = k THEN v ELSE store[x]]
Del(store, k)    == [x \in DOMAIN store \ {k} |-> store[x]]
KeysOf(store, kind) == {k \in DOMAIN store : k[1] = kind}
ValuesOf(store, kind) == {store[k] : k \in KeysOf(store, kind)}

(* The nine write events. *)
PutClient(store, mode, c, rec)        == Put(store, ClientKey(mode, c), rec)
DelClient(store, mode, c)             == Del(store, ClientKey(mode, c))
PutSub(store, mode, c, f, rec)        == Put(store, SubKey(mode, c, f), rec)
DelSub(store, mode, c, f)             == Del(store, SubKey(mode, c, f))
PutRetained(store, mode, t, rec)      == Put(store, RetKey(mode, t), rec)
DelRetained(store, mode, t)           == Del(store, RetKey(mode, t))
PutInflight(store, mode, c, pid, rec) == Put(store, InfKey(mode, c, pid), rec)
DelInflight(store, mode, c, pid)      == Del(store, InfKey(mode, c, pid))
PutSys(store, mode, rec)              == Put(store, SysKey(mode), rec)

(* Stored records as fixed projections of the hook arguments (e.c = client, e.pk = packet). *)
ClientRec(c, dev) ==
    [id |-> c.id, user |-> c.user, v |-> c.v, clean |-> c.clean, sei |-> c.sei,
     seif |-> IF "FlagsNotPersisted" \in dev THEN FALSE ELSE c.seif,
     rpi |-> c.rpi, rpif |-> IF "FlagsNotPersisted" \in dev THEN FALSE ELSE c.rpif,
     rri |-> c.rri, rm |-> c.rm, tam |-> c.tam, mps |-> c.mps, will |-> c.will,
     listener |-> c.listener, remote |-> c.remote, t |-> "CL"]

SubRec(c, f, code) ==
    [c |-> c.id, f |-> f.f, q |-> code, nl |-> f.nl, rap |-> f.rap, rh |-> f.rh, ident |-> f.ident, t |-> "SUB"]

MsgRec(kind, c, pk, sent, dev) ==
    [c |-> c.id, o |-> pk.o, topic |-> pk.topic, m |-> pk.m, q |-> pk.q, r |-> pk.r, dup |-> pk.dup, ty |-> pk.ty,
     pid |-> IF kind = "IFM" /\ "NoPacketID" \notin dev THEN pk.pid ELSE 0,
     created |-> pk.created, sent |-> sent, mei |-> pk.mei, ct |-> pk.ct, rt |-> pk.rt, cd |-> pk.cd,
     up |-> pk.up, sid |-> pk.sid, alias |-> 0,   \* topic aliases are connection state: never persisted
     pf |-> pk.pf,
     pff |-> IF "FlagsNotPersisted" \in dev THEN FALSE ELSE pk.pff, t |-> kind]

ZeroSys == [id |-> "", t |-> "", version |-> "", started |-> 0, uptime |-> 0, bytes_received |-> 0,
            clients_connected |-> 0, retained |-> 0, inflight |-> 0, subscriptions |-> 0, threads |-> 0]
SysRec(s) == [x \in DOMAIN s |-> IF x \in {"id", "t"} THEN "SYS" ELSE s[x]]

Refused(code) == code >= 128

RECURSIVE PutSubs(_, _, _, _, _)
PutSubs(store, mode, dev, e, i) ==
    IF i > Len(e.filters) THEN store
    ELSE LET f == e.filters[i]  code == e.codes[i]
             s1 == IF Refused(code) /\ "StoreRefused" \notin dev THEN store
                   ELSE PutSub(store, mode, e.c.id, f.f, SubRec(e.c, f, code))
         IN PutSubs(s1, mode, dev, e, i + 1)

RECURSIVE DelSubs(_, _, _, _)
DelSubs(store, mode, e, i) ==
    IF i > Len(e.filters) THEN store
    ELSE DelSubs(DelSub(store, mode, e.c.id, e.filters[i].f), mode, e, i + 1)

(* One recorded storage-hook call -> the store after it. *)
ApplyEvent(store, mode, dev, e) ==
    CASE e.op = "established" -> PutClient(store, mode, e.c.id, ClientRec(e.c, dev))
      \* (the connection object of a session that was taken over leaves the record to its successor: 7d9b762)
      [] e.op = "will_sent"   -> IF e.c.stop = "takenover" THEN store ELSE PutClient(store, mode, e.c.id, ClientRec(e.c, dev))
      [] e.op = "disconnect"  ->
            IF e.c.stop = "takenover" THEN store ELSE
            LET s1 == IF "NoDisconnectRewrite" \in dev THEN store
                      ELSE PutClient(store, mode, e.c.id, ClientRec(e.c, dev))
            IN IF e.expire THEN DelClient(s1, mode, e.c.id) ELSE s1
      [] e.op = "client_expired" -> DelClient(store, mode, e.c.id)
      [] e.op = "subscribed"   -> PutSubs(store, mode, dev, e, 1)
      [] e.op = "unsubscribed" -> DelSubs(store, mode, e, 1)
      [] e.op = "retain" ->
            IF e.r = -1 THEN DelRetained(store, mode, e.pk.topic)
            ELSE PutRetained(store, mode, e.pk.topic, MsgRec("RET", e.c, e.pk, 0, dev))
      [] e.op = "retained_expired" -> DelRetained(store, mode, e.pk.topic)
      [] e.op = "qos_publish"  -> PutInflight(store, mode, e.c.id, e.pk.pid, MsgRec("IFM", e.c, e.pk, e.sent, dev))
      [] e.op = "qos_complete" -> DelInflight(store, mode, e.c.id, e.pk.pid)
      [] e.op = "qos_dropped"  -> DelInflight(store, mode, e.c.id, e.pk.pid)
      [] e.op = "sys_tick"     -> PutSys(store, mode, SysRec(e.sys))

(* the `id` field a backend reports for a stored record (concat mode only): the file stores prefix the key,   *)
(* redis keeps one hash per kind and stores the bare key (by design).                                       *)
StoredID(backend, k) ==
    IF k[1] \in {"CL", "SYS"} THEN k[2]
    ELSE IF backend = "redis" THEN k[2] ELSE k[1] \o "_" \o k[2]

WithID(store, kind, backend) ==
    {[x \in DOMAIN store[k] \cup {"id"} |-> IF x = "id" THEN StoredID(backend, k) ELSE store[k][x]] : k \in KeysOf(store, kind)}

(* what the five Stored* methods of `backend` must return for `store` (sets: order is irrelevant) *)
ReadBack(store, backend) ==
    [clients  |-> ValuesOf(store, "CL"),
     subs     |-> WithID(store, "SUB", backend),
     retained |-> WithID(store, "RET", backend),
     inflight |-> WithID(store, "IFM", backend),
     sys      |-> IF KeysOf(store, "SYS") = {} THEN {ZeroSys} ELSE ValuesOf(store, "SYS")]


================================================================================
