--------------------------------- MODULE Attach ---------------------------------
(* Fine-grained model of the connection life cycle of the broker (server.go attachClient,      *)
(* inheritClientSession, sendLWT, Close, listeners.CloseAll) at the granularity of the          *)
(* schedule points verifAt(...) that the verif build tag puts into the code.  One action =      *)
(* the code between two consecutive schedule points of one goroutine; the action's name is      *)
(* the schedule point REACHED at its end (that is the event the driver records).                *)
(*                                                                                             *)
(* Processes: N connection handlers (each serves one client connection whose CONNECT has        *)
(* already been written by the client), one closer (Server.Close), and the environment          *)
(* (client drops its connection, client subscribes, a publisher publishes to a client's         *)
(* topic, the housekeeping tick that sends delayed wills).                                      *)
(*                                                                                             *)
(* The constant Dev selects, per place where the code deviates from what the listed             *)
(* properties demand, the coded behaviour (name in Dev) or the reference behaviour (name not    *)
(* in Dev):                                                                                     *)
(*   "LimitRace"        the client limit is tested at attach.limitChecked and the counter is    *)
(*                      incremented later without re-testing (C35)                              *)
(*   "WgAddInHandler"   ClientsWg.Add(1) is executed by the handler goroutine, not by whoever   *)
(*                      spawns it, so Close's Wait can pass before a spawned handler ran (C36)  *)
(*   "CloseMissesLate"  a handler that registers its client after Close took its snapshot of    *)
(*                      the clients is never disconnected; Close waits for it forever (C36)     *)
(*   "TeardownDeletes"  the teardown of a connection whose session ends with it removes the     *)
(*                      registry entry and the subscriptions OF ITS CLIENT ID, also when a      *)
(*                      successor connection of the same id has registered meanwhile (C14/C15)  *)
(*   "RegBeforeAck"     the client is findable by publishers (Clients.Add) before its CONNACK   *)
(*                      is written (C13)                                                        *)
(*   "InheritRace"      the look-up of an existing client of the id (inheritClientSession) and the     *)
(*                      registration of the new one (Clients.Add) are not atomic: of two connections   *)
(*                      of one id that both find nobody, both are served and one is unfindable (C14)   *)
(*   "ReadNil"          a connection that has been closed by the broker (takeover, shutdown) before its   *)
(*                      handler enters the read loop ends "normally": its will is discarded (C16)       *)
(*   "TickWipes"        publishing a delayed will clears the will of the client registered under the id,   *)
(*                      also when that is a newer connection (only reachable after LateWill/InheritRace)  *)
(*   "LateWill"         a superseded connection registers its delayed will after the resuming   *)
(*                      successor cancelled the delayed wills of the id (C16)                   *)
(* With Dev = {} every property below is an invariant (MC_Attach_ref.cfg); with Dev = {d} TLC   *)
(* produces a counterexample to the property d belongs to (MC_Attach_<d>.cfg) - those           *)
(* counterexamples are the witness schedules replayed on the real broker.                       *)
EXTENDS Integers, Sequences, FiniteSets, TLC

CONSTANTS N,            \* number of handlers
          MaxChoices,   \* set of values of Capabilities.MaximumClients to explore
          IdSet,        \* client ids
          CfgChoices,   \* set of functions H -> [id, ver, clean, expire, will]: client id, protocol version, Clean
                        \*   Start, session ends with the connection, will: -1 none, 0 immediate, 1 delayed
          Dev,          \* see above
          EnvOn,        \* which environment/closer actions a configuration explores: subset of {"sub","pub","tick","drop","close"}
          MaxHist       \* bound on the recorded history (model checking only)

H == 1..N
NoH == 0
Ids == IdSet

VARIABLES
    MaxClients, \* Capabilities.MaximumClients (chosen initially, never changes)
    cfg,       \* the configuration of the handlers' CONNECT packets (chosen initially, never changes)
    pc,        \* pc[h]: where handler h is parked
    wg,        \* Listeners.ClientsWg counter
    cnt,       \* Info.ClientsConnected
    reg,       \* reg[id]: the handler whose client is in Server.Clients under id, or NoH
    trie,      \* set of ids that have a subscription in the topic index
    own,       \* own[h]: the client object of h holds the subscription in its own map
    inh,       \* inh[h]: the handler whose client inheritClientSession found registered (NoH: none, or not there yet)
    stopped,   \* stopped[h]: the broker closed the connection (Client.Stop) or the client did
    tko,       \* tko[h]: isTakenOver
    sp,        \* sp[h]: session present computed by inheritClientSession
    wire,      \* wire[h]: packets written to connection h: "CONNACK0" "CONNACK1" "BUSY" "PUBLISH" "DISC8E" "DISC8B"
    delayed,   \* ids with a pending delayed will, delayed[id] = handler whose will it is, or NoH
    wills,     \* wills[h]: how often the will of connection h was published
    wiped,     \* handlers whose will message the broker has cleared without publishing it (see Tick)
    resumedBy, \* resumedBy[h]: 0 no, 1 a successor resumed (session present) the session of h, 2 ... and has passed the
               \*   point where it cancels the delayed will of the id
    cpc,       \* closer: "idle" "begin" "waiting" "closed" "returned"
    closing,   \* Close has taken its snapshot of the clients (listener end flag set)
    xp,        \* the handlers whose (disconnected, expired) client objects the housekeeping is discarding: it has taken its
               \*   snapshot of Server.Clients and is inside OnClientExpired of the first of them ({} = not running)
    hist       \* the events so far (schedule for the driver)

vars == <<MaxClients, cfg, pc, wg, cnt, reg, trie, own, inh, stopped, tko, sp, wire, delayed, wills, resumedBy, wiped, cpc, closing, xp, hist>>
view == <<MaxClients, cfg, pc, wg, cnt, reg, trie, own, inh, stopped, tko, sp, wire, delayed, wills, resumedBy, wiped, cpc, closing, xp>>

Id(h) == cfg[h].id
Ev(h, g) == [h |-> h, g |-> g]
Log(h, g) == hist' = Append(hist, Ev(h, g)) /\ UNCHANGED <<cfg, MaxClients>>

Init ==
    /\ MaxClients \in MaxChoices
    /\ cfg \in CfgChoices
    /\ pc = [h \in H |-> "idle"] /\ wg = 0 /\ cnt = 0
    /\ reg = [i \in Ids |-> NoH] /\ trie = {} /\ own = [h \in H |-> FALSE] /\ inh = [h \in H |-> NoH]
    /\ stopped = [h \in H |-> FALSE] /\ tko = [h \in H |-> FALSE] /\ sp = [h \in H |-> FALSE]
    /\ wire = [h \in H |-> <<>>]
    /\ delayed = [i \in Ids |-> NoH] /\ wills = [h \in H |-> 0] /\ resumedBy = [h \in H |-> 0] /\ wiped = {}
    /\ cpc = "idle" /\ closing = FALSE /\ xp = {} /\ hist = <<>>

Write(w, h, p) == [w EXCEPT ![h] = IF stopped[h] THEN @ ELSE Append(@, p)]
Acked(h) == \E k \in 1..Len(wire[h]) : wire[h][k] \in {"CONNACK0", "CONNACK1"}
(* DISCONNECT to a client found in the registry: the reference does not write it to a client that  *)
(* has not had its CONNACK yet (it is just closed)                                                *)
Disc(w, h, p) == IF "RegBeforeAck" \in Dev \/ Acked(h) THEN Write(w, h, p) ELSE w

(* ------------------------------------------------------------------ handler h               *)
(* the listener hands the accepted connection to a new goroutine; the reference adds to the    *)
(* wait group here, and a listener that has been told to end spawns nothing                    *)
Spawn(h) ==
    /\ pc[h] = "idle" /\ ~closing
    /\ pc' = [pc EXCEPT ![h] = "spawned"]
    /\ wg' = IF "WgAddInHandler" \in Dev THEN wg ELSE wg + 1
    /\ Log(h, "spawn")
    /\ UNCHANGED <<cnt, reg, trie, own, inh, stopped, tko, sp, wire, delayed, wills, resumedBy, wiped, cpc, closing>>

Added(h) ==
    /\ pc[h] = "spawned"
    /\ pc' = [pc EXCEPT ![h] = "added"]
    /\ wg' = IF "WgAddInHandler" \in Dev THEN wg + 1 ELSE wg
    /\ Log(h, "attach.added")
    /\ UNCHANGED <<cnt, reg, trie, own, inh, stopped, tko, sp, wire, delayed, wills, resumedBy, wiped, cpc, closing>>

(* return of the handler function: deferred decrement (if counted), Stop, ClientsWg.Done        *)
Finish(h, counted, w) ==
    /\ pc' = [pc EXCEPT ![h] = "done"]
    /\ stopped' = [stopped EXCEPT ![h] = TRUE]
    /\ cnt' = IF counted THEN cnt - 1 ELSE cnt
    /\ wg' = wg - 1
    /\ wire' = w

(* read CONNECT; test the limit.  The coded version only tests; the reference reserves a slot. *)
LimitOk(h) ==
    /\ pc[h] = "added" /\ cnt < MaxClients
    /\ pc' = [pc EXCEPT ![h] = "limitChecked"]
    /\ Log(h, "attach.limitChecked")
    /\ UNCHANGED <<wg, cnt, reg, trie, own, inh, stopped, tko, sp, wire, delayed, wills, resumedBy, wiped, cpc, closing>>

LimitRefuse(h) ==
    /\ pc[h] = "added" /\ cnt >= MaxClients
    /\ Finish(h, FALSE, Write(wire, h, "BUSY"))
    /\ Log(h, "finished")
    /\ UNCHANGED <<reg, trie, own, inh, tko, sp, delayed, wills, resumedBy, wiped, cpc, closing>>

(* validateConnect, OnConnect, authentication (always admitted here), ClientsConnected++.       *)
(* Reference: the increment re-tests the limit atomically and refuses when it is reached.      *)
Count(h) ==
    /\ pc[h] = "limitChecked"
    /\ ("LimitRace" \in Dev \/ cnt < MaxClients)
    /\ pc' = [pc EXCEPT ![h] = "counted"]
    /\ cnt' = cnt + 1
    /\ Log(h, "attach.counted")
    /\ UNCHANGED <<wg, reg, trie, own, inh, stopped, tko, sp, wire, delayed, wills, resumedBy, wiped, cpc, closing>>

CountRefuse(h) ==
    /\ pc[h] = "limitChecked" /\ "LimitRace" \notin Dev /\ cnt >= MaxClients
    /\ Finish(h, FALSE, Write(wire, h, "BUSY"))
    /\ Log(h, "finished")
    /\ UNCHANGED <<reg, trie, own, inh, tko, sp, delayed, wills, resumedBy, wiped, cpc, closing>>

(* inheritClientSession *)
Inherit(h) ==
    /\ pc[h] = "counted"
    /\ LET e == reg[Id(h)] IN
        IF e = NoH
          THEN /\ sp' = [sp EXCEPT ![h] = FALSE]
               /\ UNCHANGED <<stopped, wire, tko, trie, own, resumedBy>>
          ELSE LET discard == cfg[h].clean \/ (cfg[e].ver < 5 /\ cfg[e].clean) IN
               /\ wire' = Disc(wire, e, "DISC8E")                  \* DisconnectClient(existing, session taken over)
               /\ stopped' = [stopped EXCEPT ![e] = TRUE]
               /\ tko' = [tko EXCEPT ![e] = TRUE]
               /\ sp' = [sp EXCEPT ![h] = ~discard]
               /\ resumedBy' = [resumedBy EXCEPT ![e] = IF discard THEN 0 ELSE 1]
               /\ IF discard
                    THEN /\ trie' = IF own[e] /\ ~tko[e] THEN trie \ {Id(h)} ELSE trie
                         /\ own' = [own EXCEPT ![e] = FALSE]
                    ELSE /\ trie' = IF own[e] THEN trie \cup {Id(h)} ELSE trie
                         /\ own' = [own EXCEPT ![e] = FALSE, ![h] = own[e]]
    /\ inh' = [inh EXCEPT ![h] = reg[Id(h)]]
    /\ pc' = [pc EXCEPT ![h] = "inherited"]
    /\ Log(h, "attach.inherited")
    /\ UNCHANGED <<wg, cnt, reg, delayed, wills, wiped, cpc, closing>>

(* Clients.Add.  Reference (no "InheritRace"): a client of the id that registered since this handler *)
(* looked is taken over now (its session is not inherited any more: treated as discarded).            *)
Register(h) ==
    /\ pc[h] = "inherited"
    /\ reg' = [reg EXCEPT ![Id(h)] = h]
    /\ LET e == reg[Id(h)]
           late == e # NoH /\ e # inh[h] /\ e # h /\ "InheritRace" \notin Dev
       IN /\ wire' = IF late THEN Disc(wire, e, "DISC8E") ELSE wire
          /\ stopped' = [x \in H |-> stopped[x] \/ (late /\ x = e)]
          /\ tko' = IF late THEN [tko EXCEPT ![e] = TRUE] ELSE tko
          /\ trie' = IF late /\ own[e] THEN trie \ {Id(h)} ELSE trie
          /\ own' = IF late THEN [own EXCEPT ![e] = FALSE] ELSE own
    /\ pc' = [pc EXCEPT ![h] = "registered"]
    /\ Log(h, "attach.registered")
    /\ UNCHANGED <<wg, cnt, inh, sp, delayed, wills, resumedBy, wiped, cpc, closing>>

(* After Clients.Add the reference looks whether Close has begun (Server.done closed): the client may  *)
(* have missed the clients that Close disconnects, so it is closed at once, without a packet.          *)
Shut == cpc # "idle" /\ "CloseMissesLate" \notin Dev

(* SendConnack(success).  If the connection has been closed meanwhile the write fails and the    *)
(* handler returns (deferred decrement, Stop, Done) without the session-end clean-up.            *)
Connack(h) ==
    /\ pc[h] = "registered" /\ ~stopped[h] /\ ~Shut
    /\ wire' = Write(wire, h, IF sp[h] THEN "CONNACK1" ELSE "CONNACK0")
    /\ pc' = [pc EXCEPT ![h] = "acked"]
    /\ Log(h, "attach.willCancel")
    /\ UNCHANGED <<wg, cnt, reg, trie, own, inh, stopped, tko, sp, delayed, wills, resumedBy, wiped, cpc, closing>>

ConnackFails(h) ==
    /\ pc[h] = "registered" /\ (stopped[h] \/ Shut)
    /\ Finish(h, TRUE, wire)
    /\ Log(h, "finished")
    /\ UNCHANGED <<reg, trie, own, inh, tko, sp, delayed, wills, resumedBy, wiped, cpc, closing>>

(* a will published although its cancellation point has passed counts 10 (see P16) *)
PubUnit(d) == IF resumedBy[d] = 2 THEN 10 ELSE 1

(* the pending delayed will of the id: published now when the session was not resumed,          *)
(* cancelled otherwise; then the resend of in-flight messages and OnSessionEstablished          *)
WillCancel(h) ==
    /\ pc[h] = "acked"
    /\ LET d == delayed[Id(h)] IN
         /\ wills' = IF d # NoH /\ ~sp[h] THEN [wills EXCEPT ![d] = @ + PubUnit(d)] ELSE wills
         /\ delayed' = [delayed EXCEPT ![Id(h)] = NoH]
    /\ resumedBy' = [e \in H |-> IF sp[h] /\ resumedBy[e] = 1 /\ Id(e) = Id(h) THEN 2 ELSE resumedBy[e]]
    /\ pc' = [pc EXCEPT ![h] = "established"]
    /\ Log(h, "attach.established")
    /\ UNCHANGED <<wg, cnt, reg, trie, own, inh, stopped, tko, sp, wire, wiped, cpc, closing>>

(* a delayed will of a session that ends with its connection is due at once (delay capped by the   *)
(* session expiry interval)                                                                        *)
EffWill(h) == IF cfg[h].will = 1 /\ cfg[h].expire THEN 0 ELSE cfg[h].will
(* what sendLWT does: nothing if the will has been cleared *)
CurWill(h) == IF h \in wiped THEN -1 ELSE EffWill(h)

(* the handler enters its read loop (blocks until the connection ends).  Coded: Client.Read returns  *)
(* nil at once when the connection is already closed, which attachClient takes for a normal          *)
(* disconnect: the will is discarded.                                                                *)
EnterReadClosed(h) ==
    /\ pc[h] = "established" /\ stopped[h]
    /\ IF "ReadNil" \in Dev
         THEN pc' = [pc EXCEPT ![h] = "tCleanup"] /\ Log(h, "teardown.cleanup")
         ELSE pc' = [pc EXCEPT ![h] = "tWill"] /\ Log(h, "teardown.will")       \* Read reports the stop cause
    /\ UNCHANGED <<wg, cnt, reg, trie, own, inh, stopped, tko, sp, wire, delayed, wills, resumedBy, wiped, cpc, closing>>

EnterRead(h) ==
    /\ pc[h] = "established" /\ ~stopped[h]
    /\ pc' = [pc EXCEPT ![h] = "reading"]
    /\ Log(h, "read")
    /\ UNCHANGED <<wg, cnt, reg, trie, own, inh, stopped, tko, sp, wire, delayed, wills, resumedBy, wiped, cpc, closing>>

(* the read loop ends with an error (connection closed by either side) *)
ReadEnds(h) ==
    /\ pc[h] = "reading" /\ stopped[h]
    /\ pc' = [pc EXCEPT ![h] = "tWill"]
    /\ Log(h, "teardown.will")
    /\ UNCHANGED <<wg, cnt, reg, trie, own, inh, stopped, tko, sp, wire, delayed, wills, resumedBy, wiped, cpc, closing>>

(* sendLWT: immediate will published; delayed will parks at lwt.delayAdd first *)
WillNowOrNone(h) ==
    /\ pc[h] = "tWill" /\ CurWill(h) < 1
    /\ wills' = IF CurWill(h) = 0 THEN [wills EXCEPT ![h] = @ + 1] ELSE wills
    /\ pc' = [pc EXCEPT ![h] = "tCleanup"]
    /\ Log(h, "teardown.cleanup")
    /\ UNCHANGED <<wg, cnt, reg, trie, own, inh, stopped, tko, sp, wire, delayed, resumedBy, wiped, cpc, closing>>

WillDelayGate(h) ==
    /\ pc[h] = "tWill" /\ CurWill(h) = 1
    /\ pc' = [pc EXCEPT ![h] = "tDelay"]
    /\ Log(h, "lwt.delayAdd")
    /\ UNCHANGED <<wg, cnt, reg, trie, own, inh, stopped, tko, sp, wire, delayed, wills, resumedBy, wiped, cpc, closing>>

(* willDelayed.Add.  Reference: a connection that has been superseded does not park its will: if the  *)
(* successor resumed the session the will is cancelled, otherwise the session has ended and the will   *)
(* is due now.                                                                                         *)
WillDelayAdd(h) ==
    /\ pc[h] = "tDelay"
    /\ IF "LateWill" \in Dev \/ ~tko[h]
         THEN delayed' = [delayed EXCEPT ![Id(h)] = h] /\ UNCHANGED wills
         ELSE /\ UNCHANGED delayed
              /\ wills' = IF resumedBy[h] > 0 THEN wills ELSE [wills EXCEPT ![h] = @ + 1]
    /\ pc' = [pc EXCEPT ![h] = "tCleanup"]
    /\ Log(h, "teardown.cleanup")
    /\ UNCHANGED <<wg, cnt, reg, trie, own, inh, stopped, tko, sp, wire, resumedBy, wiped, cpc, closing>>

(* OnDisconnect; session end: the test of isTakenOver, then ClearInflights, UnsubscribeClient    *)
(* (the OnUnsubscribed hook is the next schedule point), Clients.Delete                          *)
SessionEnds(h) == cfg[h].expire /\ ~tko[h]

(* the OnDisconnect hook runs BEFORE the test of isTakenOver *)
DisconnectHook(h) ==
    /\ pc[h] = "tCleanup"
    /\ pc' = [pc EXCEPT ![h] = "tDisc"]
    /\ Log(h, "hook.disconnect")
    /\ UNCHANGED <<wg, cnt, reg, trie, own, inh, stopped, tko, sp, wire, delayed, wills, resumedBy, wiped, cpc, closing>>

CleanupKeep(h) ==
    /\ pc[h] = "tDisc" /\ ~SessionEnds(h)
    /\ Finish(h, TRUE, wire)
    /\ Log(h, "finished")
    /\ UNCHANGED <<reg, trie, own, inh, tko, sp, delayed, wills, resumedBy, wiped, cpc, closing>>

CleanupUnsub(h) ==
    /\ pc[h] = "tDisc" /\ SessionEnds(h)
    /\ trie' = IF own[h] /\ ("TeardownDeletes" \in Dev \/ reg[Id(h)] = h) THEN trie \ {Id(h)} ELSE trie
    /\ own' = [own EXCEPT ![h] = FALSE]
    /\ pc' = [pc EXCEPT ![h] = "tHook"]
    /\ Log(h, "hook.unsubscribed")
    /\ UNCHANGED <<wg, cnt, reg, inh, stopped, tko, sp, wire, delayed, wills, resumedBy, wiped, cpc, closing>>

CleanupDelete(h) ==
    /\ pc[h] = "tHook"
    /\ reg' = IF "TeardownDeletes" \in Dev \/ reg[Id(h)] = h THEN [reg EXCEPT ![Id(h)] = NoH] ELSE reg
    /\ Finish(h, TRUE, wire)
    /\ Log(h, "finished")
    /\ UNCHANGED <<trie, own, inh, tko, sp, delayed, wills, resumedBy, wiped, cpc, closing>>

(* ------------------------------------------------------------------ environment             *)
Drop(h) ==          \* the client closes its end (also before it has had its CONNACK)
    /\ pc[h] \in {"counted", "inherited", "registered", "acked", "established", "reading"} /\ ~stopped[h]
    /\ stopped' = [stopped EXCEPT ![h] = TRUE]
    /\ Log(h, "drop")
    /\ UNCHANGED <<pc, wg, cnt, reg, trie, own, inh, tko, sp, wire, delayed, wills, resumedBy, wiped, cpc, closing>>

Subscribe(h) ==     \* the client subscribes to its topic and gets the SUBACK
    /\ pc[h] = "reading" /\ ~stopped[h] /\ ~own[h]
    /\ trie' = trie \cup {Id(h)}
    /\ own' = [own EXCEPT ![h] = TRUE]
    /\ Log(h, "sub")
    /\ UNCHANGED <<pc, wg, cnt, reg, inh, stopped, tko, sp, wire, delayed, wills, resumedBy, wiped, cpc, closing>>

(* a publisher publishes (QoS 0) to the topic of client id i: delivered to the registered       *)
(* client if the index has a subscription of i.  Reference: a registered client whose CONNACK   *)
(* has not been written yet does not get the PUBLISH before it.                                 *)
Publish(i) ==
    /\ i \in trie /\ reg[i] # NoH /\ ~stopped[reg[i]] /\ Len(wire[reg[i]]) < 3
    /\ LET r == reg[i] IN
         wire' = IF i \in trie /\ r # NoH /\ ~stopped[r]
                      /\ ("RegBeforeAck" \in Dev \/ Acked(r))
                   THEN Write(wire, r, "PUBLISH") ELSE wire
    /\ Log(0, "pub:" \o i)
    /\ UNCHANGED <<pc, wg, cnt, reg, trie, own, inh, stopped, tko, sp, delayed, wills, resumedBy, wiped, cpc, closing>>

(* housekeeping publishes the due delayed wills.  Coded ("TickWipes"): sendDelayedLWT then clears    *)
(* the will of whatever client is registered under the id, which may be a newer connection with a   *)
(* will of its own.                                                                                 *)
Tick ==
    /\ \E i \in Ids : delayed[i] # NoH
    /\ wills' = [h \in H |-> wills[h] + PubUnit(h) * Cardinality({i \in Ids : delayed[i] = h})]
    /\ wiped' = IF "TickWipes" \in Dev
                  THEN wiped \cup {reg[i] : i \in {j \in Ids : delayed[j] # NoH /\ reg[j] # NoH /\ reg[j] # delayed[j]}}
                  ELSE wiped
    /\ delayed' = [i \in Ids |-> NoH]
    /\ Log(0, "tick")
    /\ UNCHANGED <<pc, wg, cnt, reg, trie, own, inh, stopped, tko, sp, wire, resumedBy, cpc, closing>>

(* ------------------------------------------------------------------ closer                  *)
CloseCall ==
    /\ cpc = "idle"
    /\ cpc' = "begin"
    /\ Log(0, "close.begin")
    /\ UNCHANGED <<pc, wg, cnt, reg, trie, own, inh, stopped, tko, sp, wire, delayed, wills, resumedBy, wiped, closing>>

(* listener end flag; snapshot of the clients; DisconnectClient(server shutting down) on each    *)
CloseClients ==
    /\ cpc = "begin"
    /\ closing' = TRUE
    /\ LET S == {h \in H : \E i \in Ids : reg[i] = h} IN
         /\ wire' = [h \in H |-> IF h \in S /\ ~stopped[h] /\ ("RegBeforeAck" \in Dev \/ Acked(h)) THEN Append(wire[h], "DISC8B") ELSE wire[h]]
         /\ stopped' = [h \in H |-> stopped[h] \/ h \in S]
    /\ cpc' = "waiting"
    /\ Log(0, "close.clients")
    /\ UNCHANGED <<pc, wg, cnt, reg, trie, own, inh, tko, sp, delayed, wills, resumedBy, wiped>>

WaitDone ==
    /\ cpc = "waiting" /\ wg = 0
    /\ cpc' = "closed"
    /\ Log(0, "close.listenersClosed")
    /\ UNCHANGED <<pc, wg, cnt, reg, trie, own, inh, stopped, tko, sp, wire, delayed, wills, resumedBy, wiped, closing>>

CloseReturns ==
    /\ cpc = "closed"
    /\ cpc' = "returned"
    /\ Log(0, "close.returned")
    /\ UNCHANGED <<pc, wg, cnt, reg, trie, own, inh, stopped, tko, sp, wire, delayed, wills, resumedBy, wiped, closing>>

HandlerStep(h) ==
    \/ Spawn(h) \/ Added(h) \/ LimitOk(h) \/ LimitRefuse(h) \/ Count(h) \/ CountRefuse(h) \/ Inherit(h)
    \/ Register(h) \/ Connack(h) \/ ConnackFails(h) \/ WillCancel(h) \/ EnterRead(h) \/ EnterReadClosed(h) \/ ReadEnds(h)
    \/ WillNowOrNone(h) \/ WillDelayGate(h) \/ WillDelayAdd(h) \/ DisconnectHook(h) \/ CleanupKeep(h) \/ CleanupUnsub(h) \/ CleanupDelete(h)

(* ------------------------------------------------------------------ session expiry (housekeeping) *)
(* clearExpiredClients at a time when every disconnected session has expired: snapshot of Server.Clients; for every   *)
(* client object that is disconnected: OnClientExpired (the schedule point hook.expired is inside the first call),     *)
(* then its in-flight messages, its subscriptions and the registry entry OF ITS ID go.                                 *)
(* Deviation "ExpiryDeletesLive": ... also when a new connection has resumed the session meanwhile (the code before     *)
(* its repair); the reference leaves a client object alone that has been taken over.                                   *)
Offline(h) == pc[h] = "done" /\ \E i \in Ids : reg[i] = h
Expirable(h) == Offline(h) /\ ("ExpiryDeletesLive" \in Dev \/ ~tko[h])      \* (the reference skips objects that have been taken over)
ExpireBegin ==
    /\ xp = {} /\ \E h \in H : Expirable(h)
    /\ xp' = {h \in H : Expirable(h)}
    /\ Log(0, "hook.expired")
    /\ UNCHANGED <<pc, wg, cnt, reg, trie, own, inh, stopped, tko, sp, wire, delayed, wills, resumedBy, wiped, cpc, closing>>
ExpireFinish ==
    /\ xp # {}
    /\ LET gone == IF "ExpiryDeletesLive" \in Dev THEN xp ELSE {h \in xp : ~tko[h]} IN
         /\ reg' = [i \in Ids |-> IF \E h \in gone : Id(h) = i THEN NoH ELSE reg[i]]
         /\ trie' = trie \ {Id(h) : h \in {x \in gone : own[x]}}
         /\ own' = [h \in H |-> own[h] /\ h \notin gone]
    /\ xp' = {}
    /\ Log(0, "expire.finish")
    /\ UNCHANGED <<pc, wg, cnt, inh, stopped, tko, sp, wire, delayed, wills, resumedBy, wiped, cpc, closing>>

NextCore ==
    \/ \E h \in H : HandlerStep(h) \/ ("drop" \in EnvOn /\ Drop(h)) \/ ("sub" \in EnvOn /\ Subscribe(h))
    \/ "pub" \in EnvOn /\ \E i \in Ids : Publish(i)
    \/ "tick" \in EnvOn /\ Tick
    \/ "close" \in EnvOn /\ (CloseCall \/ CloseClients \/ WaitDone \/ CloseReturns)
Next ==
    \/ NextCore /\ UNCHANGED xp
    \/ "expire" \in EnvOn /\ (ExpireBegin \/ ExpireFinish)

Spec == Init /\ [][Next]_vars

Bounded == Len(hist) <= MaxHist

(* ------------------------------------------------------------------ properties              *)
Established(h) == Acked(h) /\ ~stopped[h]

(* C35: never more simultaneously established connections than the limit *)
P35 == Cardinality({h \in H : Established(h)}) <= MaxClients

(* C36: when Close has returned every spawned handler has finished and every connection is      *)
(* closed; Close never waits for a connection it did not disconnect                             *)
P36 == cpc \in {"closed", "returned"} => \A h \in H : pc[h] # "idle" => pc[h] = "done" /\ stopped[h]
P36b == ~(cpc = "waiting" /\ \E h \in H : pc[h] \in {"acked", "established", "reading"} /\ ~stopped[h])
(* the contract of sync.WaitGroup: the counter is not raised from zero while Close is in Wait ("Add calls with a     *)
(* positive delta that occur when the counter is zero must happen before a Wait": otherwise Wait may panic with     *)
(* "WaitGroup is reused before previous Wait has returned", as observed on the real broker: schedules all/b_644 of  *)
(* the thorough tier). An action property.                                                                          *)
WgContract == [][~(cpc = "waiting" /\ wg = 0 /\ wg' > 0)]_vars

(* C14: a live established connection is the one registered under its id; one per id            *)
P14 == \A h \in H : pc[h] \in {"established", "reading"} /\ ~stopped[h] => reg[Id(h)] = h
P14b == \A a, b \in H : a # b /\ Id(a) = Id(b) => ~(Established(a) /\ Established(b))

(* C15 / C03: a live connection's own subscription is in the index *)
P15 == \A h \in H : pc[h] = "reading" /\ ~stopped[h] /\ own[h] => Id(h) \in trie
(* ... and when every handler is at rest the index holds nothing of an id without a session      *)
AtRest == \A h \in H : pc[h] \in {"idle", "reading", "done"}
P15b == AtRest => \A i \in trie : reg[i] # NoH /\ own[reg[i]]

(* C13: the first packet on a connection is its CONNACK (or a failure CONNACK) *)
P13 == \A h \in H : wire[h] # <<>> => Head(wire[h]) \in {"CONNACK0", "CONNACK1", "BUSY"}

(* C16: a will is published at most once, and a delayed will is not published once a successor   *)
(* that resumed the session has passed its cancellation point (such a publication counts 10)      *)
P16 == \A h \in H : wills[h] <= 1
(* ... and a connection that was established and ended (no normal DISCONNECT exists in this model) has *)
(* had its will published, or registered as delayed, unless a successor resumed the session            *)
P16c == \A h \in H : pc[h] = "done" /\ Acked(h) =>
            /\ EffWill(h) = 0 => wills[h] >= 1
            /\ EffWill(h) = 1 /\ resumedBy[h] = 0 => wills[h] >= 1 \/ delayed[Id(h)] = h

(* C38/C35 bookkeeping: the connected counter equals the handlers between count and finish       *)
PCnt == cnt = Cardinality({h \in H : pc[h] \in {"counted", "inherited", "registered", "acked", "established", "reading", "tWill", "tDelay", "tCleanup", "tDisc", "tHook"}})
=================================================================================
