\* QoS flows, packet ids, Receive Maximum, resend on resume, ordering (C08 C09 C10 C11 C12)
SPECIFICATION Spec
CONSTANTS
  Clients = {"c1", "c2"}
  ConnOrder <- K3
  Topics <- T1
  Filters <- F_One
  QosSet = {1, 2}
  MaxQos = 2
  SrvRecvMax = 1
  RecvMaxSet = {1}
  MaxPid = 3
  ExpirySet = {5}
  WillDelaySet = {}
  MaxMsgs = 2
  MaxNow = 0
  MaxHist = 9
  Enabled = {"Connect", "Subscribe", "Publish", "Ack", "Close"}
VIEW View
CONSTRAINT Bound
INVARIANTS TypeOK PidUnique QuotaBound InboundBound NoGhosts OneOwner ConnectedHasSession NoOvertaking Qos2Once ExactDelivery
PROPERTIES InflightMonotone DirectionsIndependent
CHECK_DEADLOCK FALSE
