\* random walks of the QoS configuration, each emitted as an operation list (tlc -simulate)
SPECIFICATION Spec
CONSTANTS
  Clients = {"c1", "c2"}
  ConnOrder <- K4
  Topics <- T1
  Filters <- F_Two
  QosSet = {0, 1, 2}
  MaxQos = 2
  SrvRecvMax = 2
  RecvMaxSet = {1, 2}
  MaxPid = 4
  ExpirySet = {5}
  WillDelaySet = {}
  MaxMsgs = 6
  MaxNow = 0
  MaxHist = 14
  Enabled = {"Connect", "Subscribe", "Publish", "Ack", "Close"}
INVARIANTS EmitLeaf PidUnique QuotaBound NoOvertaking Qos2Once
CHECK_DEADLOCK FALSE
