SPECIFICATION Spec
CONSTANTS
  N = 2
  MaxChoices = {2}
  IdSet = {"a", "b"}
  CfgChoices <- ExpireChoices
  Dev <- CodeDevs
  EnvOn <- EnvExpire
  MaxHist = 1000
INVARIANT DumpInv
CHECK_DEADLOCK FALSE
