SPECIFICATION Spec
CONSTANTS
  N = 2
  MaxChoices = {2}
  IdSet = {"a", "b"}
  CfgChoices <- LimitChoices
  Dev <- Dev_WgAddInHandler
  EnvOn <- EnvClose
  MaxHist = 60
VIEW view
PROPERTY WgContract
CHECK_DEADLOCK FALSE
