---- MODULE WsStream_TTrace_1790037152 ----
EXTENDS WsStream, Sequences, TLCExt, Toolbox, Naturals, TLC

_expression ==
    LET WsStream_TEExpression == INSTANCE WsStream_TEExpression
    IN WsStream_TEExpression!expression
----

_trace ==
    LET WsStream_TETrace == INSTANCE WsStream_TETrace
    IN WsStream_TETrace!trace
----

_inv ==
    ~(
        TLCGet("level") = Len(_TETrace)
        /\
        msgs = (<<[kind |-> "text", data |-> <<1>>]>>)
        /\
        cur = (2)
        /\
        pos = (0)
        /\
        ended = (FALSE)
        /\
        delivered = (<<1>>)
    )
----

_init ==
    /\ msgs = _TETrace[1].msgs
    /\ pos = _TETrace[1].pos
    /\ ended = _TETrace[1].ended
    /\ cur = _TETrace[1].cur
    /\ delivered = _TETrace[1].delivered
----

_next ==
    /\ \E i,j \in DOMAIN _TETrace:
        /\ \/ /\ j = i + 1
              /\ i = TLCGet("level")
        /\ msgs  = _TETrace[i].msgs
        /\ msgs' = _TETrace[j].msgs
        /\ pos  = _TETrace[i].pos
        /\ pos' = _TETrace[j].pos
        /\ ended  = _TETrace[i].ended
        /\ ended' = _TETrace[j].ended
        /\ cur  = _TETrace[i].cur
        /\ cur' = _TETrace[j].cur
        /\ delivered  = _TETrace[i].delivered
        /\ delivered' = _TETrace[j].delivered

\* Uncomment the ASSUME below to write the states of the error trace
\* to the given file in Json format. Note that you can pass any tuple
\* to `JsonSerialize`. For example, a sub-sequence of _TETrace.
    \* ASSUME
    \*     LET J == INSTANCE Json
    \*         IN J!JsonSerialize("WsStream_TTrace_1790037152.json", _TETrace)

=============================================================================

 Note that you can extract this module `WsStream_TEExpression`
  to a dedicated file to reuse `expression` (the module in the 
  dedicated `WsStream_TEExpression.tla` file takes precedence 
  over the module `WsStream_TEExpression` below).

---- MODULE WsStream_TEExpression ----
EXTENDS WsStream, Sequences, TLCExt, Toolbox, Naturals, TLC

expression == 
    [
        \* To hide variables of the `WsStream` spec from the error trace,
        \* remove the variables below.  The trace will be written in the order
        \* of the fields of this record.
        msgs |-> msgs
        ,pos |-> pos
        ,ended |-> ended
        ,cur |-> cur
        ,delivered |-> delivered
        
        \* Put additional constant-, state-, and action-level expressions here:
        \* ,_stateNumber |-> _TEPosition
        \* ,_msgsUnchanged |-> msgs = msgs'
        
        \* Format the `msgs` variable as Json value.
        \* ,_msgsJson |->
        \*     LET J == INSTANCE Json
        \*     IN J!ToJson(msgs)
        
        \* Lastly, you may build expressions over arbitrary sets of states by
        \* leveraging the _TETrace operator.  For example, this is how to
        \* count the number of times a spec variable changed up to the current
        \* state in the trace.
        \* ,_msgsModCount |->
        \*     LET F[s \in DOMAIN _TETrace] ==
        \*         IF s = 1 THEN 0
        \*         ELSE IF _TETrace[s].msgs # _TETrace[s-1].msgs
        \*             THEN 1 + F[s-1] ELSE F[s-1]
        \*     IN F[_TEPosition - 1]
    ]

=============================================================================



Parsing and semantic processing can take forever if the trace below is long.
 In this case, it is advised to uncomment the module below to deserialize the
 trace from a generated binary file.

\*
\*---- MODULE WsStream_TETrace ----
\*EXTENDS WsStream, IOUtils, TLC
\*
\*trace == IODeserialize("WsStream_TTrace_1790037152.bin", TRUE)
\*
\*=============================================================================
\*

---- MODULE WsStream_TETrace ----
EXTENDS WsStream, TLC

trace == 
    <<
    ([msgs |-> <<[kind |-> "text", data |-> <<1>>]>>,cur |-> 1,pos |-> 0,ended |-> FALSE,delivered |-> <<>>]),
    ([msgs |-> <<[kind |-> "text", data |-> <<1>>]>>,cur |-> 2,pos |-> 0,ended |-> FALSE,delivered |-> <<1>>])
    >>
----


=============================================================================

---- CONFIG WsStream_TTrace_1790037152 ----
CONSTANTS
    Bytes = { 1 , 2 }
    MaxMsgs = 3
    MaxLen = 2
    ReadSizes = { 1 , 2 , 4 }
    DropRest = FALSE
    AcceptText = TRUE

INVARIANT
    _inv

CHECK_DEADLOCK
    \* CHECK_DEADLOCK off because of PROPERTY or INVARIANT above.
    FALSE

INIT
    _init

NEXT
    _next

CONSTANT
    _TETrace <- _trace

ALIAS
    _expression
=============================================================================
\* Generated on Tue Sep 22 00:32:35 UTC 2026