\* table of outcomes for K > 0 (time in quarters of K)
SPECIFICATION Spec
CONSTANTS
  K = 1
  Gaps = {5, 7}
  MaxLen = 4
  LimitQ = 6
  Slack = 0
  Observe = 8
INVARIANTS Collect ClosedOnlyWhenIdle OpenOnlyWhileFresh
POSTCONDITION Written
CHECK_DEADLOCK FALSE
