\* faulty pool (capped Put forgets the capacity test): TLC must refute CapRespected
SPECIFICATION Spec
CONSTANTS
  Buffers = {b1, b2, b3}
  Holders = {g1, g2}
  Cap = 1
  Sizes = {0, 1, 2}
  GetRemoves = TRUE
  PutResets = TRUE
  PutChecksCap = FALSE
INVARIANTS TypeOK NoSharing HandedOutEmpty CapRespected Intact NoLeakInModel
