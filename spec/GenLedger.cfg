INIT Init
NEXT Next
