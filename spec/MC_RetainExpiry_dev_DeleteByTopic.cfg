SPECIFICATION Spec
CONSTANTS
  MaxPub = 4
  Dev <- Dev_DeleteByTopic
  MaxHist = 30
VIEW view
INVARIANTS TypeOK FreshKept
CHECK_DEADLOCK FALSE
