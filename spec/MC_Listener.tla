---------------------------- MODULE MC_Listener ----------------------------
EXTENDS Listener, Json, IOUtils
NoDev == {}
Dev_Drops == {"DropsAcceptedAfterClose"}
Clients3 == {"c1", "c2", "c3"}

(* every maximal behaviour as a schedule (tlc -simulate): the file of a behaviour is overwritten by each of its states *)
OutDir == IOEnv.VERIF_OUT
DumpInv ==
    IF Len(hist) >= 3
      THEN JsonSerialize(OutDir \o "/b_" \o ToString(TLCGet("stats").traces) \o ".json", [hist |-> hist])
      ELSE TRUE
============================================================================
