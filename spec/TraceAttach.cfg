SPECIFICATION TSpec
CONSTANTS
  N = 3
  MaxChoices = {1}
  IdSet = {"a", "b", "c"}
  CfgChoices = {}
  Dev <- CodeDev
  EnvOn <- EnvAllT
  MaxHist = 1000
POSTCONDITION Done
CHECK_DEADLOCK FALSE
