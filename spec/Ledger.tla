--------------------------------- MODULE Ledger ---------------------------------
(* The auth ledger's decision functions (hooks/auth/ledger.go) as the property C18 states them: *)
(*   - a user's own rules take precedence over the global rules;                               *)
(*   - global rules are consulted in list order, the first matching rule decides;              *)
(*   - rule filters match topics level by level (MqttTopics!LedgerMatchLevels);                *)
(*   - a decision is a FUNCTION of (ledger, client, topic/password): where the text of the     *)
(*     property leaves the verdict open (a user's overlapping filters of different access) the *)
(*     specification admits either verdict, and the trace specification demands that it is     *)
(*     the same on every evaluation.                                                           *)
(*                                                                                             *)
(* Strings (client ids, user names, remote addresses, passwords, rule patterns) are sequences  *)
(* of one-character strings so that the prefix patterns ("ab*") can be modelled; topics and    *)
(* filters are sequences of levels as in MqttTopics.                                           *)
(*                                                                                             *)
(* A ledger is [users, auth, acl]:                                                             *)
(*   users : sequence of [name, pw, dis, acl : sequence of [f, a]]      (names distinct)       *)
(*   auth  : sequence of [cl, un, rm, pw, allow]                                               *)
(*   acl   : sequence of [cl, un, rm, fs : sequence of [f, a]]          (filters distinct)     *)
(* Access a: 0 deny, 1 read only, 2 write only, 3 read and write.                               *)
EXTENDS MqttTopics, Integers, Sequences, FiniteSets

Stars(p) == {i \in 1..Len(p) : p[i] = "*"}
(* "" and "*" match everything; otherwise equality, or the text before the first '*' is a      *)
(* proper prefix of the value.                                                                 *)
PMatch(p, a) ==
    \/ p = <<>> \/ p = <<"*">> \/ p = a
    \/ \E i \in Stars(p) : /\ \A j \in Stars(p) : i <= j
                           /\ i > 1 /\ Len(a) >= i
                           /\ SubSeq(p, 1, i - 1) = SubSeq(a, 1, i - 1)

Grants(a, write) == IF write THEN a \in {2, 3} ELSE a \in {1, 3}

UserIdx(L, un) == {i \in 1..Len(L.users) : L.users[i].name = un}
LeastOf(S) == CHOOSE x \in S : \A y \in S : x <= y

(* -------------------------------------------------------------------- connect decision     *)
AuthRuleMatches(r, c, pw) == PMatch(r.cl, c.id) /\ PMatch(r.un, c.un) /\ PMatch(r.pw, pw) /\ PMatch(r.rm, c.rm)

AuthDecision(L, c, pw) ==
    LET us == UserIdx(L, c.un)
        ms == {n \in 1..Len(L.auth) : AuthRuleMatches(L.auth[n], c, pw)}
    IN IF us # {} /\ L.users[LeastOf(us)].pw # <<>> /\ L.users[LeastOf(us)].pw = pw
         THEN ~L.users[LeastOf(us)].dis
         ELSE IF ms = {} THEN FALSE ELSE L.auth[LeastOf(ms)].allow

(* -------------------------------------------------------------------- topic decision       *)
Matching(fs, t) == {i \in 1..Len(fs) : LedgerMatchLevels(fs[i].f, t)}

AclRuleApplies(r, c) == PMatch(r.cl, c.id) /\ PMatch(r.un, c.un) /\ PMatch(r.rm, c.rm)
(* does global rule r decide, and how: "pass" = it says nothing about this topic               *)
AclRuleVerdict(r, c, t, write) ==
    IF ~AclRuleApplies(r, c) THEN "pass"
    ELSE IF Len(r.fs) = 0 THEN "allow"
    ELSE IF \E i \in Matching(r.fs, t) : Grants(r.fs[i].a, write) THEN "allow"
    ELSE IF Matching(r.fs, t) # {} THEN "deny"
    ELSE "pass"

GlobalDecision(L, c, t, write) ==
    LET ds == {n \in 1..Len(L.acl) : AclRuleVerdict(L.acl[n], c, t, write) # "pass"}
    IN IF ds = {} THEN TRUE ELSE AclRuleVerdict(L.acl[LeastOf(ds)], c, t, write) = "allow"

(* The set of verdicts the property permits (one element unless a user's own overlapping       *)
(* filters disagree).                                                                          *)
AclPermitted(L, c, t, write) ==
    LET us == UserIdx(L, c.un)
        u  == L.users[LeastOf(us)]
    IN IF us # {} /\ Len(u.acl) > 0 /\ Matching(u.acl, t) # {}
         THEN {Grants(u.acl[i].a, write) : i \in Matching(u.acl, t)}
         ELSE {GlobalDecision(L, c, t, write)}

(* sanity theorems, evaluated by TLC whenever the module is loaded through GenLedger           *)
LedgerTheorems ==
    /\ PMatch(<<"c", "*">>, <<"c", "1">>) /\ ~PMatch(<<"c", "*">>, <<"d", "1">>) /\ PMatch(<<>>, <<"x">>)
    /\ ~PMatch(<<"c", "1">>, <<"c", "1", "x">>)
    /\ LedgerMatchLevels(<<"a", "+">>, <<"a", "b">>) /\ ~LedgerMatchLevels(<<"a", "+">>, <<"a", "b", "c">>)
    /\ ~LedgerMatchLevels(<<"a">>, <<"a", "b">>) /\ ~LedgerMatchLevels(<<"a", "#">>, <<"a">>)
    /\ LedgerMatchLevels(<<"a", "#">>, <<"a", "b", "c">>)
=================================================================================
