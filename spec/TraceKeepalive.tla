----------------------------- MODULE TraceKeepalive -----------------------------
(* C37, use (C): TLC judges runs recorded in REAL TIME against the property of Keepalive.tla.  *)
(*                                                                                             *)
(* One line of VERIF_TRACE = one connection to the real broker:                                *)
(*   id, k (keepalive, s), q (length of a quarter in ms: 250 k, or 250 for k = 0),             *)
(*   plan (gaps in quarters), sends = [ [b, a, ok] ... ] the packets the harness wrote         *)
(*   (CONNECT first): wall-clock ms just before / just after the write, ok = the write         *)
(*   completed (net.Pipe is synchronous: the broker has then read the packet),                 *)
(*   closed / at: whether the harness saw the broker close the connection and when (ms);       *)
(*   for a connection still open, `at` is the end of the observation.                          *)
(* Steps: one per packet that arrived, then one for the end of the run.  With idle measured    *)
(* from the last packet that arrived:                                                          *)
(*   early  the connection was closed although MayNotBeClosed(idle + Tol): idle is taken from  *)
(*          the moment BEFORE the last successful write, the close time is an upper bound of   *)
(*          the real one, so load on the machine can only hide an early close, never fake one; *)
(*   late   the connection was still open (a later write succeeded / the observation ended /   *)
(*          it was closed only then) although MustBeClosed(idle, q, Tol), idle taken from the  *)
(*          moment AFTER the write; load can fake this, the runner re-runs such a schedule;    *)
(*   closed-k0   closed with keepalive 0.                                                      *)
(* An early close is attributed to the named deviation KeepaliveIntegerHalf_K<k> when k is odd *)
(* and the close is not earlier than (k + k div 2) seconds - Tol: the deadline computed in     *)
(* whole seconds.  `asplanned` tells whether the harness kept the schedule (if not, the run    *)
(* judged here is a different schedule and the intended one must be re-run).                   *)
EXTENDS Integers, Sequences, TLC, Json, IOUtils, SequencesExt

(* the property's predicates (the state machine of Keepalive.tla itself is not run here) *)
KA == INSTANCE Keepalive WITH K <- 0, Gaps <- {}, MaxLen <- 0, LimitQ <- 6, Slack <- 0, Observe <- 0,
                              plan <- 0, sched <- 0, now <- 0, idle <- 0, open <- 0, closedAt <- 0, sent <- 0
MayNotBeClosed(idle, q)      == KA!MayNotBeClosed(idle, q)
MustBeClosed(idle, q, slack) == KA!MustBeClosed(idle, q, slack)

Trace   == ndJsonDeserialize(IOEnv.VERIF_TRACE)
OutFile == IOEnv.VERIF_OUT
Tol      == 200       \* ms

VARIABLES l, e, lastB, lastA, late, verdicts
tvars == <<l, e, lastB, lastA, late, verdicts>>

Rec == Trace[l]
Arrived(r) == SelectSeq(r.sends, LAMBDA s : s[3])

RECURSIVE SumTo(_, _)
SumTo(s, n) == IF n = 0 THEN 0 ELSE s[n] + SumTo(s, n - 1)
AbsDiff(a, b) == IF a > b THEN a - b ELSE b - a

(* the harness kept the schedule: every realized gap lies on the intended side of 1.5 K by more *)
(* than Tol (a planned gap below 6 quarters certainly "may not be closed", a planned gap above  *)
(* certainly "must be closed"), measuring the gap at its longest resp. shortest               *)
AsPlanned(r) ==
    \A j \in 2..Len(r.sends) :
        LET gmax == r.sends[j][2] - r.sends[j - 1][1]
            gmin == r.sends[j][1] - r.sends[j - 1][2]
        IN  IF r.plan[j - 1] < 6 THEN MayNotBeClosed(gmax + Tol, r.q) ELSE MustBeClosed(gmin, r.q, Tol)

IntegerDeadline(k) == (k + k \div 2) * 1000
Deviation(r, idleMax) ==
    IF r.k % 2 = 1 /\ idleMax >= IntegerDeadline(r.k) - Tol THEN "KeepaliveIntegerHalf_K" \o ToString(r.k) ELSE ""

TInit == l = 1 /\ e = 1 /\ lastB = 0 /\ lastA = 0 /\ late = FALSE /\ verdicts = <<>>

(* a packet arrived while the connection was open *)
ArriveStep ==
    LET s == Arrived(Rec)[e] IN
    /\ e <= Len(Arrived(Rec))
    /\ late' = (late \/ (e > 1 /\ Rec.k > 0 /\ MustBeClosed(s[1] - lastA, Rec.q, Tol)))
    /\ lastB' = s[1] /\ lastA' = s[2]
    /\ e' = e + 1 /\ UNCHANGED <<l, verdicts>>

EndStep ==
    /\ e = Len(Arrived(Rec)) + 1
    /\ LET r == Rec
           idleMax == r.at - lastB
           idleMin == r.at - lastA
           early   == r.closed /\ r.k > 0 /\ MayNotBeClosed(idleMax + Tol, r.q)
           tooLate == r.k > 0 /\ (late \/ MustBeClosed(idleMin, r.q, Tol))
           v == IF r.closed /\ r.k = 0 THEN "closed-k0"
                ELSE IF early THEN "early" ELSE IF tooLate THEN "late" ELSE "ok"
       IN verdicts' = Append(verdicts, [id |-> r.id, k |-> r.k, verdict |-> v, idle_max |-> idleMax, idle_min |-> idleMin,
                                         closed |-> r.closed, asplanned |-> AsPlanned(r),
                                         vs_table |-> r.at - r.nominal.at * r.q, table_closed |-> r.nominal.closed,
                                         deviation |-> IF v = "early" THEN Deviation(r, idleMax) ELSE ""])
    /\ l' = l + 1 /\ e' = 1 /\ lastB' = 0 /\ lastA' = 0 /\ late' = FALSE

TNext == l <= Len(Trace) /\ (ArriveStep \/ EndStep) /\ TLCSet(1, l') /\ TLCSet(2, verdicts')

TSpec == TInit /\ [][TNext]_tvars

Done == /\ TLCGet(1) = Len(Trace) + 1
        /\ JsonSerialize(OutFile, [runs |-> Len(Trace), verdicts |-> TLCGet(2)])
================================================================================
