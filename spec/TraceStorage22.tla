---------------------------- MODULE TraceStorage22 -----------------------------
(* C22 - all bundled storage backends behave identically.                                       *)
(* Trace: per event sequence one "begin" line, the "event" lines (the hook calls the harness    *)
(* made on every backend), then one "readback" line per backend (projection of the five         *)
(* Stored* results).  The spec steps through the lines; on every event it applies               *)
(* Storage!ApplyEvent to two model stores:                                                      *)
(*   ref = the reference with the code's key function and the defects COMMON to all backends    *)
(*         (they are judged by C20, not here), and                                              *)
(*   alt = ref plus the candidate per-backend deviations (no rewrite of the client record on    *)
(*         disconnect; no packet id in in-flight records).                                      *)
(* A read-back line is judged per kind: equal to ReadBack(ref) => fine; equal to ReadBack(alt)  *)
(* => complaint "C22.dev" naming backend and deviation; otherwise "C22.mismatch".  The four     *)
(* read-backs of one sequence are also compared pairwise (ids aside) => "C22.pairwise".         *)
EXTENDS StorageKV, Json, IOUtils, SequencesExt, FiniteSetsExt

Trace   == ndJsonDeserialize(IOEnv.VERIF_TRACE)
OutFile == IOEnv.VERIF_OUT

CommonDev == {}      \* defects shared by all four backends, judged by C20 (were "FlagsNotPersisted", "StoreRefused" until 42c0491 / 39b5ba3)
BackendDev == {"NoDisconnectRewrite", "NoPacketID"}        \* candidate differences between backends
DevOfKind(kind) == CASE kind = "clients" -> "NoDisconnectRewrite" [] kind = "inflight" -> "NoPacketID" [] OTHER -> "-"
KindNames == <<"clients", "subs", "retained", "inflight", "sys">>

VARIABLES l, ref, alt, seen, bad, nseq, nev
vars == <<l, ref, alt, seen, bad, nseq, nev>>

Got(rb) == [clients |-> ToSet(rb.clients), subs |-> ToSet(rb.subs), retained |-> ToSet(rb.retained),
            inflight |-> ToSet(rb.inflight), sys |-> {rb.sys}]
Count(rb) == [clients |-> Len(rb.clients), subs |-> Len(rb.subs), retained |-> Len(rb.retained),
              inflight |-> Len(rb.inflight), sys |-> 1]

NoID(S) == {[x \in DOMAIN r \ {"id"} |-> r[x]] : r \in S}

(* classification of one kind of one read-back: "ok", a deviation name, or "mismatch" *)
Class(e, kind) ==
    LET got == Got(e.rb)[kind] IN
    IF Count(e.rb)[kind] # Cardinality(got) THEN "mismatch"
    ELSE IF got = ReadBack(ref, e.backend)[kind] THEN "ok"
    ELSE IF DevOfKind(kind) # "-" /\ got = ReadBack(alt, e.backend)[kind] THEN DevOfKind(kind)
    ELSE "mismatch"

Short(v) == ToString(v)

Judge(e) ==
    LET own == UNION {
            LET c == Class(e, KindNames[i]) IN
            IF c = "ok" THEN {}
            ELSE IF c = "mismatch"
                 THEN {[rule |-> "C22.mismatch", backend |-> e.backend, kind |-> KindNames[i], dev |-> "-",
                        x |-> "missing " \o Short(ReadBack(ref, e.backend)[KindNames[i]] \ Got(e.rb)[KindNames[i]])
                              \o " extra " \o Short(Got(e.rb)[KindNames[i]] \ ReadBack(ref, e.backend)[KindNames[i]])]}
                 ELSE {[rule |-> "C22.dev", backend |-> e.backend, kind |-> KindNames[i], dev |-> c, x |-> ""]}
            : i \in 1..Len(KindNames)}
        err == IF e.rb.err # "" THEN {[rule |-> "C22.error", backend |-> e.backend, kind |-> "-", dev |-> "-", x |-> e.rb.err]} ELSE {}
        pair == UNION { UNION {
            LET k == KindNames[i]  o == seen[j] IN
            IF NoID(Got(e.rb)[k]) = NoID(Got(o.rb)[k]) THEN {}
            ELSE LET c1 == Class(o, k)  c2 == Class(e, k)
                     why == IF c1 = "ok" /\ c2 \notin {"ok", "mismatch"} THEN c2
                            ELSE IF c2 = "ok" /\ c1 \notin {"ok", "mismatch"} THEN c1 ELSE "unexplained"
                 IN {[rule |-> "C22.pairwise", backend |-> o.backend \o "/" \o e.backend, kind |-> k, dev |-> why, x |-> ""]}
            : i \in 1..Len(KindNames)} : j \in 1..Len(seen)}
    IN own \cup err \cup pair

Init == l = 1 /\ ref = EmptyStore /\ alt = EmptyStore /\ seen = <<>> /\ bad = <<>> /\ nseq = 0 /\ nev = 0

Next ==
    /\ l <= Len(Trace)
    /\ LET e == Trace[l] IN
         /\ CASE e.ev = "begin" ->
                    /\ ref' = EmptyStore /\ alt' = EmptyStore /\ seen' = <<>> /\ bad' = bad
                    /\ nseq' = nseq + 1 /\ nev' = nev
              [] e.ev = "event" ->
                    /\ ref' = ApplyEvent(ref, "concat", CommonDev, e)
                    /\ alt' = ApplyEvent(alt, "concat", CommonDev \cup BackendDev, e)
                    /\ UNCHANGED <<seen, bad, nseq>> /\ nev' = nev + 1
              [] e.ev = "readback" ->
                    LET c == Judge(e) IN
                    /\ bad' = IF c = {} THEN bad
                              ELSE Append(bad, [line |-> l, seq |-> nseq, complaints |-> SetToSeq(c)])
                    /\ seen' = Append(seen, e)
                    /\ UNCHANGED <<ref, alt, nseq, nev>>
         /\ l' = l + 1
         /\ TLCSet(1, l') /\ TLCSet(2, bad') /\ TLCSet(3, <<nseq', nev'>>)

Spec == Init /\ [][Next]_vars

Done == /\ TLCGet(1) = Len(Trace) + 1
        /\ JsonSerialize(OutFile, [lines |-> Len(Trace), sequences |-> TLCGet(3)[1], events |-> TLCGet(3)[2], bad |-> TLCGet(2)])
================================================================================
