\* design config: all sequences of <= 3 messages (binary or text) of <= 2 bytes over {1,2}, read buffers 1, 2, 4
SPECIFICATION Spec
CONSTANTS
  Bytes = {1, 2}
  MaxMsgs = 3
  MaxLen = 2
  ReadSizes = {1, 2, 4}
  DropRest = FALSE
  AcceptText = FALSE
INVARIANTS TypeOK PrefixOfStream CompleteAtEnd EndedOnlyByText
CHECK_DEADLOCK FALSE
