SPECIFICATION Spec
CONSTANTS
  N = 2
  MaxChoices = {2}
  IdSet = {"a", "b"}
  CfgChoices <- WillChoices
  Dev <- CodeDevs
  EnvOn <- EnvWill
  MaxHist = 1000
INVARIANT DumpInv
CHECK_DEADLOCK FALSE
