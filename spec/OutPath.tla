------------------------------- MODULE OutPath --------------------------------
(* The output path of one client connection (clients.go WriteLoop / WritePacket / flushOutbuf,   *)
(* server.go publishToClient's enqueue, DisconnectClient), at the granularity of the schedule     *)
(* points                                                                                         *)
(*                                                                                                *)
(*   loop.dequeued           WriteLoop has taken a packet from the pending-write queue            *)
(*   write.afterClosedCheck  WritePacket entered (both writers)                                   *)
(*   write.encoded           the packet is encoded and within the client's Maximum Packet Size;   *)
(*                           next is cl.Lock()                                                    *)
(*   conn.write              a Write call on the connection (a point of the harness' in-memory    *)
(*                           connection: the call returns when the schedule releases it; this is  *)
(*                           how "the peer reads slowly" is scheduled). The client lock is held.  *)
(*   write.unlocked          the critical section is over                                         *)
(*   read.handled            (reader only) the inbound packet has been handled                    *)
(*   disconnect.written      (reader only) DisconnectClient has written DISCONNECT; next is       *)
(*                           cl.Stop, which closes the connection                                 *)
(*                                                                                                *)
(* Two goroutines write to a connection: the write loop ("loop": queued PUBLISHes) and the        *)
(* connection's reader ("rd": acknowledgements, PINGRESP, and the DISCONNECT that answers a       *)
(* protocol error of the client - written directly).  One action = the code one goroutine         *)
(* executes between two schedule points.  A goroutine that is released while the other one holds  *)
(* the client lock does not reach a schedule point: it waits for the lock (pc "waitlock") and     *)
(* goes on by itself when the lock is released (composed into ConnDone).                          *)
(*                                                                                                *)
(* Packets: [id, sz, w]; sz in bytes like the write buffer threshold Buf (ClientNetWriteBuffer-   *)
(* Size): the harness publishes packets of 11 and 30 bytes with Buf = 24, a PINGRESP has 2, the   *)
(* DISCONNECT 48; Over = larger than the client's Maximum Packet Size (refused by WritePacket).   *)
(*                                                                                                *)
(* Dev (deviations, each refuted by TLC; the reference is the code as it stands):                 *)
(*   "NoFlushOnRefuse"        the write loop does not flush the buffer when the packet it took    *)
(*                            last is refused (the code before b105eb9)                           *)
(*   "EarlyQueueRead"         the length of the queue is read before the lock is taken            *)
(*   "UnlockBeforeWrite"      an unbuffered write releases the lock before writing                *)
(*   "NoDropReport"           a refused PUBLISH is not reported to the hooks (before 4cc03c2)     *)
(*   "WritesAfterDisconnect"  WritePacket does not refuse packets after a DISCONNECT has been     *)
(*                            written (the code before the repair of this round)                  *)
EXTENDS Integers, Sequences, FiniteSets, TLC

CONSTANTS Cap,        \* capacity of the pending-write queue (MaximumClientWritesPending)
          Buf,        \* write buffer threshold in bytes
          MaxPub,     \* publishes the environment makes
          MaxDir,     \* PINGREQs the client sends
          Sizes,      \* sizes of published packets
          Dev,
          EnvOn,      \* "disc": the client may send a second CONNECT; "age": time may pass once (messages expire while queued)
          MaxHist

Over == 99
DirSz == 2      \* a PINGRESP
DiscSz == 48    \* DISCONNECT 0x82 with its reason string (answer to a second CONNECT)
DiscId == 300
W == {"loop", "rd"}
NoPk == [id |-> 0, sz |-> 0, w |-> "-"]

VARIABLES q, cur, pc, lock, outbuf, pend, fl, qseen, wire, sent, dropped, acc, npub, ndir, inwrite, maxw, closed, disc, refd, hist
vars == <<q, cur, pc, lock, outbuf, pend, fl, qseen, wire, sent, dropped, acc, npub, ndir, inwrite, maxw, closed, disc, refd, hist>>
view == <<q, cur, pc, lock, outbuf, pend, fl, qseen, wire, sent, dropped, acc, npub, ndir, inwrite, maxw, closed, disc, refd>>

Other(w) == IF w = "loop" THEN "rd" ELSE "loop"
Size(s) == IF s = <<>> THEN 0 ELSE LET f[i \in 0..Len(s)] == IF i = 0 THEN 0 ELSE f[i - 1] + s[i].sz IN f[Len(s)]
Ids(s) == [i \in 1..Len(s) |-> s[i].id]
Log(w, g, og) == hist' = IF Len(hist) < MaxHist THEN Append(hist, <<w, g, og>>) ELSE hist      \* og: where the OTHER goroutine gets to
Max(a, b) == IF a > b THEN a ELSE b

Init ==
    /\ q = <<>> /\ cur = [w \in W |-> NoPk] /\ pc = [w \in W |-> "idle"] /\ lock = "none" /\ outbuf = <<>>
    /\ pend = [w \in W |-> <<>>] /\ fl = [w \in W |-> FALSE] /\ qseen = [w \in W |-> 0]
    /\ wire = <<>> /\ sent = {} /\ dropped = {} /\ acc = {} /\ npub = 0 /\ ndir = 0 /\ inwrite = {} /\ maxw = 0
    /\ closed = FALSE /\ disc = FALSE /\ refd = [w \in W |-> FALSE] /\ hist = <<>>

(* ---------------------------------------------------------------- the critical section *)
Guard == "WritesAfterDisconnect" \notin Dev
(* what WritePacket decides under the lock: [ob: the buffer afterwards, to: next pc, pend: bytes handed to the     *)
(* connection, fl: the connection write is a flush of the buffer, ref: the packet is refused because a DISCONNECT   *)
(* has been written, setd: this packet is the DISCONNECT]                                                          *)
Decide(w, ob, qlen0) ==
    LET p == cur[w]
        last == Guard /\ p.id = DiscId
        qlen == IF last THEN 0 ELSE qlen0        \* a DISCONNECT is not left waiting in the buffer for later writes
    IN
    IF Guard /\ disc THEN [ob |-> ob, to |-> "unlocked", pend |-> <<>>, fl |-> FALSE, ref |-> TRUE, setd |-> FALSE]
    ELSE IF qlen = 0 THEN
        IF ob = <<>> THEN [ob |-> ob, to |-> "conn", pend |-> <<p>>, fl |-> FALSE, ref |-> FALSE, setd |-> last]
        ELSE [ob |-> Append(ob, p), to |-> "conn", pend |-> Append(ob, p), fl |-> TRUE, ref |-> FALSE, setd |-> last]
    ELSE IF ob = <<>> /\ p.sz >= Buf THEN [ob |-> ob, to |-> "conn", pend |-> <<p>>, fl |-> FALSE, ref |-> FALSE, setd |-> last]
    ELSE LET nb == Append(ob, p) IN
         IF Size(nb) < Buf THEN [ob |-> nb, to |-> "unlocked", pend |-> <<>>, fl |-> FALSE, ref |-> FALSE, setd |-> last]
         ELSE [ob |-> nb, to |-> "conn", pend |-> nb, fl |-> TRUE, ref |-> FALSE, setd |-> last]

QLen(w) == IF "EarlyQueueRead" \in Dev THEN qseen[w] ELSE Len(q)

(* the write loop after a refused packet: lock; flush if nothing is queued; unlock; back to the select *)
AfterRefusal(ob, qq) ==
    IF "NoFlushOnRefuse" \notin Dev /\ Len(qq) = 0 /\ ob # <<>>
    THEN [to |-> "rconn", pend |-> ob, fl |-> TRUE]
    ELSE [to |-> "next", pend |-> <<>>, fl |-> FALSE]

(* the write loop returns to its select: it takes the next queued packet at once *)
LoopNext(qq) == IF qq = <<>> THEN [pc |-> "idle", cur |-> NoPk, q |-> qq] ELSE [pc |-> "deq", cur |-> Head(qq), q |-> Tail(qq)]
Arr(n) == IF n.pc = "deq" THEN "loop.dequeued" ELSE "idle"

(* ---------------------------------------------------------------- environment *)
(* a message for the client: publishToClient's non-blocking send; an idle write loop takes it at once *)
Publish(sz) ==
    /\ npub < MaxPub
    /\ npub' = npub + 1
    /\ LET p == [id |-> 100 + npub + 1, sz |-> sz, w |-> "loop"] IN
         IF pc["loop"] = "idle" THEN
              /\ cur' = [cur EXCEPT !["loop"] = p] /\ pc' = [pc EXCEPT !["loop"] = "deq"]
              /\ acc' = acc \cup {p.id} /\ UNCHANGED <<q, dropped>>
         ELSE IF Len(q) < Cap THEN
              /\ q' = Append(q, p) /\ acc' = acc \cup {p.id} /\ UNCHANGED <<cur, pc, dropped>>
         ELSE /\ dropped' = dropped \cup {p.id} /\ UNCHANGED <<q, cur, pc, acc>>        \* reported: OnPublishDropped
    /\ Log("env", IF sz = Over THEN "pub:over" ELSE IF sz >= Buf THEN "pub:big" ELSE "pub:small",
           IF pc["loop"] = "idle" THEN "loop.dequeued" ELSE IF Len(q) < Cap THEN "queued" ELSE "dropped")
    /\ UNCHANGED <<lock, outbuf, pend, fl, qseen, wire, sent, ndir, inwrite, maxw, closed, disc, refd>>

(* the client sends PINGREQ: the reader handles it and enters WritePacket(PINGRESP) *)
Ping ==
    /\ ndir < MaxDir /\ pc["rd"] = "idle"
    /\ ndir' = ndir + 1
    /\ cur' = [cur EXCEPT !["rd"] = [id |-> 200 + ndir + 1, sz |-> DirSz, w |-> "rd"]]
    /\ acc' = acc \cup {200 + ndir + 1}
    /\ pc' = [pc EXCEPT !["rd"] = "enter"]
    /\ Log("env", "ping", "write.afterClosedCheck")
    /\ UNCHANGED <<q, lock, outbuf, pend, fl, qseen, wire, sent, dropped, npub, inwrite, maxw, closed, disc, refd>>

(* the client sends a second CONNECT: the reader answers with DISCONNECT 0x82 (DisconnectClient) and stops the client *)
BadPacket ==
    /\ DiscId \notin acc /\ pc["rd"] = "idle" /\ "disc" \in EnvOn
    /\ cur' = [cur EXCEPT !["rd"] = [id |-> DiscId, sz |-> DiscSz, w |-> "rd"]]
    /\ acc' = acc \cup {DiscId}
    /\ pc' = [pc EXCEPT !["rd"] = "enter"]
    /\ Log("env", "bad", "write.afterClosedCheck")
    /\ UNCHANGED <<q, lock, outbuf, pend, fl, qseen, wire, sent, dropped, npub, ndir, inwrite, maxw, closed, disc, refd>>

(* ---------------------------------------------------------------- writer steps *)
Dequeued ==                                           \* loop.dequeued -> write.afterClosedCheck
    /\ pc["loop"] = "deq"
    /\ pc' = [pc EXCEPT !["loop"] = "enter"]
    /\ Log("loop", "write.afterClosedCheck", "")
    /\ UNCHANGED <<q, cur, lock, outbuf, pend, fl, qseen, wire, sent, dropped, acc, npub, ndir, inwrite, maxw, closed, disc, refd>>

(* write.afterClosedCheck -> write.encoded; an oversize packet is refused here *)
Enter(w) ==
    /\ pc[w] = "enter" /\ cur[w].sz # Over
    /\ pc' = [pc EXCEPT ![w] = "encoded"]
    /\ qseen' = [qseen EXCEPT ![w] = Len(q)]
    /\ Log(w, "write.encoded", "")
    /\ UNCHANGED <<q, cur, lock, outbuf, pend, fl, wire, sent, dropped, acc, npub, ndir, inwrite, maxw, closed, disc, refd>>

(* the write loop's handling of a refused packet (WritePacket returned an error): lock (or wait for it); flush if    *)
(* nothing is queued; unlock; take the next packet                                                                   *)
RefusalBody ==
    IF lock # "none" THEN
         /\ pc' = [pc EXCEPT !["loop"] = "rwaitlock"] /\ Log("loop", "blocked", "")
         /\ UNCHANGED <<q, cur, lock, pend, fl, inwrite, maxw>>
    ELSE LET r == AfterRefusal(outbuf, q) IN
         IF r.to = "rconn" THEN
              /\ pc' = [pc EXCEPT !["loop"] = "rconn"] /\ lock' = "loop"
              /\ pend' = [pend EXCEPT !["loop"] = r.pend] /\ fl' = [fl EXCEPT !["loop"] = TRUE]
              /\ inwrite' = inwrite \cup {"loop"} /\ maxw' = Max(maxw, Cardinality(inwrite'))
              /\ Log("loop", "conn.write", "") /\ UNCHANGED <<q, cur>>
         ELSE LET n == LoopNext(q) IN
              /\ pc' = [pc EXCEPT !["loop"] = n.pc] /\ cur' = [cur EXCEPT !["loop"] = n.cur] /\ q' = n.q
              /\ Log("loop", Arr(n), "")
              /\ UNCHANGED <<lock, pend, fl, inwrite, maxw>>

(* refusal of an oversize packet (write.afterClosedCheck -> ...): reported to the hooks *)
Refuse ==
    /\ pc["loop"] = "enter" /\ cur["loop"].sz = Over
    /\ dropped' = IF "NoDropReport" \in Dev THEN dropped ELSE dropped \cup {cur["loop"].id}
    /\ RefusalBody
    /\ UNCHANGED <<outbuf, qseen, wire, sent, acc, npub, ndir, closed, disc, refd>>

(* write.encoded -> the critical section, up to the connection write or to write.unlocked *)
Critical(w) ==
    /\ pc[w] = "encoded"
    /\ IF lock # "none" THEN
            /\ pc' = [pc EXCEPT ![w] = "waitlock"] /\ Log(w, "blocked", "")
            /\ UNCHANGED <<lock, outbuf, pend, fl, inwrite, maxw, disc, refd>>
       ELSE LET d == Decide(w, outbuf, QLen(w)) IN
            /\ outbuf' = d.ob /\ pend' = [pend EXCEPT ![w] = d.pend] /\ fl' = [fl EXCEPT ![w] = d.fl]
            /\ pc' = [pc EXCEPT ![w] = d.to]
            /\ disc' = (disc \/ d.setd) /\ refd' = [refd EXCEPT ![w] = d.ref]
            /\ IF d.to = "conn" THEN
                    /\ lock' = IF "UnlockBeforeWrite" \in Dev /\ ~d.fl /\ QLen(w) = 0 THEN "none" ELSE w
                    /\ inwrite' = inwrite \cup {w} /\ maxw' = Max(maxw, Cardinality(inwrite'))
                    /\ Log(w, "conn.write", "")
               ELSE /\ Log(w, "write.unlocked", "") /\ UNCHANGED <<lock, inwrite, maxw>>
    /\ UNCHANGED <<q, cur, qseen, wire, sent, dropped, acc, npub, ndir, closed>>

(* the connection write of w returns: bytes are on the wire, the lock is released; a goroutine waiting for the lock *)
(* runs through its own critical section (or refusal handling) in the same step, up to ITS next schedule point       *)
ConnDone(w) ==
    /\ pc[w] \in {"conn", "rconn"}
    /\ LET o == Other(w)
           wire1 == wire \o Ids(pend[w])
           ob1 == IF fl[w] THEN <<>> ELSE outbuf
           \* w itself: after a refusal flush the loop goes back to its select; otherwise it is at write.unlocked
           n == IF pc[w] = "rconn" THEN LoopNext(q) ELSE [pc |-> "unlocked", cur |-> cur[w], q |-> q]
           wg == IF pc[w] = "rconn" THEN Arr(n) ELSE "write.unlocked"
           free == lock = w \/ lock = "none"
       IN /\ wire' = wire1 /\ maxw' = maxw
          /\ IF pc[o] = "waitlock" /\ free THEN
                  LET d == Decide(o, ob1, IF "EarlyQueueRead" \in Dev THEN qseen[o] ELSE Len(n.q)) IN
                  /\ outbuf' = d.ob
                  /\ pend' = [pend EXCEPT ![w] = <<>>, ![o] = d.pend] /\ fl' = [fl EXCEPT ![w] = FALSE, ![o] = d.fl]
                  /\ pc' = [pc EXCEPT ![w] = n.pc, ![o] = d.to]
                  /\ disc' = (disc \/ d.setd) /\ refd' = [refd EXCEPT ![o] = d.ref]
                  /\ lock' = IF d.to = "conn" THEN (IF "UnlockBeforeWrite" \in Dev /\ ~d.fl /\ Len(n.q) = 0 THEN "none" ELSE o) ELSE "none"
                  /\ inwrite' = (inwrite \ {w}) \cup (IF d.to = "conn" THEN {o} ELSE {})
                  /\ cur' = [cur EXCEPT ![w] = n.cur] /\ q' = n.q
                  /\ Log(w, wg, IF d.to = "conn" THEN "conn.write" ELSE "write.unlocked")
             ELSE IF pc[o] = "rwaitlock" /\ free THEN        \* o is the loop in its refusal handling (so w = rd, n is trivial)
                  LET r == AfterRefusal(ob1, n.q) IN
                  IF r.to = "rconn" THEN
                       /\ outbuf' = ob1
                       /\ pend' = [pend EXCEPT ![w] = <<>>, ![o] = r.pend] /\ fl' = [fl EXCEPT ![w] = FALSE, ![o] = TRUE]
                       /\ pc' = [pc EXCEPT ![w] = n.pc, ![o] = "rconn"] /\ lock' = o
                       /\ inwrite' = (inwrite \ {w}) \cup {o}
                       /\ cur' = [cur EXCEPT ![w] = n.cur] /\ q' = n.q
                       /\ Log(w, wg, "conn.write") /\ UNCHANGED <<disc, refd>>
                  ELSE LET n2 == LoopNext(n.q) IN
                       /\ outbuf' = ob1
                       /\ pend' = [pend EXCEPT ![w] = <<>>] /\ fl' = [fl EXCEPT ![w] = FALSE]
                       /\ pc' = [pc EXCEPT ![w] = n.pc, ![o] = n2.pc] /\ lock' = "none"
                       /\ inwrite' = inwrite \ {w}
                       /\ cur' = [cur EXCEPT ![w] = n.cur, ![o] = n2.cur] /\ q' = n2.q
                       /\ Log(w, wg, Arr(n2)) /\ UNCHANGED <<disc, refd>>
             ELSE /\ outbuf' = ob1
                  /\ pend' = [pend EXCEPT ![w] = <<>>] /\ fl' = [fl EXCEPT ![w] = FALSE]
                  /\ pc' = [pc EXCEPT ![w] = n.pc]
                  /\ lock' = IF lock = w THEN "none" ELSE lock
                  /\ inwrite' = inwrite \ {w}
                  /\ cur' = [cur EXCEPT ![w] = n.cur] /\ q' = n.q
                  /\ Log(w, wg, "") /\ UNCHANGED <<disc, refd>>
    /\ UNCHANGED <<qseen, sent, dropped, acc, npub, ndir, closed>>

(* write.unlocked -> the packet is reported as sent (OnPacketSent); the loop takes the next packet, the reader *)
(* returns to its read loop (after a DISCONNECT: to disconnect.written)                                       *)
Finish(w) ==
    /\ pc[w] = "unlocked" /\ ~refd[w]
    /\ sent' = sent \cup {cur[w].id}
    /\ IF w = "loop" THEN
            LET n == LoopNext(q) IN
            /\ pc' = [pc EXCEPT ![w] = n.pc] /\ cur' = [cur EXCEPT ![w] = n.cur] /\ q' = n.q
            /\ Log(w, Arr(n), "")
       ELSE IF cur[w].id = DiscId THEN
            /\ pc' = [pc EXCEPT ![w] = "discwritten"] /\ UNCHANGED <<cur, q>> /\ Log(w, "disconnect.written", "")
       ELSE /\ pc' = [pc EXCEPT ![w] = "handled"] /\ UNCHANGED <<cur, q>> /\ Log(w, "read.handled", "")
    /\ UNCHANGED <<lock, outbuf, pend, fl, qseen, wire, dropped, acc, npub, ndir, inwrite, maxw, closed, disc, refd>>

(* write.unlocked with a packet refused because a DISCONNECT has been written (only the write loop can be there): *)
(* not reported as sent; the loop handles the error like any refusal                                              *)
FinishRefused ==
    /\ pc["loop"] = "unlocked" /\ refd["loop"]
    /\ refd' = [refd EXCEPT !["loop"] = FALSE]
    /\ RefusalBody
    /\ UNCHANGED <<outbuf, qseen, wire, sent, dropped, acc, npub, ndir, closed, disc>>

Handled ==
    /\ pc["rd"] = "handled"
    /\ pc' = [pc EXCEPT !["rd"] = "idle"] /\ cur' = [cur EXCEPT !["rd"] = NoPk]
    /\ Log("rd", "idle", "")
    /\ UNCHANGED <<q, lock, outbuf, pend, fl, qseen, wire, sent, dropped, acc, npub, ndir, inwrite, maxw, closed, disc, refd>>

(* disconnect.written -> cl.Stop: the connection is closed; the model of a run ends here *)
StopAct ==
    /\ pc["rd"] = "discwritten"
    /\ closed' = TRUE /\ pc' = [pc EXCEPT !["rd"] = "gone"]
    /\ Log("rd", "read.handled", "")
    /\ UNCHANGED <<q, cur, lock, outbuf, pend, fl, qseen, wire, sent, dropped, acc, npub, ndir, inwrite, maxw, disc, refd>>

(* time passes (more than the server's maximum message expiry): the code as it stands sends a queued message all the  *)
(* same (with the shortest interval), so nothing changes here; the step exists so that schedules contain it          *)
Age ==
    /\ "age" \in EnvOn /\ \A i \in 1..Len(hist) : hist[i][2] # "age"
    /\ Log("env", "age", "")
    /\ UNCHANGED <<q, cur, pc, lock, outbuf, pend, fl, qseen, wire, sent, dropped, acc, npub, ndir, inwrite, maxw, closed, disc, refd>>

Next ==
    /\ ~closed
    /\ \/ \E sz \in Sizes : Publish(sz)
       \/ Ping \/ BadPacket \/ Age
       \/ Dequeued \/ Refuse \/ Handled \/ StopAct \/ FinishRefused
       \/ \E w \in W : Enter(w) \/ Critical(w) \/ ConnDone(w) \/ Finish(w)

Spec == Init /\ [][Next]_vars

(* ---------------------------------------------------------------- properties *)
TypeOK == /\ pc \in [W -> {"idle", "deq", "enter", "encoded", "waitlock", "rwaitlock", "conn", "rconn", "unlocked", "handled", "discwritten", "gone"}]
          /\ lock \in W \cup {"none"} /\ Len(q) <= Cap

Quiescent == pc = [w \in W |-> "idle"] /\ q = <<>>
Range(s) == {s[i] : i \in 1..Len(s)}

(* C39 / C23: connection writes never overlap (a WebSocket connection has one writer at a time; packets are not  *)
(* interleaved on the wire)                                                                                       *)
OneWriter == maxw <= 1
(* the lock is held by whoever is inside a connection write *)
LockHeld == \A w \in W : pc[w] \in {"conn", "rconn"} => lock = w
(* C34: nothing is stranded in the write buffer; what was reported as sent is on the wire *)
Flushed == Quiescent => outbuf = <<>>
SentOnWire == Quiescent => sent \subseteq Range(wire)
(* C34 / C03: every accepted packet is written exactly once or its drop is reported *)
NoDup == \A i, j \in 1..Len(wire) : i # j => wire[i] # wire[j]
Accounted == Quiescent => \A id \in acc : id \in Range(wire) \/ id \in dropped
NoGhost == Range(wire) \subseteq acc /\ Range(wire) \cap dropped = {}
(* C23: nothing follows a DISCONNECT *)
LastIsDisconnect == \A i \in 1..Len(wire) : wire[i] = DiscId => i = Len(wire)
(* ... and a DISCONNECT does not wait in the write buffer for later writes: when DisconnectClient goes on to close  *)
(* the connection the DISCONNECT is on the wire                                                                    *)
DisconnectWritten == pc["rd"] = "discwritten" => DiscId \in Range(wire)
(* C12: each writer's packets are on the wire in its order *)
Ordered == \A i, j \in 1..Len(wire) : i < j /\ (wire[i] > 200) = (wire[j] > 200) => wire[i] < wire[j]
=============================================================================
