SPECIFICATION LSpec
POSTCONDITION LDone
CHECK_DEADLOCK FALSE
