---- MODULE Keepalive_TTrace_1790036192 ----
EXTENDS Sequences, TLCExt, Toolbox, Keepalive, Naturals, TLC

_expression ==
    LET Keepalive_TEExpression == INSTANCE Keepalive_TEExpression
    IN Keepalive_TEExpression!expression
----

_trace ==
    LET Keepalive_TETrace == INSTANCE Keepalive_TETrace
    IN Keepalive_TETrace!trace
----

_inv ==
    ~(
        TLCGet("level") = Len(_TETrace)
        /\
        sched = (<<>>)
        /\
        idle = (4)
        /\
        now = (4)
        /\
        closedAt = (4)
        /\
        sent = (<<0>>)
        /\
        plan = (<<>>)
        /\
        open = (FALSE)
    )
----

_init ==
    /\ closedAt = _TETrace[1].closedAt
    /\ now = _TETrace[1].now
    /\ sched = _TETrace[1].sched
    /\ idle = _TETrace[1].idle
    /\ open = _TETrace[1].open
    /\ sent = _TETrace[1].sent
    /\ plan = _TETrace[1].plan
----

_next ==
    /\ \E i,j \in DOMAIN _TETrace:
        /\ \/ /\ j = i + 1
              /\ i = TLCGet("level")
        /\ closedAt  = _TETrace[i].closedAt
        /\ closedAt' = _TETrace[j].closedAt
        /\ now  = _TETrace[i].now
        /\ now' = _TETrace[j].now
        /\ sched  = _TETrace[i].sched
        /\ sched' = _TETrace[j].sched
        /\ idle  = _TETrace[i].idle
        /\ idle' = _TETrace[j].idle
        /\ open  = _TETrace[i].open
        /\ open' = _TETrace[j].open
        /\ sent  = _TETrace[i].sent
        /\ sent' = _TETrace[j].sent
        /\ plan  = _TETrace[i].plan
        /\ plan' = _TETrace[j].plan

\* Uncomment the ASSUME below to write the states of the error trace
\* to the given file in Json format. Note that you can pass any tuple
\* to `JsonSerialize`. For example, a sub-sequence of _TETrace.
    \* ASSUME
    \*     LET J == INSTANCE Json
    \*         IN J!JsonSerialize("Keepalive_TTrace_1790036192.json", _TETrace)

=============================================================================

 Note that you can extract this module `Keepalive_TEExpression`
  to a dedicated file to reuse `expression` (the module in the 
  dedicated `Keepalive_TEExpression.tla` file takes precedence 
  over the module `Keepalive_TEExpression` below).

---- MODULE Keepalive_TEExpression ----
EXTENDS Sequences, TLCExt, Toolbox, Keepalive, Naturals, TLC

expression == 
    [
        \* To hide variables of the `Keepalive` spec from the error trace,
        \* remove the variables below.  The trace will be written in the order
        \* of the fields of this record.
        closedAt |-> closedAt
        ,now |-> now
        ,sched |-> sched
        ,idle |-> idle
        ,open |-> open
        ,sent |-> sent
        ,plan |-> plan
        
        \* Put additional constant-, state-, and action-level expressions here:
        \* ,_stateNumber |-> _TEPosition
        \* ,_closedAtUnchanged |-> closedAt = closedAt'
        
        \* Format the `closedAt` variable as Json value.
        \* ,_closedAtJson |->
        \*     LET J == INSTANCE Json
        \*     IN J!ToJson(closedAt)
        
        \* Lastly, you may build expressions over arbitrary sets of states by
        \* leveraging the _TETrace operator.  For example, this is how to
        \* count the number of times a spec variable changed up to the current
        \* state in the trace.
        \* ,_closedAtModCount |->
        \*     LET F[s \in DOMAIN _TETrace] ==
        \*         IF s = 1 THEN 0
        \*         ELSE IF _TETrace[s].closedAt # _TETrace[s-1].closedAt
        \*             THEN 1 + F[s-1] ELSE F[s-1]
        \*     IN F[_TEPosition - 1]
    ]

=============================================================================



Parsing and semantic processing can take forever if the trace below is long.
 In this case, it is advised to uncomment the module below to deserialize the
 trace from a generated binary file.

\*
\*---- MODULE Keepalive_TETrace ----
\*EXTENDS IOUtils, Keepalive, TLC
\*
\*trace == IODeserialize("Keepalive_TTrace_1790036192.bin", TRUE)
\*
\*=============================================================================
\*

---- MODULE Keepalive_TETrace ----
EXTENDS Keepalive, TLC

trace == 
    <<
    ([sched |-> <<>>,idle |-> 0,now |-> 0,closedAt |-> 0,sent |-> <<0>>,plan |-> <<>>,open |-> TRUE]),
    ([sched |-> <<>>,idle |-> 1,now |-> 1,closedAt |-> 0,sent |-> <<0>>,plan |-> <<>>,open |-> TRUE]),
    ([sched |-> <<>>,idle |-> 2,now |-> 2,closedAt |-> 0,sent |-> <<0>>,plan |-> <<>>,open |-> TRUE]),
    ([sched |-> <<>>,idle |-> 3,now |-> 3,closedAt |-> 0,sent |-> <<0>>,plan |-> <<>>,open |-> TRUE]),
    ([sched |-> <<>>,idle |-> 4,now |-> 4,closedAt |-> 0,sent |-> <<0>>,plan |-> <<>>,open |-> TRUE]),
    ([sched |-> <<>>,idle |-> 4,now |-> 4,closedAt |-> 4,sent |-> <<0>>,plan |-> <<>>,open |-> FALSE])
    >>
----


=============================================================================

---- CONFIG Keepalive_TTrace_1790036192 ----
CONSTANTS
    K = 1
    Gaps = { 5 , 7 }
    MaxLen = 4
    LimitQ = 4
    Slack = 0
    Observe = 8

INVARIANT
    _inv

CHECK_DEADLOCK
    \* CHECK_DEADLOCK off because of PROPERTY or INVARIANT above.
    FALSE

INIT
    _init

NEXT
    _next

CONSTANT
    _TETrace <- _trace

ALIAS
    _expression
=============================================================================
\* Generated on Tue Sep 22 00:16:37 UTC 2026