"""Common machinery for /verif checks.

A check is `bin/check <ID> --tier quick|thorough [--replay PATH]`.  It dispatches to a family module
(`families/<name>.py`) which uses the helpers here to

  * build the Go harness against the repository working tree with `-tags verif`,
  * run TLC (design configs, table/behaviour generation, trace validation),
  * report violations / known findings, and
  * write `evidence/<ID>.json`.

Exit codes: 0 = property held on everything explored, 1 = VIOLATION line printed,
2 = inconclusive (build failure, dead driver, TLC timeout/OOM, unreproducible counterexample).
"""
import json, os, re, shutil, subprocess, sys, time, hashlib, glob

VERIF = os.path.dirname(os.path.dirname(os.path.abspath(__file__)))
REPO = os.environ.get("VERIF_REPO", "/repo")
SPEC = os.path.join(VERIF, "spec")
HARNESS = os.path.join(VERIF, "harness")
TLA_JAR = "/opt/veriftools/tla/tla2tools.jar"
TLA_CP = TLA_JAR + ":/opt/veriftools/tla/CommunityModules-deps.jar"
MODPATH = "github.com/mochi-mqtt/server/v2"


class Inconclusive(Exception):
    pass


def goenv():
    e = dict(os.environ)
    e.update(GOFLAGS="-mod=mod", GOPROXY="off", GOSUMDB="off", GOTOOLCHAIN="local")
    e.setdefault("GOCACHE", os.path.expanduser("~/.cache/go-build"))
    return e


class Ctx:
    def __init__(self, pid, tier, seed, replay=None):
        self.pid, self.tier, self.seed, self.replay = pid, tier, seed, replay
        self.t0 = time.time()
        self.repo = REPO
        # a run against another tree than /repo (VERIF_REPO: seeded changes, old commits) gets its own scratch
        # directory and never touches /verif/evidence
        self.foreign = os.path.realpath(REPO) != "/repo"
        self.work = os.path.join(VERIF, ".work", pid + ("@" + hashlib.sha1(REPO.encode()).hexdigest()[:8] if self.foreign else ""))
        self.violations = []       # list of dict(what=..., replay=path)
        self.known_hit = {}        # finding name -> description
        self.cov = {}              # evidence coverage dict
        self.assumptions = []
        self.notes = []
        self.quick = tier == "quick"

    # ---------------------------------------------------------------- scratch
    def fresh_work(self):
        keep = os.path.join(self.work, "violations")
        if os.path.isdir(self.work):
            for n in os.listdir(self.work):
                if n == "violations":
                    continue
                p = os.path.join(self.work, n)
                shutil.rmtree(p, ignore_errors=True) if os.path.isdir(p) else os.remove(p)
        os.makedirs(self.work, exist_ok=True)
        os.makedirs(keep, exist_ok=True)

    def path(self, *a):
        p = os.path.join(self.work, *a)
        os.makedirs(os.path.dirname(p), exist_ok=True)
        return p

    def log(self, *a):
        print("[%s %6.1fs]" % (self.pid, time.time() - self.t0), *a, flush=True)

    # ---------------------------------------------------------------- Go
    def modfile(self):
        """A private go.mod for the harness whose replace points at the repository under test."""
        d = os.path.join(VERIF, ".work", "_mod")
        os.makedirs(d, exist_ok=True)
        tag = hashlib.sha1(self.repo.encode()).hexdigest()[:8]
        # one modfile per property: `go build -modfile` rewrites it, and checks may run concurrently
        mf = os.path.join(d, "go-%s-%s.mod" % (tag, self.pid))
        src = open(os.path.join(HARNESS, "go.mod.in")).read().replace("@REPO@", self.repo)
        if not os.path.exists(mf) or open(mf).read() != src:
            open(mf, "w").write(src)
        sumf = mf[:-4] + ".sum"
        rs = os.path.join(self.repo, "go.sum")
        hs = os.path.join(HARNESS, "go.sum.extra")
        body = open(rs).read() + (open(hs).read() if os.path.exists(hs) else "")
        if not os.path.exists(sumf) or open(sumf).read() != body:
            open(sumf, "w").write(body)
        return mf

    def go_build(self, cmd, tags="verif"):
        """Build harness/cmd/<cmd> against the repo working tree; returns the binary path."""
        out = self.path("bin", cmd)
        args = ["go", "build", "-modfile", self.modfile(), "-tags", tags, "-o", out, "./cmd/" + cmd]
        t = time.time()
        r = subprocess.run(args, cwd=HARNESS, env=goenv(), capture_output=True, text=True)
        if r.returncode != 0:
            sys.stderr.write(r.stdout + r.stderr)
            raise Inconclusive("harness build failed for cmd/%s" % cmd)
        self.log("built %s in %.1fs" % (cmd, time.time() - t))
        return out

    def run(self, args, timeout=3600, cwd=None, env=None, check=True, stdin=None):
        e = goenv()
        e["VERIF_SEED"] = str(self.seed)
        e["VERIF_TIER"] = self.tier
        if env:
            e.update(env)
        try:
            r = subprocess.run(args, cwd=cwd or self.work, env=e, capture_output=True, text=True,
                               timeout=timeout, input=stdin)
        except subprocess.TimeoutExpired:
            raise Inconclusive("timeout running %s" % args[0])
        if check and r.returncode != 0:
            sys.stderr.write(r.stdout[-4000:] + r.stderr[-8000:])
            raise Inconclusive("%s exited %d" % (os.path.basename(args[0]), r.returncode))
        return r

    # ---------------------------------------------------------------- TLC
    def tlc(self, module, cfg, name=None, extra=None, timeout=1800, workers="auto", files=None,
            defines=None, simulate=None, depth=None, heap=None, deque=False, coverage=False, env=None):
        """Run TLC on spec/<module>.tla with spec/<cfg> inside a private scratch copy of spec/.

        files: dict name->content or name->src path copied into the scratch dir (traces, tables).
        defines: dict of constant-operator overrides written into an extra module MCx (not used here).
        Returns TlcResult.
        """
        name = name or (module + "_" + os.path.splitext(os.path.basename(cfg))[0])
        d = self.path("tlc", name, "x")[:-2]
        if os.path.isdir(d):
            shutil.rmtree(d)
        os.makedirs(d)
        for f in glob.glob(os.path.join(SPEC, "*.tla")) + glob.glob(os.path.join(SPEC, "*.cfg")):
            shutil.copy(f, d)
        for k, v in (files or {}).items():
            dst = os.path.join(d, k)
            if isinstance(v, (bytes, bytearray)):
                open(dst, "wb").write(v)
            elif os.path.exists(v) and "\n" not in v:
                shutil.copy(v, dst)
            else:
                open(dst, "w").write(v)
        cfgname = os.path.basename(cfg)
        if defines:
            # substitute @KEY@ tokens in the cfg copy
            txt = open(os.path.join(d, cfgname)).read()
            for k, v in defines.items():
                txt = txt.replace("@" + k + "@", v)
            open(os.path.join(d, cfgname), "w").write(txt)
        meta = os.path.join(d, "_meta")
        jtmp = os.path.join(d, "_jtmp")      # TLC unpacks the community modules into java.io.tmpdir: keep /tmp clean
        os.makedirs(jtmp, exist_ok=True)
        java = ["java", "-XX:+UseParallelGC", "-Xss64m", "-Djava.io.tmpdir=" + jtmp]
        if heap:
            java.append("-Xmx" + heap)
        if deque:
            java.append("-Dtlc2.tool.queue.IStateQueue=StateDeque")
        args = java + ["-cp", TLA_CP, "tlc2.TLC", "-metadir", meta, "-config", cfgname,
                       "-workers", str(workers), "-noGenerateSpecTE"]
        if simulate:
            args += ["-simulate", simulate]
        if depth:
            args += ["-depth", str(depth)]
        if coverage:
            args += ["-coverage", "1"]
        args += (extra or [])
        args.append(module + ".tla")
        t = time.time()
        try:
            r = subprocess.run(args, cwd=d, capture_output=True, text=True, timeout=timeout, env=dict(os.environ, **(env or {})))
        except subprocess.TimeoutExpired:
            subprocess.run(["pkill", "-f", "tlc2.TL[C].*" + re.escape(meta)])
            raise Inconclusive("TLC timeout on %s/%s" % (module, cfgname))
        res = TlcResult(r.returncode, r.stdout + r.stderr, d, time.time() - t)
        shutil.rmtree(meta, ignore_errors=True)
        shutil.rmtree(jtmp, ignore_errors=True)
        return res

    # ---------------------------------------------------------------- findings
    def findings(self):
        out = []
        for p in [os.path.join(VERIF, "known_findings.json")] + sorted(glob.glob(os.path.join(VERIF, "known_findings.d", "*.json"))):
            if os.path.exists(p):
                out += [f for f in json.load(open(p))["findings"] if f["property"] == self.pid]
        return out

    def allowed(self):
        """names of listed, not repaired findings for this property"""
        return sorted(f["name"] for f in self.findings() if f.get("status") == "known")

    def known(self, name, detail=None):
        for f in self.findings():
            if f["name"] == name and f.get("status") == "known":
                if name not in self.known_hit:
                    self.known_hit[name] = f["what"]
                return True
        return False

    def violation(self, what, replay_obj):
        n = len(self.violations)
        p = os.path.join(self.work, "violations", "%s_%s_%d_%d.json" % (self.pid, self.tier, self.seed, n))
        os.makedirs(os.path.dirname(p), exist_ok=True)
        json.dump({"property": self.pid, "what": what, "replay": replay_obj}, open(p, "w"), indent=1, default=str)
        self.violations.append({"what": what, "replay": p})
        return p

    # ---------------------------------------------------------------- evidence
    def finish(self):
        for name, what in sorted(self.known_hit.items()):
            print("KNOWN-FINDING: property=%s %s [%s]" % (self.pid, what, name))
        for v in self.violations[:20]:
            print("VIOLATION property=%s replay=%s" % (self.pid, v["replay"]))
            print("  " + v["what"][:600])
        cov = dict(self.cov)
        cov.setdefault("samples", [])
        cov["samples"] = cov["samples"][:6] or [{"note": "no individual sample was recorded by this run; see coverage.rule for what was exercised"}]
        ev = {
            "property_id": self.pid, "tier": self.tier, "seed": self.seed,
            "level": cov.pop("_level", "model_checking"),
            "coverage": cov, "assumptions": self.assumptions,
            "wall_s": round(time.time() - self.t0, 2), "violations": len(self.violations),
            "known_findings_reproduced": sorted(self.known_hit),
            "notes": self.notes,
        }
        if self.foreign:
            ev["notes"] = list(ev["notes"]) + ["run against VERIF_REPO=%s, not /repo" % self.repo]
            json.dump(ev, open(os.path.join(self.work, "evidence.json"), "w"), indent=1, default=str)
        else:
            os.makedirs(os.path.join(VERIF, "evidence"), exist_ok=True)
            json.dump(ev, open(os.path.join(VERIF, "evidence", self.pid + ".json"), "w"), indent=1, default=str)
        if not self.violations:
            # keep scratch small: drop TLC dirs and binaries unless debugging
            if not os.environ.get("VERIF_KEEP"):
                for n in ("tlc", "gen", "traces"):
                    shutil.rmtree(os.path.join(self.work, n), ignore_errors=True)
        self.log("done: %d violation(s), %d known finding(s), wall %.1fs" %
                 (len(self.violations), len(self.known_hit), time.time() - self.t0))
        return 1 if self.violations else 0


class TlcResult:
    def __init__(self, rc, out, dir_, wall):
        self.rc, self.out, self.dir, self.wall = rc, out, dir_, wall
        m = re.search(r"(\d+) states generated, (\d+) distinct states found", out)
        self.generated = int(m.group(1)) if m else 0
        self.distinct = int(m.group(2)) if m else 0
        m = re.search(r"depth of the complete state graph search is (\d+)", out)
        self.depth = int(m.group(1)) if m else 0
        self.ok = rc == 0 and "Model checking completed. No error has been found" in out
        self.sim_ok = rc == 0

    def printed(self, tag):
        """values printed with PrintT(<<tag, ...>>) -> list of raw strings"""
        res = []
        for line in self.out.splitlines():
            if line.startswith('<<"%s"' % tag):
                res.append(line)
        return res

    def tail(self, n=40):
        return "\n".join(self.out.splitlines()[-n:])

    def require_ok(self, what):
        if not self.ok:
            sys.stderr.write(self.tail(60) + "\n")
            raise Inconclusive("TLC did not complete cleanly: %s (rc=%d)" % (what, self.rc))
        return self


def parse_cli(argv):
    import argparse
    ap = argparse.ArgumentParser()
    ap.add_argument("pid")
    ap.add_argument("--tier", default=os.environ.get("VERIF_TIER", "quick"), choices=["quick", "thorough"])
    ap.add_argument("--replay", default=None)
    ap.add_argument("--seed", type=int, default=int(os.environ.get("VERIF_SEED", "1") or 1))
    return ap.parse_args(argv)


def main(argv, families):
    a = parse_cli(argv)
    if a.pid not in families:
        print("unknown property", a.pid)
        return 2
    ctx = Ctx(a.pid, a.tier, a.seed, a.replay)
    ctx.fresh_work()
    try:
        families[a.pid](ctx)
        return ctx.finish()
    except Inconclusive as e:
        if ctx.violations:
            # violations found before a later part of the check became inconclusive are real: report them
            ctx.notes.append("a later part of the check was inconclusive: %s" % e)
            print("(a later part of the check was inconclusive: %s)" % e)
            return ctx.finish()
        print("INCONCLUSIVE property=%s: %s" % (a.pid, e))
        return 2
