// Command vwire binds spec/Wire.tla to mochi-mqtt's packets package (properties C26, C27, C29, C42).
//
// It contains no codec oracle.  TLC (spec/GenWire.tla) writes case tables: abstract packets together
// with the set of byte strings the standard permits for them, byte strings with the verdict of
// Wire!Parse, variable byte integers with their values.  vwire replays every row into the real
// functions (packets.DecodeLength, FixedHeader.Encode/Decode, the per-type XxxEncode / XxxDecode driven
// exactly as Client.ReadPacket drives them) and records what happened.  Two translations are needed
// and live here: conc() builds a packets.Packet from an abstract packet of the table, abs() reads a
// packets.Packet back into the abstract form.  A decoded value identical to the expected one passes by
// reflexivity; anything else is written down and sent back to TLC (job "judge"), which decides
// equivalence.  refcodec is used only to read the remaining-length field of an encoder output.
package main

import (
	"bytes"
	"encoding/hex"
	"encoding/json"
	"fmt"
	"io"
	"os"
	"reflect"
	"runtime"
	"runtime/debug"
	"sort"
	"strconv"
	"strings"
	"sync"
	"sync/atomic"

	"github.com/mochi-mqtt/server/v2/packets"

	"verifharness/hx"
	"verifharness/refcodec"
)

// ---------------------------------------------------------------------------------------------
// Byte strings of the tables: a sequence of segments, x <= 255 a byte, x > 255 a run of x/256 bytes x%256.

type BS []byte

const runMin = 16

func (b BS) MarshalJSON() ([]byte, error) {
	out := make([]int, 0, len(b))
	for i := 0; i < len(b); {
		j := i
		for j < len(b) && b[j] == b[i] {
			j++
		}
		if j-i >= runMin {
			out = append(out, (j-i)*256+int(b[i]))
		} else {
			for k := i; k < j; k++ {
				out = append(out, int(b[k]))
			}
		}
		i = j
	}
	return json.Marshal(out)
}

func (b *BS) UnmarshalJSON(data []byte) error {
	var segs []int
	if err := json.Unmarshal(data, &segs); err != nil {
		return err
	}
	out := make([]byte, 0, len(segs))
	for _, x := range segs {
		if x > 255 {
			n, v := x/256, byte(x%256)
			for i := 0; i < n; i++ {
				out = append(out, v)
			}
		} else {
			out = append(out, byte(x))
		}
	}
	*b = out
	return nil
}

// ---------------------------------------------------------------------------------------------
// Abstract packet (field names = the record fields of Wire.tla).

type AProp struct {
	ID int   `json:"id"`
	N  int64 `json:"n"` // four byte integers >= 2^31 as their two's complement reading
	S  BS    `json:"s"`
	T  BS    `json:"t"`
}

type AFilter struct {
	F   BS  `json:"f"`
	O   int `json:"o"`
	Sid int `json:"sid"`
}

type AConn struct {
	Clean  bool    `json:"clean"`
	Will   bool    `json:"will"`
	Wqos   int     `json:"wqos"`
	Wret   bool    `json:"wret"`
	Uf     bool    `json:"uf"`
	Pf     bool    `json:"pf"`
	Ka     int     `json:"ka"`
	Cid    BS      `json:"cid"`
	Wprops []AProp `json:"wprops"`
	Wtopic BS      `json:"wtopic"`
	Wpay   BS      `json:"wpay"`
	User   BS      `json:"user"`
	Pass   BS      `json:"pass"`
}

type APkt struct {
	Type    int       `json:"type"`
	Ver     int       `json:"ver"`
	Dup     bool      `json:"dup"`
	Qos     int       `json:"qos"`
	Retain  bool      `json:"retain"`
	Pid     int       `json:"pid"`
	Topic   BS        `json:"topic"`
	Payload BS        `json:"payload"`
	Reason  int       `json:"reason"`
	Sp      bool      `json:"sp"`
	Filters []AFilter `json:"filters"`
	Codes   BS        `json:"codes"`
	Props   []AProp   `json:"props"`
	Cn      AConn     `json:"cn"`
}

// norm makes nil and empty slices the same thing before comparing.
func (p *APkt) norm() {
	nb := func(b *BS) {
		if *b == nil {
			*b = BS{}
		}
	}
	np := func(ps *[]AProp) {
		if *ps == nil {
			*ps = []AProp{}
		}
		for i := range *ps {
			nb(&(*ps)[i].S)
			nb(&(*ps)[i].T)
		}
	}
	nb(&p.Topic)
	nb(&p.Payload)
	nb(&p.Codes)
	np(&p.Props)
	np(&p.Cn.Wprops)
	nb(&p.Cn.Cid)
	nb(&p.Cn.Wtopic)
	nb(&p.Cn.Wpay)
	nb(&p.Cn.User)
	nb(&p.Cn.Pass)
	if p.Filters == nil {
		p.Filters = []AFilter{}
	}
	for i := range p.Filters {
		nb(&p.Filters[i].F)
	}
}

func same(a, b APkt) bool {
	a.norm()
	b.norm()
	return reflect.DeepEqual(a, b)
}

func u32n(v uint32) int64 { return int64(int32(v)) }

// absProps lists the properties a packets.Properties value holds, in ascending identifier order.
// A property counts as present when its flag is set, or, for fields without a flag, when it is non-zero.
func absProps(p *packets.Properties) []AProp {
	out := []AProp{}
	num := func(id int, v int64) { out = append(out, AProp{ID: id, N: v, S: BS{}, T: BS{}}) }
	str := func(id int, s []byte) { out = append(out, AProp{ID: id, S: append(BS{}, s...), T: BS{}}) }
	if p.PayloadFormatFlag {
		num(1, int64(p.PayloadFormat))
	}
	if p.MessageExpiryInterval != 0 {
		num(2, u32n(p.MessageExpiryInterval))
	}
	if p.ContentType != "" {
		str(3, []byte(p.ContentType))
	}
	if p.ResponseTopic != "" {
		str(8, []byte(p.ResponseTopic))
	}
	if len(p.CorrelationData) > 0 {
		str(9, p.CorrelationData)
	}
	for _, v := range p.SubscriptionIdentifier {
		num(11, int64(v))
	}
	if p.SessionExpiryIntervalFlag {
		num(17, u32n(p.SessionExpiryInterval))
	}
	if p.AssignedClientID != "" {
		str(18, []byte(p.AssignedClientID))
	}
	if p.ServerKeepAliveFlag {
		num(19, int64(p.ServerKeepAlive))
	}
	if p.AuthenticationMethod != "" {
		str(21, []byte(p.AuthenticationMethod))
	}
	if len(p.AuthenticationData) > 0 {
		str(22, p.AuthenticationData)
	}
	if p.RequestProblemInfoFlag {
		num(23, int64(p.RequestProblemInfo))
	}
	if p.WillDelayInterval != 0 {
		num(24, u32n(p.WillDelayInterval))
	}
	if p.RequestResponseInfo != 0 {
		num(25, int64(p.RequestResponseInfo))
	}
	if p.ResponseInfo != "" {
		str(26, []byte(p.ResponseInfo))
	}
	if p.ServerReference != "" {
		str(28, []byte(p.ServerReference))
	}
	if p.ReasonString != "" {
		str(31, []byte(p.ReasonString))
	}
	if p.ReceiveMaximum != 0 {
		num(33, int64(p.ReceiveMaximum))
	}
	if p.TopicAliasMaximum != 0 {
		num(34, int64(p.TopicAliasMaximum))
	}
	if p.TopicAliasFlag {
		num(35, int64(p.TopicAlias))
	}
	if p.MaximumQosFlag {
		num(36, int64(p.MaximumQos))
	}
	if p.RetainAvailableFlag {
		num(37, int64(p.RetainAvailable))
	}
	for _, u := range p.User {
		out = append(out, AProp{ID: 38, S: append(BS{}, u.Key...), T: append(BS{}, u.Val...)})
	}
	if p.MaximumPacketSize != 0 {
		num(39, u32n(p.MaximumPacketSize))
	}
	if p.WildcardSubAvailableFlag {
		num(40, int64(p.WildcardSubAvailable))
	}
	if p.SubIDAvailableFlag {
		num(41, int64(p.SubIDAvailable))
	}
	if p.SharedSubAvailableFlag {
		num(42, int64(p.SharedSubAvailable))
	}
	return out
}

func b2i(b bool) int {
	if b {
		return 1
	}
	return 0
}

// abs reads a decoded packets.Packet into the abstract form.
func abs(pk *packets.Packet) APkt {
	t := pk.FixedHeader.Type
	a := APkt{Type: int(t), Ver: int(pk.ProtocolVersion), Topic: BS{}, Payload: BS{}, Codes: BS{}, Filters: []AFilter{}, Props: []AProp{}}
	a.Cn.Wprops = []AProp{}
	v5 := pk.ProtocolVersion == 5
	if v5 {
		a.Props = absProps(&pk.Properties)
	}
	switch t {
	case packets.Connect:
		c := &pk.Connect
		a.Cn = AConn{Clean: c.Clean, Will: c.WillFlag, Wqos: int(c.WillQos), Wret: c.WillRetain, Uf: c.UsernameFlag, Pf: c.PasswordFlag,
			Ka: int(c.Keepalive), Cid: BS(c.ClientIdentifier), Wprops: []AProp{}, Wtopic: BS(c.WillTopic), Wpay: append(BS{}, c.WillPayload...),
			User: append(BS{}, c.Username...), Pass: append(BS{}, c.Password...)}
		if v5 && c.WillFlag {
			a.Cn.Wprops = absProps(&c.WillProperties)
		}
	case packets.Connack:
		a.Sp = pk.SessionPresent
		a.Reason = int(pk.ReasonCode)
	case packets.Publish:
		a.Dup, a.Qos, a.Retain = pk.FixedHeader.Dup, int(pk.FixedHeader.Qos), pk.FixedHeader.Retain
		a.Pid = int(pk.PacketID)
		a.Topic = BS(pk.TopicName)
		a.Payload = append(BS{}, pk.Payload...)
	case packets.Puback, packets.Pubrec, packets.Pubrel, packets.Pubcomp:
		a.Pid = int(pk.PacketID)
		a.Reason = int(pk.ReasonCode)
	case packets.Subscribe, packets.Unsubscribe:
		a.Pid = int(pk.PacketID)
		for _, s := range pk.Filters {
			o := 0
			if t == packets.Subscribe {
				o = int(s.Qos)
				if v5 {
					o |= b2i(s.NoLocal)<<2 | b2i(s.RetainAsPublished)<<3 | int(s.RetainHandling)<<4
				}
			}
			a.Filters = append(a.Filters, AFilter{F: BS(s.Filter), O: o, Sid: s.Identifier})
		}
	case packets.Suback, packets.Unsuback:
		a.Pid = int(pk.PacketID)
		a.Codes = append(BS{}, pk.ReasonCodes...)
	case packets.Disconnect, packets.Auth:
		a.Reason = int(pk.ReasonCode)
	}
	a.norm()
	return a
}

func concProps(ps []AProp) packets.Properties {
	var p packets.Properties
	for _, x := range ps {
		n := x.N
		switch x.ID {
		case 1:
			p.PayloadFormat, p.PayloadFormatFlag = byte(n), true
		case 2:
			p.MessageExpiryInterval = uint32(n)
		case 3:
			p.ContentType = string(x.S)
		case 8:
			p.ResponseTopic = string(x.S)
		case 9:
			p.CorrelationData = append([]byte{}, x.S...)
		case 11:
			p.SubscriptionIdentifier = append(p.SubscriptionIdentifier, int(n))
		case 17:
			p.SessionExpiryInterval, p.SessionExpiryIntervalFlag = uint32(n), true
		case 18:
			p.AssignedClientID = string(x.S)
		case 19:
			p.ServerKeepAlive, p.ServerKeepAliveFlag = uint16(n), true
		case 21:
			p.AuthenticationMethod = string(x.S)
		case 22:
			p.AuthenticationData = append([]byte{}, x.S...)
		case 23:
			p.RequestProblemInfo, p.RequestProblemInfoFlag = byte(n), true
		case 24:
			p.WillDelayInterval = uint32(n)
		case 25:
			p.RequestResponseInfo = byte(n)
		case 26:
			p.ResponseInfo = string(x.S)
		case 28:
			p.ServerReference = string(x.S)
		case 31:
			p.ReasonString = string(x.S)
		case 33:
			p.ReceiveMaximum = uint16(n)
		case 34:
			p.TopicAliasMaximum = uint16(n)
		case 35:
			p.TopicAlias, p.TopicAliasFlag = uint16(n), true
		case 36:
			p.MaximumQos, p.MaximumQosFlag = byte(n), true
		case 37:
			p.RetainAvailable, p.RetainAvailableFlag = byte(n), true
		case 38:
			p.User = append(p.User, packets.UserProperty{Key: string(x.S), Val: string(x.T)})
		case 39:
			p.MaximumPacketSize = uint32(n)
		case 40:
			p.WildcardSubAvailable, p.WildcardSubAvailableFlag = byte(n), true
		case 41:
			p.SubIDAvailable, p.SubIDAvailableFlag = byte(n), true
		case 42:
			p.SharedSubAvailable, p.SharedSubAvailableFlag = byte(n), true
		default:
			hx.Die("table holds unknown property %d", x.ID)
		}
	}
	return p
}

// conc builds the packets.Packet an application would hand to the encoder for abstract packet a.
func conc(a *APkt, mode string, msz int) packets.Packet {
	pk := packets.Packet{ProtocolVersion: byte(a.Ver)}
	pk.FixedHeader.Type = byte(a.Type)
	switch mode {
	case "plain":
		pk.Mods.AllowResponseInfo = true
	case "noresp":
	case "noproblem":
		pk.Mods.AllowResponseInfo = true
		pk.Mods.DisallowProblemInfo = true
	case "maxsize":
		pk.Mods.AllowResponseInfo = true
		pk.Mods.MaxSize = uint32(msz)
	default:
		hx.Die("unknown mode %q", mode)
	}
	pk.Properties = concProps(a.Props)
	switch byte(a.Type) {
	case packets.Connect:
		name := "MQTT"
		if a.Ver == 3 {
			name = "MQIsdp"
		}
		c := a.Cn
		pk.Connect = packets.ConnectParams{ProtocolName: []byte(name), Clean: c.Clean, WillFlag: c.Will, WillQos: byte(c.Wqos), WillRetain: c.Wret,
			UsernameFlag: c.Uf, PasswordFlag: c.Pf, Keepalive: uint16(c.Ka), ClientIdentifier: string(c.Cid), WillTopic: string(c.Wtopic),
			WillPayload: append([]byte{}, c.Wpay...), Username: append([]byte{}, c.User...), Password: append([]byte{}, c.Pass...),
			WillProperties: concProps(c.Wprops)}
	case packets.Connack:
		pk.SessionPresent = a.Sp
		pk.ReasonCode = byte(a.Reason)
	case packets.Publish:
		pk.FixedHeader.Dup, pk.FixedHeader.Qos, pk.FixedHeader.Retain = a.Dup, byte(a.Qos), a.Retain
		pk.PacketID = uint16(a.Pid)
		pk.TopicName = string(a.Topic)
		pk.Payload = append([]byte{}, a.Payload...)
	case packets.Puback, packets.Pubrec, packets.Pubrel, packets.Pubcomp:
		if byte(a.Type) == packets.Pubrel {
			pk.FixedHeader.Qos = 1
		}
		pk.PacketID = uint16(a.Pid)
		pk.ReasonCode = byte(a.Reason)
	case packets.Subscribe, packets.Unsubscribe:
		pk.FixedHeader.Qos = 1
		pk.PacketID = uint16(a.Pid)
		for _, f := range a.Filters {
			s := packets.Subscription{Filter: string(f.F), Identifier: f.Sid}
			if byte(a.Type) == packets.Subscribe {
				s.Qos = byte(f.O & 3)
				s.NoLocal = f.O&4 != 0
				s.RetainAsPublished = f.O&8 != 0
				s.RetainHandling = byte(f.O>>4) & 3
			}
			pk.Filters = append(pk.Filters, s)
		}
	case packets.Suback, packets.Unsuback:
		pk.PacketID = uint16(a.Pid)
		pk.ReasonCodes = append([]byte{}, a.Codes...)
	case packets.Disconnect, packets.Auth:
		pk.ReasonCode = byte(a.Reason)
	}
	return pk
}

// ---------------------------------------------------------------------------------------------
// Driving the real code.

type outcome struct {
	Kind  string // ok | error | panic
	Err   string
	Site  string // first frame inside package packets of a panic
	Stage string // header | length | read | body
	Pk    packets.Packet
}

func panicSite(stack string) string {
	for _, l := range strings.Split(stack, "\n") {
		if i := strings.Index(l, "mochi-mqtt/server/v2/packets."); i >= 0 && !strings.Contains(l, "/cmd/") {
			s := l[i+len("mochi-mqtt/server/v2/packets."):]
			if j := strings.LastIndex(s, "("); j > 0 {
				s = s[:j]
			}
			return s
		}
	}
	return "?"
}

// exact returns a copy of b whose capacity equals its length: any access beyond the supplied bytes faults.
func exact(b []byte) []byte {
	c := make([]byte, len(b))
	copy(c, b)
	return c[:len(b):len(b)]
}

func decodeBody(pk *packets.Packet, px []byte) (err error) {
	switch pk.FixedHeader.Type {
	case packets.Connect:
		err = pk.ConnectDecode(px)
	case packets.Disconnect:
		err = pk.DisconnectDecode(px)
	case packets.Connack:
		err = pk.ConnackDecode(px)
	case packets.Publish:
		err = pk.PublishDecode(px)
	case packets.Puback:
		err = pk.PubackDecode(px)
	case packets.Pubrec:
		err = pk.PubrecDecode(px)
	case packets.Pubrel:
		err = pk.PubrelDecode(px)
	case packets.Pubcomp:
		err = pk.PubcompDecode(px)
	case packets.Subscribe:
		err = pk.SubscribeDecode(px)
	case packets.Suback:
		err = pk.SubackDecode(px)
	case packets.Unsubscribe:
		err = pk.UnsubscribeDecode(px)
	case packets.Unsuback:
		err = pk.UnsubackDecode(px)
	case packets.Pingreq:
		err = pk.PingreqDecode(px)
	case packets.Pingresp:
		err = pk.PingrespDecode(px)
	case packets.Auth:
		err = pk.AuthDecode(px)
	default:
		err = fmt.Errorf("invalid packet type; %v", pk.FixedHeader.Type)
	}
	return
}

// readPacket does what Client.ReadFixedHeader + Client.ReadPacket (clients.go) do with the bytes of one
// packet arriving on a connection whose protocol version is ver.
func readPacket(raw []byte, ver byte) (o outcome) {
	defer func() {
		if r := recover(); r != nil {
			o.Kind, o.Err, o.Site = "panic", fmt.Sprint(r), panicSite(string(debug.Stack()))
		}
	}()
	r := bytes.NewReader(raw)
	o.Stage = "header"
	b, err := r.ReadByte()
	if err != nil {
		return outcome{Kind: "error", Err: err.Error(), Stage: "header"}
	}
	fh := new(packets.FixedHeader)
	if err = fh.Decode(b); err != nil {
		return outcome{Kind: "error", Err: err.Error(), Stage: "header"}
	}
	o.Stage = "length"
	fh.Remaining, _, err = packets.DecodeLength(r)
	if err != nil {
		return outcome{Kind: "error", Err: err.Error(), Stage: "length"}
	}
	o.Stage = "read"
	if fh.Remaining > r.Len() { // io.ReadFull would fail (without allocating a huge buffer here)
		return outcome{Kind: "error", Err: io.ErrUnexpectedEOF.Error(), Stage: "read"}
	}
	p := make([]byte, fh.Remaining)
	if _, err = io.ReadFull(r, p); err != nil {
		return outcome{Kind: "error", Err: err.Error(), Stage: "read"}
	}
	o.Stage = "body"
	o.Pk.ProtocolVersion = ver
	o.Pk.FixedHeader = *fh
	err = decodeBody(&o.Pk, exact(p))
	if err != nil {
		return outcome{Kind: "error", Err: err.Error(), Stage: "body"}
	}
	o.Kind = "ok"
	return o
}

// decodeOnly feeds a body to one per-type decoder (C27: every decoder, every version).
func decodeOnly(t byte, qos byte, ver byte, body []byte) (o outcome) {
	defer func() {
		if r := recover(); r != nil {
			o.Kind, o.Err, o.Site = "panic", fmt.Sprint(r), panicSite(string(debug.Stack()))
		}
	}()
	pk := packets.Packet{ProtocolVersion: ver, FixedHeader: packets.FixedHeader{Type: t, Qos: qos, Remaining: len(body)}}
	if err := decodeBody(&pk, exact(body)); err != nil {
		return outcome{Kind: "error", Err: err.Error()}
	}
	return outcome{Kind: "ok", Pk: pk}
}

func encode(pk *packets.Packet) (out []byte, err error, pan string) {
	defer func() {
		if r := recover(); r != nil {
			pan = fmt.Sprint(r) + " at " + panicSite(string(debug.Stack()))
		}
	}()
	buf := new(bytes.Buffer)
	switch pk.FixedHeader.Type {
	case packets.Connect:
		err = pk.ConnectEncode(buf)
	case packets.Connack:
		err = pk.ConnackEncode(buf)
	case packets.Publish:
		err = pk.PublishEncode(buf)
	case packets.Puback:
		err = pk.PubackEncode(buf)
	case packets.Pubrec:
		err = pk.PubrecEncode(buf)
	case packets.Pubrel:
		err = pk.PubrelEncode(buf)
	case packets.Pubcomp:
		err = pk.PubcompEncode(buf)
	case packets.Subscribe:
		err = pk.SubscribeEncode(buf)
	case packets.Suback:
		err = pk.SubackEncode(buf)
	case packets.Unsubscribe:
		err = pk.UnsubscribeEncode(buf)
	case packets.Unsuback:
		err = pk.UnsubackEncode(buf)
	case packets.Pingreq:
		err = pk.PingreqEncode(buf)
	case packets.Pingresp:
		err = pk.PingrespEncode(buf)
	case packets.Disconnect:
		err = pk.DisconnectEncode(buf)
	case packets.Auth:
		err = pk.AuthEncode(buf)
	default:
		err = fmt.Errorf("no encoder for type %d", pk.FixedHeader.Type)
	}
	return buf.Bytes(), err, pan
}

// ---------------------------------------------------------------------------------------------
// Result file.

type report struct {
	Evaluations int              `json:"evaluations"`
	Distinct    int              `json:"distinct_nontrivial"`
	Fail        []map[string]any `json:"fail"`   // disagreements that need no judge
	NFail       int              `json:"n_fail"` //
	Appeal      []map[string]any `json:"appeal"` // values for TLC to judge (job judge)
	NAppeal     int              `json:"n_appeal"`
	Samples     []any            `json:"samples"`
	Extra       map[string]any   `json:"extra"`
	mu          sync.Mutex
}

func newReport() *report {
	return &report{Extra: map[string]any{}, Fail: []map[string]any{}, Appeal: []map[string]any{}}
}
func (r *report) fail(m map[string]any) {
	r.mu.Lock()
	defer r.mu.Unlock()
	r.NFail++
	if len(r.Fail) < 4000 {
		r.Fail = append(r.Fail, m)
	}
}
func (r *report) appeal(m map[string]any) {
	r.mu.Lock()
	defer r.mu.Unlock()
	r.NAppeal++
	if len(r.Appeal) < 4000 {
		r.Appeal = append(r.Appeal, m)
	}
}
func (r *report) sample(v any) {
	r.mu.Lock()
	defer r.mu.Unlock()
	if len(r.Samples) < 6 {
		r.Samples = append(r.Samples, v)
	}
}

func hexs(b []byte) string {
	if len(b) > 96 {
		return hex.EncodeToString(b[:48]) + fmt.Sprintf("..(%d bytes)..", len(b)) + hex.EncodeToString(b[len(b)-16:])
	}
	return hex.EncodeToString(b)
}

func readShards(prefix string, n int, into func(path string)) {
	for k := 1; k <= n; k++ {
		into(fmt.Sprintf("%s.%d.json", prefix, k))
	}
}

// ---------------------------------------------------------------------------------------------
// C29

type vbiTable struct {
	Patterns []struct {
		Bytes  []int  `json:"bytes"`
		Expect string `json:"expect"`
		V      int    `json:"v"`
		N      int    `json:"n"`
		Why    string `json:"why"`
	} `json:"patterns"`
	Enc []struct {
		V     int `json:"v"`
		Bytes BS  `json:"bytes"`
		Subid BS  `json:"subid"`
	} `json:"enc"`
	Thresholds []struct {
		Len int `json:"len"`
		Lo  int `json:"lo"`
		Hi  int `json:"hi"`
	} `json:"thresholds"`
}

func toBytes(x []int) []byte {
	b := make([]byte, len(x))
	for i, v := range x {
		b[i] = byte(v)
	}
	return b
}

func encLen(v int, buf *bytes.Buffer) []byte {
	buf.Reset()
	fh := packets.FixedHeader{Type: packets.Publish, Remaining: v}
	fh.Encode(buf)
	return buf.Bytes()[1:]
}

func cmdVbi(table, out string, exhaustive bool) {
	var t vbiTable
	hx.ReadJSON(table, &t)
	rep := newReport()
	classes := map[string]int{}
	for _, row := range t.Patterns {
		b := toBytes(row.Bytes)
		n, bu, err := packets.DecodeLength(bytes.NewReader(b))
		rep.Evaluations++
		classes[fmt.Sprintf("%s/%s/%d", row.Expect, row.Why, len(b))]++
		if row.Expect == "value" {
			if err != nil || n != row.V || bu != row.N {
				rep.fail(map[string]any{"case": "decode", "bytes": hexs(b), "expect": "value", "v": row.V, "n": row.N, "got_v": n, "got_used": bu, "err": fmt.Sprint(err)})
			}
		} else if err == nil {
			rep.fail(map[string]any{"case": "decode", "bytes": hexs(b), "expect": "reject", "why": row.Why, "len": len(b), "got_v": n, "got_used": bu})
		}
	}
	buf := new(bytes.Buffer)
	for _, row := range t.Enc {
		got := append([]byte{}, encLen(row.V, buf)...)
		rep.Evaluations++
		if !bytes.Equal(got, row.Bytes) {
			rep.fail(map[string]any{"case": "encode-remaining-length", "v": row.V, "expect": hexs(row.Bytes), "got": hexs(got)})
		}
		if n, bu, err := packets.DecodeLength(bytes.NewReader(got)); err != nil || n != row.V || bu != len(got) {
			rep.fail(map[string]any{"case": "decode-own-encoding", "v": row.V, "got_v": n, "got_used": bu, "err": fmt.Sprint(err)})
		}
		if row.V >= 1 {
			pb := new(bytes.Buffer)
			pr := packets.Properties{SubscriptionIdentifier: []int{row.V}}
			pr.Encode(packets.Subscribe, packets.Mods{}, pb, 0)
			rep.Evaluations++
			if !bytes.Equal(pb.Bytes(), row.Subid) {
				rep.fail(map[string]any{"case": "encode-subscription-identifier", "v": row.V, "expect": hexs(row.Subid), "got": hexs(pb.Bytes())})
			}
			var back packets.Properties
			if _, err := back.Decode(packets.Subscribe, bytes.NewBuffer(append([]byte{}, pb.Bytes()...))); err != nil || len(back.SubscriptionIdentifier) != 1 || back.SubscriptionIdentifier[0] != row.V {
				rep.fail(map[string]any{"case": "decode-subscription-identifier", "v": row.V, "got": fmt.Sprint(back.SubscriptionIdentifier), "err": fmt.Sprint(err)})
			}
		}
	}
	rep.sample(map[string]any{"bytes": "8080808000", "expect": "reject (five bytes)"})
	if len(t.Enc) > 0 {
		m := t.Enc[len(t.Enc)/2]
		rep.sample(map[string]any{"v": m.V, "encoding": hexs(m.Bytes)})
	}
	rep.Extra["pattern_rows"] = len(t.Patterns)
	rep.Extra["enc_rows"] = len(t.Enc)
	rep.Extra["exhaustive_values"] = 0
	if exhaustive {
		// all values 0..hi(4): length from the TLC threshold table, decode(encode(v)) = v
		total := 0
		for _, th := range t.Thresholds {
			if th.Hi+1 > total {
				total = th.Hi + 1
			}
		}
		lenOf := func(v int) int {
			for _, th := range t.Thresholds {
				if v >= th.Lo && v <= th.Hi {
					return th.Len
				}
			}
			return -1
		}
		workers := 16
		var wg sync.WaitGroup
		var bad int64
		var done int64
		chunk := (total + workers - 1) / workers
		for w := 0; w < workers; w++ {
			lo, hi := w*chunk, (w+1)*chunk
			if hi > total {
				hi = total
			}
			wg.Add(1)
			go func(lo, hi int) {
				defer wg.Done()
				b := new(bytes.Buffer)
				rd := bytes.NewReader(nil)
				// the expected length changes only at the thresholds: track the current range
				cur := -1
				curLo, curHi := 0, -1
				for v := lo; v < hi; v++ {
					if v < curLo || v > curHi {
						cur = lenOf(v)
						for _, th := range t.Thresholds {
							if v >= th.Lo && v <= th.Hi {
								curLo, curHi = th.Lo, th.Hi
							}
						}
					}
					e := encLen(v, b)
					rd.Reset(e)
					n, bu, err := packets.DecodeLength(rd)
					if len(e) != cur || err != nil || n != v || bu != len(e) {
						if atomic.AddInt64(&bad, 1) <= 20 {
							rep.fail(map[string]any{"case": "exhaustive", "v": v, "encoding": hexs(e), "expect_len": cur, "got_v": n, "got_used": bu, "err": fmt.Sprint(err)})
						}
					}
				}
				atomic.AddInt64(&done, int64(hi-lo))
			}(lo, hi)
		}
		wg.Wait()
		rep.Evaluations += int(done)
		rep.Extra["exhaustive_values"] = done
		rep.Extra["thresholds"] = t.Thresholds
	}
	rep.Distinct = len(classes)
	rep.Extra["classes"] = classes
	hx.WriteJSON(out, rep)
}

// ---------------------------------------------------------------------------------------------
// C42

type c42Row struct {
	ID    int  `json:"id"`
	T     int  `json:"t"`
	Ver   int  `json:"ver"`
	Bytes BS   `json:"bytes"`
	Forms int  `json:"forms"`
	Exp   APkt `json:"exp"`
}

func cmdC42(prefix string, shards int, out string) {
	rep := newReport()
	perType := map[string]int{}
	shapes := map[string]bool{}
	readShards(prefix, shards, func(path string) {
		var rows []c42Row
		hx.ReadJSON(path, &rows)
		for i := range rows {
			r := &rows[i]
			rep.Evaluations++
			perType[fmt.Sprintf("%s/v%d", packets.PacketNames[byte(r.T)], r.Ver)]++
			shapes[fmt.Sprintf("%d/%d/%d/%d", r.T, r.Ver, len(r.Bytes)-len(r.Exp.Payload), len(r.Exp.Props))] = true
			o := readPacket(r.Bytes, byte(r.Ver))
			base := map[string]any{"id": r.ID, "t": r.T, "ver": r.Ver, "bytes": r.Bytes, "hex": hexs(r.Bytes), "exp": r.Exp}
			switch o.Kind {
			case "panic":
				base["kind"], base["err"], base["site"] = "panic", o.Err, o.Site
				rep.fail(base)
			case "error":
				base["kind"], base["err"], base["stage"] = "rejected", o.Err, o.Stage
				rep.fail(base)
			default:
				got := abs(&o.Pk)
				if !same(got, r.Exp) {
					base["kind"], base["got"] = "differs", got
					rep.appeal(base)
				}
			}
			if i == len(rows)/2 {
				rep.sample(map[string]any{"bytes": hexs(r.Bytes), "ver": r.Ver, "type": packets.PacketNames[byte(r.T)], "forms_of_this_packet": r.Forms})
			}
		}
	})
	rep.Distinct = len(shapes)
	rep.Extra["per_type"] = perType
	hx.WriteJSON(out, rep)
}

// ---------------------------------------------------------------------------------------------
// C26

type c26Row struct {
	ID   int    `json:"id"`
	P    APkt   `json:"p"`
	Mode string `json:"mode"`
	Msz  int    `json:"msz"`
	Qs   []APkt `json:"qs"`
	Big  bool   `json:"big"`
	Encs []struct {
		B BS  `json:"b"`
		Q int `json:"q"`
	} `json:"encs"`
}

func cmdC26(prefix string, shards int, out string) {
	rep := newReport()
	perType := map[string]int{}
	shapes := map[string]bool{}
	oversize := 0
	readShards(prefix, shards, func(path string) {
		var rows []c26Row
		hx.ReadJSON(path, &rows)
		for i := range rows {
			r := &rows[i]
			rep.Evaluations++
			perType[fmt.Sprintf("%s/v%d/%s", packets.PacketNames[byte(r.P.Type)], r.P.Ver, r.Mode)]++
			shapes[fmt.Sprintf("%d/%d/%s/%d/%d/%d", r.P.Type, r.P.Ver, r.Mode, len(r.P.Props), len(r.P.Filters), len(r.Encs))] = true
			pk := conc(&r.P, r.Mode, r.Msz)
			outb, err, pan := encode(&pk)
			outb = append([]byte{}, outb...)
			base := map[string]any{"id": r.ID, "t": r.P.Type, "ver": r.P.Ver, "mode": r.Mode, "msz": r.Msz, "p": r.P, "exp": r.Qs[0]}
			if pan != "" {
				base["kind"], base["err"] = "encode-panic", pan
				rep.fail(base)
				continue
			}
			if err != nil {
				base["kind"], base["err"] = "encode-error", err.Error()
				rep.fail(base)
				continue
			}
			base["out"], base["hex"] = BS(outb), hexs(outb)
			// remaining length = number of bytes that follow
			if len(outb) < 2 {
				base["kind"] = "output-too-short"
				rep.fail(base)
				continue
			}
			rl, n, verr := refcodec.DecodeVBI(outb[1:])
			if verr != nil || int(rl) != len(outb)-1-n {
				base["kind"], base["declared"], base["follow"] = "remaining-length-wrong", rl, len(outb)-1-n
				rep.fail(base)
			}
			if r.Mode == "maxsize" && len(outb) > r.Msz {
				oversize++
			}
			// membership in Encodings
			member := -1
			if !r.Big {
				for k := range r.Encs {
					if bytes.Equal(r.Encs[k].B, outb) {
						member = k
						break
					}
				}
			}
			exp := r.Qs[0]
			if member >= 0 {
				exp = r.Qs[r.Encs[member].Q-1]
			}
			o := readPacket(outb, byte(r.P.Ver))
			var got any = nil
			rt := "ok"
			switch o.Kind {
			case "panic":
				rt = "decode-panic"
			case "error":
				rt = "decode-error"
			default:
				g := abs(&o.Pk)
				got = g
				if !same(g, exp) {
					rt = "differs"
				}
			}
			base["member"], base["roundtrip"], base["got"], base["err"] = member, rt, got, o.Err
			if r.Big {
				// too many property orders to enumerate: TLC parses the output instead
				base["kind"] = "big"
				rep.appeal(base)
			} else if member < 0 {
				base["kind"] = "not-member"
				rep.appeal(base)
			} else if rt != "ok" {
				base["kind"] = "roundtrip"
				if got == nil {
					rep.fail(base)
				} else {
					rep.appeal(base)
				}
			}
			if i == len(rows)/3 {
				rep.sample(map[string]any{"type": packets.PacketNames[byte(r.P.Type)], "ver": r.P.Ver, "mode": r.Mode, "encoder_output": hexs(outb), "permitted_encodings": len(r.Encs), "member": member})
			}
		}
	})
	rep.Distinct = len(shapes)
	rep.Extra["per_type"] = perType
	rep.Extra["maxsize_outputs_longer_than_limit"] = oversize
	hx.WriteJSON(out, rep)
}

// catalogue: every RawBytes case of packets.TPacketData.  Recorded: what the real decoder does with it,
// and, when accepted, the re-encoding and its decoding.
func cmdCatalogue(out string) {
	rep := newReport()
	types := make([]int, 0)
	for t := range packets.TPacketData {
		types = append(types, int(t))
	}
	sort.Ints(types)
	accepted := 0
	for _, t := range types {
		for _, c := range packets.TPacketData[byte(t)] {
			if c.RawBytes == nil || len(c.RawBytes) < 2 {
				continue
			}
			ver := byte(4)
			if c.Packet != nil && c.Packet.ProtocolVersion != 0 {
				ver = c.Packet.ProtocolVersion
			}
			rep.Evaluations++
			raw := append([]byte{}, c.RawBytes...)
			o := readPacket(raw, ver)
			row := map[string]any{"case": int(c.Case), "t": t, "desc": c.Desc, "ver": int(ver), "bytes": BS(raw), "hex": hexs(raw), "dec": o.Kind, "err": o.Err, "site": o.Site}
			if o.Kind == "ok" {
				accepted++
				a1 := abs(&o.Pk)
				row["got"] = a1
				pk := o.Pk
				pk.Mods.AllowResponseInfo = true
				if pk.FixedHeader.Type == packets.Connect {
					ver = pk.ProtocolVersion
				}
				out2, err, pan := encode(&pk)
				out2 = append([]byte{}, out2...)
				row["reenc"], row["reenc_hex"], row["reenc_err"] = BS(out2), hexs(out2), fmt.Sprint(err)+pan
				if err == nil && pan == "" {
					o2 := readPacket(out2, ver)
					row["dec2"], row["err2"] = o2.Kind, o2.Err
					if o2.Kind == "ok" {
						a2 := abs(&o2.Pk)
						row["got2"] = a2
						row["same"] = same(a1, a2)
					}
				}
			}
			rep.Appeal = append(rep.Appeal, row)
		}
	}
	rep.NAppeal = len(rep.Appeal)
	rep.Extra["accepted"] = accepted
	rep.Distinct = accepted
	hx.WriteJSON(out, rep)
}

// ---------------------------------------------------------------------------------------------
// C27

type pres struct {
	Ok    bool   `json:"ok"`
	Why   string `json:"why"`
	Where string `json:"where"`
	Pkt   APkt   `json:"pkt"`
}

type c27Row struct {
	ID    int    `json:"id"`
	Base  BS     `json:"base"`
	Kind  string `json:"kind"`
	C     int    `json:"c"`
	Bytes BS     `json:"bytes"`
	E4    pres   `json:"e4"`
	E5    pres   `json:"e5"`
}

type panicKey struct {
	Site string
	Ver  byte
	T    byte
}

type panicRec struct {
	Site    string   `json:"site"`
	Ver     int      `json:"ver"`
	T       int      `json:"decoder"`
	Msg     string   `json:"msg"`
	Count   int      `json:"count"`
	Inputs  []string `json:"inputs"`
	Via     string   `json:"via"`
	LastLen bool     `json:"index_equals_length"` // the faulting index is the length of the body (read of the byte after the end)
}

type panicBook struct {
	mu sync.Mutex
	m  map[panicKey]*panicRec
}

func (pb *panicBook) add(o outcome, t, ver byte, via string, input []byte) {
	pb.mu.Lock()
	defer pb.mu.Unlock()
	k := panicKey{o.Site, ver, t}
	r := pb.m[k]
	if r == nil {
		r = &panicRec{Site: o.Site, Ver: int(ver), T: int(t), Msg: o.Err, Via: via, LastLen: true}
		pb.m[k] = r
	}
	r.Count++
	if len(r.Inputs) < 5 {
		r.Inputs = append(r.Inputs, hexs(input))
	}
	// "index out of range [n] with length n"
	var a, b int
	if _, err := fmt.Sscanf(o.Err, "runtime error: index out of range [%d] with length %d", &a, &b); err != nil || a != b {
		r.LastLen = false
	}
}

var allTypes = []byte{1, 2, 3, 4, 5, 6, 7, 8, 9, 10, 11, 12, 13, 14, 15}

func feedAll(body []byte, pb *panicBook, counter *int64) {
	for _, t := range allTypes {
		for _, ver := range []byte{3, 4, 5} {
			qs := []byte{0}
			if t == packets.Publish {
				qs = []byte{0, 1}
			}
			for _, q := range qs {
				o := decodeOnly(t, q, ver, body)
				*counter++
				if o.Kind == "panic" {
					pb.add(o, t, ver, "body", body)
				}
			}
		}
	}
}

func mutate(rng interface {
	Intn(int) int
}, corpus [][]byte, b []byte) []byte {
	out := append([]byte{}, b...)
	n := 1 + rng.Intn(3)
	for i := 0; i < n; i++ {
		switch rng.Intn(6) {
		case 0: // bit flip
			if len(out) > 0 {
				out[rng.Intn(len(out))] ^= 1 << uint(rng.Intn(8))
			}
		case 1: // byte set
			if len(out) > 0 {
				out[rng.Intn(len(out))] = []byte{0, 1, 0x7f, 0x80, 0xff, byte(rng.Intn(256))}[rng.Intn(6)]
			}
		case 2: // insertion
			p := rng.Intn(len(out) + 1)
			ins := []byte{byte(rng.Intn(256))}
			if rng.Intn(3) == 0 {
				ins = []byte{0, byte(rng.Intn(4))}
			}
			out = append(out[:p], append(ins, out[p:]...)...)
		case 3: // deletion
			if len(out) > 0 {
				p := rng.Intn(len(out))
				out = append(out[:p], out[p+1:]...)
			}
		case 4: // splice with another corpus element
			o := corpus[rng.Intn(len(corpus))]
			if len(o) > 0 {
				p, q := rng.Intn(len(out)+1), rng.Intn(len(o))
				out = append(append([]byte{}, out[:p]...), o[q:]...)
			}
		case 5: // truncate
			if len(out) > 0 {
				out = out[:rng.Intn(len(out))]
			}
		}
		if len(out) > 4096 {
			out = out[:4096]
		}
	}
	return out
}

func cmdC27(prefix string, shards int, out string, nrandom int) {
	rep := newReport()
	pb := &panicBook{m: map[panicKey]*panicRec{}}
	kinds := map[string]int{}
	classes := map[string]bool{}
	agree, disagree := 0, 0
	var bodyFeeds int64
	corpusSet := map[string]bool{}
	disSamples := []map[string]any{}
	readShards(prefix, shards, func(path string) {
		var rows []c27Row
		hx.ReadJSON(path, &rows)
		for i := range rows {
			r := &rows[i]
			corpusSet[string(r.Base)] = true
			kinds[r.Kind]++
			for _, ver := range []byte{3, 4, 5} {
				exp := &r.E4
				if ver == 5 {
					exp = &r.E5
				}
				rep.Evaluations++
				o := readPacket(r.Bytes, ver)
				cls := fmt.Sprintf("%s/%v/%s/%s", r.Kind, exp.Ok, exp.Why, o.Kind)
				classes[cls] = true
				base := map[string]any{"id": r.ID, "kind": r.Kind, "at": r.C, "ver": int(ver), "bytes": r.Bytes, "hex": hexs(r.Bytes), "base": hexs(r.Base),
					"parse_ok": exp.Ok, "why": exp.Why, "where": exp.Where, "real": o.Kind, "err": o.Err}
				switch {
				case o.Kind == "panic":
					t := byte(0)
					if len(r.Bytes) > 0 {
						t = r.Bytes[0] >> 4
					}
					pb.add(o, t, ver, "table:"+r.Kind, r.Bytes)
				case !exp.Ok && exp.Why == "length" && o.Kind == "ok":
					base["got"] = abs(&o.Pk)
					base["case"] = "overlong-length-accepted"
					rep.fail(base)
				case exp.Ok && o.Kind == "ok":
					e := exp.Pkt
					if ver == 3 && e.Type != int(packets.Connect) {
						e.Ver = 3 // MQTT 3.1 and 3.1.1 share the layout of every packet but CONNECT
					}
					if same(abs(&o.Pk), e) {
						agree++
					} else {
						disagree++
						if len(disSamples) < 400 {
							base["got"], base["exp"] = abs(&o.Pk), exp.Pkt
							disSamples = append(disSamples, base)
						}
					}
				case exp.Ok && o.Kind == "error":
					disagree++
					if len(disSamples) < 400 {
						base["exp"] = exp.Pkt
						disSamples = append(disSamples, base)
					}
				}
			}
			// the body of the row to every decoder under every version
			if len(r.Bytes) >= 2 {
				if _, n, err := refcodec.DecodeVBI(r.Bytes[1:]); err == nil {
					feedAll(r.Bytes[1+n:], pb, &bodyFeeds)
				}
			}
			if i == len(rows)/2 {
				rep.sample(map[string]any{"kind": r.Kind, "at": r.C, "bytes": hexs(r.Bytes), "parse_v4": map[string]any{"ok": r.E4.Ok, "why": r.E4.Why}, "parse_v5": map[string]any{"ok": r.E5.Ok, "why": r.E5.Why}})
			}
		}
	})
	// seeded random mutation of the corpus (valid encodings of the table + the catalogue of the package)
	corpus := [][]byte{}
	for k := range corpusSet {
		corpus = append(corpus, []byte(k))
	}
	for _, cs := range packets.TPacketData {
		for _, c := range cs {
			if len(c.RawBytes) >= 2 {
				corpus = append(corpus, append([]byte{}, c.RawBytes...))
			}
		}
	}
	sort.Slice(corpus, func(i, j int) bool { return bytes.Compare(corpus[i], corpus[j]) < 0 })
	byType := map[byte][][]byte{}
	for _, c := range corpus {
		byType[c[0]>>4] = append(byType[c[0]>>4], c)
	}
	workers := runtime.NumCPU()
	if workers > 16 {
		workers = 16
	}
	var wg sync.WaitGroup
	var randomInputs, randomDecodes int64
	outcomes := make([]map[string]int, workers)
	for w := 0; w < workers; w++ {
		outcomes[w] = map[string]int{}
		wg.Add(1)
		go func(w int) {
			defer wg.Done()
			rng := hx.Rand(int64(2700 + w))
			var local, dec int64
			for _, t := range allTypes {
				src := byType[t]
				if len(src) == 0 {
					src = corpus
				}
				for i := w; i < nrandom; i += workers {
					m := mutate(rng, corpus, src[rng.Intn(len(src))])
					local++
					// (a) as a packet on a connection
					for _, ver := range []byte{3, 4, 5} {
						o := readPacket(m, ver)
						dec++
						outcomes[w][o.Kind]++
						if o.Kind == "panic" {
							tt := byte(0)
							if len(m) > 0 {
								tt = m[0] >> 4
							}
							pb.add(o, tt, ver, "random:packet", m)
						}
					}
					// (b) its body (whatever follows a syntactically readable header, else everything after byte 1) to decoder t
					body := m
					if len(m) >= 2 {
						if _, n, err := refcodec.DecodeVBI(m[1:]); err == nil {
							body = m[1+n:]
						} else {
							body = m[1:]
						}
					}
					for _, ver := range []byte{3, 4, 5} {
						for _, q := range []byte{0, 1} {
							if q == 1 && t != packets.Publish {
								continue
							}
							o := decodeOnly(t, q, ver, body)
							dec++
							outcomes[w][o.Kind]++
							if o.Kind == "panic" {
								pb.add(o, t, ver, "random:body", body)
							}
						}
					}
				}
			}
			atomic.AddInt64(&randomInputs, local)
			atomic.AddInt64(&randomDecodes, dec)
		}(w)
	}
	wg.Wait()
	tot := map[string]int{}
	for _, m := range outcomes {
		for k, v := range m {
			tot[k] += v
		}
	}
	panics := []*panicRec{}
	for _, r := range pb.m {
		panics = append(panics, r)
	}
	sort.Slice(panics, func(i, j int) bool {
		return fmt.Sprint(panics[i].Site, panics[i].Ver, panics[i].T) < fmt.Sprint(panics[j].Site, panics[j].Ver, panics[j].T)
	})
	rep.Evaluations += int(bodyFeeds) + int(randomDecodes)
	rep.Distinct = len(classes)
	rep.Extra["panics"] = panics
	rep.Extra["kinds"] = kinds
	rep.Extra["ok_rows_agree"] = agree
	rep.Extra["ok_rows_disagree"] = disagree
	rep.Extra["ok_rows_disagree_samples"] = disSamples
	rep.Extra["body_feeds"] = bodyFeeds
	rep.Extra["random_inputs"] = randomInputs
	rep.Extra["random_decodes"] = randomDecodes
	rep.Extra["random_outcomes"] = tot
	rep.Extra["corpus"] = len(corpus)
	cl := []string{}
	for k := range classes {
		cl = append(cl, k)
	}
	sort.Strings(cl)
	rep.Extra["classes"] = cl
	hx.WriteJSON(out, rep)
}

func atoi(s string) int { v, _ := strconv.Atoi(s); return v }

func main() {
	if len(os.Args) < 3 {
		hx.Die("usage: vwire vbi|c42|c26|catalogue|c27 ...")
	}
	a := os.Args
	switch a[1] {
	case "vbi":
		cmdVbi(a[2], a[3], len(a) > 4 && a[4] == "exhaustive")
	case "c42":
		cmdC42(a[2], atoi(a[3]), a[4])
	case "c26":
		cmdC26(a[2], atoi(a[3]), a[4])
	case "catalogue":
		cmdCatalogue(a[2])
	case "c27":
		cmdC27(a[2], atoi(a[3]), a[4], atoi(a[5]))
	case "c28":
		cmdC28(a[2], atoi(a[3]), a[4], atoi(a[5]), a[6])
	default:
		hx.Die("unknown mode %s", a[1])
	}
}
