package main

// C28: structured malformed inputs (the C27 table that TLC emitted from Wire.tla, plus seeded mutations of its rows)
// are sent to a LIVE broker over a real connection, after a valid CONNECT or as the first packet, while two reference
// clients exchange QoS 1 messages.  Recorded per input: what happened to the connection (served / closed / waiting for
// more bytes), whether its handler ended when the connection was closed, and whether the reference exchange still
// worked.  A panic in a connection goroutine kills this process: the id of the input being sent is written to a
// progress file first, so the runner can name it.

import (
	"fmt"
	"io"
	"log/slog"
	"net"
	"os"
	"time"

	mqtt "github.com/mochi-mqtt/server/v2"
	"github.com/mochi-mqtt/server/v2/hooks/auth"

	"verifharness/hx"
	"verifharness/refcodec"
)

type liveClient struct {
	c   net.Conn
	buf []byte
	ver byte
	fin chan struct{}
}

type discard struct{}

func (discard) Write(p []byte) (int, error) { return len(p), nil }

func dial(srv *mqtt.Server, lid string) *liveClient {
	a, b := net.Pipe()
	l := &liveClient{c: a, fin: make(chan struct{})}
	go func() { _ = srv.EstablishConnection(lid, b); close(l.fin) }()
	return l
}

func (l *liveClient) send(b []byte, d time.Duration) error {
	_ = l.c.SetWriteDeadline(time.Now().Add(d))
	_, err := l.c.Write(b)
	return err
}

// next reads one packet; kind "" + err on EOF/timeout
func (l *liveClient) next(d time.Duration) (*refcodec.Packet, error) {
	dl := time.Now().Add(d)
	for {
		pk, n, _ := refcodec.SplitStream(l.buf)
		if len(pk) > 0 {
			raw := pk[0]
			l.buf = l.buf[len(raw):]
			_ = n
			p, err := refcodec.DecodeLenient(raw, l.ver)
			if err != nil || p == nil {
				return &refcodec.Packet{Type: 0}, nil
			}
			return p, nil
		}
		_ = l.c.SetReadDeadline(dl)
		tmp := make([]byte, 4096)
		k, err := l.c.Read(tmp)
		l.buf = append(l.buf, tmp[:k]...)
		if err != nil && k == 0 {
			return nil, err
		}
	}
}

func (l *liveClient) waitType(t byte, d time.Duration) bool {
	dl := time.Now().Add(d)
	for time.Now().Before(dl) {
		p, err := l.next(time.Until(dl))
		if err != nil {
			return false
		}
		if p.Type == t {
			return true
		}
	}
	return false
}

func connectPkt(id string, ver byte) []byte {
	p := refcodec.New(refcodec.Connect, ver)
	p.ProtoName, p.ProtoVersion, p.ClientID, p.ConnectFlags = "MQTT", ver, id, 2
	p.HasProps = ver == 5
	return refcodec.Encode(p)
}

type liveOut struct {
	Inputs      int            `json:"inputs"`
	Outcomes    map[string]int `json:"outcomes"`
	HandlerLeak []string       `json:"handler_leak"` // inputs after which the handler did not end although the connection was closed
	RefFailures []string       `json:"ref_failures"` // inputs after which the reference exchange failed
	Oversize    map[string]any `json:"oversize"`
	RefRounds   int            `json:"ref_rounds"`
	Classes     int            `json:"classes"`
}

func cmdC28(prefix string, shards int, out string, nrandom int, progress string) {
	const maxPacket = 2048
	caps := mqtt.NewDefaultServerCapabilities()
	caps.MaximumPacketSize = maxPacket
	srv := mqtt.New(&mqtt.Options{Capabilities: caps, Logger: slog.New(slog.NewTextHandler(discard{}, &slog.HandlerOptions{Level: slog.LevelError + 8}))})
	_ = srv.AddHook(new(auth.AllowHook), nil)
	res := liveOut{Outcomes: map[string]int{}, HandlerLeak: []string{}, RefFailures: []string{}, Oversize: map[string]any{}}
	pf, _ := os.Create(progress)
	note := func(s string) {
		_, _ = pf.WriteAt([]byte(fmt.Sprintf("%-400s\n", s)), 0)
	}
	// reference clients
	sub := dial(srv, "ref")
	sub.ver = 4
	pub := dial(srv, "ref")
	pub.ver = 4
	_ = sub.send(connectPkt("refsub", 4), time.Second)
	_ = pub.send(connectPkt("refpub", 4), time.Second)
	if !sub.waitType(refcodec.Connack, 2*time.Second) || !pub.waitType(refcodec.Connack, 2*time.Second) {
		hx.Die("reference clients cannot connect")
	}
	sp := refcodec.New(refcodec.Subscribe, 4)
	sp.PacketID = 1
	sp.Filters = []refcodec.Filter{{Filter: "ref/#", Options: 1}}
	_ = sub.send(refcodec.Encode(sp), time.Second)
	if !sub.waitType(refcodec.Suback, 2*time.Second) {
		hx.Die("reference subscription failed")
	}
	round := 0
	refExchange := func() bool {
		round++
		p := refcodec.New(refcodec.Publish, 4)
		p.Topic, p.Qos, p.PacketID, p.Payload = "ref/x", 1, uint16(1+round%60000), []byte(fmt.Sprintf("r%d", round))
		if pub.send(refcodec.Encode(p), time.Second) != nil {
			return false
		}
		if !pub.waitType(refcodec.Puback, 2*time.Second) {
			return false
		}
		dl := time.Now().Add(2 * time.Second)
		for time.Now().Before(dl) {
			q, err := sub.next(time.Until(dl))
			if err != nil {
				return false
			}
			if q.Type == refcodec.Publish && string(q.Payload) == string(p.Payload) {
				a := refcodec.New(refcodec.Puback, 4)
				a.PacketID = q.PacketID
				return sub.send(refcodec.Encode(a), time.Second) == nil
			}
		}
		return false
	}
	if !refExchange() {
		hx.Die("reference exchange does not work on an undisturbed broker")
	}
	classes := map[string]bool{}
	n := 0
	try := func(label string, ver byte, first bool, payload []byte) {
		n++
		note(fmt.Sprintf("input %d %s ver=%d first=%v bytes=%s", n, label, ver, first, hexs(payload)))
		f := dial(srv, "fuzz")
		f.ver = ver
		outcome := ""
		if !first {
			if f.send(connectPkt(fmt.Sprintf("fz%d", n), ver), time.Second) != nil || !f.waitType(refcodec.Connack, 2*time.Second) {
				outcome = "connect-failed"
			}
		}
		if outcome == "" {
			err := f.send(payload, 300*time.Millisecond)
			if err == nil {
				err = f.send(refcodec.Encode(refcodec.New(refcodec.Pingreq, ver)), 100*time.Millisecond)
			}
			// served (PINGRESP), closed (EOF) or still waiting for bytes
			dl := time.Now().Add(25 * time.Millisecond)
			outcome = "waiting"
			for time.Now().Before(dl) {
				p, rerr := f.next(time.Until(dl))
				if rerr != nil {
					if rerr == io.EOF || rerr == io.ErrClosedPipe {
						outcome = "closed"
					}
					break
				}
				if p.Type == refcodec.Pingresp {
					outcome = "served"
					break
				}
			}
			if err != nil && outcome == "waiting" {
				outcome = "closed" // the broker stopped reading: the write could not complete
			}
		}
		_ = f.c.Close()
		select {
		case <-f.fin:
		case <-time.After(3 * time.Second):
			res.HandlerLeak = append(res.HandlerLeak, label+" "+hexs(payload))
		}
		res.Outcomes[outcome]++
		classes[fmt.Sprintf("%s/%d/%v/%s", label, ver, first, outcome)] = true
		if n%25 == 0 && !refExchange() {
			res.RefFailures = append(res.RefFailures, fmt.Sprintf("after input %d %s %s", n, label, hexs(payload)))
		}
	}
	var corpus [][]byte
	readShards(prefix, shards, func(path string) {
		var rows []c27Row
		hx.ReadJSON(path, &rows)
		for i := range rows {
			r := &rows[i]
			if len(r.Bytes) == 0 {
				continue
			}
			corpus = append(corpus, append([]byte{}, r.Bytes...))
			t := r.Bytes[0] >> 4
			for _, ver := range []byte{4, 5} {
				try(r.Kind, ver, t == 1, r.Bytes) // CONNECT rows are sent as the first packet
			}
		}
	})
	rng := hx.Rand(2828)
	for i := 0; i < nrandom && len(corpus) > 0; i++ {
		b := mutate(rng, corpus, corpus[rng.Intn(len(corpus))])
		if len(b) == 0 {
			continue
		}
		try("mutation", byte(4+rng.Intn(2)), rng.Intn(5) == 0, b)
	}
	// a packet larger than the configured maximum must be refused before its body is processed: the header announces
	// maxPacket+100 bytes, 20 are sent; the connection must be closed without waiting for the rest
	for _, ver := range []byte{4, 5} {
		n++
		note(fmt.Sprintf("input %d oversize ver=%d", n, ver))
		f := dial(srv, "fuzz")
		f.ver = ver
		_ = f.send(connectPkt(fmt.Sprintf("big%d", ver), ver), time.Second)
		ok := f.waitType(refcodec.Connack, 2*time.Second)
		hdr := append([]byte{0x30}, refcodec.EncodeVBI(maxPacket+100)...)
		body := append([]byte{0, 1, 'a'}, make([]byte, 17)...)
		_ = f.send(append(hdr, body...), 300*time.Millisecond)
		closed := false
		if ok {
			dl := time.Now().Add(1500 * time.Millisecond)
			for time.Now().Before(dl) {
				_, err := f.next(time.Until(dl))
				if err != nil {
					closed = err == io.EOF || err == io.ErrClosedPipe
					break
				}
			}
		}
		res.Oversize[fmt.Sprint(ver)] = map[string]any{"connected": ok, "closed_before_body": closed}
		_ = f.c.Close()
		<-f.fin
	}
	if !refExchange() {
		res.RefFailures = append(res.RefFailures, "final exchange")
	}
	res.Inputs, res.RefRounds, res.Classes = n, round, len(classes)
	note("done")
	hx.WriteJSON(out, res)
}
