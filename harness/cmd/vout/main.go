// Command vout replays write-path schedules (produced by TLC from spec/OutPath.tla) on a real client connection.
//
//	vout run <scenarios.json> <out.ndjson>
//
// scenarios.json: [{"name":..,"cap":2,"steps":[{"w":"env","g":"pub:small","og":"loop.dequeued"},{"w":"loop","g":"write.afterClosedCheck","og":""},...]}]
// The output has one "cfg" line per scenario, one "step" line per executed step (where the released goroutine and the
// other writer got to, and a projection of the client's output state) and one "end" line after the run was drained.
// No verdicts are formed here.
package main

import (
	"os"

	"verifharness/driver"
	"verifharness/hx"
)

func main() {
	if len(os.Args) < 4 || os.Args[1] != "run" {
		hx.Die("usage: vout run <scenarios.json> <out.ndjson>")
	}
	var scs []driver.OutScenario
	hx.ReadJSON(os.Args[2], &scs)
	w := hx.NewND(os.Args[3])
	for _, sc := range scs {
		for _, l := range driver.RunOutPath(sc) {
			if l.Sizes == nil {
				l.Sizes = []int{}
			}
			w.Put(l)
		}
	}
	w.Close()
}
