// Command vtables drives the pure topic functions of the broker (topic index matching, retained
// lookup, filter validation, ledger topic matching) with case tables emitted by TLC from
// spec/MqttTopics.tla, and records random histories as ndjson traces for TLC to validate.
// It contains no matching oracle of its own: expected answers are looked up in the TLC table.
package main

import (
	"fmt"
	"os"
	"sort"
	"strconv"
	"strings"

	mqtt "github.com/mochi-mqtt/server/v2"
	"github.com/mochi-mqtt/server/v2/hooks/auth"
	"github.com/mochi-mqtt/server/v2/packets"

	"verifharness/hx"
)

type matchRow struct {
	F []string `json:"f"`
	T []string `json:"t"`
	M bool     `json:"m"`
}

type validRow struct {
	S  []string `json:"s"`
	VF bool     `json:"vf"`
	VP bool     `json:"vp"`
}

func main() {
	if len(os.Args) < 2 {
		hx.Die("usage: vtables <mode> ...")
	}
	switch os.Args[1] {
	case "c01-table":
		c01Table(os.Args[2], os.Args[3], atoi(os.Args[4]))
	case "c01-trace":
		topicsTrace(os.Args[2], atoi(os.Args[3]), atoi(os.Args[4]), false)
	case "c02-table":
		c02Table(os.Args[2], os.Args[3], atoi(os.Args[4]))
	case "c02-trace":
		topicsTrace(os.Args[2], atoi(os.Args[3]), atoi(os.Args[4]), true)
	case "c30-table":
		c30Table(os.Args[2], os.Args[3])
	case "c18-table":
		c18Table(os.Args[2], os.Args[3])
	default:
		hx.Die("unknown mode %s", os.Args[1])
	}
}

func atoi(s string) int { v, _ := strconv.Atoi(s); return v }

func key(f, t []string) string { return hx.Join(f) + "\x00" + hx.Join(t) }

// ---------------------------------------------------------------------------------------------
// C01: Subscribers(topic) against the TLC match table.

type subRef struct {
	Client string
	Kind   string // client | shared | inline
	Group  string
	F      []string
	ID     int
}

func (s subRef) filterString() string {
	if s.Kind == "shared" {
		return "$share/" + s.Group + "/" + hx.Join(s.F)
	}
	return hx.Join(s.F)
}

func addSub(x *mqtt.TopicsIndex, s subRef) bool {
	if s.Kind == "inline" {
		return x.InlineSubscribe(mqtt.InlineSubscription{
			Subscription: packets.Subscription{Filter: s.filterString(), Identifier: s.ID},
			Handler:      func(*mqtt.Client, packets.Subscription, packets.Packet) {},
		})
	}
	return x.Subscribe(s.Client, packets.Subscription{Filter: s.filterString(), Identifier: s.ID, Qos: 1})
}

func delSub(x *mqtt.TopicsIndex, s subRef) bool {
	if s.Kind == "inline" {
		return x.InlineUnsubscribe(s.ID, s.filterString())
	}
	return x.Unsubscribe(s.filterString(), s.Client)
}

// matched returns the identifiers of the subscriptions that the index selects for topic.
// Every subscription carries a unique positive identifier, so the merged result's identifier map
// names exactly the (client, filter) pairs that were gathered.
func matched(x *mqtt.TopicsIndex, topic string) map[int]int {
	got := map[int]int{}
	r := x.Subscribers(topic)
	for _, sub := range r.Subscriptions {
		if sub.Identifiers == nil {
			got[sub.Identifier]++
			continue
		}
		for _, id := range sub.Identifiers {
			got[id]++
		}
	}
	for _, members := range r.Shared {
		for _, sub := range members {
			got[sub.Identifier]++
		}
	}
	for id := range r.InlineSubscriptions {
		got[id]++
	}
	return got
}

func c01Table(in, out string, scenarios int) {
	var rows []matchRow
	hx.ReadJSON(in, &rows)
	res := &hx.Result{Extra: map[string]any{}}
	exp := map[string]bool{}
	filters := map[string][]string{}
	topics := map[string][]string{}
	for _, r := range rows {
		exp[key(r.F, r.T)] = r.M
		filters[hx.Join(r.F)] = r.F
		topics[hx.Join(r.T)] = r.T
	}
	nTrue := 0
	// (1) every row x every kind on a fresh index
	for _, r := range rows {
		for _, kind := range []string{"client", "shared", "inline"} {
			x := mqtt.NewTopicsIndex()
			s := subRef{Client: "c1", Kind: kind, Group: "g", F: r.F, ID: 7}
			addSub(x, s)
			got := matched(x, hx.Join(r.T))
			res.Evaluations++
			if (got[7] > 0) != r.M || got[7] > 1 {
				res.Mismatch(map[string]any{"case": "single", "kind": kind, "filter": s.filterString(), "topic": hx.Join(r.T), "expected": r.M, "got": got[7]})
			}
		}
		if r.M {
			nTrue++
		}
	}
	res.Sample(map[string]any{"filter": hx.Join(rows[len(rows)/2].F), "topic": hx.Join(rows[len(rows)/2].T), "expected": rows[len(rows)/2].M})
	// (2) random multi-subscription scenarios over the enumerated filters; oracle = table lookup
	fl := sortedVals(filters)
	tl := sortedVals(topics)
	rng := hx.Rand(101)
	for sc := 0; sc < scenarios; sc++ {
		x := mqtt.NewTopicsIndex()
		live := map[int]subRef{}
		nextID := 1
		nops := 4 + rng.Intn(12)
		var oplog []string
		for i := 0; i < nops; i++ {
			if len(live) > 0 && rng.Intn(4) == 0 {
				// unsubscribe a live one
				ids := sortedKeys(live)
				id := ids[rng.Intn(len(ids))]
				s := live[id]
				delSub(x, s)
				delete(live, id)
				oplog = append(oplog, "unsub "+s.Kind+" "+s.Client+" "+s.filterString())
				continue
			}
			s := subRef{Client: fmt.Sprintf("c%d", 1+rng.Intn(3)), Group: []string{"g", "h"}[rng.Intn(2)], F: fl[rng.Intn(len(fl))], ID: nextID}
			s.Kind = []string{"client", "client", "shared", "inline"}[rng.Intn(4)]
			// a re-subscription to the same (client, filter) replaces the old one
			for id, o := range live {
				if o.Kind == s.Kind && o.filterString() == s.filterString() && (s.Kind == "inline" || o.Client == s.Client) {
					if s.Kind == "inline" {
						continue // inline subscriptions are keyed by identifier, distinct ids coexist
					}
					delete(live, id)
				}
			}
			nextID++
			addSub(x, s)
			live[s.ID] = s
			oplog = append(oplog, "sub "+s.Kind+" "+s.Client+" "+s.filterString())
		}
		for q := 0; q < 6; q++ {
			t := tl[rng.Intn(len(tl))]
			got := matched(x, hx.Join(t))
			res.Evaluations++
			for id, s := range live {
				want := exp[key(s.F, t)]
				if (got[id] > 0) != want || got[id] > 1 {
					res.Mismatch(map[string]any{"case": "scenario", "ops": oplog, "topic": hx.Join(t), "sub": s.Kind + " " + s.Client + " " + s.filterString(), "expected": want, "got": got[id]})
				}
			}
			for id := range got {
				if _, ok := live[id]; !ok {
					res.Mismatch(map[string]any{"case": "scenario-ghost", "ops": oplog, "topic": hx.Join(t), "ghost_id": id})
				}
			}
		}
		if sc == 0 {
			res.Sample(map[string]any{"scenario_ops": oplog})
		}
	}
	res.Distinct = nTrue
	res.Extra["rows"] = len(rows)
	res.Extra["rows_matching"] = nTrue
	res.Extra["scenarios"] = scenarios
	hx.WriteJSON(out, res)
}

func sortedVals(m map[string][]string) [][]string {
	ks := make([]string, 0, len(m))
	for k := range m {
		ks = append(ks, k)
	}
	sort.Strings(ks)
	out := make([][]string, len(ks))
	for i, k := range ks {
		out[i] = m[k]
	}
	return out
}

func sortedKeys(m map[int]subRef) []int {
	ks := make([]int, 0, len(m))
	for k := range m {
		ks = append(ks, k)
	}
	sort.Ints(ks)
	return ks
}

// ---------------------------------------------------------------------------------------------
// C02: Messages(filter) against the TLC match table.

func retain(x *mqtt.TopicsIndex, topic string, payload string) int64 {
	return x.RetainMessage(packets.Packet{
		FixedHeader: packets.FixedHeader{Type: packets.Publish, Retain: true},
		TopicName:   topic, Payload: []byte(payload),
	})
}

func messages(x *mqtt.TopicsIndex, filter string) map[string]int {
	got := map[string]int{}
	for _, pk := range x.Messages(filter) {
		got[pk.TopicName+"\x00"+string(pk.Payload)]++
	}
	return got
}

func c02Table(in, out string, scenarios int) {
	var rows []matchRow
	hx.ReadJSON(in, &rows)
	res := &hx.Result{Extra: map[string]any{}}
	exp := map[string]bool{}
	filters := map[string][]string{}
	topics := map[string][]string{}
	nTrue := 0
	for _, r := range rows {
		exp[key(r.F, r.T)] = r.M
		filters[hx.Join(r.F)] = r.F
		topics[hx.Join(r.T)] = r.T
		if r.M {
			nTrue++
		}
	}
	// (1) single retained message, every row
	for _, r := range rows {
		x := mqtt.NewTopicsIndex()
		retain(x, hx.Join(r.T), "p")
		got := messages(x, hx.Join(r.F))
		n := got[hx.Join(r.T)+"\x00p"]
		res.Evaluations++
		if (n > 0) != r.M || n > 1 || len(got) > 1 || (len(got) == 1 && n == 0) {
			res.Mismatch(map[string]any{"case": "single", "filter": hx.Join(r.F), "retained": hx.Join(r.T), "expected": r.M, "got": fmt.Sprint(got)})
		}
	}
	// (2) random retain/clear histories, then every query is judged by table lookup
	fl := sortedVals(filters)
	tl := sortedVals(topics)
	rng := hx.Rand(202)
	for sc := 0; sc < scenarios; sc++ {
		x := mqtt.NewTopicsIndex()
		cur := map[string]string{} // topic -> payload: bookkeeping of the last retained publish per topic
		var oplog []string
		nops := 3 + rng.Intn(14)
		for i := 0; i < nops; i++ {
			t := hx.Join(tl[rng.Intn(len(tl))])
			switch rng.Intn(5) {
			case 0, 1, 2:
				p := fmt.Sprintf("p%d", i)
				retain(x, t, p)
				cur[t] = p
				oplog = append(oplog, "retain "+t+" "+p)
			case 3:
				retain(x, t, "")
				delete(cur, t)
				oplog = append(oplog, "clear "+t)
			case 4: // subscription churn on the same path exercises trim
				x.Subscribe("z", packets.Subscription{Filter: t})
				x.Unsubscribe(t, "z")
				oplog = append(oplog, "sub+unsub "+t)
			}
		}
		for q := 0; q < 8; q++ {
			f := fl[rng.Intn(len(fl))]
			got := messages(x, hx.Join(f))
			res.Evaluations++
			for t, p := range cur {
				want := exp[key(f, strings.Split(t, "/"))]
				n := got[t+"\x00"+p]
				if (n > 0) != want || n > 1 {
					res.Mismatch(map[string]any{"case": "history", "ops": oplog, "filter": hx.Join(f), "retained": t, "expected": want, "got": n})
				}
				delete(got, t+"\x00"+p)
			}
			if len(got) > 0 {
				res.Mismatch(map[string]any{"case": "history-extra", "ops": oplog, "filter": hx.Join(f), "unexpected": fmt.Sprint(got)})
			}
		}
		if sc == 0 {
			res.Sample(map[string]any{"history_ops": oplog})
		}
	}
	res.Distinct = nTrue
	res.Extra["rows"] = len(rows)
	res.Extra["scenarios"] = scenarios
	res.Sample(map[string]any{"filter": hx.Join(rows[len(rows)/3].F), "retained_topic": hx.Join(rows[len(rows)/3].T), "expected": rows[len(rows)/3].M})
	hx.WriteJSON(out, res)
}

// ---------------------------------------------------------------------------------------------
// Random deeper histories recorded for TLC (TraceTopics.tla): the harness only records.

type tev struct {
	Op    string   `json:"op"` // reset | sub | unsub | retain | clear | query | messages
	C     string   `json:"c,omitempty"`
	Kind  string   `json:"kind,omitempty"`
	G     string   `json:"g,omitempty"`
	F     []string `json:"f,omitempty"`
	T     []string `json:"t,omitempty"`
	ID    int      `json:"id,omitempty"`
	P     string   `json:"p,omitempty"`
	Ret   any      `json:"ret,omitempty"`
	Got   []int    `json:"got"`  // identifiers selected (query)
	GotM  []string `json:"gotm"` // retained payloads returned (messages)
	Dupes int      `json:"dupes"`
}

func topicsTrace(out string, ntr, depth int, retainedMode bool) {
	nd := hx.NewND(out)
	defer nd.Close()
	rng := hx.Rand(303)
	flv := []string{"", "a", "b", "c", "$a", "+", "+"}
	tlv := []string{"", "a", "b", "c", "$a"}
	randFilter := func() []string {
		n := 1 + rng.Intn(depth)
		f := []string{}
		for i := 0; i < n; i++ {
			f = append(f, flv[rng.Intn(len(flv))])
		}
		if rng.Intn(3) == 0 {
			f[len(f)-1] = "#"
		}
		if len(f) == 1 && f[0] == "" {
			f[0] = "a"
		}
		return f
	}
	randTopic := func() []string {
		n := 1 + rng.Intn(depth)
		t := []string{}
		for i := 0; i < n; i++ {
			t = append(t, tlv[rng.Intn(len(tlv))])
		}
		if len(t) == 1 && t[0] == "" {
			t[0] = "b"
		}
		return t
	}
	for tr := 0; tr < ntr; tr++ {
		x := mqtt.NewTopicsIndex()
		nd.Put(tev{Op: "reset", Got: []int{}, GotM: []string{}})
		nextID := 1
		type live struct {
			s subRef
		}
		var subs []subRef
		nops := 6 + rng.Intn(14)
		for i := 0; i < nops; i++ {
			r := rng.Intn(10)
			switch {
			case retainedMode && r < 5:
				t := randTopic()
				if rng.Intn(4) == 0 {
					retain(x, hx.Join(t), "")
					nd.Put(tev{Op: "clear", T: t, Got: []int{}, GotM: []string{}})
				} else {
					p := fmt.Sprintf("m%d", nextID)
					nextID++
					retain(x, hx.Join(t), p)
					nd.Put(tev{Op: "retain", T: t, P: p, Got: []int{}, GotM: []string{}})
				}
			case r < 7:
				s := subRef{Client: fmt.Sprintf("c%d", 1+rng.Intn(4)), Group: []string{"g", "h"}[rng.Intn(2)], F: randFilter(), ID: nextID}
				s.Kind = []string{"client", "client", "shared", "inline"}[rng.Intn(4)]
				nextID++
				isNew := addSub(x, s)
				subs = append(subs, s)
				nd.Put(tev{Op: "sub", C: s.Client, Kind: s.Kind, G: s.Group, F: s.F, ID: s.ID, Ret: isNew, Got: []int{}, GotM: []string{}})
			case r < 8 && len(subs) > 0:
				s := subs[rng.Intn(len(subs))]
				existed := delSub(x, s)
				nd.Put(tev{Op: "unsub", C: s.Client, Kind: s.Kind, G: s.Group, F: s.F, ID: s.ID, Ret: existed, Got: []int{}, GotM: []string{}})
			default:
				if retainedMode {
					f := randFilter()
					got := []string{}
					d := 0
					for k, n := range messages(x, hx.Join(f)) {
						got = append(got, k[strings.Index(k, "\x00")+1:])
						if n > 1 {
							d++
						}
					}
					sort.Strings(got)
					nd.Put(tev{Op: "messages", F: f, GotM: got, Got: []int{}, Dupes: d})
				} else {
					t := randTopic()
					m := matched(x, hx.Join(t))
					got := []int{}
					d := 0
					for id, n := range m {
						got = append(got, id)
						if n > 1 {
							d++
						}
					}
					sort.Ints(got)
					nd.Put(tev{Op: "query", T: t, Got: got, GotM: []string{}, Dupes: d})
				}
			}
		}
	}
	fmt.Printf("{\"events\": %d, \"traces\": %d}\n", nd.N, ntr)
}

// ---------------------------------------------------------------------------------------------
// C30: IsValidFilter against the TLC validity table.

func expand(tok []string) string {
	var b strings.Builder
	for _, t := range tok {
		b.WriteString(t)
	}
	return b.String()
}

func c30Table(in, out string) {
	var rows []validRow
	hx.ReadJSON(in, &rows)
	res := &hx.Result{Extra: map[string]any{}}
	classes := map[string]bool{}
	for _, r := range rows {
		s := expand(r.S)
		gf := mqtt.IsValidFilter(s, false)
		gp := mqtt.IsValidFilter(s, true)
		res.Evaluations += 2
		if gf != r.VF {
			res.Mismatch(map[string]any{"case": "filter", "s": s, "expected": r.VF, "got": gf})
		}
		// a publish topic goes through IsValidFilter(topic, true) in processPublish
		if gp != r.VP {
			res.Mismatch(map[string]any{"case": "publish-topic", "s": s, "expected": r.VP, "got": gp})
		}
		classes[fmt.Sprintf("%v/%v/%d", r.VF, r.VP, len(r.S))] = true
	}
	res.Distinct = len(rows)
	res.Extra["rows"] = len(rows)
	res.Extra["outcome_classes"] = len(classes)
	res.Sample(map[string]any{"s": expand(rows[len(rows)/2].S), "valid_filter": rows[len(rows)/2].VF, "valid_publish_topic": rows[len(rows)/2].VP})
	hx.WriteJSON(out, res)
}

// ---------------------------------------------------------------------------------------------
// C18 (topic part): ledger MatchTopic against the TLC table of LedgerMatchLevels.

func c18Table(in, out string) {
	var rows []matchRow
	hx.ReadJSON(in, &rows)
	res := &hx.Result{Extra: map[string]any{}}
	n := 0
	for _, r := range rows {
		_, got := auth.MatchTopic(hx.Join(r.F), hx.Join(r.T))
		got2 := auth.RString(hx.Join(r.F)).FilterMatches(hx.Join(r.T))
		res.Evaluations++
		if got != r.M || got2 != r.M {
			res.Mismatch(map[string]any{"case": "ledger-match", "filter": hx.Join(r.F), "topic": hx.Join(r.T), "expected": r.M, "got": got})
		}
		if r.M {
			n++
		}
	}
	res.Distinct = n
	res.Extra["rows"] = len(rows)
	res.Sample(map[string]any{"filter": hx.Join(rows[len(rows)/2].F), "topic": hx.Join(rows[len(rows)/2].T), "expected": rows[len(rows)/2].M})
	hx.WriteJSON(out, res)
}
