// Command vattach replays gate schedules (produced by TLC from spec/Attach.tla) on the real broker.
//
//	vattach run <scenarios.json> <out.ndjson>
//
// scenarios.json: [{"name":..,"max":..,"handlers":[{id,ver,clean,expire,will}],"steps":[{"h":1,"g":"spawn"},...]}]
// The output has one "cfg" line per scenario, one "step" line per executed step (the point actually reached and a
// projection of the broker state) and one "end" line. No verdicts are formed here.
package main

import (
	"os"

	"verifharness/driver"
	"verifharness/hx"
)

func main() {
	if len(os.Args) < 4 || os.Args[1] != "run" {
		hx.Die("usage: vattach run <scenarios.json> <out.ndjson>")
	}
	var scs []driver.AttachScenario
	hx.ReadJSON(os.Args[2], &scs)
	w := hx.NewND(os.Args[3])
	for _, sc := range scs {
		for _, l := range driver.RunAttach(sc) {
			w.Put(l)
		}
	}
	w.Close()
}
