// Command vlocks serves property C32 (no deadlock).
//
//	vlocks extract <repo> <out.json>   static extraction of lock acquisition structure from the sources (go/ast):
//	                                   for every method of a type that carries a sync.Mutex / sync.RWMutex, the locks
//	                                   it takes, the same-receiver and field-receiver methods it calls while holding
//	                                   them, and from that (transitively) every nested acquisition path and every
//	                                   lock-order edge.  No verdict: spec/Locks.tla (TLC) decides which can deadlock.
//	vlocks stress <out.json> <seconds> concurrent client activity on a real broker with a progress watchdog; records
//	                                   whether the workload completed or goroutines are stuck on broker locks.
package main

import (
	"fmt"
	"go/ast"
	"go/parser"
	"go/token"
	"os"
	"path/filepath"
	"sort"
	"strings"

	"verifharness/hx"
)

type lockRef struct {
	Lock string `json:"lock"` // "<pkg>.<Type>" (embedded mutex) or "<pkg>.<Type>.<field>"
	Mode string `json:"mode"` // "r" or "w"
}

type callEv struct {
	Callee string    `json:"callee"` // "<pkg>.<Type>.<Method>"
	Held   []lockRef `json:"held"`
	Pos    string    `json:"pos"`
	Same   bool      `json:"same"` // callee has the same receiver object
}

type methodInfo struct {
	Name     string    `json:"name"`
	Acquires []lockRef `json:"acquires"` // direct
	AcqPos   []string  `json:"acq_pos"`
	Calls    []callEv  `json:"calls"` // calls made while at least one lock is held
	AllCalls []string  `json:"all_calls"`
	sameAll  []string
}

type nested struct {
	Outer string   `json:"outer"`
	Chain []string `json:"chain"` // call chain from outer to the acquiring method
	Lock  string   `json:"lock"`
	Held  string   `json:"held"` // mode held
	Acq   string   `json:"acq"`  // mode acquired again
	Pos   string   `json:"pos"`
}

type orderEdge struct {
	From string `json:"from"`
	To   string `json:"to"`
	Via  string `json:"via"`
	Pos  string `json:"pos"`
}

type extraction struct {
	LockTypes map[string]string      `json:"lock_types"` // lock id -> "Mutex" | "RWMutex"
	Methods   map[string]*methodInfo `json:"methods"`
	Nested    []nested               `json:"nested"`
	Order     []orderEdge            `json:"order"`
	Files     int                    `json:"files"`
}

type typeInfo struct {
	pkg      string
	name     string
	embedded string            // "", "Mutex", "RWMutex"
	muFields map[string]string // field name -> Mutex|RWMutex
	fields   map[string]string // field name -> type name (pkg-qualified when known)
}

func typeName(e ast.Expr) string {
	switch t := e.(type) {
	case *ast.StarExpr:
		return typeName(t.X)
	case *ast.Ident:
		return t.Name
	case *ast.SelectorExpr:
		if x, ok := t.X.(*ast.Ident); ok {
			return x.Name + "." + t.Sel.Name
		}
	}
	return ""
}

func extract(repo, out string) {
	fset := token.NewFileSet()
	types := map[string]*typeInfo{} // "<pkg>.<Type>"
	type fileT struct {
		pkg string
		f   *ast.File
	}
	var files []fileT
	_ = filepath.Walk(repo, func(p string, info os.FileInfo, err error) error {
		if err != nil {
			return nil
		}
		if info.IsDir() {
			b := filepath.Base(p)
			if b == ".git" || b == "vendor" || b == "examples" || b == "cmd" {
				return filepath.SkipDir
			}
			return nil
		}
		if !strings.HasSuffix(p, ".go") || strings.HasSuffix(p, "_test.go") {
			return nil
		}
		src, err := os.ReadFile(p)
		if err != nil {
			return nil
		}
		if strings.Contains(string(src[:min(len(src), 200)]), "//go:build verif") {
			return nil // harness-only files
		}
		f, err := parser.ParseFile(fset, p, src, 0)
		if err != nil {
			hx.Die("parse %s: %v", p, err)
		}
		files = append(files, fileT{f.Name.Name, f})
		return nil
	})
	// pass 1: struct types
	for _, ft := range files {
		for _, d := range ft.f.Decls {
			gd, ok := d.(*ast.GenDecl)
			if !ok {
				continue
			}
			for _, sp := range gd.Specs {
				ts, ok := sp.(*ast.TypeSpec)
				if !ok {
					continue
				}
				st, ok := ts.Type.(*ast.StructType)
				if !ok {
					continue
				}
				ti := &typeInfo{pkg: ft.pkg, name: ts.Name.Name, muFields: map[string]string{}, fields: map[string]string{}}
				for _, fld := range st.Fields.List {
					tn := typeName(fld.Type)
					if len(fld.Names) == 0 {
						if tn == "sync.Mutex" {
							ti.embedded = "Mutex"
						} else if tn == "sync.RWMutex" {
							ti.embedded = "RWMutex"
						}
						continue
					}
					for _, n := range fld.Names {
						if tn == "sync.Mutex" {
							ti.muFields[n.Name] = "Mutex"
						} else if tn == "sync.RWMutex" {
							ti.muFields[n.Name] = "RWMutex"
						} else if tn != "" {
							ti.fields[n.Name] = tn
						}
					}
				}
				types[ft.pkg+"."+ts.Name.Name] = ti
			}
		}
	}
	ex := &extraction{LockTypes: map[string]string{}, Methods: map[string]*methodInfo{}, Files: len(files), Nested: []nested{}, Order: []orderEdge{}}
	for k, ti := range types {
		if ti.embedded != "" {
			ex.LockTypes[k] = ti.embedded
		}
		for f, m := range ti.muFields {
			ex.LockTypes[k+"."+f] = m
		}
	}
	resolve := func(pkg, tn string) string { // field type name -> "<pkg>.<Type>" if it is a known struct
		if tn == "" {
			return ""
		}
		if strings.Contains(tn, ".") {
			if _, ok := types[tn]; ok {
				return tn
			}
			return ""
		}
		if _, ok := types[pkg+"."+tn]; ok {
			return pkg + "." + tn
		}
		return ""
	}
	// pass 2: methods
	for _, ft := range files {
		for _, d := range ft.f.Decls {
			fd, ok := d.(*ast.FuncDecl)
			if !ok || fd.Recv == nil || len(fd.Recv.List) == 0 || fd.Body == nil {
				continue
			}
			rt := typeName(fd.Recv.List[0].Type)
			tkey := ft.pkg + "." + rt
			ti := types[tkey]
			if ti == nil {
				continue
			}
			recv := ""
			if len(fd.Recv.List[0].Names) > 0 {
				recv = fd.Recv.List[0].Names[0].Name
			}
			mi := &methodInfo{Name: tkey + "." + fd.Name.Name}
			ex.Methods[mi.Name] = mi
			if recv == "" || recv == "_" {
				continue
			}
			var held []lockRef
			pos := func(n ast.Node) string {
				p := fset.Position(n.Pos())
				rel, _ := filepath.Rel(repo, p.Filename)
				return fmt.Sprintf("%s:%d", rel, p.Line)
			}
			// lockCall: is call `recv.Lock()` / `recv.mu.RLock()` ... -> (lock id, op)
			lockCall := func(c *ast.CallExpr) (string, string) {
				se, ok := c.Fun.(*ast.SelectorExpr)
				if !ok {
					return "", ""
				}
				op := se.Sel.Name
				if op != "Lock" && op != "RLock" && op != "Unlock" && op != "RUnlock" {
					return "", ""
				}
				switch x := se.X.(type) {
				case *ast.Ident:
					if x.Name == recv && ti.embedded != "" {
						return tkey, op
					}
				case *ast.SelectorExpr:
					if b, ok := x.X.(*ast.Ident); ok && b.Name == recv {
						if _, ok := ti.muFields[x.Sel.Name]; ok {
							return tkey + "." + x.Sel.Name, op
						}
						// recv.field.Lock() where field is a lock-carrying struct (embedded mutex)
						if ft2 := resolve(ti.pkg, ti.fields[x.Sel.Name]); ft2 != "" && types[ft2].embedded != "" {
							return ft2, op
						}
					}
				}
				return "", ""
			}
			handleCall := func(c *ast.CallExpr, deferred bool) {
				if lk, op := lockCall(c); lk != "" {
					switch op {
					case "Lock", "RLock":
						mode := "w"
						if op == "RLock" {
							mode = "r"
						}
						if !deferred {
							mi.Acquires = append(mi.Acquires, lockRef{lk, mode})
							mi.AcqPos = append(mi.AcqPos, pos(c))
							held = append(held, lockRef{lk, mode})
						}
					case "Unlock", "RUnlock":
						if !deferred {
							for i := len(held) - 1; i >= 0; i-- {
								if held[i].Lock == lk {
									held = append(held[:i], held[i+1:]...)
									break
								}
							}
						}
					}
					return
				}
				se, ok := c.Fun.(*ast.SelectorExpr)
				if !ok {
					return
				}
				callee, same := "", false
				switch x := se.X.(type) {
				case *ast.Ident:
					if x.Name == recv {
						callee, same = tkey+"."+se.Sel.Name, true
					}
				case *ast.SelectorExpr:
					if b, ok := x.X.(*ast.Ident); ok && b.Name == recv {
						if ft2 := resolve(ti.pkg, ti.fields[x.Sel.Name]); ft2 != "" {
							callee = ft2 + "." + se.Sel.Name
						}
					}
				}
				if callee == "" {
					return
				}
				mi.AllCalls = append(mi.AllCalls, callee)
				if same {
					mi.sameAll = append(mi.sameAll, callee)
				}
				if len(held) > 0 {
					mi.Calls = append(mi.Calls, callEv{Callee: callee, Held: append([]lockRef{}, held...), Pos: pos(c), Same: same})
				}
			}
			ast.Inspect(fd.Body, func(n ast.Node) bool {
				switch t := n.(type) {
				case *ast.FuncLit:
					return false // closures run elsewhere
				case *ast.GoStmt:
					return false
				case *ast.DeferStmt:
					handleCall(t.Call, true)
					return false
				case *ast.CallExpr:
					handleCall(t, false)
				}
				return true
			})
		}
	}
	// transitive acquisitions through same-receiver calls (and field-receiver calls for lock order)
	type acq struct {
		ref   lockRef
		chain []string
		pos   string
	}
	var reach func(m string, seen map[string]bool, sameOnly bool) []acq
	reach = func(m string, seen map[string]bool, sameOnly bool) []acq {
		mi := ex.Methods[m]
		if mi == nil || seen[m] {
			return nil
		}
		seen[m] = true
		var res []acq
		for i, a := range mi.Acquires {
			res = append(res, acq{a, []string{m}, mi.AcqPos[i]})
		}
		next := mi.AllCalls
		if sameOnly {
			next = mi.sameAll // calls on the same receiver object only
		}
		for _, c := range next {
			for _, a := range reach(c, seen, sameOnly) {
				res = append(res, acq{a.ref, append([]string{m}, a.chain...), a.pos})
			}
		}
		return res
	}
	seenN := map[string]bool{}
	seenO := map[string]bool{}
	names := make([]string, 0, len(ex.Methods))
	for n := range ex.Methods {
		names = append(names, n)
	}
	sort.Strings(names)
	for _, n := range names {
		mi := ex.Methods[n]
		for _, c := range mi.Calls {
			if c.Same {
				// the same lock of the same object again, through calls on the same receiver
				for _, a := range reach(c.Callee, map[string]bool{}, true) {
					for _, h := range c.Held {
						if h.Lock == a.ref.Lock && allSame(ex, a.chain) {
							key := n + ">" + strings.Join(a.chain, ">") + h.Lock + h.Mode + a.ref.Mode
							if !seenN[key] {
								seenN[key] = true
								ex.Nested = append(ex.Nested, nested{Outer: n, Chain: a.chain, Lock: h.Lock, Held: h.Mode, Acq: a.ref.Mode, Pos: c.Pos})
							}
						}
					}
				}
			}
			for _, a := range reach(c.Callee, map[string]bool{}, false) {
				for _, h := range c.Held {
					if h.Lock != a.ref.Lock {
						key := h.Lock + ">" + a.ref.Lock
						if !seenO[key] {
							seenO[key] = true
							ex.Order = append(ex.Order, orderEdge{From: h.Lock, To: a.ref.Lock, Via: n + " -> " + strings.Join(a.chain, " -> "), Pos: c.Pos})
						}
					}
				}
			}
		}
	}
	hx.WriteJSON(out, ex)
}

// allSame: every method of the chain belongs to the same type as the first (same receiver object)
func allSame(ex *extraction, chain []string) bool {
	if len(chain) == 0 {
		return false
	}
	t := chain[0][:strings.LastIndex(chain[0], ".")]
	for _, c := range chain {
		if c[:strings.LastIndex(c, ".")] != t {
			return false
		}
	}
	return true
}

func main() {
	if len(os.Args) < 2 {
		hx.Die("usage: vlocks extract|stress ...")
	}
	switch os.Args[1] {
	case "extract":
		extract(os.Args[2], os.Args[3])
	case "stress":
		stressMain(os.Args[2:])
	default:
		hx.Die("unknown subcommand")
	}
}
