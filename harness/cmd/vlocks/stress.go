package main

import (
	"strconv"

	"verifharness/driver"
	"verifharness/hx"
)

// vlocks stress <out.json> <seconds>
func stressMain(a []string) {
	secs, _ := strconv.Atoi(a[1])
	res := driver.RunLockStress(secs, hx.Seed())
	hx.WriteJSON(a[0], res)
}
