// Command vretain replays schedules of spec/RetainExpiry.tla (retained-message housekeeping against a concurrent retained
// publish) on a real server.
//
//	vretain run <scenarios.json> <out.ndjson>
//
// scenarios.json: [{"name":..,"steps":[["env","pub",1],["env","age",1],["hk","tick","retained.expiring"],["env","pub",2],["hk","finish","returned"],["env","sub",2]]}]
// One "cfg" line per scenario, one "step" line per step (what happened: got; the retained message of the topic after the
// step: stored) and one "end" line. No verdicts are formed here.
package main

import (
	"fmt"
	"log/slog"
	"os"
	"strconv"
	"sync"
	"time"

	mqtt "github.com/mochi-mqtt/server/v2"
	"github.com/mochi-mqtt/server/v2/packets"

	"verifharness/hx"
)

type scenario struct {
	Name  string  `json:"name"`
	Steps [][]any `json:"steps"`
}

type line struct {
	Ev     string `json:"ev"`
	Name   string `json:"name"`
	I      int    `json:"i"`
	Who    string `json:"who"`
	What   string `json:"what"`
	X      string `json:"x"`      // the model's third field as text
	Got    string `json:"got"`    // what the step observed (same vocabulary as x)
	Stored int    `json:"stored"` // id of the retained message of the topic after the step (0: none)
	Note   string `json:"note"`
}

type nullWriter struct{}

func (nullWriter) Write(p []byte) (int, error) { return len(p), nil }

const wait = 3 * time.Second

func idOf(p []byte) int {
	if len(p) < 2 || p[0] != 'm' {
		return -1
	}
	v, err := strconv.Atoi(string(p[1:]))
	if err != nil {
		return -1
	}
	return v
}

func one(sc scenario) (out []line) {
	caps := mqtt.NewDefaultServerCapabilities()
	caps.MaximumMessageExpiryInterval = 10
	srv := mqtt.New(&mqtt.Options{Capabilities: caps, InlineClient: true,
		Logger: slog.New(slog.NewTextHandler(nullWriter{}, &slog.HandlerOptions{Level: slog.LevelError + 8}))})
	arr, rel := make(chan struct{}, 2), make(chan struct{})
	var gated sync.Mutex
	on := true
	mqtt.VerifSched = func(point string, cl *mqtt.Client) {
		gated.Lock()
		g := on
		gated.Unlock()
		if point == "retained.expiring" && g {
			arr <- struct{}{}
			<-rel
		}
	}
	defer func() { mqtt.VerifSched = nil }()
	stored := func() int {
		if pk, ok := srv.Topics.Retained.Get("t"); ok {
			return idOf(pk.Payload)
		}
		return 0
	}
	out = append(out, line{Ev: "cfg", Name: sc.Name})
	var tickDone chan struct{}
	for i, st := range sc.Steps {
		who, what := fmt.Sprint(st[0]), fmt.Sprint(st[1])
		x := fmt.Sprint(st[2])
		if f, ok := st[2].(float64); ok {
			x = strconv.Itoa(int(f))
		}
		ln := line{Ev: "step", Name: sc.Name, I: i + 1, Who: who, What: what, X: x}
		switch what {
		case "pub":
			if err := srv.Publish("t", []byte("m"+x), true, 0); err != nil {
				ln.Note = "api: " + err.Error()
			}
			ln.Got = x
		case "age":
			if srv.VerifAgeRetained("t", 100) {
				ln.Got = x
			} else {
				ln.Got = "0"
			}
		case "tick":
			tickDone = make(chan struct{})
			go func(d chan struct{}) { defer close(d); srv.VerifTick("retained", time.Now().Unix()) }(tickDone)
			select {
			case <-arr:
				ln.Got = "retained.expiring"
			case <-tickDone:
				ln.Got = "returned"
			case <-time.After(wait):
				ln.Got = "timeout"
			}
		case "finish":
			select {
			case rel <- struct{}{}:
			case <-time.After(wait):
				ln.Got = "not-parked"
			}
			if ln.Got == "" {
				select {
				case <-tickDone:
					ln.Got = "returned"
				case <-arr: // a second expired message cannot exist with one topic
					ln.Got = "retained.expiring"
				case <-time.After(wait):
					ln.Got = "timeout"
				}
			}
		case "sub":
			got := make(chan int, 4)
			_ = srv.Subscribe("t", 7, func(cl *mqtt.Client, sub packets.Subscription, pk packets.Packet) { got <- idOf(pk.Payload) })
			select {
			case v := <-got:
				ln.Got = strconv.Itoa(v)
			case <-time.After(20 * time.Millisecond):
				ln.Got = "0"
			}
			_ = srv.Unsubscribe("t", 7)
		default:
			ln.Got = "unknown-step"
		}
		ln.Stored = stored()
		out = append(out, ln)
		if ln.Got != x {
			break
		}
	}
	gated.Lock()
	on = false
	gated.Unlock()
	select {
	case rel <- struct{}{}:
	default:
	}
	if tickDone != nil {
		select {
		case <-tickDone:
		case <-time.After(wait):
		}
	}
	out = append(out, line{Ev: "end", Name: sc.Name, Stored: stored()})
	_ = srv.Close()
	return out
}

func main() {
	if len(os.Args) < 4 || os.Args[1] != "run" {
		hx.Die("usage: vretain run <scenarios.json> <out.ndjson>")
	}
	var scs []scenario
	hx.ReadJSON(os.Args[2], &scs)
	w := hx.NewND(os.Args[3])
	for _, sc := range scs {
		for _, l := range one(sc) {
			w.Put(l)
		}
	}
	w.Close()
}
