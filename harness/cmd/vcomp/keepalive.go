package main

// C37: keep-alive observed in real time.  Schedules (gaps between packets, in quarters of the
// keepalive) and their nominal outcome come from a table written by TLC (spec/GenKeepalive.tla).
// Each schedule is replayed against the real broker over net.Pipe (which supports deadlines):
// CONNECT with keepalive K, then one packet at each scheduled moment; the moments just before and
// just after every write and the moment the broker closed the connection are recorded.  Nothing
// is judged here: TLC (spec/TraceKeepalive.tla) judges the recorded run.

import (
	"fmt"
	"io"
	"log/slog"
	"math"
	"net"
	"strings"
	"sync"
	"sync/atomic"
	"time"

	mqtt "github.com/mochi-mqtt/server/v2"
	"github.com/mochi-mqtt/server/v2/hooks/auth"

	"verifharness/hx"
	"verifharness/refcodec"
)

type kaRow struct {
	Plan   []int `json:"plan"`
	Sent   []int `json:"sent"`
	Closed bool  `json:"closed"`
	At     int   `json:"at"`
}

type kaRun struct {
	ID      string   `json:"id"`
	K       int      `json:"k"`
	Q       int      `json:"q"`
	Plan    []int    `json:"plan"`
	Variant string   `json:"variant"`
	Sends   [][3]any `json:"sends"`
	Closed  bool     `json:"closed"`
	At      int      `json:"at"`
	Nominal kaRow    `json:"nominal"`
}

func kaID(k int, plan []int, variant string) string {
	s := make([]string, len(plan))
	for i, g := range plan {
		s[i] = fmt.Sprint(g)
	}
	return fmt.Sprintf("%s:K%d:[%s]", variant, k, strings.Join(s, ","))
}

func newQuietServer() *mqtt.Server {
	srv := mqtt.New(&mqtt.Options{InlineClient: true, Logger: slog.New(slog.NewTextHandler(io.Discard, nil))})
	if err := srv.AddHook(new(auth.AllowHook), nil); err != nil {
		hx.Die("add hook: %v", err)
	}
	return srv
}

// vcomp keepalive <table K>0> <table K=0> <out.ndjson> <variant> [only these ids...]
func keepaliveMain(a []string) {
	if len(a) < 4 {
		hx.Die("usage: vcomp keepalive <tableK.json> <table0.json> <out.ndjson> <v4ping|v5ping|v4pub> [ids]")
	}
	var rowsK, rows0 []kaRow
	hx.ReadJSON(a[0], &rowsK)
	hx.ReadJSON(a[1], &rows0)
	variant := a[3]
	only := map[string]bool{}
	for _, id := range a[4:] {
		only[id] = true
	}
	srv := newQuietServer()
	var runs []*kaRun
	for _, k := range []int{0, 1, 2, 3} {
		rows, q := rowsK, 250*k
		if k == 0 {
			rows, q = rows0, 250
		}
		if variant == "v4long0" { // keepalive 0 observed for tens of seconds (packets 5-7 s apart): it never times out
			if k != 0 {
				continue
			}
			q = 1000
		}
		for _, r := range rows {
			run := &kaRun{ID: kaID(k, r.Plan, variant), K: k, Q: q, Plan: r.Plan, Variant: variant, Nominal: r}
			if run.Plan == nil {
				run.Plan = []int{}
			}
			if len(only) == 0 || only[run.ID] {
				runs = append(runs, run)
			}
		}
	}
	var wg sync.WaitGroup
	for i, run := range runs {
		wg.Add(1)
		go func(i int, run *kaRun) {
			defer wg.Done()
			time.Sleep(time.Duration(i) * 3 * time.Millisecond) // do not start all at the same instant
			kaOne(srv, run, i)
		}(i, run)
	}
	wg.Wait()
	_ = srv.Close()
	w := hx.NewND(a[2])
	for _, r := range runs {
		w.Put(r)
	}
	w.Close()
}

func kaOne(srv *mqtt.Server, run *kaRun, n int) {
	version := byte(4)
	if run.Variant == "v5ping" {
		version = 5
	}
	stopTraffic := make(chan struct{})
	defer close(stopTraffic)
	cli, brk := net.Pipe()
	go func() { _ = srv.EstablishConnection("t", brk) }()
	var closedAt atomic.Int64 // unix nanos at which the harness saw the connection closed (0 = open)
	go func() {
		buf := make([]byte, 4096)
		for {
			if _, err := cli.Read(buf); err != nil {
				closedAt.Store(time.Now().UnixNano())
				return
			}
		}
	}()
	con := refcodec.New(refcodec.Connect, version)
	con.KeepAlive = uint16(run.K)
	con.ClientID = fmt.Sprintf("ka-%s-%d", run.Variant, n)
	con.ConnectFlags = refcodec.FlagCleanStart
	if version == 5 {
		con.HasProps = true
	}
	var ping []byte
	if run.Variant == "v4pub" {
		p := refcodec.New(refcodec.Publish, version)
		p.Topic, p.Payload = "k/a", []byte("x")
		ping = refcodec.Encode(p)
	} else {
		ping = refcodec.Encode(refcodec.New(refcodec.Pingreq, version))
	}
	var zero time.Time
	ms := func(t time.Time, up bool) int {
		d := float64(t.Sub(zero)) / float64(time.Millisecond)
		if up {
			return int(math.Ceil(d))
		}
		return int(math.Floor(d))
	}
	write := func(b []byte) (time.Time, time.Time, bool) {
		_ = cli.SetWriteDeadline(time.Now().Add(3 * time.Second))
		t1 := time.Now()
		_, err := cli.Write(b)
		return t1, time.Now(), err == nil
	}
	b0, a0, ok := write(refcodec.Encode(con))
	if run.Variant == "v4sub" && ok {
		// variant "the broker keeps sending to a client that has gone silent": the client subscribes right after its
		// CONNECT (counted as the same moment) and messages for it are published at short intervals for the whole
		// observation; packets the broker SENDS must not count as packets that ARRIVED
		sp := refcodec.New(refcodec.Subscribe, version)
		sp.PacketID = 1
		sp.Filters = []refcodec.Filter{{Filter: "ka/" + con.ClientID, Options: 0}}
		_, a0, ok = write(refcodec.Encode(sp))
		topic := "ka/" + con.ClientID
		gap := time.Duration(run.Q) * time.Millisecond / 2
		if gap <= 0 {
			gap = 100 * time.Millisecond
		}
		go func() {
			t := time.NewTicker(gap)
			defer t.Stop()
			for {
				select {
				case <-stopTraffic:
					return
				case <-t.C:
					_ = srv.Publish(topic, []byte("x"), false, 0)
				}
			}
		}()
	}
	zero = a0 // schedule times are relative to the completed CONNECT
	run.Sends = append(run.Sends, [3]any{ms(b0, false), 0, ok})
	q := time.Duration(run.Q) * time.Millisecond
	at := 0
	alive := ok
	for _, g := range run.Plan {
		if !alive {
			break
		}
		at += g
		time.Sleep(time.Until(zero.Add(time.Duration(at) * q)))
		if closedAt.Load() != 0 {
			break // already closed: nothing more can arrive
		}
		b, a, ok := write(ping)
		run.Sends = append(run.Sends, [3]any{ms(b, false), ms(a, true), ok})
		alive = ok
	}
	// watch until the broker closes, at most until the nominal end of the observation (still-open
	// outcome) or 3 s past the nominal close (closed outcome)
	end := zero.Add(time.Duration(run.Nominal.At) * q)
	if run.Nominal.Closed {
		end = end.Add(3 * time.Second)
	}
	if !alive { // a write failed: the connection is gone, wait for the reader to notice
		end = time.Now().Add(time.Second)
	}
	for closedAt.Load() == 0 && time.Now().Before(end) {
		time.Sleep(2 * time.Millisecond)
	}
	if c := closedAt.Load(); c != 0 {
		run.Closed, run.At = true, ms(time.Unix(0, c), true)
	} else {
		run.Closed, run.At = false, ms(time.Now(), false)
	}
	_ = cli.Close()
}
