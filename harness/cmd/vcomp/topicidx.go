package main

// C31: the real TopicsIndex, (B) replaying sequential histories enumerated by TLC and (C) running
// random batches of mutators on several goroutines with invoke / return stamps for TLC's
// linearizability search.  No oracle here: expected values come from the TLC table (B) or the
// recorded batch is judged by TLC (C).

import (
	"fmt"
	"sort"
	"strconv"
	"strings"
	"sync"
	"sync/atomic"

	mqtt "github.com/mochi-mqtt/server/v2"
	"github.com/mochi-mqtt/server/v2/packets"

	"verifharness/hx"
)

type tiOp struct {
	G   int      `json:"g,omitempty"`
	K   int      `json:"k,omitempty"`
	Inv int64    `json:"inv,omitempty"`
	Ret int64    `json:"ret,omitempty"`
	Op  string   `json:"op"`
	Who string   `json:"who"`
	X   []string `json:"x"`
	P   string   `json:"p"`
	R   int      `json:"r"`
	D   string   `json:"d,omitempty"` // (table rows) name of the modelled deviation applicable to this call, if any
}

type tiSubsQ struct {
	T  []string `json:"t"`
	Cl [][2]any `json:"cl"` // [client, filter levels]
	Il []string `json:"il"`
}

type tiMsgsQ struct {
	F   []string `json:"f"`
	Got []string `json:"got"`
}

type tiBatch struct {
	Batch int       `json:"batch,omitempty"`
	Ops   []tiOp    `json:"ops"`
	Subs  []tiSubsQ `json:"subs"`
	Msgs  []tiMsgsQ `json:"msgs"`
}

func inlineID(who string) int {
	n, err := strconv.Atoi(strings.TrimPrefix(who, "i"))
	if err != nil {
		hx.Die("bad inline id %q", who)
	}
	return n
}

func b2i(b bool) int {
	if b {
		return 1
	}
	return 0
}

// tiCall performs one abstract operation on the real index and returns the value it returned.
// Every client subscription carries an identifier, so that the merged result of Subscribers names
// the (client, filter) pairs that were gathered.
func tiCall(x *mqtt.TopicsIndex, o *tiOp) int {
	s := hx.Join(o.X)
	switch o.Op {
	case "sub":
		return b2i(x.Subscribe(o.Who, packets.Subscription{Filter: s, Qos: 1, Identifier: 1 + len(s)}))
	case "unsub":
		return b2i(x.Unsubscribe(s, o.Who))
	case "isub":
		return b2i(x.InlineSubscribe(mqtt.InlineSubscription{
			Subscription: packets.Subscription{Filter: s, Identifier: inlineID(o.Who)},
			Handler:      func(*mqtt.Client, packets.Subscription, packets.Packet) {},
		}))
	case "iunsub":
		return b2i(x.InlineUnsubscribe(inlineID(o.Who), s))
	case "retain":
		return int(x.RetainMessage(packets.Packet{FixedHeader: packets.FixedHeader{Type: packets.Publish, Retain: true}, TopicName: s, Payload: []byte(o.P)}))
	case "clear":
		return int(x.RetainMessage(packets.Packet{FixedHeader: packets.FixedHeader{Type: packets.Publish, Retain: true}, TopicName: s}))
	}
	hx.Die("unknown op %q", o.Op)
	return 0
}

func tiQuerySubs(x *mqtt.TopicsIndex, t []string) tiSubsQ {
	q := tiSubsQ{T: t, Cl: [][2]any{}, Il: []string{}}
	r := x.Subscribers(hx.Join(t))
	for client, sub := range r.Subscriptions {
		if sub.Identifiers == nil {
			q.Cl = append(q.Cl, [2]any{client, strings.Split(sub.Filter, "/")})
			continue
		}
		for f := range sub.Identifiers {
			q.Cl = append(q.Cl, [2]any{client, strings.Split(f, "/")})
		}
	}
	sort.Slice(q.Cl, func(i, j int) bool { return fmt.Sprint(q.Cl[i]) < fmt.Sprint(q.Cl[j]) })
	for id := range r.InlineSubscriptions {
		q.Il = append(q.Il, "i"+strconv.Itoa(id))
	}
	sort.Strings(q.Il)
	return q
}

func tiQueryMsgs(x *mqtt.TopicsIndex, f []string) tiMsgsQ {
	q := tiMsgsQ{F: f, Got: []string{}}
	for _, pk := range x.Messages(hx.Join(f)) {
		q.Got = append(q.Got, string(pk.Payload))
	}
	sort.Strings(q.Got)
	return q
}

func sameStrings(a, b []string) bool {
	a, b = append([]string{}, a...), append([]string{}, b...)
	sort.Strings(a)
	sort.Strings(b)
	return fmt.Sprint(a) == fmt.Sprint(b)
}

func clKeys(c [][2]any) []string {
	var out []string
	for _, p := range c {
		out = append(out, fmt.Sprint(p[0], " ", p[1]))
	}
	return out
}

// vcomp topics-seq <table.json> <out.json>: replay every TLC row on a fresh index.
func topicsSeq(a []string) {
	var rows []tiBatch
	hx.ReadJSON(a[0], &rows)
	res := &hx.Result{Extra: map[string]any{}}
	distinct := 0
	// every mismatch is counted under a class; the first (shortest-history) example of each class is kept
	classes := map[string]map[string]any{}
	class := func(name string, m map[string]any) {
		c := classes[name]
		if c == nil {
			c = map[string]any{"n": 0, "first": m}
			classes[name] = c
		}
		c["n"] = c["n"].(int) + 1
		if len(m["history"].([]string)) < len(c["first"].(map[string]any)["history"].([]string)) {
			c["first"] = m
		}
	}
	for _, row := range rows {
		x := mqtt.NewTopicsIndex()
		var hist []string
		for i := range row.Ops {
			o := row.Ops[i]
			hist = append(hist, fmt.Sprintf("%s(%s,%s,%s)", o.Op, o.Who, hx.Join(o.X), o.P))
			got := tiCall(x, &o)
			res.Evaluations++
			if got != o.R {
				m := map[string]any{"case": "return", "history": hist, "step": i + 1, "op": o.Op, "who": o.Who,
					"x": hx.Join(o.X), "expected": o.R, "got": got, "deviation": o.D}
				class(fmt.Sprintf("return %s expected=%d got=%d deviation=%s", o.Op, o.R, got, o.D), m)
				res.Mismatch(m)
			}
		}
		if len(row.Ops) > 1 {
			distinct++
		}
		for _, q := range row.Subs {
			g := tiQuerySubs(x, q.T)
			res.Evaluations++
			if !sameStrings(clKeys(g.Cl), clKeys(q.Cl)) || !sameStrings(g.Il, q.Il) {
				m := map[string]any{"case": "subscribers", "history": hist, "topic": hx.Join(q.T),
					"expected": map[string]any{"clients": clKeys(q.Cl), "inline": q.Il}, "got": map[string]any{"clients": clKeys(g.Cl), "inline": g.Il}}
				class("subscribers", m)
				res.Mismatch(m)
			}
		}
		for _, q := range row.Msgs {
			g := tiQueryMsgs(x, q.F)
			res.Evaluations++
			if !sameStrings(g.Got, q.Got) {
				m := map[string]any{"case": "messages", "history": hist, "filter": hx.Join(q.F), "expected": q.Got, "got": g.Got}
				class("messages", m)
				res.Mismatch(m)
			}
		}
		if len(row.Ops) == 3 {
			res.Sample(map[string]any{"history": hist, "expected_returns": retsOf(row.Ops)})
		}
	}
	res.Distinct = distinct
	res.Extra["rows"] = len(rows)
	res.Extra["classes"] = classes
	hx.WriteJSON(a[1], res)
}

func retsOf(ops []tiOp) []int {
	var r []int
	for _, o := range ops {
		r = append(r, o.R)
	}
	return r
}

var (
	tiFilters = [][]string{{"a"}, {"a", "b"}, {"a", "b", "c"}, {"a", "+"}}
	tiTopics  = [][]string{{"a"}, {"a", "b"}, {"a", "b", "c"}}
	tiQTopics = [][]string{{"a"}, {"a", "b"}, {"a", "b", "c"}, {"a", "x"}}
	tiQFilter = [][]string{{"a"}, {"a", "b"}, {"a", "b", "c"}, {"a", "+"}, {"a", "#"}, {"#"}, {"a", "b", "+"}, {"+", "b"}}
)

// vcomp topics-conc <out.ndjson> <batches> <goroutines> <ops per goroutine>
func topicsConc(a []string) {
	out, nb, gor, per := a[0], atoi(a[1]), atoi(a[2]), atoi(a[3])
	w := hx.NewND(out)
	rng := hx.Rand(31)
	overlaps, total, batchesWithOverlap := 0, 0, 0
	for b := 1; b <= nb; b++ {
		progs := make([][]tiOp, gor)
		for g := 0; g < gor; g++ {
			for k := 0; k < per; k++ {
				o := tiOp{G: g + 1, K: k + 1}
				switch c := rng.Intn(12); {
				case c < 3:
					o.Op, o.Who, o.X = "sub", fmt.Sprintf("c%d", 1+rng.Intn(3)), tiFilters[rng.Intn(4)]
				case c < 6:
					o.Op, o.Who, o.X = "unsub", fmt.Sprintf("c%d", 1+rng.Intn(3)), tiFilters[rng.Intn(4)]
				case c < 7:
					o.Op, o.Who, o.X = "isub", fmt.Sprintf("i%d", 1+rng.Intn(2)), tiFilters[rng.Intn(4)]
				case c < 8:
					o.Op, o.Who, o.X = "iunsub", fmt.Sprintf("i%d", 1+rng.Intn(2)), tiFilters[rng.Intn(4)]
				case c < 10:
					o.Op, o.X, o.P = "retain", tiTopics[rng.Intn(3)], fmt.Sprintf("m%d.%d", g+1, k+1)
				default:
					o.Op, o.X = "clear", tiTopics[rng.Intn(3)]
				}
				progs[g] = append(progs[g], o)
			}
		}
		x := mqtt.NewTopicsIndex()
		var ctr int64
		var wg sync.WaitGroup
		var ready int32 // spin barrier: all goroutines start their first call together
		for g := 0; g < gor; g++ {
			wg.Add(1)
			go func(p []tiOp) {
				defer wg.Done()
				atomic.AddInt32(&ready, 1)
				for atomic.LoadInt32(&ready) < int32(gor) {
				}
				for i := range p {
					p[i].Inv = atomic.AddInt64(&ctr, 1) // before the call
					p[i].R = tiCall(x, &p[i])
					p[i].Ret = atomic.AddInt64(&ctr, 1) // after it returned
				}
			}(progs[g])
		}
		wg.Wait()
		rec := tiBatch{Batch: b}
		for _, p := range progs {
			rec.Ops = append(rec.Ops, p...)
		}
		sort.Slice(rec.Ops, func(i, j int) bool { return rec.Ops[i].Inv < rec.Ops[j].Inv })
		before := overlaps
		for i := range rec.Ops {
			for j := i + 1; j < len(rec.Ops); j++ {
				total++
				if rec.Ops[j].Inv < rec.Ops[i].Ret { // neither precedes the other in real time
					overlaps++
				}
			}
		}
		if overlaps > before {
			batchesWithOverlap++
		}
		for _, t := range tiQTopics {
			rec.Subs = append(rec.Subs, tiQuerySubs(x, t))
		}
		for _, f := range tiQFilter {
			rec.Msgs = append(rec.Msgs, tiQueryMsgs(x, f))
		}
		w.Put(rec)
	}
	w.Close()
	fmt.Printf("{\"batches\":%d,\"overlapping_pairs\":%d,\"pairs\":%d,\"batches_with_overlap\":%d}\n", nb, overlaps, total, batchesWithOverlap)
}
