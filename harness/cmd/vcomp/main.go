// Command vcomp drives four self-contained components of the broker and records what they did,
// for TLC to judge (it contains no oracle: expected answers come from TLC tables, or TLC validates
// the recorded trace against the component's TLA+ model):
//
//	vcomp bufpool  ...   C41  mempool buffer pool under concurrent get/write/put   (spec/BufPool.tla)
//	vcomp topics-* ...   C31  TopicsIndex under concurrent mutators                 (spec/TopicIndexConc.tla)
//	vcomp keepalive ...  C37  keepalive timeout observed in real time               (spec/Keepalive.tla)
//	vcomp ws-* ...       C39  WebSocket listener byte transparency                  (spec/WsStream.tla)
package main

import (
	"os"
	"strconv"

	"verifharness/hx"
)

func main() {
	if len(os.Args) < 2 {
		hx.Die("usage: vcomp <mode> ...")
	}
	a := os.Args[2:]
	switch os.Args[1] {
	case "bufpool":
		bufpoolMain(a)
	case "brokerpool":
		brokerpoolMain(a)
	case "keepalive":
		keepaliveMain(a)
	case "ws-reader":
		wsReaderMain(a)
	case "ws-broker":
		wsBrokerMain(a)
	case "topics-seq":
		topicsSeq(a)
	case "topics-conc":
		topicsConc(a)
	default:
		hx.Die("unknown mode %s", os.Args[1])
	}
}

func atoi(s string) int {
	v, err := strconv.Atoi(s)
	if err != nil {
		hx.Die("not a number: %q", s)
	}
	return v
}
