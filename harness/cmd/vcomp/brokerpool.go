//go:build verif

package main

// C41, use (D): the BROKER as a user of the default packet buffer pool.
//
// The hook mempool.VerifPool (build tag verif) reports every GetBuffer (after the hand-out) and every
// PutBuffer (before the buffer goes back) on the default pool.  Each hand-out is a new holder; a Put names
// the holder that obtained that buffer (0 when nobody holds it: a second Put, or a Put of a buffer that
// never came from the pool).  The log has the format of `vcomp bufpool` and is judged by the same TLC
// trace specification (spec/TraceBufPool.tla, cap 0).
//
// Scenario (real broker, public API): subscriber A on a connection whose Write can be made to block and
// then to fail; while the write loop of A is blocked in its first write, more messages are queued for A,
// so that the following ones are coalesced in A's output buffer; then every write fails (failed flush,
// and the write loop's second flush attempt).  A healthy subscriber B keeps receiving and its packets
// are compared byte for byte; at the end the harness itself takes 64 buffers from the pool (each must be
// empty and unheld), which also surfaces a buffer that was returned while somebody still writes to it.

import (
	"bytes"
	"fmt"
	"io"
	"net"
	"path/filepath"
	"sync"
	"time"
	"unsafe"

	mqtt "github.com/mochi-mqtt/server/v2"
	"github.com/mochi-mqtt/server/v2/hooks/auth"
	"github.com/mochi-mqtt/server/v2/mempool"
	"github.com/mochi-mqtt/server/v2/packets"

	"verifharness/hx"
)

type modeConn struct {
	net.Conn
	mu      sync.Mutex
	cond    *sync.Cond
	mode    int // 0 pass, 1 block, 2 fail
	blocked int
}

func (c *modeConn) Write(b []byte) (int, error) {
	c.mu.Lock()
	for c.mode == 1 {
		c.blocked++
		c.cond.Wait()
		c.blocked--
	}
	m := c.mode
	c.mu.Unlock()
	if m == 2 {
		return 0, io.ErrClosedPipe
	}
	return c.Conn.Write(b)
}

func (c *modeConn) set(m int) {
	c.mu.Lock()
	c.mode = m
	c.cond.Broadcast()
	c.mu.Unlock()
}

func (c *modeConn) isBlocked() bool {
	c.mu.Lock()
	defer c.mu.Unlock()
	return c.blocked > 0
}

type bpRec struct {
	mu     sync.Mutex
	ev     []bpEvent
	holder map[*bytes.Buffer]int
	next   int
}

func (r *bpRec) hook(op string, x *bytes.Buffer) {
	r.mu.Lock()
	defer r.mu.Unlock()
	e := bpEvent{Seq: int64(len(r.ev)), Ptr: uintptr(unsafe.Pointer(x)), Len: x.Len(), Cap: x.Cap(), Ok: true}
	if op == "get" {
		r.next++
		e.Acq, e.G = true, r.next
		if _, dup := r.holder[x]; !dup { // a double hand-out keeps the first holder: its Put is the legitimate one
			r.holder[x] = r.next
		}
	} else {
		e.G = r.holder[x] // 0: nobody holds it
		delete(r.holder, x)
	}
	r.ev = append(r.ev, e)
}

func bpConnect(s *mqtt.Server, id string) (*modeConn, net.Conn, chan []byte) {
	a, b := net.Pipe()
	mc := &modeConn{Conn: a}
	mc.cond = sync.NewCond(&mc.mu)
	go func() { _ = s.EstablishConnection("t", mc) }()
	wire := make(chan []byte, 256)
	go func() {
		for {
			buf := make([]byte, 4096)
			n, err := b.Read(buf)
			if n > 0 {
				wire <- buf[:n]
			}
			if err != nil {
				close(wire)
				return
			}
		}
	}()
	con := append([]byte{0x10, byte(12 + len(id)), 0, 4, 'M', 'Q', 'T', 'T', 4, 2, 0, 60, 0, byte(len(id))}, id...)
	_, _ = b.Write(con)
	<-wire
	sub := []byte{0x82, 8, 0, 1, 0, 3, 't', '/', '#', 0}
	_, _ = b.Write(sub)
	<-wire
	return mc, b, wire
}

func bpCollect(wire chan []byte, n int, d time.Duration) []byte {
	var out []byte
	t := time.After(d)
	for len(out) < n {
		select {
		case x, ok := <-wire:
			if !ok {
				return out
			}
			out = append(out, x...)
		case <-t:
			return out
		}
	}
	return out
}

// vcomp brokerpool <outdir> <rounds>
func brokerpoolMain(a []string) {
	if len(a) < 2 {
		hx.Die("usage: vcomp brokerpool <outdir> <rounds>")
	}
	outdir, rounds := a[0], atoi(a[1])
	rec := &bpRec{holder: map[*bytes.Buffer]int{}}
	mempool.VerifPool = rec.hook
	garbled, failedFlush := 0, 0
	for round := 0; round < rounds; round++ {
		s := mqtt.New(&mqtt.Options{InlineClient: true})
		_ = s.AddHook(new(auth.AllowHook), nil)
		mcA, endA, _ := bpConnect(s, fmt.Sprintf("a%d", round))
		_, endB, wireB := bpConnect(s, fmt.Sprintf("b%d", round))
		msg := func(i int) []byte { return []byte(fmt.Sprintf("payload-%02d-%02d-abcdefghijklmnopqrstuvwxyz", round, i)) }
		want := func(i int) []byte {
			pk := packets.Packet{FixedHeader: packets.FixedHeader{Type: packets.Publish}, TopicName: "t/x", Payload: msg(i), ProtocolVersion: 4}
			var bb bytes.Buffer
			_ = pk.PublishEncode(&bb)
			return bb.Bytes()
		}
		var expectB []byte
		pub := func(i int) {
			_ = s.Publish("t/x", msg(i), false, 0)
			expectB = append(expectB, want(i)...)
		}
		mcA.set(1)
		pub(0)
		for k := 0; k < 400 && !mcA.isBlocked(); k++ {
			time.Sleep(time.Millisecond)
		}
		blockedOK := mcA.isBlocked()
		for i := 1; i <= 4+round%3; i++ { // queued behind the blocked write: coalesced in A's output buffer
			pub(i)
		}
		time.Sleep(5 * time.Millisecond)
		mcA.set(2) // from now on every write to A fails: failed flush, then the write loop's second attempt
		time.Sleep(20 * time.Millisecond)
		if blockedOK {
			failedFlush++
		}
		for i := 10; i < 14; i++ { // more traffic: to A (appends to whatever A still holds) and to B
			pub(i)
		}
		time.Sleep(10 * time.Millisecond)
		var taken []*bytes.Buffer
		for i := 0; i < 64; i++ { // the harness as one more user of the pool
			taken = append(taken, mempool.GetBuffer())
		}
		for i := 20; i < 24; i++ {
			pub(i)
		}
		got := bpCollect(wireB, len(expectB), 2*time.Second)
		if !bytes.Equal(got, expectB) {
			garbled++
		}
		for _, b := range taken {
			mempool.PutBuffer(b)
		}
		_ = endA.Close()
		_ = endB.Close()
		_ = s.Close()
	}
	mempool.VerifPool = nil
	rec.mu.Lock()
	ev := rec.ev
	rec.mu.Unlock()
	ids := map[uintptr]int{}
	for _, e := range ev {
		if _, ok := ids[e.Ptr]; !ok {
			ids[e.Ptr] = len(ids) + 1
		}
	}
	fn := filepath.Join(outdir, "broker_cap0.ndjson")
	w := hx.NewND(fn)
	for _, e := range ev {
		l := bpLine{E: "rel", G: e.G, B: ids[e.Ptr], Len: e.Len, Cap: e.Cap}
		if e.Acq {
			l.E = "acq"
		} else {
			ok := e.Ok
			l.Ok = &ok
		}
		w.Put(l)
	}
	w.Close()
	hx.WriteJSON(filepath.Join(outdir, "broker_index.json"), map[string]any{
		"cap": 0, "goroutines": 0, "broker": true, "ops": rounds, "events": len(ev), "buffers": len(ids),
		"files": []string{fn}, "garbled_rounds": garbled, "failed_flush_rounds": failedFlush,
	})
}
