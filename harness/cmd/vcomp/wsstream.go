package main

// C39: the real WebSocket listener.
//
//	ws-reader: a real listeners.Websocket served by the harness' own establish function, which
//	           reads the connection with a buffer of 1, 2 or 4096 bytes, records every Read result
//	           and echoes the bytes back; the client (gorilla/websocket) sends the frames of a case
//	           (TLC's segmentation table, or random frame sequences with empty / large / text frames).
//	ws-broker: a real mqtt.Server with a WebSocket and a TCP listener; every case is sent over both;
//	           a hook records the packets the broker read, the client records the reply stream.
//
// Nothing is compared here: the records go to TLC (spec/TraceWsStream.tla).

import (
	"bytes"
	"crypto/sha1"
	"encoding/hex"
	"fmt"
	"io"
	"log/slog"
	"math/rand"
	"net"
	"sync"
	"time"

	"github.com/gorilla/websocket"
	mqtt "github.com/mochi-mqtt/server/v2"
	"github.com/mochi-mqtt/server/v2/hooks/auth"
	"github.com/mochi-mqtt/server/v2/listeners"
	"github.com/mochi-mqtt/server/v2/packets"

	"verifharness/hx"
	"verifharness/refcodec"
)

type wsSegRow struct {
	Cuts   []int   `json:"cuts"`
	Frames [][]int `json:"frames"`
	Stream []int   `json:"stream"`
}

type wsFrame struct {
	Text bool
	Data []byte
}

func (f wsFrame) kind() string {
	if f.Text {
		return "text"
	}
	return "bin"
}

func toBytes(a []int) []byte {
	b := make([]byte, len(a))
	for i, v := range a {
		b[i] = byte(v)
	}
	return b
}

func quietLog() *slog.Logger { return slog.New(slog.NewTextHandler(io.Discard, nil)) }

// freeAddr returns a loopback address whose port was free a moment ago.
func freeAddr() string {
	l, err := net.Listen("tcp", "127.0.0.1:0")
	if err != nil {
		hx.Die("no free port: %v", err)
	}
	a := l.Addr().String()
	l.Close()
	return a
}

func waitPort(addr string) bool {
	for i := 0; i < 200; i++ {
		c, err := net.DialTimeout("tcp", addr, 200*time.Millisecond)
		if err == nil {
			c.Close()
			return true
		}
		time.Sleep(10 * time.Millisecond)
	}
	return false
}

func wsDial(addr string) (*websocket.Conn, error) {
	d := websocket.Dialer{Subprotocols: []string{"mqtt"}, HandshakeTimeout: 5 * time.Second}
	c, _, err := d.Dial("ws://"+addr+"/", nil)
	return c, err
}

func frameList(fs []wsFrame, withHex bool) [][]any {
	out := [][]any{}
	for _, f := range fs {
		if withHex {
			out = append(out, []any{f.kind(), len(f.Data), hex.EncodeToString(f.Data)})
		} else {
			out = append(out, []any{f.kind(), len(f.Data)})
		}
	}
	return out
}

func parallelDo(n, workers int, f func(i int)) {
	var wg sync.WaitGroup
	ch := make(chan int)
	for w := 0; w < workers; w++ {
		wg.Add(1)
		go func() {
			defer wg.Done()
			for i := range ch {
				f(i)
			}
		}()
	}
	for i := 0; i < n; i++ {
		ch <- i
	}
	close(ch)
	wg.Wait()
}

// ------------------------------------------------------------------------------------ ws-reader

type readerRec struct {
	reads [][]any
	done  chan struct{}
}

type readerListener struct {
	n    int
	addr string
	ws   *listeners.Websocket
	recs sync.Map // remote address of the client -> *readerRec
}

func (rl *readerListener) rec(remote string) *readerRec {
	v, _ := rl.recs.LoadOrStore(remote, &readerRec{done: make(chan struct{})})
	return v.(*readerRec)
}

// establish is what the listener calls for every upgraded connection (in place of the broker).
func (rl *readerListener) establish(id string, c net.Conn) error {
	r := rl.rec(c.RemoteAddr().String())
	defer close(r.done)
	buf := make([]byte, rl.n)
	for len(r.reads) < 200000 {
		k, err := c.Read(buf)
		es := ""
		if err != nil {
			es = err.Error()
			if es == "" {
				es = "error"
			}
		}
		r.reads = append(r.reads, []any{k, hex.EncodeToString(buf[:k]), es})
		if k > 0 {
			if _, werr := c.Write(buf[:k]); werr != nil && err == nil {
				r.reads = append(r.reads, []any{0, "", "write: " + werr.Error()})
				return nil
			}
		}
		if err != nil {
			return nil
		}
	}
	return nil
}

func startReaderListener(n int) *readerListener {
	for try := 0; try < 20; try++ {
		rl := &readerListener{n: n, addr: freeAddr()}
		rl.ws = listeners.NewWebsocket(listeners.Config{Type: "ws", ID: fmt.Sprintf("ws%d", n), Address: rl.addr})
		if err := rl.ws.Init(quietLog()); err != nil {
			continue
		}
		go rl.ws.Serve(rl.establish)
		if waitPort(rl.addr) {
			return rl
		}
	}
	hx.Die("cannot start a websocket listener")
	return nil
}

type wsReaderOut struct {
	Kind   string  `json:"kind"`
	ID     string  `json:"id"`
	N      int     `json:"n"`
	Frames [][]any `json:"frames"`
	Reads  [][]any `json:"reads"`
	Echo   [][]any `json:"echo"`
	Expect *string `json:"expect,omitempty"` // segmentation-table cases: the stream TLC wrote, as hex
	Note   string  `json:"note"`
}

func readerCase(rl *readerListener, id string, frames []wsFrame) wsReaderOut {
	out := wsReaderOut{Kind: "reader", ID: id, N: rl.n, Frames: frameList(frames, true), Reads: [][]any{}, Echo: [][]any{}}
	c, err := wsDial(rl.addr)
	if err != nil {
		out.Note = "harness: dial: " + err.Error()
		return out
	}
	defer c.Close()
	local := c.LocalAddr().String()
	echoDone := make(chan struct{})
	go func() { // everything the server side writes back
		defer close(echoDone)
		for {
			mt, data, err := c.ReadMessage()
			if err != nil {
				return
			}
			k := "bin"
			if mt != websocket.BinaryMessage {
				k = "text"
			}
			out.Echo = append(out.Echo, []any{k, len(data), hex.EncodeToString(data)})
		}
	}()
	for _, f := range frames {
		mt := websocket.BinaryMessage
		if f.Text {
			mt = websocket.TextMessage
		}
		if err := c.WriteMessage(mt, f.Data); err != nil {
			break // the other side has gone (after a text frame)
		}
	}
	_ = c.WriteControl(websocket.CloseMessage, websocket.FormatCloseMessage(websocket.CloseNormalClosure, ""), time.Now().Add(time.Second))
	r := rl.rec(local)
	select {
	case <-r.done:
	case <-time.After(20 * time.Second):
		out.Note = "harness: reader side did not finish"
		return out
	}
	select {
	case <-echoDone:
	case <-time.After(10 * time.Second):
		out.Note = "harness: echo not finished"
	}
	out.Reads = r.reads
	rl.recs.Delete(local)
	return out
}

func randomFrames(rng *rand.Rand, n int) []wsFrame {
	var fs []wsFrame
	cnt := 1 + rng.Intn(10)
	textAt := -1
	if rng.Intn(4) == 0 {
		textAt = rng.Intn(cnt)
	}
	for i := 0; i < cnt; i++ {
		var l int
		switch rng.Intn(8) {
		case 0:
			l = 0
		case 1, 2, 3:
			l = 1 + rng.Intn(8)
		case 4, 5:
			l = 1 + rng.Intn(300)
		default:
			l = 1 + rng.Intn(9000)
		}
		if n < 4096 && l > 120 { // small buffers: one Read (one TLC step) per byte or two
			l = 1 + l%120
		}
		d := make([]byte, l)
		rng.Read(d)
		if i == textAt { // a text frame must be valid UTF-8 for the client library to send it
			for j := range d {
				d[j] = 'a' + d[j]%26
			}
		}
		fs = append(fs, wsFrame{Text: i == textAt, Data: d})
	}
	return fs
}

// vcomp ws-reader <table.json> <out.ndjson> <random cases>
func wsReaderMain(a []string) {
	var rows []wsSegRow
	hx.ReadJSON(a[0], &rows)
	nrand := atoi(a[2])
	type job struct {
		rl     *readerListener
		id     string
		frames []wsFrame
		expect *string
	}
	var jobs []job
	rls := map[int]*readerListener{}
	for _, n := range []int{1, 2, 4096} {
		rls[n] = startReaderListener(n)
	}
	for _, n := range []int{1, 2, 4096} {
		for ri, r := range rows {
			var fs []wsFrame
			for _, f := range r.Frames {
				fs = append(fs, wsFrame{Data: toBytes(f)})
			}
			ex := hex.EncodeToString(toBytes(r.Stream))
			jobs = append(jobs, job{rls[n], fmt.Sprintf("seg%d/n%d", ri, n), fs, &ex})
		}
	}
	rng := hx.Rand(39)
	for i := 0; i < nrand; i++ {
		n := []int{1, 2, 4096}[i%3]
		jobs = append(jobs, job{rls[n], fmt.Sprintf("rand%d/n%d", i, n), randomFrames(rng, n), nil})
	}
	outs := make([]wsReaderOut, len(jobs))
	parallelDo(len(jobs), 12, func(i int) {
		outs[i] = readerCase(jobs[i].rl, jobs[i].id, jobs[i].frames)
		outs[i].Expect = jobs[i].expect
	})
	w := hx.NewND(a[1])
	for _, o := range outs {
		w.Put(o)
	}
	w.Close()
	for _, rl := range rls {
		rl.ws.Close(func(string) {})
	}
}

// ------------------------------------------------------------------------------------ ws-broker

// recHook records, per client object, a digest of every packet the broker read. A run claims the client objects of its
// connection by remote address WHILE the connection is still open (the local port is then certainly its own: ephemeral
// ports are reused quickly when 100 000 cases run in parallel, and a record keyed by address alone was handed to the
// wrong run in 82 of 100 363 cases of the thorough tier) and collects their records after the broker is done with them.
type recHook struct {
	mqtt.HookBase
	mu      sync.Mutex
	seen    map[string][]string // kept for the reader harness (keyed by remote address)
	byCl    map[*mqtt.Client][]string
	claimed map[*mqtt.Client]bool
}

func (h *recHook) ID() string           { return "verif-rec" }
func (h *recHook) Provides(b byte) bool { return b == mqtt.OnPacketRead }
func (h *recHook) OnPacketRead(cl *mqtt.Client, pk packets.Packet) (packets.Packet, error) {
	d := pkDigest(pk)
	h.mu.Lock()
	if h.byCl == nil {
		h.byCl, h.claimed = map[*mqtt.Client][]string{}, map[*mqtt.Client]bool{}
	}
	h.byCl[cl] = append(h.byCl[cl], d)
	h.mu.Unlock()
	return pk, nil
}

// claim returns the not yet claimed client objects of listener lid whose remote address is remote (the same local port can
// be in use for a connection to the TCP listener and one to the WebSocket listener at the same time)
func (h *recHook) claim(remote, lid string) []*mqtt.Client {
	h.mu.Lock()
	defer h.mu.Unlock()
	var out []*mqtt.Client
	for cl := range h.byCl {
		if !h.claimed[cl] && cl.Net.Remote == remote && cl.Net.Listener == lid {
			h.claimed[cl] = true
			out = append(out, cl)
		}
	}
	return out
}

// collect returns (and forgets) the records of the claimed client objects
func (h *recHook) collect(cls []*mqtt.Client) []string {
	h.mu.Lock()
	defer h.mu.Unlock()
	s := []string{}
	for _, cl := range cls {
		s = append(s, h.byCl[cl]...)
		delete(h.byCl, cl)
		delete(h.claimed, cl)
	}
	return s
}
func (h *recHook) take(remote string) []string {
	h.mu.Lock()
	defer h.mu.Unlock()
	s := h.seen[remote]
	delete(h.seen, remote)
	if s == nil {
		s = []string{}
	}
	return s
}

func sha(b []byte) string { s := sha1.Sum(b); return hex.EncodeToString(s[:6]) }

func pkDigest(pk packets.Packet) string {
	s := fmt.Sprintf("%s q%d d%v r%v id%d t=%s len%d %s rc%d", packets.PacketNames[pk.FixedHeader.Type], pk.FixedHeader.Qos,
		pk.FixedHeader.Dup, pk.FixedHeader.Retain, pk.PacketID, pk.TopicName, len(pk.Payload), sha(pk.Payload), pk.ReasonCode)
	for _, f := range pk.Filters {
		s += fmt.Sprintf(" f=%s/%d", f.Filter, f.Qos)
	}
	if pk.FixedHeader.Type == packets.Connect {
		s += fmt.Sprintf(" cid=%s ka%d v%d", pk.Connect.ClientIdentifier, pk.Connect.Keepalive, pk.ProtocolVersion)
	}
	return s
}

// digestStream cuts a reply byte stream into MQTT packets (independent refcodec framing) and
// describes each; trailing bytes that are no complete packet are described as such.
func digestStream(b []byte) []string {
	out := []string{}
	pkts, used, err := refcodec.SplitStream(b)
	for _, p := range pkts {
		out = append(out, fmt.Sprintf("%s len%d %s", refcodec.TypeName(p[0]>>4), len(p), sha(p)))
	}
	if err != nil {
		out = append(out, "unframeable: "+err.Error())
	} else if used < len(b) {
		out = append(out, fmt.Sprintf("partial len%d %s", len(b)-used, sha(b[used:])))
	}
	return out
}

type brokerEnv struct {
	bufsize int
	srv     *mqtt.Server
	hook    *recHook
	wsAddr  string
	tcpAddr string
}

func startBroker(bufsize int) *brokerEnv {
	for try := 0; try < 20; try++ {
		e := &brokerEnv{bufsize: bufsize, hook: &recHook{seen: map[string][]string{}}}
		// no server-side message expiry: a forwarded PUBLISH would carry the seconds remaining, which differ between the two
		// runs of a case when a second boundary falls between them (1 of 100 363 cases of the thorough tier: reply-differs)
		caps := mqtt.NewDefaultServerCapabilities()
		caps.MaximumMessageExpiryInterval = 0
		e.srv = mqtt.New(&mqtt.Options{ClientNetReadBufferSize: bufsize, Capabilities: caps, Logger: quietLog()})
		_ = e.srv.AddHook(new(auth.AllowHook), nil)
		_ = e.srv.AddHook(e.hook, nil)
		e.wsAddr = freeAddr()
		tcp := listeners.NewTCP(listeners.Config{Type: "tcp", ID: "tcp", Address: "127.0.0.1:0"})
		if err := e.srv.AddListener(tcp); err != nil {
			continue
		}
		if err := e.srv.AddListener(listeners.NewWebsocket(listeners.Config{Type: "ws", ID: "ws", Address: e.wsAddr})); err != nil {
			_ = e.srv.Close()
			continue
		}
		go func() { _ = e.srv.Serve() }()
		e.tcpAddr = tcp.Address()
		if waitPort(e.wsAddr) {
			return e
		}
		_ = e.srv.Close()
	}
	hx.Die("cannot start broker with websocket listener")
	return nil
}

// a session script: client bytes in phases; after each phase the client waits until the reply
// stream contains `wait` packets of type `until` in total (a protocol sentinel), then goes on.
type wsPhase struct {
	data  []byte
	until byte
	wait  int
}

type wsBrokerOut struct {
	Kind      string   `json:"kind"`
	ID        string   `json:"id"`
	Case      string   `json:"case"`
	Bufsize   int      `json:"bufsize"`
	Frames    [][]any  `json:"frames"`
	TCPBytes  int      `json:"tcp_bytes"`
	WsPackets []string `json:"ws_packets"`
	TcPackets []string `json:"tcp_packets"`
	WsReply   []string `json:"ws_reply"`
	TcReply   []string `json:"tcp_reply"`
	WsBinary  bool     `json:"ws_binary_only"`
	WsClosed  bool     `json:"ws_closed"`
	Complete  bool     `json:"complete"`
	Note      string   `json:"note"`
}

func countType(b []byte, t byte) int {
	pkts, _, _ := refcodec.SplitStream(b)
	n := 0
	for _, p := range pkts {
		if p[0]>>4 == t {
			n++
		}
	}
	return n
}

// cut cuts data into frames of 1..maxFrame bytes (occasionally an empty frame in between)
func cutFrames(rng *rand.Rand, data []byte, maxFrame int) []wsFrame {
	var fs []wsFrame
	for len(data) > 0 {
		if rng.Intn(40) == 0 {
			fs = append(fs, wsFrame{Data: []byte{}})
		}
		l := 1 + rng.Intn(maxFrame)
		if l > len(data) {
			l = len(data)
		}
		fs = append(fs, wsFrame{Data: data[:l]})
		data = data[l:]
	}
	return fs
}

const wsWait = 20 * time.Second

// runWS plays the phases over the websocket listener; frames[i] are the frames of phase i.
func runWS(e *brokerEnv, phases []wsPhase, frames [][]wsFrame, expectClose bool) (reply []byte, binaryOnly, closed, complete bool, pkts []string, note string) {
	c, err := wsDial(e.wsAddr)
	if err != nil {
		return nil, true, false, false, []string{}, "harness: dial: " + err.Error()
	}
	local := c.LocalAddr().String()
	var mu sync.Mutex
	binaryOnly = true
	gone := make(chan struct{})
	go func() {
		defer close(gone)
		for {
			mt, data, err := c.ReadMessage()
			if err != nil {
				return
			}
			mu.Lock()
			if mt != websocket.BinaryMessage {
				binaryOnly = false
			}
			reply = append(reply, data...)
			mu.Unlock()
		}
	}()
	complete = true
	for i, ph := range phases {
		for _, f := range frames[i] {
			mt := websocket.BinaryMessage
			if f.Text {
				mt = websocket.TextMessage
			}
			if err := c.WriteMessage(mt, f.Data); err != nil {
				break
			}
		}
		if ph.wait > 0 && !waitFor(&mu, &reply, ph.until, ph.wait, gone) {
			complete = false
			break
		}
	}
	if expectClose {
		select {
		case <-gone:
			closed = true
		case <-time.After(wsWait):
		}
	} else {
		select {
		case <-gone:
			closed = true
		default:
		}
	}
	mine := e.hook.claim(local, "ws")
	c.Close()
	<-gone
	time.Sleep(2 * time.Millisecond)
	if len(mine) == 0 { // the broker had not read anything when the connection was closed: whatever it reads now is still ours
		mine = e.hook.claim(local, "ws")
	}
	mu.Lock()
	defer mu.Unlock()
	return reply, binaryOnly, closed, complete, e.hook.collect(mine), ""
}

// waitForgotten blocks until the broker no longer knows client id cid (clean sessions are deleted by
// the connection's teardown), so that the next connection with that id is not a takeover.
func waitForgotten(e *brokerEnv, cid string) {
	if cid == "" {
		return
	}
	deadline := time.Now().Add(30 * time.Second)
	for time.Now().Before(deadline) {
		if _, ok := e.srv.Clients.Get(cid); !ok {
			return
		}
		time.Sleep(time.Millisecond)
	}
}

func waitFor(mu *sync.Mutex, reply *[]byte, t byte, n int, gone chan struct{}) bool {
	deadline := time.Now().Add(wsWait)
	for time.Now().Before(deadline) {
		mu.Lock()
		k := countType(*reply, t)
		mu.Unlock()
		if k >= n {
			return true
		}
		select {
		case <-gone:
			mu.Lock()
			k = countType(*reply, t)
			mu.Unlock()
			return k >= n
		case <-time.After(time.Millisecond):
		}
	}
	return false
}

func runTCP(e *brokerEnv, phases []wsPhase) (reply []byte, complete bool, pkts []string, sent int, note string) {
	c, err := net.Dial("tcp", e.tcpAddr)
	if err != nil {
		return nil, false, []string{}, 0, "harness: dial tcp: " + err.Error()
	}
	local := c.LocalAddr().String()
	var mu sync.Mutex
	gone := make(chan struct{})
	go func() {
		defer close(gone)
		buf := make([]byte, 65536)
		for {
			n, err := c.Read(buf)
			mu.Lock()
			reply = append(reply, buf[:n]...)
			mu.Unlock()
			if err != nil {
				return
			}
		}
	}()
	complete = true
	for _, ph := range phases {
		if _, err := c.Write(ph.data); err != nil {
			break
		}
		sent += len(ph.data)
		if ph.wait > 0 && !waitFor(&mu, &reply, ph.until, ph.wait, gone) {
			complete = false
			break
		}
	}
	mine := e.hook.claim(local, "tcp")
	c.Close()
	<-gone
	time.Sleep(2 * time.Millisecond)
	if len(mine) == 0 {
		mine = e.hook.claim(local, "tcp")
	}
	mu.Lock()
	defer mu.Unlock()
	return reply, complete, e.hook.collect(mine), sent, ""
}

// a random session: phase A = packets answered directly (in order) closed by PINGREQ/PINGRESP,
// phase B = QoS 0 publishes to a subscribed topic (deliveries come back in order), phase C = PINGREQ.
func randomSession(rng *rand.Rand, i int) []wsPhase {
	version := byte(4 + rng.Intn(2))
	enc := func(p *refcodec.Packet) []byte { return refcodec.Encode(p) }
	var a bytes.Buffer
	con := refcodec.New(refcodec.Connect, version)
	con.ClientID, con.KeepAlive, con.ConnectFlags = fmt.Sprintf("sess%d", i), 60, refcodec.FlagCleanStart
	if version == 5 {
		con.HasProps = true
	}
	a.Write(enc(con))
	sub := refcodec.New(refcodec.Subscribe, version)
	sub.PacketID = 1
	sub.Filters = []refcodec.Filter{{Filter: fmt.Sprintf("s%d/#", i), Options: 0}, {Filter: fmt.Sprintf("t%d/+", i), Options: 1}} // topics private to this session
	if version == 5 {
		sub.HasProps = true
	}
	a.Write(enc(sub))
	pid := uint16(10)
	payload := func() []byte {
		var l int
		switch rng.Intn(4) {
		case 0:
			l = rng.Intn(20)
		case 1:
			l = rng.Intn(300)
		default:
			l = rng.Intn(5001)
		}
		b := make([]byte, l)
		rng.Read(b)
		return b
	}
	for k := rng.Intn(5); k > 0; k-- { // acknowledged publishes to a topic nobody subscribed
		p := refcodec.New(refcodec.Publish, version)
		p.Topic, p.Payload, p.Qos = "n/x", payload(), byte(1+rng.Intn(2))
		pid++
		p.PacketID = pid
		if version == 5 {
			p.HasProps = true
		}
		a.Write(enc(p))
		if p.Qos == 2 {
			r := refcodec.New(refcodec.Pubrel, version)
			r.PacketID = pid
			a.Write(enc(r))
		}
	}
	a.Write(enc(refcodec.New(refcodec.Pingreq, version)))
	var b bytes.Buffer
	nb := 1 + rng.Intn(5)
	for k := 0; k < nb; k++ {
		p := refcodec.New(refcodec.Publish, version)
		p.Topic, p.Payload = fmt.Sprintf("s%d/%d", i, k), payload()
		if version == 5 {
			p.HasProps = true
		}
		b.Write(enc(p))
	}
	c := enc(refcodec.New(refcodec.Pingreq, version))
	return []wsPhase{{a.Bytes(), refcodec.Pingresp, 1}, {b.Bytes(), refcodec.Publish, nb}, {c, refcodec.Pingresp, 2}}
}

// vcomp ws-broker <table.json> <out.ndjson> <sessions> <max frame>
func wsBrokerMain(a []string) {
	var rows []wsSegRow
	hx.ReadJSON(a[0], &rows)
	nsess, maxFrame := atoi(a[2]), atoi(a[3])
	type job struct {
		e      *brokerEnv
		id     string
		kase   string
		phases []wsPhase
		frames [][]wsFrame
		tcp    []wsPhase // what the TCP reference sends (the binary prefix)
		close  bool
		cid    string // client id used by both runs ("" = assigned by the broker)
	}
	var jobs []job
	envs := map[int]*brokerEnv{}
	for _, n := range []int{1, 2, 4096} {
		envs[n] = startBroker(n)
	}
	for _, n := range []int{1, 2, 4096} {
		for ri, r := range rows {
			var fs []wsFrame
			for _, f := range r.Frames {
				fs = append(fs, wsFrame{Data: toBytes(f)})
			}
			ph := []wsPhase{{toBytes(r.Stream), refcodec.Pingresp, 1}}
			jobs = append(jobs, job{envs[n], fmt.Sprintf("seg%d/buf%d", ri, n), "seg", ph, [][]wsFrame{fs}, ph, false, ""})
		}
	}
	rng := hx.Rand(3939)
	for i := 0; i < nsess; i++ {
		n := []int{4096, 1, 2, 4096}[i%4]
		ph := randomSession(rng, i)
		var fr [][]wsFrame
		mf := 1 + rng.Intn(maxFrame)
		for _, p := range ph {
			fr = append(fr, cutFrames(rng, p.data, mf))
		}
		jobs = append(jobs, job{envs[n], fmt.Sprintf("sess%d/buf%d/maxframe%d", i, n, mf), "session", ph, fr, ph, false, fmt.Sprintf("sess%d", i)})
	}
	// a text frame must end the connection: CONNECT (binary), then the PINGREQ in a TEXT frame, at
	// different places of the sequence
	con := toBytes(rows[0].Stream[:14])
	ping := toBytes(rows[0].Stream[14:])
	for i, n := range []int{1, 2, 4096} {
		fs := [][]wsFrame{
			{{Data: con}, {Text: true, Data: ping}, {Data: ping}},
			{{Data: con[:5]}, {Data: con[5:]}, {Text: true, Data: []byte("hello")}, {Data: ping}},
			{{Text: true, Data: []byte("x")}, {Data: con}, {Data: ping}},
		}
		// TCP reference: the bytes before the text frame; it waits for the CONNACK (if a CONNECT is in them)
		pre := []wsPhase{{con, refcodec.Connack, 1}, {con, refcodec.Connack, 1}, {data: []byte{}}}
		for j, f := range fs {
			jobs = append(jobs, job{envs[n], fmt.Sprintf("text%d/buf%d", i*3+j, n), "text",
				[]wsPhase{{data: nil}}, [][]wsFrame{f}, []wsPhase{pre[j]}, true, ""})
		}
	}
	outs := make([]wsBrokerOut, len(jobs))
	parallelDo(len(jobs), 12, func(i int) {
		j := jobs[i]
		o := wsBrokerOut{Kind: "broker", ID: j.id, Case: j.kase, Bufsize: j.e.bufsize, Frames: [][]any{}}
		for _, fs := range j.frames {
			o.Frames = append(o.Frames, frameList(fs, false)...)
		}
		// Both runs use the same client id (the packets must be identical). The second run must not
		// start while the broker is still tearing down the first connection: a CONNECT racing with the
		// teardown of a connection of the same id is a different scenario (session takeover) and not
		// what byte transparency is about. So wait until the broker has forgotten the id, and run a
		// case again (at most 3 times) if one of the two runs did not get through its script in time.
		var wr, tr []byte
		var bin, closed, comp1, comp2 bool
		var wp, tp []string
		var note1, note2 string
		var sent int
		for attempt := 0; attempt < 3; attempt++ {
			waitForgotten(j.e, j.cid)
			wr, bin, closed, comp1, wp, note1 = runWS(j.e, j.phases, j.frames, j.close)
			waitForgotten(j.e, j.cid)
			tr, comp2, tp, sent, note2 = runTCP(j.e, j.tcp)
			if comp1 && comp2 {
				break
			}
		}
		o.WsReply, o.TcReply, o.WsPackets, o.TcPackets = digestStream(wr), digestStream(tr), wp, tp
		o.WsBinary, o.WsClosed, o.Complete, o.TCPBytes, o.Note = bin, closed, comp1 && comp2, sent, note1+note2
		outs[i] = o
	})
	w := hx.NewND(a[1])
	for _, o := range outs {
		w.Put(o)
	}
	w.Close()
	for _, e := range envs {
		_ = e.srv.Close()
	}
}
