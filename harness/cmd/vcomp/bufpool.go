package main

// C41: concurrent get / write / read back / put on the real mempool pools.
//
// Every goroutine logs "acq" AFTER Get returned and "rel" BEFORE it calls Put, each with a global
// atomic sequence number, so every logged hold interval is a sub-interval of the real one: two
// overlapping intervals for one buffer in the log are a real double hand-out.  Nothing is judged
// here; the merged log goes to TLC (spec/TraceBufPool.tla).

import (
	"bytes"
	"fmt"
	"math/rand"
	"path/filepath"
	"runtime"
	"sort"
	"sync"
	"sync/atomic"
	"unsafe"

	"github.com/mochi-mqtt/server/v2/mempool"

	"verifharness/hx"
)

type bpEvent struct {
	Seq  int64
	Acq  bool
	G    int
	Ptr  uintptr
	Len  int
	Cap  int
	Ok   bool
	Size int // bytes written (rel)
}

type bpHeld struct {
	b    *bytes.Buffer
	off  int  // Len() when acquired (0 unless the pool handed out a dirty buffer)
	n    int  // bytes this goroutine appended
	salt byte // pattern of those bytes
}

func pattern(dst []byte, g int, salt byte) {
	for i := range dst {
		dst[i] = byte(g)*37 + salt + byte(i)*3
	}
}

// bufpoolSegment runs `gor` goroutines on a fresh pool until `ops` get..put cycles are done.
func bufpoolSegment(capacity, gor, ops int, salt int64) []bpEvent {
	pool := mempool.NewBuffer(capacity)
	var ctr int64
	logs := make([][]bpEvent, gor)
	var wg sync.WaitGroup
	start := make(chan struct{})
	for g := 0; g < gor; g++ {
		wg.Add(1)
		go func(g int) {
			defer wg.Done()
			rng := hx.Rand(salt*1000 + int64(g))
			quota := ops / gor
			if g < ops%gor {
				quota++
			}
			lg := make([]bpEvent, 0, 2*quota)
			var held []bpHeld
			scratch := make([]byte, 8192)
			gets := 0
			<-start
			for gets < quota || len(held) > 0 {
				doGet := gets < quota && len(held) < 3 && (len(held) == 0 || rng.Intn(2) == 0)
				if doGet {
					b := pool.Get()
					seq := atomic.AddInt64(&ctr, 1) // after Get returned
					lg = append(lg, bpEvent{Seq: seq, Acq: true, G: g, Ptr: uintptr(unsafe.Pointer(b)), Len: b.Len(), Cap: b.Cap()})
					gets++
					var n int
					switch rng.Intn(4) {
					case 0:
						n = rng.Intn(65)
					case 1:
						n = rng.Intn(1025)
					case 2:
						n = rng.Intn(8193)
					default:
						n = rng.Intn(200)
					}
					h := bpHeld{b: b, off: b.Len(), n: n, salt: byte(rng.Intn(256))}
					pattern(scratch[:n], g, h.salt)
					guarded(func() { b.Write(scratch[:n]) })
					held = append(held, h)
					if rng.Intn(8) == 0 {
						runtime.Gosched()
					}
					if g == 0 && gets%997 == 0 {
						runtime.GC() // lets sync.Pool forget what it keeps from time to time
					}
					continue
				}
				i := rng.Intn(len(held))
				h := held[i]
				held[i] = held[len(held)-1]
				held = held[:len(held)-1]
				// read back what this goroutine wrote
				// (a buffer that somebody else mutates meanwhile can make bytes.Buffer panic: that is "not intact")
				ok := false
				ev := bpEvent{Acq: false, G: g, Ptr: uintptr(unsafe.Pointer(h.b)), Size: h.n}
				guarded(func() {
					bs := h.b.Bytes()
					ev.Len, ev.Cap = len(bs), h.b.Cap()
					if len(bs) == h.off+h.n && h.off >= 0 {
						pattern(scratch[:h.n], g, h.salt)
						ok = bytes.Equal(bs[h.off:], scratch[:h.n])
					}
				})
				ev.Ok = ok
				ev.Seq = atomic.AddInt64(&ctr, 1) // before Put
				lg = append(lg, ev)
				pool.Put(h.b)
			}
			logs[g] = lg
		}(g)
	}
	close(start)
	wg.Wait()
	var all []bpEvent
	for _, l := range logs {
		all = append(all, l...)
	}
	sort.Slice(all, func(i, j int) bool { return all[i].Seq < all[j].Seq })
	return all
}

// guarded runs f; a panic inside the buffer's own methods is swallowed (the caller records "not intact").
func guarded(f func()) {
	defer func() { _ = recover() }()
	f()
}

type bpLine struct {
	E   string `json:"e"`
	G   int    `json:"g"`
	B   int    `json:"b"`
	Len int    `json:"len"`
	Cap int    `json:"cap"`
	Ok  *bool  `json:"ok,omitempty"`
}

// vcomp bufpool <outdir> <total ops> <chunk events>
func bufpoolMain(a []string) {
	if len(a) < 3 {
		hx.Die("usage: vcomp bufpool <outdir> <ops> <events per chunk>")
	}
	outdir, total, perChunk := a[0], atoi(a[1]), atoi(a[2])
	caps := []int{0, 64, 1024}
	gors := []int{8, 16}
	if total >= 100000 {
		gors = []int{8, 12, 16}
	}
	nseg := len(caps) * len(gors)
	type segInfo struct {
		Cap     int      `json:"cap"`
		Gor     int      `json:"goroutines"`
		Ops     int      `json:"ops"`
		Events  int      `json:"events"`
		Buffers int      `json:"buffers"`
		Files   []string `json:"files"`
	}
	var index []segInfo
	k := 0
	for _, c := range caps {
		for _, g := range gors {
			k++
			ev := bufpoolSegment(c, g, total/nseg, int64(k))
			ids := map[uintptr]int{}
			for _, e := range ev {
				if _, ok := ids[e.Ptr]; !ok {
					ids[e.Ptr] = len(ids) + 1
				}
			}
			// per-buffer projections: all events of one buffer identity go to the same chunk, in log order
			nch := (len(ev) + perChunk - 1) / perChunk
			if nch < 1 {
				nch = 1
			}
			si := segInfo{Cap: c, Gor: g, Ops: total / nseg, Events: len(ev), Buffers: len(ids)}
			ws := make([]*hx.ND, nch)
			for j := range ws {
				fn := filepath.Join(outdir, fmt.Sprintf("seg%d_cap%d_g%d_part%d.ndjson", k, c, g, j))
				ws[j] = hx.NewND(fn)
				si.Files = append(si.Files, fn)
			}
			for _, e := range ev {
				id := ids[e.Ptr]
				l := bpLine{E: "rel", G: e.G, B: id, Len: e.Len, Cap: e.Cap}
				if e.Acq {
					l.E = "acq"
				} else {
					ok := e.Ok
					l.Ok = &ok
				}
				ws[id%nch].Put(l)
			}
			for _, w := range ws {
				w.Close()
			}
			index = append(index, si)
		}
	}
	hx.WriteJSON(filepath.Join(outdir, "index.json"), index)
	_ = rand.Int
}
