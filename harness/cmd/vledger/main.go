// Command vledger drives the real auth ledger (hooks/auth) for property C18.
//
//	vledger table <table.json> <out.json> <repeat>   rows emitted by TLC (GenLedger.tla): every query is
//	                                                 evaluated <repeat> times; every outcome must be in the
//	                                                 row's permitted set and all outcomes must be equal
//	vledger random <out.ndjson> <ledgers> <repeat>   seeded random ledgers; outcomes are only recorded, TLC
//	                                                 (TraceLedger.tla) judges them
//
// The harness holds no oracle: the table lookup compares with values TLC wrote.
package main

import (
	"fmt"
	"os"
	"strconv"
	"strings"

	mqtt "github.com/mochi-mqtt/server/v2"
	"github.com/mochi-mqtt/server/v2/hooks/auth"
	"github.com/mochi-mqtt/server/v2/packets"

	"verifharness/hx"
)

type entry struct {
	F []string `json:"f"`
	A int      `json:"a"`
}
type user struct {
	Name []string `json:"name"`
	Pw   []string `json:"pw"`
	Dis  bool     `json:"dis"`
	ACL  []entry  `json:"acl"`
}
type authRule struct {
	Cl    []string `json:"cl"`
	Un    []string `json:"un"`
	Rm    []string `json:"rm"`
	Pw    []string `json:"pw"`
	Allow bool     `json:"allow"`
}
type aclRule struct {
	Cl []string `json:"cl"`
	Un []string `json:"un"`
	Rm []string `json:"rm"`
	Fs []entry  `json:"fs"`
}
type ledger struct {
	Users []user     `json:"users"`
	Auth  []authRule `json:"auth"`
	ACL   []aclRule  `json:"acl"`
}
type client struct {
	ID []string `json:"id"`
	Un []string `json:"un"`
	Rm []string `json:"rm"`
}
type query struct {
	C  client   `json:"c"`
	T  []string `json:"t"`
	W  bool     `json:"w"`
	Pw []string `json:"pw"`
	Ok []bool   `json:"ok"`
}
type row struct {
	Led  ledger  `json:"led"`
	Kind string  `json:"kind"`
	Qs   []query `json:"qs"`
}

func cat(s []string) string { return strings.Join(s, "") }

func filters(es []entry) auth.Filters {
	f := auth.Filters{}
	for _, e := range es {
		f[auth.RString(hx.Join(e.F))] = auth.Access(e.A)
	}
	return f
}

func build(l ledger) *auth.Ledger {
	out := &auth.Ledger{}
	if len(l.Users) > 0 {
		out.Users = auth.Users{}
		for _, u := range l.Users {
			r := auth.UserRule{Username: auth.RString(cat(u.Name)), Password: auth.RString(cat(u.Pw)), Disallow: u.Dis}
			if len(u.ACL) > 0 {
				r.ACL = filters(u.ACL)
			}
			out.Users[cat(u.Name)] = r
		}
	}
	for _, r := range l.Auth {
		out.Auth = append(out.Auth, auth.AuthRule{Client: auth.RString(cat(r.Cl)), Username: auth.RString(cat(r.Un)),
			Remote: auth.RString(cat(r.Rm)), Password: auth.RString(cat(r.Pw)), Allow: r.Allow})
	}
	for _, r := range l.ACL {
		ar := auth.ACLRule{Client: auth.RString(cat(r.Cl)), Username: auth.RString(cat(r.Un)), Remote: auth.RString(cat(r.Rm))}
		if len(r.Fs) > 0 {
			ar.Filters = filters(r.Fs)
		}
		out.ACL = append(out.ACL, ar)
	}
	return out
}

func mkClient(c client) *mqtt.Client {
	return &mqtt.Client{ID: cat(c.ID), Properties: mqtt.ClientProperties{Username: []byte(cat(c.Un))}, Net: mqtt.ClientConnection{Remote: cat(c.Rm)}}
}

// eval evaluates one query n times, alternating between a ledger built once and freshly built ledgers
// (fresh maps, fresh iteration orders).
func eval(l ledger, kind string, q query, n int) []bool {
	outs := make([]bool, 0, n)
	shared := build(l)
	for i := 0; i < n; i++ {
		led := shared
		if i%2 == 1 {
			led = build(l)
		}
		cl := mkClient(q.C)
		var ok bool
		if kind == "acl" {
			_, ok = led.ACLOk(cl, hx.Join(q.T), q.W)
		} else {
			_, ok = led.AuthOk(cl, packets.Packet{Connect: packets.ConnectParams{Password: []byte(cat(q.Pw))}})
		}
		outs = append(outs, ok)
	}
	return outs
}

func tableMain(in, out string, repeat int) {
	var rows []row
	hx.ReadJSON(in, &rows)
	res := &hx.Result{Extra: map[string]any{}}
	nontrivial := map[string]bool{}
	for ri, r := range rows {
		for _, q := range r.Qs {
			outs := eval(r.Led, r.Kind, q, repeat)
			res.Evaluations += len(outs)
			stable, permitted := true, true
			for _, o := range outs {
				if o != outs[0] {
					stable = false
				}
				in := false
				for _, p := range q.Ok {
					if p == o {
						in = true
					}
				}
				if !in {
					permitted = false
				}
			}
			if !stable || !permitted {
				res.Mismatch(map[string]any{"case": "ledger-" + r.Kind, "stable": stable, "permitted_verdict": permitted, "ledger": r.Led,
					"client": map[string]string{"id": cat(q.C.ID), "username": cat(q.C.Un), "remote": cat(q.C.Rm)},
					"topic":  hx.Join(q.T), "write": q.W, "password": cat(q.Pw), "expected": q.Ok, "got": outs})
			}
			// non-trivial: a decision taken by a rule (not the default), counted per (ledger, verdict set)
			if len(r.Led.Users)+len(r.Led.Auth)+len(r.Led.ACL) > 0 {
				nontrivial[fmt.Sprintf("%d/%v", ri, q.Ok)] = true
			}
		}
		if ri == len(rows)/2 && len(r.Qs) > 0 {
			q := r.Qs[0]
			res.Sample(map[string]any{"ledger": r.Led, "kind": r.Kind, "client": cat(q.C.ID) + "/" + cat(q.C.Un) + "/" + cat(q.C.Rm),
				"topic": hx.Join(q.T), "write": q.W, "password": cat(q.Pw), "permitted": q.Ok})
		}
	}
	res.Distinct = len(nontrivial)
	res.Extra["rows"] = len(rows)
	hx.WriteJSON(out, res)
}

// ---------------------------------------------------------------------------------------------
// random ledgers (recorded only)

func chars(s string) []string {
	out := []string{}
	for _, c := range s {
		out = append(out, string(c))
	}
	return out
}

type line struct {
	Led  ledger   `json:"led"`
	Kind string   `json:"kind"`
	C    client   `json:"c"`
	T    []string `json:"t"`
	W    bool     `json:"w"`
	Pw   []string `json:"pw"`
	Outs []bool   `json:"outs"`
}

func randomMain(out string, nled, repeat int) {
	rng := hx.Rand(1818)
	w := hx.NewND(out)
	filterPool := [][]string{{"a"}, {"a", "b"}, {"a", "+"}, {"a", "#"}, {"+", "b"}, {"+", "+"}, {"#"}, {"a", "b", "c"}, {"a", "+", "c"}, {"b", "#"}, {"a", ""}, {"+"}}
	topicPool := [][]string{{"a"}, {"b"}, {"a", "b"}, {"a", "c"}, {"a", "b", "c"}, {"a", "b", "c", "d"}, {"b", "b"}, {"a", ""}, {"c"}, {"b", "a", "c"}, {"a", "x", "c"}, {"", "b"}}
	ids := []string{"c1", "c2x", "d1", "dev7"}
	uns := []string{"u1", "u2", "bob", ""}
	rms := []string{"r1.9", "q7", "r1.10:5"}
	pws := []string{"pw", "px", ""}
	// patterns never have a '*' after which the candidate would be exactly the prefix (unspecified edge)
	idPats := []string{"", "*", "c1", "c*", "d*", "dev*"}
	unPats := []string{"", "*", "u1", "u*", "bob"}
	rmPats := []string{"", "*", "r1*", "q7", "r*"}
	pwPats := []string{"", "*", "pw", "p*"}
	pick := func(p []string) []string { return chars(p[rng.Intn(len(p))]) }
	fmap := func(max int) []entry {
		n := rng.Intn(max + 1)
		seen := map[string]bool{}
		es := []entry{}
		for i := 0; i < n; i++ {
			f := filterPool[rng.Intn(len(filterPool))]
			if seen[hx.Join(f)] {
				continue
			}
			seen[hx.Join(f)] = true
			es = append(es, entry{F: f, A: rng.Intn(4)})
		}
		return es
	}
	for i := 0; i < nled; i++ {
		var l ledger
		l.Users, l.Auth, l.ACL = []user{}, []authRule{}, []aclRule{}
		names := []string{"u1", "u2", "bob"}
		rng.Shuffle(len(names), func(a, b int) { names[a], names[b] = names[b], names[a] })
		for _, nm := range names[:rng.Intn(4)] {
			l.Users = append(l.Users, user{Name: chars(nm), Pw: pick(pws), Dis: rng.Intn(4) == 0, ACL: fmap(3)})
		}
		for k := rng.Intn(5); k > 0; k-- {
			l.Auth = append(l.Auth, authRule{Cl: pick(idPats), Un: pick(unPats), Rm: pick(rmPats), Pw: pick(pwPats), Allow: rng.Intn(2) == 0})
		}
		for k := rng.Intn(5); k > 0; k-- {
			l.ACL = append(l.ACL, aclRule{Cl: pick(idPats), Un: pick(unPats), Rm: pick(rmPats), Fs: fmap(3)})
		}
		for c := 0; c < 4; c++ {
			cl := client{ID: chars(ids[rng.Intn(len(ids))]), Un: chars(uns[rng.Intn(len(uns))]), Rm: chars(rms[rng.Intn(len(rms))])}
			for _, t := range topicPool {
				for _, wr := range []bool{false, true} {
					q := query{C: cl, T: t, W: wr, Pw: []string{}}
					w.Put(line{Led: l, Kind: "acl", C: cl, T: t, W: wr, Pw: []string{}, Outs: eval(l, "acl", q, repeat)})
				}
			}
			for _, pw := range pws {
				q := query{C: cl, Pw: chars(pw), T: []string{}}
				w.Put(line{Led: l, Kind: "auth", C: cl, T: []string{}, Pw: chars(pw), Outs: eval(l, "auth", q, repeat)})
			}
		}
	}
	w.Close()
	fmt.Println(w.N)
}

func main() {
	if len(os.Args) < 2 {
		hx.Die("usage: vledger table|random ...")
	}
	atoi := func(s string) int { v, _ := strconv.Atoi(s); return v }
	switch os.Args[1] {
	case "table":
		tableMain(os.Args[2], os.Args[3], atoi(os.Args[4]))
	case "random":
		randomMain(os.Args[2], atoi(os.Args[3]), atoi(os.Args[4]))
	default:
		hx.Die("unknown subcommand %s", os.Args[1])
	}
}
