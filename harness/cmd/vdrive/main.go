// Command vdrive executes abstract histories on the real broker and writes the recorded traces.
//
//	vdrive run <histories.json> <out.ndjson> [workers]
//
// histories.json: [{"name":..., "cfg":{...}, "ops":[...]}, ...]; output: one line per event, each
// history introduced by its Config line (the TraceReset of spec/TraceBroker.tla).
package main

import (
	"encoding/json"
	"fmt"
	"os"
	"strconv"
	"sync"

	"verifharness/driver"
	"verifharness/hx"
)

type hist struct {
	Name string        `json:"name"`
	Cfg  driver.Config `json:"cfg"`
	Ops  []driver.Op   `json:"ops"`
}

func main() {
	if len(os.Args) < 4 || os.Args[1] != "run" {
		hx.Die("usage: vdrive run <histories.json> <out.ndjson> [workers]")
	}
	var hs []hist
	hx.ReadJSON(os.Args[2], &hs)
	workers := 8
	if len(os.Args) > 4 {
		workers, _ = strconv.Atoi(os.Args[4])
	}
	res := make([][]driver.Event, len(hs))
	var wg sync.WaitGroup
	ch := make(chan int)
	for w := 0; w < workers; w++ {
		wg.Add(1)
		go func() {
			defer wg.Done()
			for i := range ch {
				res[i] = driver.Run(hs[i].Cfg, hs[i].Ops)
			}
		}()
	}
	for i := range hs {
		ch <- i
	}
	close(ch)
	wg.Wait()
	nd := hx.NewND(os.Args[3])
	stuck := 0
	for i, evs := range res {
		for j := range evs {
			evs[j].I = j + 1
			if j == 0 {
				evs[j].K = hs[i].Name
			}
			if len(evs[j].Err) >= 5 && evs[j].Err[:5] == "stuck" {
				stuck++
			}
			nd.Put(evs[j])
		}
	}
	nd.Close()
	b, _ := json.Marshal(map[string]any{"histories": len(hs), "events": nd.N, "stuck": stuck})
	fmt.Println(string(b))
}
