package main

import (
	"encoding/json"
	"fmt"
	"os"
	"path/filepath"
	"strconv"
	"sync"

	"verifharness/driver"
	"verifharness/hx"
)

// shist is one generated broker history: ops (may contain {"op":"restart"}), then probe ops that are
// executed after the final restart (C20) or after the crash + restart (C21).
type shist struct {
	Name     string        `json:"name"`
	Backends []string      `json:"backends"`
	Cfg      driver.Config `json:"cfg"`
	Ops      []driver.Op   `json:"ops"`
	Probe    []driver.Op   `json:"probe"`
	MaxW     int           `json:"max_w"` // C21: cap on the number of crash points (0 = all)
}

func runOps(sh *driver.StoreHistory, ops []driver.Op, stopOnTrip bool) {
	for _, o := range ops {
		if o.Op == "restart" {
			sh.Restart(false)
			continue
		}
		sh.Step(o)
		if stopOnTrip && sh.Crash.Tripped() {
			return
		}
	}
}

type unit struct {
	h       *shist
	backend string
	cut     int // -2: C20 run (graceful restarts); >= 0: crash point
	lines   []driver.SLine
	writes  int
}

func storeDir(root string, w int) string { return filepath.Join(root, fmt.Sprintf("w%d", w)) }

func execUnit(u *unit, dir string) {
	b := newBacking(u.backend, dir)
	defer b.Close()
	cut := -1
	if u.cut >= 0 {
		cut = u.cut
	}
	sh, err := driver.NewHistoryWithStore(u.h.Cfg, u.backend, u.h.Name, b.Hook, cut)
	if err != nil {
		hx.Die("boot %s on %s: %v", u.h.Name, u.backend, err)
	}
	if u.cut == -2 { // C20
		runOps(sh, u.h.Ops, false)
		runOps(sh, u.h.Probe, false)
	} else if u.cut == -1 { // C21 counting run: how many writes does the history issue?
		runOps(sh, u.h.Ops, false)
		u.writes = sh.Crash.Writes()
	} else {
		runOps(sh, u.h.Ops, true)
		sh.Restart(true)
		runOps(sh, u.h.Probe, false)
	}
	sh.Close()
	u.lines = sh.Lines
}

func pool(units []*unit, root string, workers int) {
	var wg sync.WaitGroup
	ch := make(chan *unit)
	for w := 0; w < workers; w++ {
		wg.Add(1)
		go func(w int) {
			defer wg.Done()
			for u := range ch {
				execUnit(u, storeDir(root, w))
			}
		}(w)
	}
	for _, u := range units {
		ch <- u
	}
	close(ch)
	wg.Wait()
}

func emit(path string, units []*unit) (int, int) {
	nd := hx.NewND(path)
	stuck := 0
	for _, u := range units {
		for _, l := range u.lines {
			if len(l.Err) >= 5 && l.Err[:5] == "stuck" {
				stuck++
			}
			nd.Put(l)
		}
	}
	nd.Close()
	return nd.N, stuck
}

func parseArgs(args []string, what string) ([]shist, string, string, int) {
	if len(args) < 3 {
		hx.Die("usage: vstore %s <histories.json> <out.ndjson> <storeRoot> [workers]", what)
	}
	var hs []shist
	hx.ReadJSON(args[0], &hs)
	workers := 10
	if len(args) > 3 {
		workers, _ = strconv.Atoi(args[3])
	}
	return hs, args[1], args[2], workers
}

// runC20: every history on every listed backend, graceful restarts where the history says so.
func runC20(args []string) {
	hs, out, root, workers := parseArgs(args, "c20")
	var units []*unit
	for i := range hs {
		for _, b := range hs[i].Backends {
			units = append(units, &unit{h: &hs[i], backend: b, cut: -2})
		}
	}
	pool(units, root, workers)
	n, stuck := emit(out, units)
	_ = os.RemoveAll(root)
	b, _ := json.Marshal(map[string]any{"runs": len(units), "lines": n, "stuck": stuck})
	fmt.Println(string(b))
}

// runC21: every history on every listed backend, once per crash point 0..W (W = number of storage
// writes the history issues), each followed by restart on the surviving store and the probe.
func runC21(args []string) {
	hs, out, root, workers := parseArgs(args, "c21")
	var count []*unit
	for i := range hs {
		for _, b := range hs[i].Backends {
			count = append(count, &unit{h: &hs[i], backend: b, cut: -1})
		}
	}
	pool(count, root, workers)
	var units []*unit
	totalW := 0
	for _, c := range count {
		w := c.writes
		if c.h.MaxW > 0 && w > c.h.MaxW {
			w = c.h.MaxW
		}
		totalW += w
		for n := 0; n <= w; n++ {
			units = append(units, &unit{h: c.h, backend: c.backend, cut: n})
		}
	}
	pool(units, root, workers)
	n, stuck := emit(out, units)
	_ = os.RemoveAll(root)
	b, _ := json.Marshal(map[string]any{"runs": len(units), "histories": len(count), "writes": totalW, "lines": n, "stuck": stuck})
	fmt.Println(string(b))
}
