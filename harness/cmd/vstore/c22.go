package main

import (
	"errors"
	"fmt"
	"math/rand"
	"os"
	"path/filepath"
	"strconv"
	"sync"

	mqtt "github.com/mochi-mqtt/server/v2"
	"github.com/mochi-mqtt/server/v2/packets"
	"github.com/mochi-mqtt/server/v2/system"

	"verifharness/hx"
)

// ---- abstract storage events (one line of the C22 trace each; every field always present) ----

type cliSpec struct {
	ID       string  `json:"id"`
	User     string  `json:"user"`
	V        int     `json:"v"`
	Clean    bool    `json:"clean"`
	SEI      int     `json:"sei"`
	SEIF     bool    `json:"seif"`
	RPI      int     `json:"rpi"`
	RPIF     bool    `json:"rpif"`
	RRI      int     `json:"rri"`
	RM       int     `json:"rm"`
	TAM      int     `json:"tam"`
	MPS      int     `json:"mps"`
	Will     willRec `json:"will"`
	Listener string  `json:"listener"`
	Remote   string  `json:"remote"`
	Stop     string  `json:"stop"` // "" | "takenover" | "other"
}

type filtSpec struct {
	F     string `json:"f"`
	Q     int    `json:"q"`
	NL    bool   `json:"nl"`
	RAP   bool   `json:"rap"`
	RH    int    `json:"rh"`
	Ident int    `json:"ident"`
}

type pkSpec struct {
	Topic   string      `json:"topic"`
	M       string      `json:"m"`
	Q       int         `json:"q"`
	R       bool        `json:"r"`
	Dup     bool        `json:"dup"`
	Ty      int         `json:"ty"`
	Pid     int         `json:"pid"`
	Created int         `json:"created"`
	Origin  string      `json:"o"`
	MEI     int         `json:"mei"`
	CT      string      `json:"ct"`
	RT      string      `json:"rt"`
	CD      string      `json:"cd"`
	UP      [][2]string `json:"up"`
	Sid     []int       `json:"sid"`
	Alias   int         `json:"alias"`
	PF      int         `json:"pf"`
	PFF     bool        `json:"pff"`
}

type sEvent struct {
	Ev      string     `json:"ev"` // "event"
	Op      string     `json:"op"`
	C       cliSpec    `json:"c"`
	Expire  bool       `json:"expire"`
	Filters []filtSpec `json:"filters"`
	Codes   []int      `json:"codes"`
	Pk      pkSpec     `json:"pk"`
	R       int        `json:"r"`
	Sent    int        `json:"sent"`
	Sys     sysRec     `json:"sys"`
}

func normEvent(e *sEvent) {
	e.Ev = "event"
	if e.Filters == nil {
		e.Filters = []filtSpec{}
	}
	if e.Codes == nil {
		e.Codes = []int{}
	}
	if e.Pk.UP == nil {
		e.Pk.UP = [][2]string{}
	}
	if e.Pk.Sid == nil {
		e.Pk.Sid = []int{}
	}
}

var errOther = errors.New("verif: other stop cause")

func (c cliSpec) client() *mqtt.Client {
	cl := &mqtt.Client{
		ID:  c.ID,
		Net: mqtt.ClientConnection{Remote: c.Remote, Listener: c.Listener},
		Properties: mqtt.ClientProperties{
			Username:        []byte(c.User),
			Clean:           c.Clean,
			ProtocolVersion: byte(c.V),
			Props: packets.Properties{
				SessionExpiryInterval:     uint32(c.SEI),
				SessionExpiryIntervalFlag: c.SEIF,
				RequestProblemInfo:        byte(c.RPI),
				RequestProblemInfoFlag:    c.RPIF,
				RequestResponseInfo:       byte(c.RRI),
				ReceiveMaximum:            uint16(c.RM),
				TopicAliasMaximum:         uint16(c.TAM),
				MaximumPacketSize:         uint32(c.MPS),
			},
			Will: mqtt.Will{TopicName: c.Will.T, Payload: []byte(c.Will.M), Qos: byte(c.Will.Q), Retain: c.Will.R,
				Flag: uint32(c.Will.F), WillDelayInterval: uint32(c.Will.D)},
		},
	}
	if c.User == "" {
		cl.Properties.Username = nil
	}
	if c.Will.M == "" {
		cl.Properties.Will.Payload = nil
	}
	switch c.Stop {
	case "takenover":
		cl.Stop(packets.ErrSessionTakenOver)
	case "other":
		cl.Stop(errOther)
	}
	return cl
}

func (p pkSpec) packet() packets.Packet {
	pk := packets.Packet{
		FixedHeader: packets.FixedHeader{Type: byte(p.Ty), Qos: byte(p.Q), Retain: p.R, Dup: p.Dup},
		TopicName:   p.Topic, Payload: []byte(p.M), PacketID: uint16(p.Pid), Created: int64(p.Created), Origin: p.Origin,
		Properties: packets.Properties{MessageExpiryInterval: uint32(p.MEI), ContentType: p.CT, ResponseTopic: p.RT,
			CorrelationData: []byte(p.CD), TopicAlias: uint16(p.Alias), PayloadFormat: byte(p.PF), PayloadFormatFlag: p.PFF},
	}
	if p.M == "" {
		pk.Payload = nil
	}
	if p.CD == "" {
		pk.Properties.CorrelationData = nil
	}
	for _, u := range p.UP {
		pk.Properties.User = append(pk.Properties.User, packets.UserProperty{Key: u[0], Val: u[1]})
	}
	pk.Properties.SubscriptionIdentifier = append(pk.Properties.SubscriptionIdentifier, p.Sid...)
	return pk
}

// apply performs one abstract event on a hook by calling the corresponding hook method.
func apply(h mqtt.Hook, e sEvent) {
	switch e.Op {
	case "established":
		h.OnSessionEstablished(e.C.client(), packets.Packet{})
	case "disconnect":
		h.OnDisconnect(e.C.client(), nil, e.Expire)
	case "subscribed", "unsubscribed":
		pk := packets.Packet{PacketID: uint16(e.Pk.Pid)}
		codes := []byte{}
		for i, f := range e.Filters {
			pk.Filters = append(pk.Filters, packets.Subscription{Filter: f.F, Qos: byte(f.Q), NoLocal: f.NL,
				RetainAsPublished: f.RAP, RetainHandling: byte(f.RH), Identifier: f.Ident})
			if i < len(e.Codes) {
				codes = append(codes, byte(e.Codes[i]))
			}
		}
		if e.Op == "subscribed" {
			h.OnSubscribed(e.C.client(), pk, codes)
		} else {
			h.OnUnsubscribed(e.C.client(), pk)
		}
	case "retain":
		h.OnRetainMessage(e.C.client(), e.Pk.packet(), int64(e.R))
	case "qos_publish":
		h.OnQosPublish(e.C.client(), e.Pk.packet(), int64(e.Sent), 0)
	case "qos_complete":
		h.OnQosComplete(e.C.client(), e.Pk.packet())
	case "qos_dropped":
		h.OnQosDropped(e.C.client(), e.Pk.packet())
	case "will_sent":
		h.OnWillSent(e.C.client(), e.Pk.packet())
	case "client_expired":
		h.OnClientExpired(e.C.client())
	case "retained_expired":
		h.OnRetainedExpired(e.Pk.Topic)
	case "sys_tick":
		h.OnSysInfoTick(&system.Info{Version: e.Sys.Version, Started: int64(e.Sys.Started), Uptime: int64(e.Sys.Uptime),
			BytesReceived: int64(e.Sys.BytesReceived), ClientsConnected: int64(e.Sys.Connected), Retained: int64(e.Sys.Retained),
			Inflight: int64(e.Sys.Inflight), Subscriptions: int64(e.Sys.Subscriptions), Threads: int64(e.Sys.Threads)})
	default:
		hx.Die("unknown storage event %q", e.Op)
	}
}

// ---- random sequences over adversarial keys ----

var c22IDs = []string{"a", "a:b", "b:c", "a/b", "é_1", "c"}

func pick(r *rand.Rand, xs []string) string { return xs[r.Intn(len(xs))] }

func genCli(r *rand.Rand) cliSpec {
	c := cliSpec{ID: pick(r, c22IDs[:5]), V: []int{3, 4, 5}[r.Intn(3)], Clean: r.Intn(2) == 0, Listener: "t1", Remote: "pipe"}
	if r.Intn(3) == 0 {
		c.User = pick(r, []string{"u", "u:1"})
	}
	if c.V == 5 {
		c.SEI = []int{0, 30, 300}[r.Intn(3)]
		c.SEIF = r.Intn(2) == 0
		if r.Intn(3) == 0 {
			c.RPI, c.RPIF = r.Intn(2), true
		}
		c.RRI = r.Intn(2)
		c.RM = []int{0, 5, 100}[r.Intn(3)]
		c.TAM = []int{0, 7}[r.Intn(2)]
		c.MPS = []int{0, 2048}[r.Intn(2)]
	}
	if r.Intn(3) == 0 {
		c.Will = willRec{T: pick(r, c22IDs), M: pick(r, []string{"w1", "w2"}), Q: r.Intn(3), R: r.Intn(2) == 0, F: 1, D: []int{0, 9}[r.Intn(2)]}
	}
	return c
}

func genPk(r *rand.Rand, now int) pkSpec {
	p := pkSpec{Topic: pick(r, c22IDs), M: pick(r, []string{"m1", "m2", "m3", "m:4"}), Q: 1 + r.Intn(2), Ty: 3, Pid: 1 + r.Intn(4),
		Created: now - r.Intn(50), Origin: pick(r, c22IDs[:5])}
	if r.Intn(3) == 0 {
		p.MEI = 10 + r.Intn(100)
		p.CT = pick(r, []string{"", "text/x"})
		p.RT = pick(r, []string{"", "r/t"})
		p.CD = pick(r, []string{"", "cd"})
		if r.Intn(2) == 0 {
			p.UP = [][2]string{{"k", "v"}, {"k:2", "v_2"}}
		}
		if r.Intn(2) == 0 {
			p.Sid = []int{1 + r.Intn(3)}
		}
		p.Alias = []int{0, 3}[r.Intn(2)]
		if r.Intn(2) == 0 {
			p.PF, p.PFF = 1, true
		}
	}
	return p
}

func genSeq(r *rand.Rand, n int) []sEvent {
	now := 1700000000
	out := make([]sEvent, 0, n)
	for len(out) < n {
		var e sEvent
		c := genCli(r)
		switch k := r.Intn(20); {
		case k < 3:
			e = sEvent{Op: "established", C: c}
		case k < 6:
			e = sEvent{Op: "disconnect", C: c, Expire: r.Intn(2) == 0}
			e.C.Stop = []string{"", "other", "takenover"}[r.Intn(3)]
		case k < 9:
			e = sEvent{Op: "subscribed", C: c}
			for i, m := 0, 1+r.Intn(2); i < m; i++ {
				f := filtSpec{F: pick(r, c22IDs), Q: r.Intn(3), NL: r.Intn(4) == 0, RAP: r.Intn(4) == 0, RH: r.Intn(3), Ident: []int{0, 0, 7}[r.Intn(3)]}
				e.Filters = append(e.Filters, f)
				code := f.Q
				if r.Intn(6) == 0 {
					code = []int{0x80, 0x87, 0x8F, 0x91}[r.Intn(4)]
				}
				e.Codes = append(e.Codes, code)
			}
			e.Pk.Pid = 1 + r.Intn(9)
		case k < 11:
			e = sEvent{Op: "unsubscribed", C: c}
			for i, m := 0, 1+r.Intn(2); i < m; i++ {
				e.Filters = append(e.Filters, filtSpec{F: pick(r, c22IDs)})
			}
		case k < 13:
			e = sEvent{Op: "retain", C: c, Pk: genPk(r, now), R: []int{1, 1, 1, 0, -1}[r.Intn(5)]}
			e.Pk.R = true
			if e.R != 1 {
				e.Pk.M = ""
			}
		case k < 15:
			e = sEvent{Op: "qos_publish", C: c, Pk: genPk(r, now), Sent: now - r.Intn(5)}
			if r.Intn(4) == 0 { // an acknowledgement record (PUBREC / PUBREL marker)
				e.Pk.Ty, e.Pk.Topic, e.Pk.M = []int{5, 6}[r.Intn(2)], "", ""
			}
		case k < 16:
			e = sEvent{Op: "qos_complete", C: c, Pk: pkSpec{Ty: 4, Pid: 1 + r.Intn(4)}}
		case k < 17:
			e = sEvent{Op: "qos_dropped", C: c, Pk: pkSpec{Ty: 3, Pid: 1 + r.Intn(4)}}
		case k < 18:
			e = sEvent{Op: "will_sent", C: c, Pk: genPk(r, now)}
			e.C.Will = willRec{}
		case k < 19:
			if r.Intn(2) == 0 {
				e = sEvent{Op: "client_expired", C: c}
			} else {
				e = sEvent{Op: "retained_expired", C: cliSpec{}, Pk: pkSpec{Topic: pick(r, c22IDs)}}
			}
		default:
			e = sEvent{Op: "sys_tick", Sys: sysRec{Version: "2.x", Started: now - 100, Uptime: r.Intn(100), BytesReceived: r.Intn(5000),
				Connected: r.Intn(5), Retained: r.Intn(5), Inflight: r.Intn(5), Subscriptions: r.Intn(9), Threads: 3 + r.Intn(9)}}
		}
		normEvent(&e)
		out = append(out, e)
	}
	return out
}

// slimEvent keeps the fields the event's hook method reads (the others are zero anyway).
type slimEv struct {
	Ev      string      `json:"ev"`
	Op      string      `json:"op"`
	C       *cliSpec    `json:"c,omitempty"`
	Expire  *bool       `json:"expire,omitempty"`
	Filters *[]filtSpec `json:"filters,omitempty"`
	Codes   *[]int      `json:"codes,omitempty"`
	Pk      *pkSpec     `json:"pk,omitempty"`
	R       *int        `json:"r,omitempty"`
	Sent    *int        `json:"sent,omitempty"`
	Sys     *sysRec     `json:"sys,omitempty"`
}

func slimEvent(e sEvent) slimEv {
	m := slimEv{Ev: "event", Op: e.Op}
	switch e.Op {
	case "established", "will_sent", "client_expired":
		m.C = &e.C
	case "disconnect":
		m.C, m.Expire = &e.C, &e.Expire
	case "subscribed":
		m.C, m.Filters, m.Codes = &e.C, &e.Filters, &e.Codes
	case "unsubscribed":
		m.C, m.Filters = &e.C, &e.Filters
	case "retain":
		m.C, m.Pk, m.R = &e.C, &e.Pk, &e.R
	case "qos_publish":
		m.C, m.Pk, m.Sent = &e.C, &e.Pk, &e.Sent
	case "qos_complete", "qos_dropped":
		m.C, m.Pk = &e.C, &e.Pk
	case "retained_expired":
		m.Pk = &e.Pk
	case "sys_tick":
		m.Sys = &e.Sys
	}
	return m
}

type rbLine struct {
	Ev      string   `json:"ev"` // "readback"
	Backend string   `json:"backend"`
	RB      readBack `json:"rb"`
}

type beginLine struct {
	Ev   string `json:"ev"` // "begin"
	Name string `json:"name"`
	N    int    `json:"n"`
}

// runC22: vstore c22 <out.ndjson> <nrandom> <storeRoot> [sequences.json]
// Every sequence is applied to a fresh store of each backend by direct hook calls; the trace holds,
// per sequence: a begin line, the event lines, one read-back line per backend.
func runC22(args []string) {
	if len(args) < 3 {
		hx.Die("usage: vstore c22 <out.ndjson> <nrandom> <storeRoot> [sequences.json]")
	}
	nrand, _ := strconv.Atoi(args[1])
	root := args[2]
	type job struct {
		name string
		evs  []sEvent
	}
	var jobs []job
	if len(args) > 3 { // sequences enumerated by TLC (spec/GenStorage.tla)
		var rows []struct {
			Events []sEvent `json:"events"`
		}
		hx.ReadJSON(args[3], &rows)
		for i, r := range rows {
			for j := range r.Events {
				normEvent(&r.Events[j])
			}
			jobs = append(jobs, job{fmt.Sprintf("tlc%d", i), r.Events})
		}
	}
	for i := 0; i < nrand; i++ {
		r := hx.Rand(int64(7000 + i))
		n := 20 + r.Intn(181)
		if i%5 == 0 {
			n = 20 + r.Intn(30)
		}
		jobs = append(jobs, job{fmt.Sprintf("rnd%d", i), genSeq(r, n)})
	}
	res := make([][]rbLine, len(jobs))
	var wg sync.WaitGroup
	ch := make(chan int)
	for w := 0; w < 12; w++ {
		wg.Add(1)
		go func(w int) {
			defer wg.Done()
			for i := range ch {
				for _, bn := range backendNames {
					b := newBacking(bn, filepath.Join(root, fmt.Sprintf("w%d", w), bn))
					h := b.Direct()
					for _, e := range jobs[i].evs {
						apply(h, e)
					}
					if i%2 == 1 {
						// every other sequence is read back after the store was closed and opened again (what a
						// restarted broker sees): a persistent store must give the same answer
						_ = h.Stop()
						h = b.Direct()
					}
					res[i] = append(res[i], rbLine{Ev: "readback", Backend: bn, RB: readAll(h)})
					_ = h.Stop()
					b.Close()
				}
			}
		}(w)
	}
	for i := range jobs {
		ch <- i
	}
	close(ch)
	wg.Wait()
	nd := hx.NewND(args[0])
	nev := 0
	for i, j := range jobs {
		nd.Put(beginLine{Ev: "begin", Name: j.name, N: len(j.evs)})
		for _, e := range j.evs {
			nd.Put(slimEvent(e))
			nev++
		}
		for _, l := range res[i] {
			nd.Put(l)
		}
	}
	nd.Close()
	_ = os.RemoveAll(root)
	fmt.Printf("{\"sequences\":%d,\"events\":%d,\"lines\":%d}\n", len(jobs), nev, nd.N)
}
