package main

import (
	"fmt"
	"log/slog"
	"os"
	"path/filepath"

	miniredis "github.com/alicebob/miniredis/v2"
	rv8 "github.com/go-redis/redis/v8"

	mqtt "github.com/mochi-mqtt/server/v2"
	"github.com/mochi-mqtt/server/v2/hooks/storage"
	"github.com/mochi-mqtt/server/v2/hooks/storage/badger"
	"github.com/mochi-mqtt/server/v2/hooks/storage/bolt"
	"github.com/mochi-mqtt/server/v2/hooks/storage/pebble"
	"github.com/mochi-mqtt/server/v2/hooks/storage/redis"
	"github.com/mochi-mqtt/server/v2/packets"
	"github.com/mochi-mqtt/server/v2/system"

	"verifharness/hx"
)

// storeHook is the part of mqtt.Hook the bundled persistence hooks implement (events + read-back).
type storeHook interface {
	mqtt.Hook
}

type nullW struct{}

func (nullW) Write(p []byte) (int, error) { return len(p), nil }

var quiet = slog.New(slog.NewTextHandler(nullW{}, &slog.HandlerOptions{Level: slog.LevelError + 8}))

// backing is one persistent store location; Open returns a FRESH hook instance on the SAME store
// (what a restarted broker process does) together with its Init configuration.
type backing struct {
	Name  string
	open  func() (mqtt.Hook, any)
	close func()
}

// Hook returns a fresh, not yet initialised hook instance and its config (for Server.AddHook).
func (b *backing) Hook() (mqtt.Hook, any) { return b.open() }

// Direct returns an initialised hook instance for direct method calls (C22).
func (b *backing) Direct() mqtt.Hook {
	h, cfg := b.open()
	h.SetOpts(quiet, nil)
	if err := h.Init(cfg); err != nil {
		hx.Die("init %s: %v", b.Name, err)
	}
	return h
}

func (b *backing) Close() {
	if b.close != nil {
		b.close()
	}
}

var backendNames = []string{"badger", "pebble", "bolt", "redis"}

// newBacking creates an empty store of the named backend below dir (configured like the backend's own tests:
// a path option for the file stores, an address of an in-process miniredis for redis).
func newBacking(name, dir string) *backing {
	_ = os.RemoveAll(dir)
	if err := os.MkdirAll(dir, 0o755); err != nil {
		hx.Die("mkdir %s: %v", dir, err)
	}
	switch name {
	case "badger":
		p := filepath.Join(dir, "badger")
		return &backing{Name: name, open: func() (mqtt.Hook, any) { return new(badger.Hook), &badger.Options{Path: p} },
			close: func() { _ = os.RemoveAll(dir) }}
	case "pebble":
		p := filepath.Join(dir, "pebble")
		return &backing{Name: name, open: func() (mqtt.Hook, any) { return new(pebble.Hook), &pebble.Options{Path: p} },
			close: func() { _ = os.RemoveAll(dir) }}
	case "bolt":
		p := filepath.Join(dir, "bolt.db")
		return &backing{Name: name, open: func() (mqtt.Hook, any) { return new(bolt.Hook), &bolt.Options{Path: p} },
			close: func() { _ = os.RemoveAll(dir) }}
	case "redis":
		s, err := miniredis.Run()
		if err != nil {
			hx.Die("miniredis: %v", err)
		}
		addr := s.Addr()
		return &backing{Name: name, open: func() (mqtt.Hook, any) {
			return new(redis.Hook), &redis.Options{Options: &rv8.Options{Addr: addr}}
		}, close: func() { s.Close(); _ = os.RemoveAll(dir) }}
	}
	hx.Die("unknown backend %s", name)
	return nil
}

// ---------------------------------------------------------------- read-back projection (C22)

type willRec struct {
	T string `json:"t"`
	M string `json:"m"`
	Q int    `json:"q"`
	R bool   `json:"r"`
	F int    `json:"f"`
	D int    `json:"d"`
}

type clientRec struct {
	ID       string  `json:"id"`
	User     string  `json:"user"`
	V        int     `json:"v"`
	Clean    bool    `json:"clean"`
	SEI      int     `json:"sei"`
	SEIF     bool    `json:"seif"`
	RPI      int     `json:"rpi"`
	RPIF     bool    `json:"rpif"`
	RRI      int     `json:"rri"`
	RM       int     `json:"rm"`
	TAM      int     `json:"tam"`
	MPS      int     `json:"mps"`
	Will     willRec `json:"will"`
	Listener string  `json:"listener"`
	Remote   string  `json:"remote"`
	T        string  `json:"t"`
}

type subRec struct {
	ID    string `json:"id"`
	C     string `json:"c"`
	F     string `json:"f"`
	Q     int    `json:"q"`
	NL    bool   `json:"nl"`
	RAP   bool   `json:"rap"`
	RH    int    `json:"rh"`
	Ident int    `json:"ident"`
	T     string `json:"t"`
}

type msgRec struct {
	ID      string      `json:"id"`
	C       string      `json:"c"`
	Origin  string      `json:"o"`
	Topic   string      `json:"topic"`
	M       string      `json:"m"`
	Q       int         `json:"q"`
	R       bool        `json:"r"`
	Dup     bool        `json:"dup"`
	Ty      int         `json:"ty"`
	Pid     int         `json:"pid"`
	Created int         `json:"created"`
	Sent    int         `json:"sent"`
	MEI     int         `json:"mei"`
	CT      string      `json:"ct"`
	RT      string      `json:"rt"`
	CD      string      `json:"cd"`
	UP      [][2]string `json:"up"`
	Sid     []int       `json:"sid"`
	Alias   int         `json:"alias"`
	PF      int         `json:"pf"`
	PFF     bool        `json:"pff"`
	T       string      `json:"t"`
}

type sysRec struct {
	ID            string `json:"id"`
	T             string `json:"t"`
	Version       string `json:"version"`
	Started       int    `json:"started"`
	Uptime        int    `json:"uptime"`
	BytesReceived int    `json:"bytes_received"`
	Connected     int    `json:"clients_connected"`
	Retained      int    `json:"retained"`
	Inflight      int    `json:"inflight"`
	Subscriptions int    `json:"subscriptions"`
	Threads       int    `json:"threads"`
}

type readBack struct {
	Clients  []clientRec `json:"clients"`
	Subs     []subRec    `json:"subs"`
	Retained []msgRec    `json:"retained"`
	Inflight []msgRec    `json:"inflight"`
	Sys      sysRec      `json:"sys"`
	Err      string      `json:"err"`
}

func projClient(c storage.Client) clientRec {
	return clientRec{ID: c.ID, User: string(c.Username), V: int(c.ProtocolVersion), Clean: c.Clean,
		SEI: int(c.Properties.SessionExpiryInterval), SEIF: c.Properties.SessionExpiryIntervalFlag,
		RPI: int(c.Properties.RequestProblemInfo), RPIF: c.Properties.RequestProblemInfoFlag,
		RRI: int(c.Properties.RequestResponseInfo), RM: int(c.Properties.ReceiveMaximum),
		TAM: int(c.Properties.TopicAliasMaximum), MPS: int(c.Properties.MaximumPacketSize),
		Will: willRec{T: c.Will.TopicName, M: string(c.Will.Payload), Q: int(c.Will.Qos), R: c.Will.Retain,
			F: int(c.Will.Flag), D: int(c.Will.WillDelayInterval)},
		Listener: c.Listener, Remote: c.Remote, T: c.T}
}

func projSub(s storage.Subscription) subRec {
	return subRec{ID: s.ID, C: s.Client, F: s.Filter, Q: int(s.Qos), NL: s.NoLocal, RAP: s.RetainAsPublished,
		RH: int(s.RetainHandling), Ident: s.Identifier, T: s.T}
}

func projMsg(m storage.Message) msgRec {
	r := msgRec{ID: m.ID, C: m.Client, Origin: m.Origin, Topic: m.TopicName, M: string(m.Payload),
		Q: int(m.FixedHeader.Qos), R: m.FixedHeader.Retain, Dup: m.FixedHeader.Dup, Ty: int(m.FixedHeader.Type),
		Pid: int(m.PacketID), Created: int(m.Created), Sent: int(m.Sent), MEI: int(m.Properties.MessageExpiryInterval),
		CT: m.Properties.ContentType, RT: m.Properties.ResponseTopic, CD: string(m.Properties.CorrelationData),
		UP: [][2]string{}, Sid: []int{}, Alias: int(m.Properties.TopicAlias), PF: int(m.Properties.PayloadFormat),
		PFF: m.Properties.PayloadFormatFlag, T: m.T}
	for _, u := range m.Properties.User {
		r.UP = append(r.UP, [2]string{u.Key, u.Val})
	}
	r.Sid = append(r.Sid, m.Properties.SubscriptionIdentifier...)
	return r
}

func projSys(s storage.SystemInfo) sysRec {
	return sysRec{ID: s.ID, T: s.T, Version: s.Version, Started: int(s.Started), Uptime: int(s.Uptime),
		BytesReceived: int(s.BytesReceived), Connected: int(s.ClientsConnected), Retained: int(s.Retained),
		Inflight: int(s.Inflight), Subscriptions: int(s.Subscriptions), Threads: int(s.Threads)}
}

// readAll calls the five Stored* methods of a hook and projects the result.
func readAll(h mqtt.Hook) readBack {
	rb := readBack{Clients: []clientRec{}, Subs: []subRec{}, Retained: []msgRec{}, Inflight: []msgRec{}}
	note := func(what string, err error) {
		if err != nil {
			rb.Err += fmt.Sprintf("%s: %v; ", what, err)
		}
	}
	cs, err := h.StoredClients()
	note("clients", err)
	for _, c := range cs {
		rb.Clients = append(rb.Clients, projClient(c))
	}
	ss, err := h.StoredSubscriptions()
	note("subscriptions", err)
	for _, s := range ss {
		rb.Subs = append(rb.Subs, projSub(s))
	}
	rs, err := h.StoredRetainedMessages()
	note("retained", err)
	for _, m := range rs {
		rb.Retained = append(rb.Retained, projMsg(m))
	}
	is, err := h.StoredInflightMessages()
	note("inflight", err)
	for _, m := range is {
		rb.Inflight = append(rb.Inflight, projMsg(m))
	}
	si, err := h.StoredSysInfo()
	note("sysinfo", err)
	rb.Sys = projSys(si)
	return rb
}

var _ = packets.Publish
var _ = system.Info{}
