// Command vstore drives the bundled persistence hooks (badger, pebble, bolt, redis/miniredis) of the
// real broker and records what they did, for TLC (spec/Storage.tla, spec/TraceStorage*.tla).
//
//	vstore c22 <out.ndjson> <nrandom> <storeRoot> [sequences.json]   direct hook calls, read-back per backend
//	vstore c20 <histories.json> <out.ndjson> <storeRoot> [workers]    broker histories with restarts
//	vstore c21 <histories.json> <out.ndjson> <storeRoot> [workers]    broker histories x every crash point
//
// It contains no oracle: every expected answer is computed by TLC from the recorded lines.
package main

import (
	"os"

	"verifharness/hx"
)

func main() {
	if len(os.Args) < 2 {
		hx.Die("usage: vstore c22|c20|c21 ...")
	}
	switch os.Args[1] {
	case "c22":
		runC22(os.Args[2:])
	case "c20":
		runC20(os.Args[2:])
	case "c21":
		runC21(os.Args[2:])
	default:
		hx.Die("unknown subcommand %s", os.Args[1])
	}
}
