package main

func runC20(a []string) {}
func runC21(a []string) {}
