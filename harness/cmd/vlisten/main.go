// Command vlisten replays schedules of spec/Listener.tla (TCP accept loop against Server.Close) on a real server with
// a real TCP listener on the loopback interface.
//
//	vlisten run <scenarios.json> <out.ndjson>
//
// scenarios.json: [{"name":..,"steps":[{"who":"c1","what":"dial","res":"tcp.accepted"},{"who":"closer","what":"close","res":"returned"},
// {"who":"loop","what":"closed","res":"done"},...]}]   (who / what / res as logged by the model)
// Per scenario one "cfg" line, one "step" line per executed step (what the step did: got, res) and one "end" line taken after
// everything was let go and the server closed: the state of every client connection. No verdicts are formed here.
package main

import (
	"fmt"
	"io"
	"log/slog"
	"net"
	"os"
	"sync"
	"time"

	mqtt "github.com/mochi-mqtt/server/v2"
	"github.com/mochi-mqtt/server/v2/hooks/auth"
	"github.com/mochi-mqtt/server/v2/listeners"

	"verifharness/hx"
	"verifharness/refcodec"
)

type step struct {
	Who  string `json:"who"`
	What string `json:"what"`
	Res  string `json:"res"`
}

type scenario struct {
	Name  string `json:"name"`
	Steps []step `json:"steps"`
}

type line struct {
	Ev     string            `json:"ev"`
	Name   string            `json:"name"`
	I      int               `json:"i"`
	Who    string            `json:"who"`
	What   string            `json:"what"`
	Res    string            `json:"res"`
	Got    string            `json:"got"`    // what happened to the connection / call the step is about
	GotRes string            `json:"gotres"` // where the accept loop got to ("tcp.accepted" / "none"), or the call's result
	Conns  map[string]string `json:"conns"`  // end line: client -> "closed" | "open" | "never"
	Closer string            `json:"closer"`
	Note   string            `json:"note"`
}

type client struct {
	name   string
	conn   net.Conn
	mu     sync.Mutex
	buf    []byte
	closed bool
}

func (c *client) reader() {
	b := make([]byte, 4096)
	for {
		n, err := c.conn.Read(b)
		c.mu.Lock()
		c.buf = append(c.buf, b[:n]...)
		if err != nil {
			c.closed = true
			c.mu.Unlock()
			return
		}
		c.mu.Unlock()
	}
}

func (c *client) state() (int, bool) {
	c.mu.Lock()
	defer c.mu.Unlock()
	return len(c.buf), c.closed
}

const (
	wait     = 3 * time.Second
	waitNone = 40 * time.Millisecond
)

type nullWriter struct{}

func (nullWriter) Write(p []byte) (int, error) { return len(p), nil }

type run struct {
	srv      *mqtt.Server
	addr     string
	gated    bool
	mu       sync.Mutex
	loopArr  chan struct{}
	loopRel  chan struct{}
	hArr     chan string // remote address of the connection whose handler reached attach.added
	hRel     map[string]chan struct{}
	clients  map[string]*client
	byLocal  map[string]string // client's local address -> client name
	closeRet chan struct{}
}

func (r *run) isGated() bool { r.mu.Lock(); defer r.mu.Unlock(); return r.gated }

func (r *run) one(sc scenario) (out []line) {
	r.loopArr, r.loopRel = make(chan struct{}, 4), make(chan struct{})
	r.hArr, r.hRel = make(chan string, 8), map[string]chan struct{}{}
	r.clients, r.byLocal = map[string]*client{}, map[string]string{}
	r.closeRet = nil
	r.srv = mqtt.New(&mqtt.Options{Logger: slog.New(slog.NewTextHandler(nullWriter{}, &slog.HandlerOptions{Level: slog.LevelError + 8}))})
	_ = r.srv.AddHook(new(auth.AllowHook), nil)
	tcp := listeners.NewTCP(listeners.Config{ID: "t1", Address: "127.0.0.1:0"})
	if err := r.srv.AddListener(tcp); err != nil {
		return []line{{Ev: "cfg", Name: sc.Name}, {Ev: "end", Name: sc.Name, Note: "harness: listen: " + err.Error(), Conns: map[string]string{}}}
	}
	r.mu.Lock()
	r.gated = true
	r.mu.Unlock()
	listeners.VerifSched = func(point, id string) {
		if point == "tcp.accepted" && r.isGated() {
			r.loopArr <- struct{}{}
			<-r.loopRel
		}
	}
	mqtt.VerifSched = func(point string, cl *mqtt.Client) {
		if point != "attach.added" || cl == nil || cl.Net.Conn == nil || !r.isGated() {
			return
		}
		ra := cl.Net.Conn.RemoteAddr().String()
		ch := make(chan struct{})
		r.mu.Lock()
		r.hRel[ra] = ch
		r.mu.Unlock()
		r.hArr <- ra
		<-ch
	}
	defer func() { listeners.VerifSched = nil; mqtt.VerifSched = nil }()
	go func() { _ = r.srv.Serve() }()
	time.Sleep(2 * time.Millisecond)
	r.addr = tcp.Address()
	out = append(out, line{Ev: "cfg", Name: sc.Name, Conns: map[string]string{}})

	loopArrives := func(d time.Duration) bool {
		select {
		case <-r.loopArr:
			return true
		case <-time.After(d):
			return false
		}
	}
	closedWithin := func(c *client, d time.Duration) bool {
		dl := time.Now().Add(d)
		for time.Now().Before(dl) {
			if _, cl := c.state(); cl {
				return true
			}
			time.Sleep(200 * time.Microsecond)
		}
		return false
	}
	for i, st := range sc.Steps {
		ln := line{Ev: "step", Name: sc.Name, I: i + 1, Who: st.Who, What: st.What, Res: st.Res, Conns: map[string]string{}}
		switch {
		case st.What == "dial":
			conn, err := net.DialTimeout("tcp", r.addr, wait)
			if err != nil {
				ln.Got, ln.GotRes = "dial", "refused"
				r.clients[st.Who] = &client{name: st.Who, closed: true}
				break
			}
			c := &client{name: st.Who, conn: conn}
			r.clients[st.Who] = c
			r.byLocal[conn.LocalAddr().String()] = st.Who
			go c.reader()
			ln.Got = "dial"
			switch {
			case st.Res == "tcp.accepted" && loopArrives(wait), st.Res != "tcp.accepted" && loopArrives(waitNone):
				ln.GotRes = "tcp.accepted"
			case closedWithin(c, waitNone): // a listener that has been closed: the kernel resets the connection
				ln.GotRes = "refused"
			default:
				ln.GotRes = "connected"
			}
		case st.Who == "loop":
			// the connection the loop holds: the model's fate tells which client it is only through the order of the
			// dial steps; the runner asks the connections themselves
			r.loopRel <- struct{}{}
			if st.What == "spawned" {
				select {
				case ra := <-r.hArr:
					ln.Got = "spawned"
					ln.Note = r.byLocal[ra]
				case <-time.After(wait):
					ln.Got = "nothing"
				}
			} else {
				// no handler may start (the observation of the connections tells whether the held one was closed)
				select {
				case ra := <-r.hArr:
					ln.Got, ln.Note = "spawned", r.byLocal[ra]
				case <-time.After(waitNone):
					ln.Got = "none"
				}
			}
			if st.Res == "tcp.accepted" && loopArrives(wait) || st.Res != "tcp.accepted" && loopArrives(waitNone) {
				ln.GotRes = "tcp.accepted"
			} else {
				ln.GotRes = "none"
			}
		case st.What == "start":
			c := r.clients[st.Who]
			if c == nil || c.conn == nil {
				ln.Got = "no-connection"
				break
			}
			r.mu.Lock()
			ch := r.hRel[c.conn.LocalAddr().String()]
			delete(r.hRel, c.conn.LocalAddr().String())
			r.mu.Unlock()
			if ch == nil {
				ln.Got = "not-parked"
				break
			}
			close(ch)
			p := refcodec.New(refcodec.Connect, 4)
			p.ProtoName, p.ProtoVersion, p.ClientID, p.ConnectFlags = "MQTT", 4, st.Who, 2
			_, _ = c.conn.Write(refcodec.Encode(p))
			ln.Got = "start"
			dl := time.Now().Add(wait)
			ln.GotRes = "nothing"
			for time.Now().Before(dl) {
				n, cl := c.state()
				if n >= 4 {
					ln.GotRes = "connack"
					break
				}
				if cl {
					ln.GotRes = "closed"
					break
				}
				time.Sleep(200 * time.Microsecond)
			}
		case st.Who == "closer":
			r.closeRet = make(chan struct{})
			go func(ch chan struct{}) { _ = r.srv.Close(); close(ch) }(r.closeRet)
			ln.Got = "close"
			select {
			case <-r.closeRet:
				ln.GotRes = "returned"
			case <-time.After(8 * waitNone):
				ln.GotRes = "waiting"
			}
		default:
			ln.Got = "unknown-step"
		}
		if st.Who == "loop" && st.What != "spawned" || st.Who == "closer" {
			time.Sleep(waitNone) // a close needs a moment to reach the client's reader
		} else {
			time.Sleep(time.Millisecond)
		}
		ln.Conns = r.snapshot()
		if r.closeRet != nil {
			ln.Closer = "waiting"
			select {
			case <-r.closeRet:
				ln.Closer = "returned"
			default:
			}
		}
		out = append(out, ln)
		if ln.Got == "unknown-step" || ln.Got == "not-parked" || ln.Got == "no-connection" {
			break
		}
	}

	// drain: the server is closed if the schedule did not, everything is let go, then the connections are looked at
	if r.closeRet == nil {
		r.closeRet = make(chan struct{})
		go func(ch chan struct{}) { _ = r.srv.Close(); close(ch) }(r.closeRet)
	}
	end := line{Ev: "end", Name: sc.Name, Conns: map[string]string{}, Closer: "returned"}
	r.mu.Lock()
	r.gated = false
	for k, ch := range r.hRel {
		close(ch)
		delete(r.hRel, k)
	}
	r.mu.Unlock()
	for done := false; !done; {
		select {
		case r.loopRel <- struct{}{}:
		case <-time.After(5 * time.Millisecond):
			done = true
		}
	}
	select {
	case <-r.closeRet:
	case <-time.After(wait):
		end.Closer = "blocked"
	}
	time.Sleep(150 * time.Millisecond)
	end.Conns = r.snapshot()
	for _, c := range r.clients {
		if c.conn != nil {
			_ = c.conn.Close()
		}
	}
	return append(out, end)
}

func (r *run) snapshot() map[string]string {
	m := map[string]string{}
	for name, c := range r.clients {
		switch {
		case c.conn == nil:
			m[name] = "never"
		default:
			if _, cl := c.state(); cl {
				m[name] = "closed"
			} else {
				m[name] = "open"
			}
		}
	}
	return m
}

func main() {
	if len(os.Args) < 4 || os.Args[1] != "run" {
		hx.Die("usage: vlisten run <scenarios.json> <out.ndjson>")
	}
	var scs []scenario
	hx.ReadJSON(os.Args[2], &scs)
	w := hx.NewND(os.Args[3])
	r := &run{}
	for _, sc := range scs {
		for _, l := range r.one(sc) {
			w.Put(l)
		}
	}
	w.Close()
	_ = fmt.Sprint
	_ = io.EOF
}
