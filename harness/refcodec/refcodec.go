// Package refcodec is an independent reference codec for MQTT 3.1, 3.1.1 and 5.0
// control packets. It is written from the OASIS texts (MQTT Version 3.1.1 OASIS
// Standard, 29 October 2014; MQTT Version 5.0 OASIS Standard, 7 March 2019; and the
// IBM/Eurotech MQTT V3.1 Protocol Specification) and uses only the standard library.
// It is the oracle that judges the bytes written by the broker under test, and the
// tool that crafts (valid and deliberately invalid) client packets.
//
// Two decoders are offered:
//
//	Decode         strict: every rule the standards impose on a single well-formed
//	               packet of the given type, version and direction is enforced; a
//	               violation is reported as *Malformed whose Rule names the rule.
//	DecodeLenient  diagnostic: structure only (bounds, lengths, known property ids).
//
// Rule names reported by Decode (stable identifiers, see the places they are raised):
//
//	length                   truncated field, declared length exceeding the available
//	                         bytes, trailing bytes, wrong fixed size
//	remaining-length         malformed remaining-length variable byte integer
//	vbi                      malformed variable byte integer inside the body
//	vbi-nonminimal           v5 variable byte integer not in its minimal form
//	version                  protocol version argument is not 3, 4 or 5
//	packet-type              reserved packet type 0
//	v3-auth                  packet type 15 under MQTT 3.1 / 3.1.1
//	direction                packet type that this side may never send
//	v3-server-disconnect     DISCONNECT sent by a server under MQTT 3.1 / 3.1.1
//	reserved-flags           fixed-header flag bits differ from the mandatory value
//	qos3                     PUBLISH with both QoS bits set
//	dup-qos0                 PUBLISH with DUP=1 and QoS 0
//	utf8                     ill-formed UTF-8, surrogate, or U+0000 in a string
//	zero-packet-id           packet identifier 0 where one is required
//	v3-has-properties        a v3/v4 packet of fixed size carries extra bytes
//	                         (reason code / properties of the v5 layout)
//	property-unknown         property identifier not defined by MQTT 5
//	property-not-allowed     property not permitted in this packet (or by this sender)
//	dup-property             non-repeatable property present more than once
//	property-value           byte property outside its defined values
//	subscription-id-zero, topic-alias-zero, receive-maximum-zero,
//	maximum-packet-size-zero
//	subid-from-client        Subscription Identifier in a PUBLISH sent by a client
//	response-topic-wildcard  wildcard characters in a Response Topic
//	auth-data-without-method Authentication Data without Authentication Method
//	auth-method-missing      AUTH property block without Authentication Method
//	reason-code              reason / return code not defined for this packet
//	reason-code-direction    DISCONNECT/AUTH reason code this side may not send
//	connack-flags            reserved bits of the connect acknowledge flags
//	v3-session-present       MQTT 3.1 CONNACK with a non-zero first (reserved) byte
//	session-present-with-error
//	empty-list               SUBSCRIBE/UNSUBSCRIBE/SUBACK/(v5)UNSUBACK without entries
//	subscribe-options        reserved option bits, QoS 3, Retain Handling 3
//	nolocal-shared           No Local set on a shared subscription
//	topic-filter             topic filter violating the wildcard placement rules
//	shared-filter            malformed $share filter
//	empty-filter             zero-length topic filter
//	empty-topic              zero-length topic name (v5: without a topic alias)
//	topic-wildcard           wildcard character in a topic name
//	protocol-name, protocol-version, connect-reserved-flag, will-qos3, will-flags,
//	password-without-username (v3/v4 only)
package refcodec

import (
	"encoding/binary"
	"fmt"
	"strings"
	"unicode/utf8"
)

// Control packet types (MQTT 5 table 2-1).
const (
	Reserved    byte = 0
	Connect     byte = 1
	Connack     byte = 2
	Publish     byte = 3
	Puback      byte = 4
	Pubrec      byte = 5
	Pubrel      byte = 6
	Pubcomp     byte = 7
	Subscribe   byte = 8
	Suback      byte = 9
	Unsubscribe byte = 10
	Unsuback    byte = 11
	Pingreq     byte = 12
	Pingresp    byte = 13
	Disconnect  byte = 14
	Auth        byte = 15
)

var typeNames = [16]string{"RESERVED", "CONNECT", "CONNACK", "PUBLISH", "PUBACK", "PUBREC", "PUBREL",
	"PUBCOMP", "SUBSCRIBE", "SUBACK", "UNSUBSCRIBE", "UNSUBACK", "PINGREQ", "PINGRESP", "DISCONNECT", "AUTH"}

// TypeName returns the standard's name of a packet type.
func TypeName(t byte) string {
	if t < 16 {
		return typeNames[t]
	}
	return fmt.Sprintf("TYPE%d", t)
}

// Property identifiers (MQTT 5 table 2-4).
const (
	PropPayloadFormat        byte = 0x01
	PropMessageExpiry        byte = 0x02
	PropContentType          byte = 0x03
	PropResponseTopic        byte = 0x08
	PropCorrelationData      byte = 0x09
	PropSubscriptionID       byte = 0x0B
	PropSessionExpiry        byte = 0x11
	PropAssignedClientID     byte = 0x12
	PropServerKeepAlive      byte = 0x13
	PropAuthMethod           byte = 0x15
	PropAuthData             byte = 0x16
	PropRequestProblemInfo   byte = 0x17
	PropWillDelay            byte = 0x18
	PropRequestResponseInfo  byte = 0x19
	PropResponseInfo         byte = 0x1A
	PropServerReference      byte = 0x1C
	PropReasonString         byte = 0x1F
	PropReceiveMaximum       byte = 0x21
	PropTopicAliasMax        byte = 0x22
	PropTopicAlias           byte = 0x23
	PropMaximumQos           byte = 0x24
	PropRetainAvailable      byte = 0x25
	PropUser                 byte = 0x26
	PropMaximumPacketSize    byte = 0x27
	PropWildcardSubAvailable byte = 0x28
	PropSubIDAvailable       byte = 0x29
	PropSharedSubAvailable   byte = 0x2A
)

// MaxVBI is the largest value a variable byte integer can carry.
const MaxVBI = 268435455

// Dir says which side of the connection sent a packet.
type Dir int

const (
	// FromClient marks a packet sent by a client.
	FromClient Dir = 1
	// FromServer marks a packet sent by the server.
	FromServer Dir = 2
)

func (d Dir) String() string {
	switch d {
	case FromClient:
		return "client"
	case FromServer:
		return "server"
	}
	return "unknown-direction"
}

// Prop is one property occurrence, in wire order.
type Prop struct {
	ID  byte   `json:"id"`
	Int uint32 `json:"int,omitempty"` // byte / two-byte / four-byte / varint valued properties
	Str string `json:"str,omitempty"` // UTF-8 string valued properties; key of a user property
	Val string `json:"val,omitempty"` // value of a user property
	Bin []byte `json:"bin,omitempty"` // binary data properties
}

// Filter is one SUBSCRIBE / UNSUBSCRIBE payload entry.
type Filter struct {
	Filter  string `json:"filter"`
	Options byte   `json:"options"` // raw options byte (v5: qos | nl<<2 | rap<<3 | rh<<4 ; v3: requested qos). For UNSUBSCRIBE unused.
}

// Qos returns the maximum QoS bits of the subscription options.
func (f Filter) Qos() byte { return f.Options & 0x03 }

// NoLocal returns the No Local bit of the subscription options.
func (f Filter) NoLocal() bool { return f.Options&0x04 != 0 }

// RetainAsPublished returns the Retain As Published bit of the subscription options.
func (f Filter) RetainAsPublished() bool { return f.Options&0x08 != 0 }

// RetainHandling returns the Retain Handling bits of the subscription options.
func (f Filter) RetainHandling() byte { return (f.Options >> 4) & 0x03 }

// Packet is one MQTT control packet.
type Packet struct {
	Type    byte `json:"type"`
	Flags   byte `json:"flags"`   // low nibble of byte 1 as on the wire
	Version byte `json:"version"` // protocol version used to encode/decode: 3, 4 or 5
	// PUBLISH (derived from Flags on decode; used to build Flags on encode when Type==Publish)
	Dup      bool   `json:"dup,omitempty"`
	Qos      byte   `json:"qos,omitempty"`
	Retain   bool   `json:"retain,omitempty"`
	Topic    string `json:"topic,omitempty"`
	PacketID uint16 `json:"pid,omitempty"`
	Payload  []byte `json:"payload,omitempty"`
	// CONNECT
	ProtoName    string `json:"proto_name,omitempty"`
	ProtoVersion byte   `json:"proto_version,omitempty"`
	ConnectFlags byte   `json:"connect_flags,omitempty"` // raw flags byte
	KeepAlive    uint16 `json:"keepalive,omitempty"`
	ClientID     string `json:"client_id,omitempty"`
	WillProps    []Prop `json:"will_props,omitempty"`
	HasWillProps bool   `json:"has_will_props,omitempty"`
	WillTopic    string `json:"will_topic,omitempty"`
	WillPayload  []byte `json:"will_payload,omitempty"`
	Username     []byte `json:"username,omitempty"`
	Password     []byte `json:"password,omitempty"`
	// CONNACK
	SessionPresent bool `json:"session_present,omitempty"`
	// CONNACK / PUBACK / PUBREC / PUBREL / PUBCOMP / DISCONNECT / AUTH
	ReasonCode byte `json:"reason,omitempty"`
	HasReason  bool `json:"has_reason,omitempty"` // the reason-code byte was physically present / should be written
	// SUBSCRIBE / UNSUBSCRIBE
	Filters []Filter `json:"filters,omitempty"`
	// SUBACK / UNSUBACK
	ReasonCodes []byte `json:"reason_codes,omitempty"`
	// properties (v5). HasProps: a property-length field was physically present / should be written.
	Props    []Prop `json:"props,omitempty"`
	HasProps bool   `json:"has_props,omitempty"`

	Raw []byte `json:"-"` // complete bytes of the packet as decoded
}

// Connect flag bits (MQTT 5 section 3.1.2.3).
const (
	FlagCleanStart byte = 0x02
	FlagWill       byte = 0x04
	FlagWillQos1   byte = 0x08
	FlagWillQos2   byte = 0x10
	FlagWillRetain byte = 0x20
	FlagPassword   byte = 0x40
	FlagUsername   byte = 0x80
)

// CleanStart returns the Clean Start (v5) / Clean Session (v3) connect flag.
func (p *Packet) CleanStart() bool { return p.ConnectFlags&FlagCleanStart != 0 }

// WillFlag returns the Will Flag connect flag.
func (p *Packet) WillFlag() bool { return p.ConnectFlags&FlagWill != 0 }

// WillQos returns the two Will QoS bits of the connect flags.
func (p *Packet) WillQos() byte { return (p.ConnectFlags >> 3) & 0x03 }

// WillRetain returns the Will Retain connect flag.
func (p *Packet) WillRetain() bool { return p.ConnectFlags&FlagWillRetain != 0 }

// PasswordFlag returns the Password Flag connect flag.
func (p *Packet) PasswordFlag() bool { return p.ConnectFlags&FlagPassword != 0 }

// UsernameFlag returns the User Name Flag connect flag.
func (p *Packet) UsernameFlag() bool { return p.ConnectFlags&FlagUsername != 0 }

// Prop returns the first occurrence of property id in p.Props.
func (p *Packet) Prop(id byte) (Prop, bool) {
	for _, pr := range p.Props {
		if pr.ID == id {
			return pr, true
		}
	}
	return Prop{}, false
}

// PropsOf returns all occurrences of property id in p.Props, in wire order.
func (p *Packet) PropsOf(id byte) []Prop {
	var out []Prop
	for _, pr := range p.Props {
		if pr.ID == id {
			out = append(out, pr)
		}
	}
	return out
}

// DefaultFlags returns the mandatory fixed-header flags of packet type t
// (MQTT 5 table 2-2): 2 for PUBREL, SUBSCRIBE and UNSUBSCRIBE, 0 otherwise
// (for PUBLISH the flags are derived from Dup/Qos/Retain).
func DefaultFlags(t byte) byte {
	switch t {
	case Pubrel, Subscribe, Unsubscribe:
		return 2
	}
	return 0
}

// New returns a packet of type t for protocol version `version` with the
// mandatory fixed-header flags. For CONNECT the protocol name and protocol
// version fields are filled in as well.
func New(t byte, version byte) *Packet {
	p := &Packet{Type: t, Version: version, Flags: DefaultFlags(t)}
	if t == Connect {
		p.ProtoVersion = version
		if version == 3 {
			p.ProtoName = "MQIsdp"
		} else {
			p.ProtoName = "MQTT"
		}
	}
	return p
}

// Malformed is the error of the decoders. Rule names the violated rule.
type Malformed struct {
	Rule   string
	Detail string
}

func (m *Malformed) Error() string {
	if m.Detail == "" {
		return "malformed packet: " + m.Rule
	}
	return "malformed packet: " + m.Rule + ": " + m.Detail
}

func mal(rule, format string, args ...interface{}) *Malformed {
	return &Malformed{Rule: rule, Detail: fmt.Sprintf(format, args...)}
}

// RuleOf returns the Rule of a *Malformed error, "" for nil, and "error" for
// any other error.
func RuleOf(err error) string {
	if err == nil {
		return ""
	}
	if m, ok := err.(*Malformed); ok {
		return m.Rule
	}
	return "error"
}

// ---------------------------------------------------------------------------
// Variable byte integer (MQTT 5 section 1.5.5, MQTT 3.1.1 section 2.2.3)
// ---------------------------------------------------------------------------

// EncodeVBI returns the minimal variable byte integer encoding of v.
// It panics if v exceeds MaxVBI.
func EncodeVBI(v uint32) []byte {
	if v > MaxVBI {
		panic(fmt.Sprintf("refcodec: variable byte integer %d out of range", v))
	}
	return appendVBI(nil, v)
}

// appendVBI is the encoding algorithm of the standard without the range check:
// values above MaxVBI produce a (malformed) five-byte encoding.
func appendVBI(out []byte, v uint32) []byte {
	for {
		d := byte(v % 128)
		v /= 128
		if v > 0 {
			d |= 0x80
		}
		out = append(out, d)
		if v == 0 {
			return out
		}
	}
}

// DecodeVBI decodes a variable byte integer from the start of b. n is the number
// of bytes used. An encoding is at most four bytes long: a fourth byte with the
// continuation bit set is an error, as is running out of input.
func DecodeVBI(b []byte) (value uint32, n int, err error) {
	var mult uint32 = 1
	for i := 0; i < 4; i++ {
		if i >= len(b) {
			return 0, 0, mal("length", "variable byte integer truncated after %d byte(s)", i)
		}
		c := b[i]
		value += uint32(c&0x7F) * mult
		if c&0x80 == 0 {
			return value, i + 1, nil
		}
		mult *= 128
	}
	return 0, 0, mal("vbi", "variable byte integer longer than 4 bytes")
}

func vbiLen(v uint32) int {
	switch {
	case v < 128:
		return 1
	case v < 16384:
		return 2
	case v < 2097152:
		return 3
	}
	return 4
}

// ---------------------------------------------------------------------------
// Property table (MQTT 5 table 2-4)
// ---------------------------------------------------------------------------

type propKind int

const (
	kByte propKind = iota + 1
	kU16
	kU32
	kVBI
	kStr
	kBin
	kPair
)

// contexts in which a property block can occur
const (
	inConnect uint32 = 1 << iota
	inWill
	inConnack
	inPublish
	inPuback
	inPubrec
	inPubrel
	inPubcomp
	inSubscribe
	inSuback
	inUnsubscribe
	inUnsuback
	inDisconnect
	inAuth
)

const inAllAcks = inPuback | inPubrec | inPubrel | inPubcomp | inSuback | inUnsuback

type propSpec struct {
	kind  propKind
	where uint32
	name  string
}

var propTable = map[byte]propSpec{
	PropPayloadFormat:        {kByte, inPublish | inWill, "Payload Format Indicator"},
	PropMessageExpiry:        {kU32, inPublish | inWill, "Message Expiry Interval"},
	PropContentType:          {kStr, inPublish | inWill, "Content Type"},
	PropResponseTopic:        {kStr, inPublish | inWill, "Response Topic"},
	PropCorrelationData:      {kBin, inPublish | inWill, "Correlation Data"},
	PropSubscriptionID:       {kVBI, inPublish | inSubscribe, "Subscription Identifier"},
	PropSessionExpiry:        {kU32, inConnect | inConnack | inDisconnect, "Session Expiry Interval"},
	PropAssignedClientID:     {kStr, inConnack, "Assigned Client Identifier"},
	PropServerKeepAlive:      {kU16, inConnack, "Server Keep Alive"},
	PropAuthMethod:           {kStr, inConnect | inConnack | inAuth, "Authentication Method"},
	PropAuthData:             {kBin, inConnect | inConnack | inAuth, "Authentication Data"},
	PropRequestProblemInfo:   {kByte, inConnect, "Request Problem Information"},
	PropWillDelay:            {kU32, inWill, "Will Delay Interval"},
	PropRequestResponseInfo:  {kByte, inConnect, "Request Response Information"},
	PropResponseInfo:         {kStr, inConnack, "Response Information"},
	PropServerReference:      {kStr, inConnack | inDisconnect, "Server Reference"},
	PropReasonString:         {kStr, inConnack | inAllAcks | inDisconnect | inAuth, "Reason String"},
	PropReceiveMaximum:       {kU16, inConnect | inConnack, "Receive Maximum"},
	PropTopicAliasMax:        {kU16, inConnect | inConnack, "Topic Alias Maximum"},
	PropTopicAlias:           {kU16, inPublish, "Topic Alias"},
	PropMaximumQos:           {kByte, inConnack, "Maximum QoS"},
	PropRetainAvailable:      {kByte, inConnack, "Retain Available"},
	PropUser:                 {kPair, inConnect | inConnack | inPublish | inWill | inAllAcks | inSubscribe | inUnsubscribe | inDisconnect | inAuth, "User Property"},
	PropMaximumPacketSize:    {kU32, inConnect | inConnack, "Maximum Packet Size"},
	PropWildcardSubAvailable: {kByte, inConnack, "Wildcard Subscription Available"},
	PropSubIDAvailable:       {kByte, inConnack, "Subscription Identifier Available"},
	PropSharedSubAvailable:   {kByte, inConnack, "Shared Subscription Available"},
}

// PropName returns the standard's name of a property identifier.
func PropName(id byte) string {
	if s, ok := propTable[id]; ok {
		return s.name
	}
	return fmt.Sprintf("property 0x%02X", id)
}

var ctxOfType = [16]uint32{
	Connect: inConnect, Connack: inConnack, Publish: inPublish, Puback: inPuback, Pubrec: inPubrec,
	Pubrel: inPubrel, Pubcomp: inPubcomp, Subscribe: inSubscribe, Suback: inSuback,
	Unsubscribe: inUnsubscribe, Unsuback: inUnsuback, Disconnect: inDisconnect, Auth: inAuth,
}

// ---------------------------------------------------------------------------
// Reason codes (MQTT 5 section 2.4 and the per-packet tables of chapter 3)
// ---------------------------------------------------------------------------

func codeSet(codes ...byte) map[byte]bool {
	m := make(map[byte]bool, len(codes))
	for _, c := range codes {
		m[c] = true
	}
	return m
}

var (
	connackCodes5 = codeSet(0x00, 0x80, 0x81, 0x82, 0x83, 0x84, 0x85, 0x86, 0x87, 0x88, 0x89, 0x8A,
		0x8C, 0x90, 0x95, 0x97, 0x99, 0x9A, 0x9B, 0x9C, 0x9D, 0x9F)
	pubackCodes5   = codeSet(0x00, 0x10, 0x80, 0x83, 0x87, 0x90, 0x91, 0x97, 0x99) // also PUBREC
	pubrelCodes5   = codeSet(0x00, 0x92)                                           // also PUBCOMP
	subackCodes5   = codeSet(0x00, 0x01, 0x02, 0x80, 0x83, 0x87, 0x8F, 0x91, 0x97, 0x9E, 0xA1, 0xA2)
	unsubackCodes5 = codeSet(0x00, 0x11, 0x80, 0x83, 0x87, 0x8F, 0x91)
	// DISCONNECT: section 3.14.2.1 plus 0x8C, which table 2-6 of section 2.4 lists for DISCONNECT.
	disconnectCodes5 = codeSet(0x00, 0x04, 0x80, 0x81, 0x82, 0x83, 0x87, 0x89, 0x8B, 0x8C, 0x8D, 0x8E, 0x8F,
		0x90, 0x93, 0x94, 0x95, 0x96, 0x97, 0x98, 0x99, 0x9A, 0x9B, 0x9C, 0x9D, 0x9E, 0x9F, 0xA0, 0xA1, 0xA2)
	disconnectClientOnly = codeSet(0x04)
	disconnectServerOnly = codeSet(0x87, 0x89, 0x8B, 0x8D, 0x8E, 0x8F, 0x9A, 0x9B, 0x9C, 0x9D, 0x9E, 0x9F, 0xA0, 0xA1, 0xA2)
	authCodes5           = codeSet(0x00, 0x18, 0x19)
	authClientOnly       = codeSet(0x19)
	authServerOnly       = codeSet(0x00)
)

// ReasonCodeDefined reports whether reason code c is defined by MQTT 5 for
// packet type t (for SUBACK/UNSUBACK: as a payload entry).
func ReasonCodeDefined(t byte, c byte) bool {
	switch t {
	case Connack:
		return connackCodes5[c]
	case Puback, Pubrec:
		return pubackCodes5[c]
	case Pubrel, Pubcomp:
		return pubrelCodes5[c]
	case Suback:
		return subackCodes5[c]
	case Unsuback:
		return unsubackCodes5[c]
	case Disconnect:
		return disconnectCodes5[c]
	case Auth:
		return authCodes5[c]
	}
	return false
}

// ---------------------------------------------------------------------------
// Encoding
// ---------------------------------------------------------------------------

func appendU16(out []byte, v uint16) []byte { return append(out, byte(v>>8), byte(v)) }

func appendU32(out []byte, v uint32) []byte {
	return append(out, byte(v>>24), byte(v>>16), byte(v>>8), byte(v))
}

// appendBin writes a two-byte length followed by the data. Data longer than
// 65535 bytes gets a wrapped-around length (the result is then malformed).
func appendBin(out []byte, b []byte) []byte {
	out = appendU16(out, uint16(len(b)))
	return append(out, b...)
}

func appendStr(out []byte, s string) []byte {
	out = appendU16(out, uint16(len(s)))
	return append(out, s...)
}

func appendProp(out []byte, pr Prop) []byte {
	out = append(out, pr.ID)
	spec, ok := propTable[pr.ID]
	if !ok {
		return append(out, pr.Bin...)
	}
	switch spec.kind {
	case kByte:
		out = append(out, byte(pr.Int))
	case kU16:
		out = appendU16(out, uint16(pr.Int))
	case kU32:
		out = appendU32(out, pr.Int)
	case kVBI:
		out = appendVBI(out, pr.Int)
	case kStr:
		out = appendStr(out, pr.Str)
	case kBin:
		out = appendBin(out, pr.Bin)
	case kPair:
		out = appendStr(out, pr.Str)
		out = appendStr(out, pr.Val)
	}
	return out
}

// EncodeProps returns a complete property block (length prefix included).
func EncodeProps(props []Prop) []byte { return appendProps(nil, props) }

func appendProps(out []byte, props []Prop) []byte {
	var blk []byte
	for _, pr := range props {
		blk = appendProp(blk, pr)
	}
	out = appendVBI(out, uint32(len(blk)))
	return append(out, blk...)
}

func b2b(b bool) byte {
	if b {
		return 1
	}
	return 0
}

func encodeBody(p *Packet) []byte {
	v5 := p.Version == 5
	var out []byte
	switch p.Type {
	case Connect:
		if p.Version == 0 {
			v5 = p.ProtoVersion == 5
		}
		out = appendStr(out, p.ProtoName)
		out = append(out, p.ProtoVersion, p.ConnectFlags)
		out = appendU16(out, p.KeepAlive)
		if v5 {
			out = appendProps(out, p.Props)
		}
		out = appendStr(out, p.ClientID)
		if p.WillFlag() {
			if v5 {
				out = appendProps(out, p.WillProps)
			}
			out = appendStr(out, p.WillTopic)
			out = appendBin(out, p.WillPayload)
		}
		if p.UsernameFlag() {
			out = appendBin(out, p.Username)
		}
		if p.PasswordFlag() {
			out = appendBin(out, p.Password)
		}
	case Connack:
		out = append(out, b2b(p.SessionPresent), p.ReasonCode)
		if v5 {
			out = appendProps(out, p.Props)
		}
	case Publish:
		out = appendStr(out, p.Topic)
		if p.Qos > 0 {
			out = appendU16(out, p.PacketID)
		}
		if v5 {
			out = appendProps(out, p.Props)
		}
		out = append(out, p.Payload...)
	case Puback, Pubrec, Pubrel, Pubcomp:
		out = appendU16(out, p.PacketID)
		if v5 {
			if p.HasReason || p.HasProps {
				out = append(out, p.ReasonCode)
			}
			if p.HasProps {
				out = appendProps(out, p.Props)
			}
		}
	case Subscribe:
		out = appendU16(out, p.PacketID)
		if v5 {
			out = appendProps(out, p.Props)
		}
		for _, f := range p.Filters {
			out = appendStr(out, f.Filter)
			out = append(out, f.Options)
		}
	case Unsubscribe:
		out = appendU16(out, p.PacketID)
		if v5 {
			out = appendProps(out, p.Props)
		}
		for _, f := range p.Filters {
			out = appendStr(out, f.Filter)
		}
	case Suback:
		out = appendU16(out, p.PacketID)
		if v5 {
			out = appendProps(out, p.Props)
		}
		out = append(out, p.ReasonCodes...)
	case Unsuback:
		out = appendU16(out, p.PacketID)
		if v5 {
			out = appendProps(out, p.Props)
			out = append(out, p.ReasonCodes...)
		}
	case Pingreq, Pingresp:
	case Disconnect, Auth:
		if v5 {
			if p.HasReason || p.HasProps {
				out = append(out, p.ReasonCode)
			}
			if p.HasProps {
				out = appendProps(out, p.Props)
			}
		}
	}
	return out
}

func firstByte(p *Packet) byte {
	flags := p.Flags & 0x0F
	if p.Type == Publish {
		flags |= b2b(p.Dup)<<3 | (p.Qos&0x03)<<1 | b2b(p.Retain)
	}
	return p.Type<<4 | flags
}

// Encode produces the wire bytes for p exactly as described by its fields, for
// p.Version. It does not validate anything: protocol-violating combinations are
// written as given. See the package documentation of the fields for what is
// written when.
func Encode(p *Packet) []byte {
	body := encodeBody(p)
	out := make([]byte, 0, len(body)+5)
	out = append(out, firstByte(p))
	out = appendVBI(out, uint32(len(body)))
	return append(out, body...)
}

// EncodeWithRemaining is Encode with a caller-chosen remaining-length value
// (the body itself is unchanged).
func EncodeWithRemaining(p *Packet, declared int) []byte {
	body := encodeBody(p)
	out := make([]byte, 0, len(body)+5)
	out = append(out, firstByte(p))
	if declared < 0 {
		declared = 0
	}
	out = appendVBI(out, uint32(declared))
	return append(out, body...)
}

// ---------------------------------------------------------------------------
// Stream splitting
// ---------------------------------------------------------------------------

// SplitStream cuts a byte stream into complete packets without interpreting
// their bodies. It returns copies of the raw packets and the number of bytes
// consumed; bytes that do not yet form a complete packet stay unconsumed. A
// malformed remaining length (a fourth length byte with the continuation bit)
// gives an error; the packets before it are still returned.
func SplitStream(b []byte) (pkts [][]byte, consumed int, err error) {
	for consumed < len(b) {
		rest := b[consumed:]
		if len(rest) < 2 {
			return pkts, consumed, nil
		}
		rem, n, derr := DecodeVBI(rest[1:])
		if derr != nil {
			if m, ok := derr.(*Malformed); ok && m.Rule == "length" {
				return pkts, consumed, nil // length bytes not complete yet
			}
			return pkts, consumed, mal("remaining-length", "at stream offset %d: remaining length longer than 4 bytes", consumed)
		}
		total := 1 + n + int(rem)
		if len(rest) < total {
			return pkts, consumed, nil
		}
		pk := make([]byte, total)
		copy(pk, rest[:total])
		pkts = append(pkts, pk)
		consumed += total
	}
	return pkts, consumed, nil
}

// ---------------------------------------------------------------------------
// Decoding
// ---------------------------------------------------------------------------

type reader struct {
	b      []byte
	pos    int
	strict bool
	v5     bool
}

func (r *reader) left() int { return len(r.b) - r.pos }

func (r *reader) u8(what string) (byte, error) {
	if r.left() < 1 {
		return 0, mal("length", "truncated: %s needs 1 byte, 0 left", what)
	}
	v := r.b[r.pos]
	r.pos++
	return v, nil
}

func (r *reader) u16(what string) (uint16, error) {
	if r.left() < 2 {
		return 0, mal("length", "truncated: %s needs 2 bytes, %d left", what, r.left())
	}
	v := binary.BigEndian.Uint16(r.b[r.pos:])
	r.pos += 2
	return v, nil
}

func (r *reader) u32(what string) (uint32, error) {
	if r.left() < 4 {
		return 0, mal("length", "truncated: %s needs 4 bytes, %d left", what, r.left())
	}
	v := binary.BigEndian.Uint32(r.b[r.pos:])
	r.pos += 4
	return v, nil
}

func (r *reader) vbi(what string) (uint32, error) {
	v, n, err := DecodeVBI(r.b[r.pos:])
	if err != nil {
		m := err.(*Malformed)
		return 0, mal(m.Rule, "%s: %s", what, m.Detail)
	}
	r.pos += n
	if r.strict && r.v5 && n != vbiLen(v) {
		return 0, mal("vbi-nonminimal", "%s: value %d encoded in %d bytes", what, v, n)
	}
	return v, nil
}

// take returns the next n bytes without copying.
func (r *reader) take(n int, what string) ([]byte, error) {
	if n < 0 || r.left() < n {
		return nil, mal("length", "truncated: %s declares %d bytes, %d left", what, n, r.left())
	}
	v := r.b[r.pos : r.pos+n]
	r.pos += n
	return v, nil
}

func (r *reader) bin(what string) ([]byte, error) {
	n, err := r.u16(what + " length")
	if err != nil {
		return nil, err
	}
	v, err := r.take(int(n), what)
	if err != nil {
		return nil, err
	}
	out := make([]byte, len(v))
	copy(out, v)
	return out, nil
}

// checkUTF8 enforces MQTT 5 section 1.5.4 / MQTT 3.1.1 section 1.5.3: well-formed
// UTF-8 (which excludes encodings of U+D800..U+DFFF) and no U+0000.
func checkUTF8(b []byte, what string) error {
	if !utf8.Valid(b) {
		return mal("utf8", "%s is not well-formed UTF-8", what)
	}
	for _, c := range b {
		if c == 0 {
			return mal("utf8", "%s contains U+0000", what)
		}
	}
	return nil
}

func (r *reader) str(what string) (string, error) {
	n, err := r.u16(what + " length")
	if err != nil {
		return "", err
	}
	v, err := r.take(int(n), what)
	if err != nil {
		return "", err
	}
	if r.strict {
		if err := checkUTF8(v, what); err != nil {
			return "", err
		}
	}
	return string(v), nil
}

type decoder struct {
	strict  bool
	dir     Dir
	version byte
}

// Decode parses exactly one complete packet from b (fixed header plus exactly
// remaining-length bytes) under protocol `version` (3, 4 or 5; for a CONNECT the
// version is taken from the packet and the argument is ignored), sent by `dir`.
// It is strict: anything the standard forbids in a well-formed packet of that
// type, version and direction yields a *Malformed error naming the rule.
func Decode(b []byte, version byte, dir Dir) (*Packet, error) {
	d := &decoder{strict: true, dir: dir, version: version}
	p, err := d.decode(b)
	if err != nil {
		return nil, err
	}
	return p, nil
}

// DecodeLenient parses what it can without the well-formedness rules; it is meant
// for diagnostics only. It still fails (with *Malformed) when the structure cannot
// be followed: truncated fields, lengths exceeding the packet, unknown property
// identifiers, malformed variable byte integers. Bytes after the declared
// remaining length, or after the last field of a fixed-layout packet, are
// ignored. A version other than 3 or 5 is treated as 4. On error the partially
// filled packet is returned together with the error.
func DecodeLenient(b []byte, version byte) (*Packet, error) {
	d := &decoder{strict: false, version: version}
	p, err := d.decode(b)
	if err != nil {
		return p, err
	}
	return p, nil
}

func (d *decoder) decode(b []byte) (*Packet, error) {
	if len(b) < 2 {
		return nil, mal("length", "a packet has at least 2 bytes, got %d", len(b))
	}
	p := &Packet{Type: b[0] >> 4, Flags: b[0] & 0x0F}
	rem, n, err := DecodeVBI(b[1:])
	if err != nil {
		m := err.(*Malformed)
		if m.Rule == "vbi" {
			return p, mal("remaining-length", "remaining length longer than 4 bytes")
		}
		return p, mal("length", "remaining length: %s", m.Detail)
	}
	hdr := 1 + n
	avail := len(b) - hdr
	if avail < int(rem) {
		return p, mal("length", "remaining length %d but only %d byte(s) follow the fixed header", rem, avail)
	}
	if avail > int(rem) && d.strict {
		return p, mal("length", "%d byte(s) after the end of the packet (remaining length %d)", avail-int(rem), rem)
	}
	total := hdr + int(rem)
	p.Raw = make([]byte, total)
	copy(p.Raw, b[:total])
	body := p.Raw[hdr:total]

	if p.Type == Reserved {
		return p, mal("packet-type", "packet type 0 is reserved")
	}
	if p.Type != Connect {
		switch d.version {
		case 3, 4, 5:
		default:
			if d.strict {
				return p, mal("version", "protocol version %d is not 3, 4 or 5", d.version)
			}
			d.version = 4
		}
		p.Version = d.version
	}
	if d.strict {
		if err := d.checkHeader(p); err != nil {
			return p, err
		}
		// [MQTT-1.5.5-1] applies to the v5 remaining length as well. For a CONNECT
		// the version is not known yet; decodeConnect repeats the check.
		if p.Type != Connect && d.version == 5 && n != vbiLen(rem) {
			return p, mal("vbi-nonminimal", "remaining length %d encoded in %d bytes", rem, n)
		}
	}
	if p.Type == Publish {
		p.Dup = p.Flags&0x08 != 0
		p.Qos = (p.Flags >> 1) & 0x03
		p.Retain = p.Flags&0x01 != 0
	}

	r := &reader{b: body, strict: d.strict, v5: d.version == 5}
	switch p.Type {
	case Connect:
		err = d.decodeConnect(p, r, n != vbiLen(rem))
	case Connack:
		err = d.decodeConnack(p, r)
	case Publish:
		err = d.decodePublish(p, r)
	case Puback, Pubrec, Pubrel, Pubcomp:
		err = d.decodeAck(p, r)
	case Subscribe:
		err = d.decodeSubscribe(p, r)
	case Unsubscribe:
		err = d.decodeUnsubscribe(p, r)
	case Suback:
		err = d.decodeSuback(p, r)
	case Unsuback:
		err = d.decodeUnsuback(p, r)
	case Pingreq, Pingresp:
		// no variable header, no payload
	case Disconnect, Auth:
		err = d.decodeDisconnectAuth(p, r)
	}
	if err != nil {
		return p, err
	}
	if d.strict && r.left() != 0 {
		return p, mal("length", "%s: %d byte(s) left over after the last field", TypeName(p.Type), r.left())
	}
	return p, nil
}

// checkHeader enforces packet type availability, direction and the fixed-header
// flag bits (MQTT 5 table 2-2, MQTT 3.1.1 table 2.2).
func (d *decoder) checkHeader(p *Packet) error {
	if p.Type == Auth && d.version != 5 {
		return mal("v3-auth", "packet type 15 is reserved before MQTT 5")
	}
	switch d.dir {
	case FromServer:
		switch p.Type {
		case Connect, Subscribe, Unsubscribe, Pingreq:
			return mal("direction", "a server never sends %s", TypeName(p.Type))
		case Disconnect:
			if d.version != 5 {
				return mal("v3-server-disconnect", "before MQTT 5 only the client sends DISCONNECT")
			}
		}
	case FromClient:
		switch p.Type {
		case Connack, Suback, Unsuback, Pingresp:
			return mal("direction", "a client never sends %s", TypeName(p.Type))
		}
	}
	if p.Type == Publish {
		qos := (p.Flags >> 1) & 0x03
		if qos == 3 {
			return mal("qos3", "PUBLISH with both QoS bits set")
		}
		if qos == 0 && p.Flags&0x08 != 0 {
			return mal("dup-qos0", "PUBLISH with DUP=1 and QoS 0")
		}
		return nil
	}
	if want := DefaultFlags(p.Type); p.Flags != want {
		return mal("reserved-flags", "%s fixed-header flags are %04b, must be %04b", TypeName(p.Type), p.Flags, want)
	}
	return nil
}

// decodeProps reads one property block in context ctx.
func (d *decoder) decodeProps(r *reader, ctx uint32, what string) ([]Prop, error) {
	n, err := r.vbi(what + " length")
	if err != nil {
		return nil, err
	}
	blk, err := r.take(int(n), what)
	if err != nil {
		return nil, err
	}
	sub := &reader{b: blk, strict: r.strict, v5: r.v5}
	var props []Prop
	seen := map[byte]bool{}
	for sub.left() > 0 {
		id, _ := sub.u8("property identifier")
		spec, ok := propTable[id]
		if !ok {
			return props, mal("property-unknown", "%s: identifier 0x%02X is not defined", what, id)
		}
		pr := Prop{ID: id}
		switch spec.kind {
		case kByte:
			var v byte
			v, err = sub.u8(spec.name)
			pr.Int = uint32(v)
		case kU16:
			var v uint16
			v, err = sub.u16(spec.name)
			pr.Int = uint32(v)
		case kU32:
			pr.Int, err = sub.u32(spec.name)
		case kVBI:
			pr.Int, err = sub.vbi(spec.name)
		case kStr:
			pr.Str, err = sub.str(spec.name)
		case kBin:
			pr.Bin, err = sub.bin(spec.name)
		case kPair:
			pr.Str, err = sub.str(spec.name + " name")
			if err == nil {
				pr.Val, err = sub.str(spec.name + " value")
			}
		}
		if err != nil {
			return props, err
		}
		if d.strict {
			if err := d.checkProp(pr, spec, ctx, seen[id], what); err != nil {
				return props, err
			}
		}
		seen[id] = true
		props = append(props, pr)
	}
	if d.strict {
		if seen[PropAuthData] && !seen[PropAuthMethod] {
			return props, mal("auth-data-without-method", "%s: Authentication Data without Authentication Method", what)
		}
		if ctx == inAuth && !seen[PropAuthMethod] {
			return props, mal("auth-method-missing", "AUTH properties without Authentication Method")
		}
	}
	return props, nil
}

func (d *decoder) checkProp(pr Prop, spec propSpec, ctx uint32, repeated bool, what string) error {
	if spec.where&ctx == 0 {
		return mal("property-not-allowed", "%s: %s (0x%02X) is not permitted here", what, spec.name, pr.ID)
	}
	if ctx == inDisconnect && pr.ID == PropSessionExpiry && d.dir == FromServer {
		// [MQTT-3.14.2-2]
		return mal("property-not-allowed", "Session Expiry Interval in a DISCONNECT sent by the server")
	}
	if ctx == inPublish && pr.ID == PropSubscriptionID && d.dir == FromClient {
		// [MQTT-3.3.4-6]
		return mal("subid-from-client", "Subscription Identifier in a PUBLISH sent by a client")
	}
	if repeated && pr.ID != PropUser && !(pr.ID == PropSubscriptionID && ctx == inPublish) {
		return mal("dup-property", "%s: %s (0x%02X) appears more than once", what, spec.name, pr.ID)
	}
	switch pr.ID {
	case PropPayloadFormat, PropRequestProblemInfo, PropRequestResponseInfo, PropMaximumQos,
		PropRetainAvailable, PropWildcardSubAvailable, PropSubIDAvailable, PropSharedSubAvailable:
		if pr.Int > 1 {
			return mal("property-value", "%s: %s is %d, only 0 and 1 are defined", what, spec.name, pr.Int)
		}
	case PropSubscriptionID:
		if pr.Int == 0 {
			return mal("subscription-id-zero", "%s: Subscription Identifier 0", what)
		}
	case PropTopicAlias:
		if pr.Int == 0 {
			return mal("topic-alias-zero", "%s: Topic Alias 0", what)
		}
	case PropReceiveMaximum:
		if pr.Int == 0 {
			return mal("receive-maximum-zero", "%s: Receive Maximum 0", what)
		}
	case PropMaximumPacketSize:
		if pr.Int == 0 {
			return mal("maximum-packet-size-zero", "%s: Maximum Packet Size 0", what)
		}
	case PropResponseTopic:
		if strings.ContainsAny(pr.Str, "#+") {
			return mal("response-topic-wildcard", "%s: Response Topic %q contains a wildcard", what, pr.Str)
		}
	}
	return nil
}

func (d *decoder) decodeConnect(p *Packet, r *reader, nonMinimalRemLen bool) error {
	var err error
	if p.ProtoName, err = r.str("protocol name"); err != nil {
		return err
	}
	if p.ProtoVersion, err = r.u8("protocol version"); err != nil {
		return err
	}
	if d.strict {
		switch p.ProtoVersion {
		case 3:
			if p.ProtoName != "MQIsdp" {
				return mal("protocol-name", "protocol name %q with protocol version 3 (want \"MQIsdp\")", p.ProtoName)
			}
		case 4, 5:
			if p.ProtoName != "MQTT" {
				return mal("protocol-name", "protocol name %q with protocol version %d (want \"MQTT\")", p.ProtoName, p.ProtoVersion)
			}
		default:
			return mal("protocol-version", "protocol version %d is not 3, 4 or 5", p.ProtoVersion)
		}
		d.version = p.ProtoVersion
	} else {
		switch p.ProtoVersion & 0x7F { // bit 7 is used by some bridges; not standard
		case 5:
			d.version = 5
		case 3:
			d.version = 3
		default:
			d.version = 4
		}
	}
	p.Version = d.version
	r.v5 = d.version == 5
	if d.strict && d.version == 5 && nonMinimalRemLen {
		return mal("vbi-nonminimal", "remaining length not in minimal form")
	}
	if p.ConnectFlags, err = r.u8("connect flags"); err != nil {
		return err
	}
	if d.strict {
		if p.ConnectFlags&0x01 != 0 {
			return mal("connect-reserved-flag", "connect flags bit 0 is set")
		}
		if p.WillQos() == 3 {
			return mal("will-qos3", "Will QoS 3")
		}
		if !p.WillFlag() && (p.WillQos() != 0 || p.WillRetain()) {
			return mal("will-flags", "Will QoS/Will Retain set without Will Flag (flags 0x%02X)", p.ConnectFlags)
		}
		if d.version != 5 && p.PasswordFlag() && !p.UsernameFlag() {
			return mal("password-without-username", "Password Flag without User Name Flag before MQTT 5")
		}
	}
	if p.KeepAlive, err = r.u16("keep alive"); err != nil {
		return err
	}
	if d.version == 5 {
		p.HasProps = true
		if p.Props, err = d.decodeProps(r, inConnect, "CONNECT properties"); err != nil {
			return err
		}
	}
	if p.ClientID, err = r.str("client identifier"); err != nil {
		return err
	}
	if p.WillFlag() {
		if d.version == 5 {
			p.HasWillProps = true
			if p.WillProps, err = d.decodeProps(r, inWill, "will properties"); err != nil {
				return err
			}
		}
		if p.WillTopic, err = r.str("will topic"); err != nil {
			return err
		}
		if d.strict {
			if err := checkTopicName(p.WillTopic, "will topic"); err != nil {
				return err
			}
		}
		if p.WillPayload, err = r.bin("will payload"); err != nil {
			return err
		}
	}
	if p.UsernameFlag() {
		if p.Username, err = r.bin("user name"); err != nil {
			return err
		}
		if d.strict {
			if err := checkUTF8(p.Username, "user name"); err != nil {
				return err
			}
		}
	}
	if p.PasswordFlag() {
		if p.Password, err = r.bin("password"); err != nil {
			return err
		}
	}
	return nil
}

// checkTopicName enforces [MQTT-4.7.3-1] (at least one character) and
// [MQTT-4.7.1-1] / [MQTT-3.3.2-2] (no wildcard characters) for a topic name.
func checkTopicName(t string, what string) error {
	if t == "" {
		return mal("empty-topic", "%s is empty", what)
	}
	if strings.ContainsAny(t, "#+") {
		return mal("topic-wildcard", "%s %q contains a wildcard character", what, t)
	}
	return nil
}

func (d *decoder) decodeConnack(p *Packet, r *reader) error {
	flags, err := r.u8("connect acknowledge flags")
	if err != nil {
		return err
	}
	p.SessionPresent = flags&0x01 != 0
	if p.ReasonCode, err = r.u8("connect reason code"); err != nil {
		return err
	}
	p.HasReason = true
	if d.strict {
		if flags&0xFE != 0 {
			return mal("connack-flags", "connect acknowledge flags 0x%02X: bits 7-1 are reserved", flags)
		}
		if d.version == 3 && flags != 0 {
			return mal("v3-session-present", "MQTT 3.1 CONNACK first byte is reserved, got 0x%02X", flags)
		}
		if d.version == 5 {
			if !connackCodes5[p.ReasonCode] {
				return mal("reason-code", "CONNACK reason code 0x%02X is not defined", p.ReasonCode)
			}
		} else if p.ReasonCode > 5 {
			return mal("reason-code", "CONNACK return code %d is not defined before MQTT 5", p.ReasonCode)
		}
		if p.SessionPresent && p.ReasonCode != 0 {
			return mal("session-present-with-error", "Session Present with reason code 0x%02X", p.ReasonCode)
		}
	}
	if d.version == 5 {
		if r.left() == 0 && !d.strict {
			return nil
		}
		p.HasProps = true
		if p.Props, err = d.decodeProps(r, inConnack, "CONNACK properties"); err != nil {
			return err
		}
	} else if d.strict && r.left() > 0 {
		return mal("v3-has-properties", "CONNACK before MQTT 5 has remaining length 2, %d extra byte(s)", r.left())
	}
	return nil
}

func (d *decoder) decodePublish(p *Packet, r *reader) error {
	var err error
	if p.Topic, err = r.str("topic name"); err != nil {
		return err
	}
	if d.strict && strings.ContainsAny(p.Topic, "#+") {
		return mal("topic-wildcard", "topic name %q contains a wildcard character", p.Topic)
	}
	if p.Qos > 0 {
		if p.PacketID, err = r.u16("packet identifier"); err != nil {
			return err
		}
		if d.strict && p.PacketID == 0 {
			return mal("zero-packet-id", "PUBLISH QoS %d with packet identifier 0", p.Qos)
		}
	}
	if d.version == 5 {
		p.HasProps = true
		if p.Props, err = d.decodeProps(r, inPublish, "PUBLISH properties"); err != nil {
			return err
		}
	}
	if d.strict && p.Topic == "" {
		if d.version != 5 {
			return mal("empty-topic", "PUBLISH with a zero-length topic name")
		}
		if _, ok := p.Prop(PropTopicAlias); !ok {
			return mal("empty-topic", "PUBLISH with a zero-length topic name and no Topic Alias")
		}
	}
	rest, _ := r.take(r.left(), "payload")
	p.Payload = make([]byte, len(rest))
	copy(p.Payload, rest)
	return nil
}

func (d *decoder) decodeAck(p *Packet, r *reader) error {
	var err error
	if p.PacketID, err = r.u16("packet identifier"); err != nil {
		return err
	}
	if d.strict && p.PacketID == 0 {
		return mal("zero-packet-id", "%s with packet identifier 0", TypeName(p.Type))
	}
	if d.version != 5 {
		if d.strict && r.left() > 0 {
			return mal("v3-has-properties", "%s before MQTT 5 has remaining length 2, %d extra byte(s)", TypeName(p.Type), r.left())
		}
		return nil
	}
	if r.left() == 0 {
		return nil // short form: Success, no properties
	}
	if p.ReasonCode, err = r.u8("reason code"); err != nil {
		return err
	}
	p.HasReason = true
	if d.strict && !ReasonCodeDefined(p.Type, p.ReasonCode) {
		return mal("reason-code", "%s reason code 0x%02X is not defined", TypeName(p.Type), p.ReasonCode)
	}
	if r.left() == 0 {
		return nil // remaining length 3: no property length
	}
	p.HasProps = true
	p.Props, err = d.decodeProps(r, ctxOfType[p.Type], TypeName(p.Type)+" properties")
	return err
}

// checkFilter enforces section 4.7.1 (wildcard placement), [MQTT-4.7.3-1] and, for
// v5, section 4.8.2 (shared subscription filter syntax).
func checkFilter(f string, v5 bool) error {
	if f == "" {
		return mal("empty-filter", "zero-length topic filter")
	}
	levels := strings.Split(f, "/")
	for i, l := range levels {
		switch {
		case l == "#":
			if i != len(levels)-1 {
				return mal("topic-filter", "filter %q: '#' is not the last level", f)
			}
		case l == "+":
		case strings.ContainsAny(l, "#+"):
			return mal("topic-filter", "filter %q: wildcard does not occupy a whole level", f)
		}
	}
	if v5 && strings.HasPrefix(f, "$share/") {
		if len(levels) < 3 || levels[1] == "" || strings.ContainsAny(levels[1], "#+") || f[len("$share/")+len(levels[1])+1:] == "" {
			return mal("shared-filter", "filter %q is not $share/{ShareName}/{filter}", f)
		}
	}
	return nil
}

func (d *decoder) decodeSubscribe(p *Packet, r *reader) error {
	var err error
	if p.PacketID, err = r.u16("packet identifier"); err != nil {
		return err
	}
	if d.strict && p.PacketID == 0 {
		return mal("zero-packet-id", "SUBSCRIBE with packet identifier 0")
	}
	if d.version == 5 {
		p.HasProps = true
		if p.Props, err = d.decodeProps(r, inSubscribe, "SUBSCRIBE properties"); err != nil {
			return err
		}
	}
	for r.left() > 0 {
		var f Filter
		if f.Filter, err = r.str("topic filter"); err != nil {
			return err
		}
		if f.Options, err = r.u8("subscription options"); err != nil {
			return err
		}
		if d.strict {
			if err := checkFilter(f.Filter, d.version == 5); err != nil {
				return err
			}
			if d.version == 5 {
				if f.Options&0xC0 != 0 {
					return mal("subscribe-options", "filter %q: reserved option bits set (0x%02X)", f.Filter, f.Options)
				}
				if f.RetainHandling() == 3 {
					return mal("subscribe-options", "filter %q: Retain Handling 3", f.Filter)
				}
				if f.NoLocal() && strings.HasPrefix(f.Filter, "$share/") {
					return mal("nolocal-shared", "filter %q: No Local on a shared subscription", f.Filter)
				}
			} else if f.Options&0xFC != 0 {
				return mal("subscribe-options", "filter %q: reserved bits of the requested QoS byte set (0x%02X)", f.Filter, f.Options)
			}
			if f.Qos() == 3 {
				return mal("subscribe-options", "filter %q: QoS 3", f.Filter)
			}
		}
		p.Filters = append(p.Filters, f)
	}
	if d.strict && len(p.Filters) == 0 {
		return mal("empty-list", "SUBSCRIBE without a topic filter")
	}
	return nil
}

func (d *decoder) decodeUnsubscribe(p *Packet, r *reader) error {
	var err error
	if p.PacketID, err = r.u16("packet identifier"); err != nil {
		return err
	}
	if d.strict && p.PacketID == 0 {
		return mal("zero-packet-id", "UNSUBSCRIBE with packet identifier 0")
	}
	if d.version == 5 {
		p.HasProps = true
		if p.Props, err = d.decodeProps(r, inUnsubscribe, "UNSUBSCRIBE properties"); err != nil {
			return err
		}
	}
	for r.left() > 0 {
		var f Filter
		if f.Filter, err = r.str("topic filter"); err != nil {
			return err
		}
		if d.strict {
			if err := checkFilter(f.Filter, d.version == 5); err != nil {
				return err
			}
		}
		p.Filters = append(p.Filters, f)
	}
	if d.strict && len(p.Filters) == 0 {
		return mal("empty-list", "UNSUBSCRIBE without a topic filter")
	}
	return nil
}

func (d *decoder) decodeSuback(p *Packet, r *reader) error {
	var err error
	if p.PacketID, err = r.u16("packet identifier"); err != nil {
		return err
	}
	if d.strict && p.PacketID == 0 {
		return mal("zero-packet-id", "SUBACK with packet identifier 0")
	}
	if d.version == 5 {
		p.HasProps = true
		if p.Props, err = d.decodeProps(r, inSuback, "SUBACK properties"); err != nil {
			return err
		}
	}
	rest, _ := r.take(r.left(), "reason codes")
	p.ReasonCodes = make([]byte, len(rest))
	copy(p.ReasonCodes, rest)
	if d.strict {
		if len(p.ReasonCodes) == 0 {
			return mal("empty-list", "SUBACK without a reason code")
		}
		for i, c := range p.ReasonCodes {
			if d.version == 5 {
				if !subackCodes5[c] {
					return mal("reason-code", "SUBACK reason code #%d 0x%02X is not defined", i, c)
				}
			} else if c > 2 && c != 0x80 {
				// 0x80 is defined by MQTT 3.1.1 only; it is tolerated for 3.1 as well.
				return mal("reason-code", "SUBACK return code #%d 0x%02X is not defined before MQTT 5", i, c)
			}
		}
	}
	return nil
}

func (d *decoder) decodeUnsuback(p *Packet, r *reader) error {
	var err error
	if p.PacketID, err = r.u16("packet identifier"); err != nil {
		return err
	}
	if d.strict && p.PacketID == 0 {
		return mal("zero-packet-id", "UNSUBACK with packet identifier 0")
	}
	if d.version != 5 {
		if d.strict && r.left() > 0 {
			return mal("v3-has-properties", "UNSUBACK before MQTT 5 has remaining length 2, %d extra byte(s)", r.left())
		}
		return nil
	}
	p.HasProps = true
	if p.Props, err = d.decodeProps(r, inUnsuback, "UNSUBACK properties"); err != nil {
		return err
	}
	rest, _ := r.take(r.left(), "reason codes")
	p.ReasonCodes = make([]byte, len(rest))
	copy(p.ReasonCodes, rest)
	if d.strict {
		if len(p.ReasonCodes) == 0 {
			return mal("empty-list", "UNSUBACK without a reason code")
		}
		for i, c := range p.ReasonCodes {
			if !unsubackCodes5[c] {
				return mal("reason-code", "UNSUBACK reason code #%d 0x%02X is not defined", i, c)
			}
		}
	}
	return nil
}

func (d *decoder) decodeDisconnectAuth(p *Packet, r *reader) error {
	if d.version != 5 && p.Type == Disconnect {
		if d.strict && r.left() > 0 {
			return mal("v3-has-properties", "DISCONNECT before MQTT 5 has remaining length 0, got %d", r.left())
		}
		return nil
	}
	if r.left() == 0 {
		// Reason code 0x00 and no properties (sections 3.14.2.1, 3.15.2.1).
		if d.strict {
			if err := d.checkDisconnectAuthCode(p); err != nil {
				return err
			}
		}
		return nil
	}
	var err error
	if p.ReasonCode, err = r.u8("reason code"); err != nil {
		return err
	}
	p.HasReason = true
	if d.strict {
		if err := d.checkDisconnectAuthCode(p); err != nil {
			return err
		}
	}
	if r.left() == 0 {
		return nil // remaining length 1: no property length, value 0 is used
	}
	p.HasProps = true
	p.Props, err = d.decodeProps(r, ctxOfType[p.Type], TypeName(p.Type)+" properties")
	return err
}

func (d *decoder) checkDisconnectAuthCode(p *Packet) error {
	c := p.ReasonCode
	if !ReasonCodeDefined(p.Type, c) {
		return mal("reason-code", "%s reason code 0x%02X is not defined", TypeName(p.Type), c)
	}
	clientOnly, serverOnly := disconnectClientOnly, disconnectServerOnly
	if p.Type == Auth {
		clientOnly, serverOnly = authClientOnly, authServerOnly
	}
	if d.dir == FromServer && clientOnly[c] {
		return mal("reason-code-direction", "%s reason code 0x%02X is sent by clients only", TypeName(p.Type), c)
	}
	if d.dir == FromClient && serverOnly[c] {
		return mal("reason-code-direction", "%s reason code 0x%02X is sent by servers only", TypeName(p.Type), c)
	}
	return nil
}
